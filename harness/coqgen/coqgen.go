// Package coqgen writes Gallina terms for the correspondence checks: the
// harness emits the inputs it ran and what the implementation did, as a
// cases.v file that coqc evaluates against the model with vm_compute.
package coqgen

import (
	"bufio"
	"encoding/hex"
	"fmt"
	"hash/adler32"
	"math/rand"
	"os"
	"runtime"
	"strconv"
	"strings"
	"time"
)

// Seed returns the PRNG seed from VERIF_SEED (default 1).
func Seed() int64 {
	if s := os.Getenv("VERIF_SEED"); s != "" {
		if v, err := strconv.ParseInt(s, 10, 64); err == nil {
			return v
		}
	}
	return 1
}

// Rand returns the single PRNG every random choice derives from.
func Rand() *rand.Rand { return rand.New(rand.NewSource(Seed())) }

// Thorough reports whether VERIF_TIER=thorough.
func Thorough() bool { return os.Getenv("VERIF_TIER") == "thorough" }

// Hex renders bytes as a Coq string literal of lower-case hex digits.
func Hex(b []byte) string { return `"` + hex.EncodeToString(b) + `"` }

// Bool renders a Coq bool.
func Bool(b bool) string {
	if b {
		return "true"
	}
	return "false"
}

// Z renders a Coq Z literal.
func Z(v int64) string {
	if v < 0 {
		return fmt.Sprintf("(%d)%%Z", v)
	}
	return fmt.Sprintf("%d%%Z", v)
}

// N renders a Coq N literal.
func N(v uint64) string { return fmt.Sprintf("%d%%N", v) }

// List renders a Coq list.
func List(items []string) string { return "[" + strings.Join(items, "; ") + "]" }

// W is a buffered writer for a .v file.
type W struct {
	f *os.File
	*bufio.Writer
}

// Create opens path for writing.
func Create(path string) *W {
	f, err := os.Create(path)
	if err != nil {
		panic(err)
	}
	return &W{f: f, Writer: bufio.NewWriterSize(f, 1<<20)}
}

// P writes a formatted line.
func (w *W) P(format string, a ...interface{}) {
	fmt.Fprintf(w.Writer, format, a...)
	w.WriteByte('\n')
}

// Def writes `Definition name : ty := [ items ].` with one item per line.
func (w *W) Def(name, ty string, items []string) {
	w.P("Definition %s : %s := [", name, ty)
	for i, it := range items {
		if i+1 < len(items) {
			w.P("  %s;", it)
		} else {
			w.P("  %s", it)
		}
	}
	w.P("].")
}

// Close flushes and closes.
func (w *W) Close() {
	w.Flush()
	w.f.Close()
}

// GenBody is the position-dependent payload generator shared with Lib/Bytes.v (gen_body).
func GenBody(seed uint64, n int) []byte {
	b := make([]byte, n)
	v, c := seed%256, 0
	for j := range b {
		b[j] = byte(v)
		if c == 255 {
			v, c = (v+180)%256, 0
		} else {
			v, c = (v+167)%256, c+1
		}
	}
	return b
}

// Digest renders (length, adler32, first 16, last 16) as the tuple digest_eqb expects.
func Digest(b []byte) string {
	h := b
	if len(h) > 16 {
		h = h[:16]
	}
	t := b
	if len(t) > 16 {
		t = t[len(t)-16:]
	}
	return fmt.Sprintf("(%d, %d, %s, %s)", len(b), adler32.Checksum(b), Hex(h), Hex(t))
}

// Watchdog ends the process with exit status 3 and a dump of all goroutine stacks when the harness has not
// finished after d: a call into the library that never returns must end as a report, not as a hung check.
func Watchdog(d time.Duration) {
	go func() {
		time.Sleep(d)
		buf := make([]byte, 1<<20)
		n := runtime.Stack(buf, true)
		fmt.Fprintf(os.Stderr, "WATCHDOG: harness still running after %v; a library call did not return. goroutines:\n%s\n", d, buf[:n])
		os.Exit(3)
	}()
}
