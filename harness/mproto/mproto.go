// Package mproto is a recording mock ProtocolBase: it lets the harness observe exactly how the core
// tells a protocol about pipes, and decide whether the protocol accepts them.
package mproto

import (
	"runtime"
	"sync"
	"time"

	"go.nanomsg.org/mangos/v3"
)

// Event is one AddPipe / RemovePipe call.
type Event struct {
	Kind     string // "add", "refuse", "remove"
	ID       uint32
	Pipe     mangos.ProtocolPipe
	Listener bool
}

// Proto is the mock protocol.
type Proto struct {
	mu     sync.Mutex
	Refuse bool
	closed bool
	// CloseInAdd: while AddPipe is running, another goroutine closes the pipe (a peer that has already hung up is noticed by the
	// protocol's own receiver at exactly this moment; a hook may have handed the pipe to a goroutine that closes it)
	CloseInAdd bool
	// CloseEntered / CloseGate: see Close
	CloseEntered chan struct{}
	CloseGate    chan struct{}
	Events       []Event
	SelfNum      uint16
	PeerNum      uint16
}

// New returns a mock protocol with pair-like numbers.
func New() *Proto { return &Proto{SelfNum: 16, PeerNum: 16} }

// SetCloseInAdd switches the close-during-AddPipe behaviour.
func (p *Proto) SetCloseInAdd(b bool) {
	p.mu.Lock()
	p.CloseInAdd = b
	p.mu.Unlock()
}

// SetRefuse makes subsequent AddPipe calls fail.
func (p *Proto) SetRefuse(b bool) { p.mu.Lock(); p.Refuse = b; p.mu.Unlock() }

// Take returns and clears the recorded events.
func (p *Proto) Take() []Event {
	p.mu.Lock()
	defer p.mu.Unlock()
	e := p.Events
	p.Events = nil
	return e
}

// Info implements ProtocolBase.
func (p *Proto) Info() mangos.ProtocolInfo {
	return mangos.ProtocolInfo{Self: p.SelfNum, Peer: p.PeerNum, SelfName: "mock", PeerName: "mock"}
}

// AddPipe implements ProtocolBase.
func (p *Proto) AddPipe(pp mangos.ProtocolPipe) error {
	p.mu.Lock()
	if p.Refuse || p.closed {
		p.Events = append(p.Events, Event{Kind: "refuse", ID: pp.ID(), Pipe: pp})
		p.mu.Unlock()
		return mangos.ErrProtoState
	}
	p.Events = append(p.Events, Event{Kind: "add", ID: pp.ID(), Pipe: pp})
	cia := p.CloseInAdd
	p.mu.Unlock()
	if cia {
		done := make(chan struct{})
		go func() { _ = pp.Close(); close(done) }()
		// give the Close 2 ms to run (spinning: the quiescence detector must see this goroutine as running; the core
		// makes that Close wait on the pipe's mutex until the pipe is attached, which is fine)
	spin:
		for t0 := time.Now(); time.Since(t0) < 2*time.Millisecond; {
			select {
			case <-done:
				break spin
			default:
				runtime.Gosched()
			}
		}
	}
	// like every real protocol: a receiver goroutine, which is how a transport failure is noticed
	go func() {
		for {
			m := pp.RecvMsg()
			if m == nil {
				return
			}
			m.Free()
		}
	}()
	return nil
}

// RemovePipe implements ProtocolBase.
func (p *Proto) RemovePipe(pp mangos.ProtocolPipe) {
	p.mu.Lock()
	p.Events = append(p.Events, Event{Kind: "remove", ID: pp.ID(), Pipe: pp})
	p.mu.Unlock()
}

// Close implements ProtocolBase.
func (p *Proto) Close() error {
	// a protocol whose Close takes its time (CloseEntered is signalled, then CloseGate is awaited): whatever arrives meanwhile
	if p.CloseEntered != nil {
		close(p.CloseEntered)
	}
	if p.CloseGate != nil {
		<-p.CloseGate
	}
	p.mu.Lock()
	defer p.mu.Unlock()
	if p.closed {
		return mangos.ErrClosed
	}
	p.closed = true
	return nil
}

// SendMsg implements ProtocolBase.
func (p *Proto) SendMsg(*mangos.Message) error { return mangos.ErrProtoOp }

// RecvMsg implements ProtocolBase.
func (p *Proto) RecvMsg() (*mangos.Message, error) { return nil, mangos.ErrProtoOp }

// GetOption implements ProtocolBase.
func (p *Proto) GetOption(string) (interface{}, error) { return nil, mangos.ErrBadOption }

// SetOption implements ProtocolBase.
func (p *Proto) SetOption(string, interface{}) error { return mangos.ErrBadOption }

// OpenContext implements ProtocolBase.
func (p *Proto) OpenContext() (mangos.ProtocolContext, error) { return nil, mangos.ErrProtoOp }
