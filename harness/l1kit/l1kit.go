// Package l1kit is the common generator machinery of the PAIR/PUSH/PULL (l1pairpush) and BUS/STAR (l1busstar)
// history harnesses: operations on one protocol instance with mock pipes, payload tagging, the selector step.
//
// Conventions shared with coq/theories/Model/Chan.v:
//   - the first step of every history is `SCall 0 (COpenCtx kind)`: which protocol the history ran against;
//   - mock pipe n has pipe id 1000+n;
//   - an attach the protocol refuses is observed as `ORet (1000000+n) (RErr code)` in the SAddPipe step; the harness
//     then closes the pipe (as core does);
//   - Send bodies are be16(call) be16(send seq) junk; delivered payloads are be16(0x8000+delivery seq) be16(pipe) junk.
package l1kit

import (
	"encoding/binary"
	"fmt"
	"math/rand"
	"sync"
	"time"

	"mangosverif/l1run"
	"mangosverif/mp"
	"mangosverif/seq"

	"go.nanomsg.org/mangos/v3"
)

// Durations (ms) of timed histories.
const (
	ShortSend = 60
	ShortRecv = 80
	PassMs    = 140
	Long      = 3600000
)

// Op is one generator operation.
type Op struct {
	K       string
	A, B, C int
	H, Body []byte // explicit header / body (nil: built by the kind)
	S       int    // send: 1 = the application keeps a second reference (Clone) of the message; 2 = send that very message again
}

// OptDef describes a socket option.
type OptDef struct {
	Name, Coq string
	Typ       int // 0 duration in ms, 1 bool, 2 int
}

// Opts is the option table (Op.A of an "opt" operation indexes it).
var Opts = []OptDef{
	{mangos.OptionSendDeadline, "OSendDeadline", 0},
	{mangos.OptionRecvDeadline, "ORecvDeadline", 0},
	{mangos.OptionBestEffort, "OBestEffort", 1},
	{mangos.OptionFailNoPeers, "OFailNoPeers", 1},
	{mangos.OptionReadQLen, "OReadQLen", 2},
	{mangos.OptionWriteQLen, "OWriteQLen", 2},
	{mangos.OptionTTL, "OTtl", 2},
	{mangos.OptionRetryTime, "ORetryTime", 0},
}

// Option indices.
const (
	OSendDeadline = iota
	ORecvDeadline
	OBestEffort
	OFailNoPeers
	OReadQLen
	OWriteQLen
	OTtl
	ORetryTime
)

// Kind is one protocol variant.
type Kind struct {
	KeepRecv bool // Recv keeps the latest message object for re-use (Op.S == 3)
	ID       int
	Name     string
	New      func() mangos.ProtocolBase
	Choose   func(g *G) (Op, bool)
	// MkSend builds header and body of Send call t (send number n)
	MkSend func(g *G, o Op, t, n int) (hdr, body []byte)
	// MkDeliver builds the bytes pipe `pipe` yields (delivery number k)
	MkDeliver    func(g *G, o Op, pipe, k int) []byte
	Scripts      [][]Op
	TimedScripts [][]Op
}

// G is the state of one history's generation.
type G struct {
	R         *rand.Rand
	D         *seq.Driver
	K         *Kind
	Timed     bool
	Alive     map[int]bool
	Hold      map[int]bool
	NextPipe  int
	NextCall  int
	NSend     int
	NDeliv    int
	Closed    bool
	Passes    int
	TTL       int
	LastFrom  int  // pipe of the latest delivery
	KeepRecv  bool // Recv keeps the latest message object instead of freeing it (for Op.S == 3)
	lastMu    sync.Mutex
	lastMsg   *mangos.Message
	lastTaken *mangos.Message
	Held      *mangos.Message // a sent message the application kept a reference of (Op.S)
	HeldH     []byte
	HeldB     []byte
	NStep     int // operations applied so far
	IsRecv    map[int]bool
}

// Tag builds be16(a) be16(b) followed by 0..2 random bytes (the trace oracles identify messages by this tag, so it is
// never empty: the empty-payload boundary is exercised for every pattern by the C01 flows).
func (g *G) Tag(a, b int) []byte {
	body := make([]byte, 4+g.R.Intn(3))
	g.R.Read(body)
	binary.BigEndian.PutUint16(body, uint16(a))
	binary.BigEndian.PutUint16(body[2:], uint16(b))
	return body
}

// AlivePipes lists the attached pipes.
func (g *G) AlivePipes() []int {
	var ps []int
	for p := 1; p <= g.NextPipe; p++ {
		if g.Alive[p] {
			ps = append(ps, p)
		}
	}
	return ps
}

// PendingPipes lists attached pipes with a held send.
func (g *G) PendingPipes() []int {
	var ps []int
	for _, n := range g.AlivePipes() {
		if g.D.Pipes[n].Pending() > 0 {
			ps = append(ps, n)
		}
	}
	return ps
}

// BlockedRecvs is the number of RecvMsg calls blocked after the latest step.
func (g *G) BlockedRecvs() int {
	n := 0
	if k := len(g.D.Steps); k > 0 {
		for _, t := range g.D.Steps[k-1].Blocked {
			if g.IsRecv[t] {
				n++
			}
		}
	}
	return n
}

// ResizeOK: resizing a queue wakes every blocked RecvMsg; with several of them the order in which they block
// again is open, so the generator mostly avoids it.
func (g *G) ResizeOK() bool { return g.BlockedRecvs() < 2 || g.R.Intn(10) == 0 }

// Pick returns a random element.
func (g *G) Pick(l []int) int { return l[g.R.Intn(len(l))] }

type scriptRef struct {
	k *Kind
	s []Op
}

// Gen returns the history generator over the given kinds: directed scripts first, then random histories.
func Gen(kinds []*Kind) l1run.GenFunc {
	idx := map[bool]int{}
	return func(r *rand.Rand, timed bool) (string, string, string) {
		var all []scriptRef
		for _, k := range kinds {
			ss := k.Scripts
			if timed {
				ss = k.TimedScripts
			}
			for _, s := range ss {
				all = append(all, scriptRef{k, s})
			}
		}
		var k *Kind
		var script []Op
		if i := idx[timed]; i < len(all) && l1run.ScriptsEnabled {
			k, script = all[i].k, all[i].s
			idx[timed] = i + 1
		} else {
			k = kinds[r.Intn(len(kinds))]
		}
		p := k.New()
		d := seq.NewDriver(p)
		g := &G{R: r, D: d, K: k, Timed: timed, Alive: map[int]bool{}, Hold: map[int]bool{}, TTL: 8, IsRecv: map[int]bool{}, KeepRecv: k.KeepRecv}
		d.Steps = append(d.Steps, seq.Step{Stim: fmt.Sprintf("SCall 0 (COpenCtx %d)", k.ID)})
		if script != nil {
			for _, o := range script {
				if d.Bad == "" {
					g.Apply(o)
				}
			}
		} else {
			nsteps := 12 + r.Intn(25)
			for i := 0; i < nsteps && d.Bad == ""; i++ {
				if timed && g.Passes < 4 && i > 2 && r.Intn(7) == 0 {
					g.Apply(Op{K: "pass"})
					continue
				}
				for {
					if o, ok := k.Choose(g); ok {
						g.Apply(o)
						break
					}
				}
			}
		}
		_ = p.Close()
		for _, pp := range d.Pipes {
			_ = pp.Close()
		}
		seq.Quiesce(500 * time.Millisecond)
		if d.Stuck {
			return d.Coq(), "", "STUCK: " + d.Bad
		}
		if d.Bad != "" {
			return "", d.Bad, ""
		}
		return d.Coq(), "", ""
	}
}

// HasLast reports whether a received message object is waiting to be re-used.
func (g *G) HasLast() bool {
	g.lastMu.Lock()
	defer g.lastMu.Unlock()
	return g.lastMsg != nil
}

func (g *G) takeLast() *mangos.Message {
	g.lastMu.Lock()
	defer g.lastMu.Unlock()
	g.lastTaken = g.lastMsg
	g.lastMsg = nil
	return g.lastTaken
}

// Apply executes one operation and records the step.
func (g *G) Apply(o Op) {
	d := g.D
	g.NStep++
	if g.Timed && o.K != "pass" {
		d.Tick()
	}
	t0 := time.Now()
	switch o.K {
	case "addpipe":
		g.NextPipe++
		n := g.NextPipe
		pp := mp.NewPipe(uint32(1000+n), n, d.Proto, d.Rec)
		d.Pipes[n] = pp
		var extra []string
		if err := pp.Attach(); err == nil {
			g.Alive[n] = true
		} else {
			extra = append(extra, fmt.Sprintf("ORet %d (RErr %d)", 1000000+n, seq.ErrCode(err)))
			d.DropPipe(pp)
		}
		d.Finish(fmt.Sprintf("SAddPipe %d", n), extra, false, t0)
	case "drop":
		n := o.A
		g.Alive[n] = false
		if o.B == 1 {
			// the peer goes away while a write to it is in flight, and that write still completes successfully (a stream
			// write racing with the close): for the protocol the pipe is gone all the same
			d.Pipes[n].SetDeferClose(true)
			d.DropPipe(d.Pipes[n])
			for d.Pipes[n].Release(true) {
			}
		} else {
			d.DropPipe(d.Pipes[n])
		}
		d.Finish(fmt.Sprintf("SDropPipe %d", n), nil, false, t0)
	case "send":
		g.NextCall++
		g.NSend++
		t, n := g.NextCall, g.NSend
		hdr, body := o.H, o.Body
		if body == nil {
			hdr, body = g.K.MkSend(g, o, t, n)
		}
		proto := d.Proto
		var m *mangos.Message
		if o.S == 3 && g.takeLast() != nil {
			// the application re-uses the message object its latest Recv returned (refilled with new content): Message.Pipe
			// still names the pipe that one arrived on -- which says nothing about where this one is going
			m = g.lastTaken
			m.Header = append(m.Header[:0], hdr...)
			m.Body = append(m.Body[:0], body...)
		} else if o.S == 2 && g.Held != nil {
			// the message sent before, of which the application kept a reference: the library took its own reference
			// then, so this one is still exactly what the application built (header included)
			m, hdr, body = g.Held, g.HeldH, g.HeldB
			g.Held = nil
		} else {
			m = mangos.NewMessage(len(body))
			m.Header = append(m.Header, hdr...)
			m.Body = append(m.Body, body...)
			if o.S == 1 {
				m.Clone()
				g.Held, g.HeldH, g.HeldB = m, hdr, body
			}
		}
		d.Call(t, func() (*seq.Msg, error) {
			err := proto.SendMsg(m)
			if err != nil {
				m.Free()
			}
			return nil, err
		})
		d.Finish(fmt.Sprintf("SCall %d (CSend 0 %s %s)", t, seq.B(hdr), seq.B(body)), nil, false, t0)
	case "recv":
		g.NextCall++
		t := g.NextCall
		g.IsRecv[t] = true
		proto := d.Proto
		d.Call(t, func() (*seq.Msg, error) {
			m, err := proto.RecvMsg()
			if err != nil {
				return nil, err
			}
			r := &seq.Msg{Header: append([]byte{}, m.Header...), Body: append([]byte{}, m.Body...)}
			if g.KeepRecv {
				g.lastMu.Lock()
				if g.lastMsg != nil {
					g.lastMsg.Free()
				}
				g.lastMsg = m
				g.lastMu.Unlock()
			} else {
				m.Free()
			}
			return r, nil
		})
		d.Finish(fmt.Sprintf("SCall %d (CRecv 0)", t), nil, false, t0)
	case "deliver":
		n := o.A
		g.NDeliv++
		wire := o.Body
		if wire == nil {
			wire = g.K.MkDeliver(g, o, n, g.NDeliv)
		}
		g.LastFrom = n
		var extra []string
		if !d.Pipes[n].Inject(wire, 25*time.Millisecond) {
			extra = append(extra, fmt.Sprintf("ONotTaken %d", n))
		}
		d.Finish(fmt.Sprintf("SDeliver %d %s", n, seq.B(wire)), extra, false, t0)
	case "hold":
		g.Hold[o.A] = o.B == 1
		d.Pipes[o.A].SetHold(o.B == 1)
		d.Finish(fmt.Sprintf("SHold %d %v", o.A, o.B == 1), nil, false, t0)
	case "release":
		n, ok := o.A, o.B == 1
		if !ok && d.Pipes[n].Pending() > 0 {
			g.Alive[n] = false
			d.MarkHarnessClose(d.Pipes[n])
		}
		d.Pipes[n].Release(ok)
		d.Finish(fmt.Sprintf("SRelease %d %v", n, ok), nil, false, t0)
	case "opt":
		g.NextCall++
		t := g.NextCall
		od := Opts[o.A]
		var val interface{}
		switch od.Typ {
		case 0:
			val = time.Duration(o.C) * time.Millisecond
		case 1:
			val = o.C == 1
		default:
			val = o.C
		}
		proto := d.Proto
		d.Call(t, func() (*seq.Msg, error) { return nil, proto.SetOption(od.Name, val) })
		v := fmt.Sprintf("%d%%Z", o.C)
		if o.C < 0 {
			v = fmt.Sprintf("(%d)%%Z", o.C)
		}
		d.Finish(fmt.Sprintf("SCall %d (CSetOpt 0 %s %s [])", t, od.Coq, v), nil, false, t0)
		if o.A == OTtl && o.C > 0 && o.C < 256 {
			g.TTL = o.C
		}
	case "closesock":
		g.NextCall++
		t := g.NextCall
		g.Closed = true
		d.Call(t, func() (*seq.Msg, error) { return nil, d.Proto.Close() })
		d.Finish(fmt.Sprintf("SCall %d CCloseSock", t), nil, false, t0)
	case "openctx":
		g.NextCall++
		t := g.NextCall
		_, err := d.Proto.OpenContext()
		d.Call(t, func() (*seq.Msg, error) { return nil, err })
		d.Finish(fmt.Sprintf("SCall %d (COpenCtx 9)", t), nil, false, t0)
	case "pass":
		g.Passes++
		d.NowMs()
		ms := PassMs
		if o.A > 0 {
			ms = o.A
		}
		time.Sleep(time.Duration(ms) * time.Millisecond)
		d.Finish("SPass", nil, true, t0)
	default:
		panic("l1kit: unknown op " + o.K)
	}
	// pipes the protocol closed itself are gone
	for n, pp := range d.Pipes {
		if g.Alive[n] && pp.Closed() {
			g.Alive[n] = false
		}
	}
}

// Be32 renders v big-endian.
func Be32(v uint32) []byte { b := make([]byte, 4); binary.BigEndian.PutUint32(b, v); return b }
