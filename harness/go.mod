module mangosverif

go 1.22.0

toolchain go1.23.5

require (
	github.com/Microsoft/go-winio v0.6.2
	github.com/gdamore/optopia v0.2.0
	github.com/gorilla/websocket v1.5.3
	go.nanomsg.org/mangos/v3 v3.0.0
	golang.org/x/sys v0.29.0
	golang.org/x/tools v0.29.0
)

require (
	golang.org/x/mod v0.22.0 // indirect
	golang.org/x/sync v0.10.0 // indirect
)

replace go.nanomsg.org/mangos/v3 => /repo
