// Package seq drives a concurrent library sequentially: after every stimulus it waits until every
// goroutine other than the driver's is blocked (quiescence), then records what happened.
package seq

import (
	"bytes"
	"errors"
	"fmt"
	"math/big"
	"regexp"
	"runtime"
	"sort"
	"strings"
	"sync"
	"time"

	"mangosverif/mp"

	"go.nanomsg.org/mangos/v3"
)

var hdrRe = regexp.MustCompile(`(?m)^goroutine (\d+) \[([^\]]+)\]`)

var waiting = []string{"chan receive", "chan send", "select", "sync.Cond.Wait", "IO wait", "sleep", "semacquire", "sync.WaitGroup.Wait"}
var stuck = []string{"sync.Mutex.Lock", "sync.RWMutex.Lock", "sync.RWMutex.RLock"}

// snapshot returns (all others waiting, some stuck on a mutex, signature)
func snapshot(buf []byte) (quiet bool, onLock bool, sig string) {
	n := runtime.Stack(buf, true)
	ms := hdrRe.FindAllSubmatch(buf[:n], -1)
	quiet = true
	var parts []string
	for i, m := range ms {
		if i == 0 {
			continue // the calling goroutine is listed first
		}
		st := string(m[2])
		if j := strings.IndexByte(st, ','); j >= 0 {
			st = st[:j]
		}
		ok := false
		for _, w := range waiting {
			if strings.HasPrefix(st, w) {
				ok = true
			}
		}
		for _, w := range stuck {
			if strings.HasPrefix(st, w) {
				ok = true
				onLock = true
			}
		}
		if !ok {
			quiet = false
		}
		parts = append(parts, string(m[1])+":"+st)
	}
	return quiet, onLock, strings.Join(parts, " ")
}

var stackBuf = make([]byte, 1<<20)

// Quiesce waits until two consecutive snapshots, 200us apart, show every other goroutine blocked in
// the same state. Returns false if that did not happen within max; stuckOnLock reports goroutines
// parked on a mutex while nothing runs (a deadlock).
func Quiesce(max time.Duration) (ok bool, stuckOnLock bool) {
	deadline := time.Now().Add(max)
	prev := ""
	streak := 0
	for {
		runtime.Gosched()
		time.Sleep(150 * time.Microsecond)
		q, l, sig := snapshot(stackBuf)
		if q && sig == prev {
			streak++
			if streak >= 2 {
				return true, l
			}
		} else {
			streak = 0
		}
		prev = sig
		if time.Now().After(deadline) {
			return false, l
		}
	}
}

// Result of an API call.
type Result struct {
	Done bool
	Err  error
	Msg  *Msg
}

// Msg is a received message snapshot.
type Msg struct{ Header, Body []byte }

// Driver runs one history against one protocol instance.
type Driver struct {
	Proto   mangos.ProtocolBase
	Rec     *mp.Recorder
	Pipes   map[int]*mp.Pipe
	Ctxs    map[int]mangos.ProtocolContext
	mu      sync.Mutex
	calls   map[int]*Result
	order   []int
	Steps   []Step
	timed   bool   // a time stamp was recorded: the history ends with one as well
	lastEnd int64  // when the latest step ended (ms since the start)
	Bad     string // set when the history must be discarded (timing) or shows a hang
	Stuck   bool
	MaxGap  time.Duration // longest non-pass stimulus
	// CanonTx rewrites a transmitted (header, body) for comparison (e.g. renames request ids)
	CanonTx func(pipe int, hdr, body []byte) ([]byte, []byte)
	// CanonRet rewrites a received message
	CanonRet  func(hdr, body []byte) ([]byte, []byte)
	start     time.Time
	reported  map[int]bool
	harnClose map[*mp.Pipe]bool
}

// Step is one stimulus and what was observed until quiescence.
type Step struct {
	Stim    string
	Obs     []string
	Blocked []int
}

// NewDriver wraps a protocol instance.
func NewDriver(p mangos.ProtocolBase) *Driver {
	d := &Driver{Proto: p, Rec: &mp.Recorder{}, Pipes: map[int]*mp.Pipe{}, Ctxs: map[int]mangos.ProtocolContext{0: p},
		calls: map[int]*Result{}, reported: map[int]bool{}, harnClose: map[*mp.Pipe]bool{}}
	return d
}

// Call starts fn as API call t in its own goroutine.
func (d *Driver) Call(t int, fn func() (*Msg, error)) {
	r := &Result{}
	d.mu.Lock()
	d.calls[t] = r
	d.order = append(d.order, t)
	d.mu.Unlock()
	go func() {
		m, err := fn()
		d.mu.Lock()
		r.Done, r.Err, r.Msg = true, err, m
		d.mu.Unlock()
	}()
}

// ErrPanic stands for a runtime panic inside an API call that the harness recovered (error class 98).
var ErrPanic = errors.New("panic in API call (recovered by the harness)")

// ErrCode maps an error to the model's error classes.
func ErrCode(err error) int {
	switch err {
	case ErrPanic:
		return 98
	case mangos.ErrClosed:
		return 1
	case mangos.ErrSendTimeout:
		return 2
	case mangos.ErrRecvTimeout:
		return 3
	case mangos.ErrProtoState:
		return 4
	case mangos.ErrProtoOp:
		return 5
	case mangos.ErrBadValue:
		return 6
	case mangos.ErrBadOption:
		return 7
	case mangos.ErrCanceled:
		return 8
	case mangos.ErrNoPeers:
		return 9
	}
	return 99
}

// B renders bytes as the Gallina term `mkb n v`.
func B(b []byte) string {
	if len(b) == 0 {
		return "[]"
	}
	return fmt.Sprintf("(mkb %d %s)", len(b), new(big.Int).SetBytes(b).String())
}

// Finish waits for quiescence after a stimulus (already applied) and records the step.
func (d *Driver) Finish(stim string, extraObs []string, isPass bool, t0 time.Time) {
	ok, onLock := Quiesce(2 * time.Second)
	if isPass {
		// the time is read after the last quiescence poll, when the observations are final
		stim = fmt.Sprintf("SPass %d", d.NowMs())
	}
	if !ok {
		d.Bad = "no quiescence within 2s after " + stim
	}
	if onLock {
		d.Stuck = true
		d.Bad = "goroutines parked on a mutex with nothing running (deadlock) after " + stim
	}
	if gap := time.Since(t0); !isPass && gap > d.MaxGap {
		d.MaxGap = gap
	}
	st := Step{Stim: stim}
	st.Obs = append(st.Obs, extraObs...)
	d.mu.Lock()
	var blocked []int
	for _, t := range d.order {
		r := d.calls[t]
		if !r.Done {
			blocked = append(blocked, t)
			continue
		}
		if d.reported[t] {
			continue
		}
		d.reported[t] = true
		switch {
		case r.Err != nil:
			st.Obs = append(st.Obs, fmt.Sprintf("ORet %d (RErr %d)", t, ErrCode(r.Err)))
		case r.Msg != nil:
			h, b := r.Msg.Header, r.Msg.Body
			if d.CanonRet != nil {
				h, b = d.CanonRet(h, b)
			}
			st.Obs = append(st.Obs, fmt.Sprintf("ORet %d (RMsg %s %s)", t, B(h), B(b)))
		default:
			st.Obs = append(st.Obs, fmt.Sprintf("ORet %d ROk", t))
		}
	}
	d.mu.Unlock()
	for _, tx := range d.Rec.TakeTx() {
		h, b := tx.Header, tx.Body
		if d.CanonTx != nil {
			h, b = d.CanonTx(tx.Pipe.Name, h, b)
		}
		st.Obs = append(st.Obs, fmt.Sprintf("OTx %d %s %s", tx.Pipe.Name, B(h), B(b)))
	}
	for _, p := range d.Rec.TakeCloses() {
		if !d.harnClose[p] {
			st.Obs = append(st.Obs, fmt.Sprintf("OPipeClose %d", p.Name))
		}
	}
	sort.Ints(blocked)
	st.Blocked = blocked
	d.Steps = append(d.Steps, st)
	d.lastEnd = d.NowMs()
}

// NowMs is the time since the history began, in milliseconds.
func (d *Driver) NowMs() int64 {
	if d.start.IsZero() {
		d.start = time.Now()
	}
	return time.Since(d.start).Milliseconds()
}

// Tick records the current time as its own step (timed histories: before every stimulus).
func (d *Driver) Tick() {
	d.timed = true
	st := Step{Stim: fmt.Sprintf("STick %d", d.NowMs())}
	if n := len(d.Steps); n > 0 {
		st.Blocked = d.Steps[n-1].Blocked
	}
	d.Steps = append(d.Steps, st)
}

// DropPipe closes a pipe from the harness side (peer went away).
func (d *Driver) DropPipe(p *mp.Pipe) {
	d.harnClose[p] = true
	_ = p.Close()
}

// MarkHarnessClose marks a close that the mock itself performs (failed send).
func (d *Driver) MarkHarnessClose(p *mp.Pipe) { d.harnClose[p] = true }

// Coq renders the history as a Gallina list of step records.
func (d *Driver) Coq() string {
	var sb bytes.Buffer
	sb.WriteString("[")
	steps := d.Steps
	if n := len(steps); d.timed && n > 0 && !strings.HasPrefix(steps[n-1].Stim, "STick") {
		// a closing time stamp (taken when the last step ended): the checker judges a step that ran long -- a timer fired
		// inside it -- by the stamp that follows it
		steps = append(append([]Step{}, steps...), Step{Stim: fmt.Sprintf("STick %d", d.lastEnd), Blocked: steps[n-1].Blocked})
	}
	for i, s := range steps {
		if i > 0 {
			sb.WriteString(";\n    ")
		}
		var bl []string
		for _, b := range s.Blocked {
			bl = append(bl, fmt.Sprint(b))
		}
		fmt.Fprintf(&sb, "(%s, [%s], [%s])", s.Stim, strings.Join(s.Obs, "; "), strings.Join(bl, "; "))
	}
	sb.WriteString("]")
	return sb.String()
}
