// Package mp provides mock protocol pipes: the harness plays the transport and
// the remote peers of a protocol implementation (X.NewProtocol()), deciding when
// a pipe yields a message, when a send completes or fails, and recording every
// message the protocol writes.
package mp

import (
	"errors"
	"sync"
	"sync/atomic"
	"time"

	"go.nanomsg.org/mangos/v3"
)

// Tx is one message the protocol wrote to a pipe.
type Tx struct {
	Pipe   *Pipe
	Header []byte
	Body   []byte
	At     time.Time
}

// Recorder collects what the protocol did to its pipes, in order.
type Recorder struct {
	mu     sync.Mutex
	Txs    []Tx
	Closes []*Pipe
}

// TakeTx returns and clears the recorded transmissions.
func (r *Recorder) TakeTx() []Tx {
	r.mu.Lock()
	t := r.Txs
	r.Txs = nil
	r.mu.Unlock()
	return t
}

// TakeCloses returns and clears the recorded pipe closes.
func (r *Recorder) TakeCloses() []*Pipe {
	r.mu.Lock()
	c := r.Closes
	r.Closes = nil
	r.mu.Unlock()
	return c
}

type pendingSend struct {
	done chan error
}

// Pipe is a mock mangos.ProtocolPipe.
type Pipe struct {
	id     uint32
	Name   int // harness-level index
	proto  mangos.ProtocolBase
	rec    *Recorder
	rq     chan *mangos.Message
	closeq chan struct{}
	once   sync.Once
	priv   interface{}

	mu   sync.Mutex
	hold bool
	// DeferClose: see SetDeferClose
	DeferClose bool
	pending    []*pendingSend
	added      bool
	removed    int32
	recving    int32 // 1 while the protocol's receiver goroutine is parked in RecvMsg
	// Scribble: overwrite the message buffers after a successful send (the transport owns and
	// releases the message, so its buffer may be reused at once).
	Scribble bool
}

// ErrPipeFail is returned from a send the harness decided to fail.
var ErrPipeFail = errors.New("mock pipe: send failed")

// NewPipe makes a pipe with the given id for proto.
func NewPipe(id uint32, name int, proto mangos.ProtocolBase, rec *Recorder) *Pipe {
	return &Pipe{id: id, Name: name, proto: proto, rec: rec,
		rq: make(chan *mangos.Message), closeq: make(chan struct{})}
}

// Attach offers the pipe to the protocol as core.addPipe does.
func (p *Pipe) Attach() error {
	err := p.proto.AddPipe(p)
	if err == nil {
		p.mu.Lock()
		p.added = true
		p.mu.Unlock()
	}
	return err
}

// ID implements ProtocolPipe.
func (p *Pipe) ID() uint32 { return p.id }

// Closed reports whether the pipe has been closed.
func (p *Pipe) Closed() bool {
	select {
	case <-p.closeq:
		return true
	default:
		return false
	}
}

// Close implements ProtocolPipe: like core's pipe.Close it closes the transport side once and
// then tells the protocol (RemovePipe) synchronously, exactly once, if it had been added.
func (p *Pipe) Close() error {
	p.once.Do(func() {
		close(p.closeq)
		p.mu.Lock()
		added := p.added
		pend := p.pending
		if p.DeferClose {
			pend = nil // the writes in flight are left to complete (or fail) on their own: Release still works
		} else {
			p.pending = nil
		}
		p.mu.Unlock()
		for _, ps := range pend {
			ps.done <- mangos.ErrClosed
		}
		if p.rec != nil {
			p.rec.mu.Lock()
			p.rec.Closes = append(p.rec.Closes, p)
			p.rec.mu.Unlock()
		}
		if added {
			atomic.AddInt32(&p.removed, 1)
			p.proto.RemovePipe(p)
		}
	})
	return nil
}

// SetDeferClose: a Close no longer fails the sends in flight (a write racing with the close of a stream connection may
// still complete successfully).
func (p *Pipe) SetDeferClose(b bool) {
	p.mu.Lock()
	p.DeferClose = b
	p.mu.Unlock()
}

// SetHold switches between auto mode (sends complete at once) and hold mode (sends block until
// Release).
func (p *Pipe) SetHold(h bool) {
	p.mu.Lock()
	p.hold = h
	p.mu.Unlock()
}

// Pending returns the number of sends blocked in hold mode.
func (p *Pipe) Pending() int {
	p.mu.Lock()
	defer p.mu.Unlock()
	return len(p.pending)
}

// Release completes the oldest held send with ok (nil error) or failure.
func (p *Pipe) Release(ok bool) bool {
	p.mu.Lock()
	if len(p.pending) == 0 {
		p.mu.Unlock()
		return false
	}
	ps := p.pending[0]
	p.pending = p.pending[1:]
	p.mu.Unlock()
	if ok {
		ps.done <- nil
	} else {
		ps.done <- ErrPipeFail
	}
	return true
}

// SendMsg implements ProtocolPipe.
func (p *Pipe) SendMsg(m *mangos.Message) error {
	if p.Closed() {
		return mangos.ErrClosed
	}
	tx := Tx{Pipe: p, Header: append([]byte{}, m.Header...), Body: append([]byte{}, m.Body...), At: time.Now()}
	if p.rec != nil {
		p.rec.mu.Lock()
		p.rec.Txs = append(p.rec.Txs, tx)
		p.rec.mu.Unlock()
	}
	p.mu.Lock()
	hold := p.hold
	var ps *pendingSend
	if hold {
		ps = &pendingSend{done: make(chan error, 1)}
		p.pending = append(p.pending, ps)
	}
	p.mu.Unlock()
	var err error
	if hold {
		err = <-ps.done
	}
	if err != nil {
		// as core.pipe.SendMsg: a failed transport send closes the pipe
		_ = p.Close()
		return err
	}
	if p.Scribble {
		for i := range m.Body {
			m.Body[i] = 0xEE
		}
		for i := range m.Header {
			m.Header[i] = 0xEE
		}
	}
	m.Free() // a transport frees the message after a successful send
	return nil
}

// RecvMsg implements ProtocolPipe.
func (p *Pipe) RecvMsg() *mangos.Message {
	atomic.StoreInt32(&p.recving, 1)
	defer atomic.StoreInt32(&p.recving, 0)
	select {
	case m := <-p.rq:
		return m
	case <-p.closeq:
		_ = p.Close()
		return nil
	}
}

// Inject makes the pipe's RecvMsg yield a message with the given body (as a transport does:
// everything is in Body, Header empty). Returns false if the receiver did not take it in time.
func (p *Pipe) Inject(body []byte, wait time.Duration) bool {
	m := mangos.NewMessage(len(body))
	m.Body = append(m.Body, body...)
	m.Pipe = nil
	var tq <-chan time.Time
	if wait > 0 {
		tq = time.After(wait)
	}
	select {
	case p.rq <- m:
		return true
	case <-p.closeq:
		m.Free()
		return false
	case <-tq:
		m.Free()
		return false
	}
}

// Receiving reports whether the protocol's receiver goroutine is currently waiting in RecvMsg
// (false while it is busy or blocked elsewhere with the previous message: an Inject would not be taken).
func (p *Pipe) Receiving() bool { return atomic.LoadInt32(&p.recving) == 1 }

// Removed returns how many times the protocol was told of this pipe's removal.
func (p *Pipe) Removed() int { return int(atomic.LoadInt32(&p.removed)) }

// SetPrivate implements ProtocolPipe.
func (p *Pipe) SetPrivate(i interface{}) { p.priv = i }

// GetPrivate implements ProtocolPipe.
func (p *Pipe) GetPrivate() interface{} { return p.priv }
