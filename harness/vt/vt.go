// Package vt is a virtual transport (scheme "vt://") registered through the public
// transport.RegisterTransport: real core sockets, dialers, listeners and pipes run on top of it, but
// every Dial, Accept, Send, Recv and Close of the transport is a harness decision point.
package vt

import (
	"errors"
	"sync"
	"time"

	"go.nanomsg.org/mangos/v3"
	"go.nanomsg.org/mangos/v3/transport"
)

// ErrRefused is what a refused virtual dial returns.
var ErrRefused = mangos.ErrConnRefused

// ErrAccept is an injected accept failure.
var ErrAccept = errors.New("vt: accept failed")

// ErrIO is an injected pipe failure.
var ErrIO = errors.New("vt: i/o error")

type tran struct{}

var reg struct {
	sync.Mutex
	dialers   map[string]*Dialer
	listeners map[string]*Listener
	// ListenErr: next Listen() on this address fails with the error
	listenErr map[string]error
}

func init() {
	reg.dialers = map[string]*Dialer{}
	reg.listeners = map[string]*Listener{}
	reg.listenErr = map[string]error{}
	transport.RegisterTransport(tran{})
}

func (tran) Scheme() string { return "vt" }

func (tran) NewDialer(addr string, sock mangos.Socket) (transport.Dialer, error) {
	d := &Dialer{Addr: addr, opts: map[string]interface{}{}}
	reg.Lock()
	reg.dialers[addr] = d
	reg.Unlock()
	return d, nil
}

func (tran) NewListener(addr string, sock mangos.Socket) (transport.Listener, error) {
	l := &Listener{Addr: addr, opts: map[string]interface{}{}, acc: make(chan accItem, 16), closeq: make(chan struct{})}
	reg.Lock()
	reg.listeners[addr] = l
	reg.Unlock()
	return l, nil
}

// GetDialer returns the transport dialer created for addr.
func GetDialer(addr string) *Dialer { reg.Lock(); defer reg.Unlock(); return reg.dialers[addr] }

// GetListener returns the transport listener created for addr.
func GetListener(addr string) *Listener { reg.Lock(); defer reg.Unlock(); return reg.listeners[addr] }

// FailNextListen makes the next Listen on addr fail.
func FailNextListen(addr string, err error) { reg.Lock(); reg.listenErr[addr] = err; reg.Unlock() }

// ---- dialer ----

type dialResp struct {
	p   *Pipe
	err error
}

// DialReq is one pending transport-level dial attempt.
type DialReq struct {
	At   time.Time
	resp chan dialResp
}

// Dialer is the virtual transport dialer.
type Dialer struct {
	Addr string
	mu   sync.Mutex
	opts map[string]interface{}
	pend []*DialReq
	All  []*DialReq // every attempt ever made
}

// Dial blocks until the harness resolves the attempt.
func (d *Dialer) Dial() (transport.Pipe, error) {
	r := &DialReq{At: time.Now(), resp: make(chan dialResp, 1)}
	d.mu.Lock()
	d.pend = append(d.pend, r)
	d.All = append(d.All, r)
	d.mu.Unlock()
	out := <-r.resp
	if out.err != nil {
		return nil, out.err
	}
	return out.p, nil
}

// Pending returns the number of unresolved attempts.
func (d *Dialer) Pending() int { d.mu.Lock(); defer d.mu.Unlock(); return len(d.pend) }

// Attempts returns the times of all attempts so far.
func (d *Dialer) Attempts() []time.Time {
	d.mu.Lock()
	defer d.mu.Unlock()
	var ts []time.Time
	for _, r := range d.All {
		ts = append(ts, r.At)
	}
	return ts
}

// Resolve answers the oldest pending attempt: with a new pipe (err == nil) or an error.
func (d *Dialer) Resolve(err error, name int) *Pipe {
	d.mu.Lock()
	if len(d.pend) == 0 {
		d.mu.Unlock()
		return nil
	}
	r := d.pend[0]
	d.pend = d.pend[1:]
	d.mu.Unlock()
	if err != nil {
		r.resp <- dialResp{err: err}
		return nil
	}
	p := NewPipe(name)
	r.resp <- dialResp{p: p}
	return p
}

// SetOption implements transport.Dialer.
func (d *Dialer) SetOption(n string, v interface{}) error {
	if n == mangos.OptionMaxRecvSize {
		d.mu.Lock()
		d.opts[n] = v
		d.mu.Unlock()
		return nil
	}
	return mangos.ErrBadOption
}

// GetOption implements transport.Dialer.
func (d *Dialer) GetOption(n string) (interface{}, error) {
	d.mu.Lock()
	defer d.mu.Unlock()
	if v, ok := d.opts[n]; ok {
		return v, nil
	}
	return nil, mangos.ErrBadOption
}

// ---- listener ----

type accItem struct {
	p   *Pipe
	err error
}

// Listener is the virtual transport listener.
type Listener struct {
	Addr      string
	mu        sync.Mutex
	opts      map[string]interface{}
	acc       chan accItem
	closeq    chan struct{}
	once      sync.Once
	Listening bool
	Accepts   int // Accept calls started
}

// Listen implements transport.Listener.
func (l *Listener) Listen() error {
	reg.Lock()
	err := reg.listenErr[l.Addr]
	delete(reg.listenErr, l.Addr)
	reg.Unlock()
	if err != nil {
		return err
	}
	l.mu.Lock()
	l.Listening = true
	l.mu.Unlock()
	return nil
}

// Accept blocks until the harness connects a peer, injects an error, or the listener closes.
func (l *Listener) Accept() (transport.Pipe, error) {
	l.mu.Lock()
	l.Accepts++
	l.mu.Unlock()
	select {
	case it := <-l.acc:
		if it.err != nil {
			return nil, it.err
		}
		return it.p, nil
	case <-l.closeq:
		return nil, mangos.ErrClosed
	}
}

// Connect makes Accept return a new pipe.
func (l *Listener) Connect(name int) *Pipe {
	p := NewPipe(name)
	l.acc <- accItem{p: p}
	return p
}

// InjectAcceptError makes Accept return an error.
func (l *Listener) InjectAcceptError() { l.acc <- accItem{err: ErrAccept} }

// AcceptCalls returns the number of Accept calls started so far.
func (l *Listener) AcceptCalls() int { l.mu.Lock(); defer l.mu.Unlock(); return l.Accepts }

// IsClosed reports whether Close was called.
func (l *Listener) IsClosed() bool {
	select {
	case <-l.closeq:
		return true
	default:
		return false
	}
}

// Close implements transport.Listener.
func (l *Listener) Close() error {
	l.once.Do(func() { close(l.closeq) })
	return nil
}

// SetOption implements transport.Listener.
func (l *Listener) SetOption(n string, v interface{}) error {
	if n == mangos.OptionMaxRecvSize {
		l.mu.Lock()
		l.opts[n] = v
		l.mu.Unlock()
		return nil
	}
	return mangos.ErrBadOption
}

// GetOption implements transport.Listener.
func (l *Listener) GetOption(n string) (interface{}, error) {
	l.mu.Lock()
	defer l.mu.Unlock()
	if v, ok := l.opts[n]; ok {
		return v, nil
	}
	return nil, mangos.ErrBadOption
}

// Address implements transport.Listener.
func (l *Listener) Address() string { return l.Addr }

// ---- pipe ----

// Pipe is a virtual transport pipe whose peer is the harness.
type Pipe struct {
	Name   int
	rq     chan accMsg
	closeq chan struct{}
	once   sync.Once
	mu     sync.Mutex
	Sent   [][]byte
	Closed time.Time
}

type accMsg struct {
	body []byte
	err  error
}

// NewPipe makes a pipe.
func NewPipe(name int) *Pipe {
	return &Pipe{Name: name, rq: make(chan accMsg, 4), closeq: make(chan struct{})}
}

// Send implements transport.Pipe.
func (p *Pipe) Send(m *mangos.Message) error {
	select {
	case <-p.closeq:
		return mangos.ErrClosed
	default:
	}
	p.mu.Lock()
	p.Sent = append(p.Sent, append(append([]byte{}, m.Header...), m.Body...))
	p.mu.Unlock()
	m.Free()
	return nil
}

// Recv implements transport.Pipe.
func (p *Pipe) Recv() (*mangos.Message, error) {
	select {
	case it := <-p.rq:
		if it.err != nil {
			return nil, it.err
		}
		m := mangos.NewMessage(len(it.body))
		m.Body = append(m.Body, it.body...)
		return m, nil
	case <-p.closeq:
		return nil, mangos.ErrClosed
	}
}

// Fail makes the next Recv fail (the connection broke).
func (p *Pipe) Fail() {
	select {
	case p.rq <- accMsg{err: ErrIO}:
	case <-p.closeq:
	}
}

// Inject delivers a message.
func (p *Pipe) Inject(b []byte) {
	select {
	case p.rq <- accMsg{body: b}:
	case <-p.closeq:
	}
}

// IsClosed reports whether the transport pipe was closed by the library.
func (p *Pipe) IsClosed() bool {
	select {
	case <-p.closeq:
		return true
	default:
		return false
	}
}

// Close implements transport.Pipe.
func (p *Pipe) Close() error {
	p.once.Do(func() {
		p.mu.Lock()
		p.Closed = time.Now()
		p.mu.Unlock()
		close(p.closeq)
	})
	return nil
}

// GetOption implements transport.Pipe.
func (p *Pipe) GetOption(n string) (interface{}, error) {
	return nil, mangos.ErrBadProperty
}
