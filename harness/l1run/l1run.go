// Package l1run is the common main of the protocol-level history harnesses (mock pipes, public
// ProtocolBase API, sequential driving with quiescence detection): the parent spawns 16 worker
// processes (quiescence detection is per process), each writes one defs_NNN.v shard of histories.
package l1run

import (
	"fmt"
	"math/rand"
	"os"
	"os/exec"
	"path/filepath"
	"strconv"
	"sync"

	"mangosverif/coqgen"
)

// GenFunc produces one history: its Gallina rendering, or a reason to discard it, and an optional note.
type GenFunc func(r *rand.Rand, timed bool) (coq string, discarded string, note string)

// HistType is the Gallina type of the `histories` definition; a harness whose items are not plain histories
// (e.g. pairs of a protocol tag and a history) sets it before calling Main.
var HistType = "list (list step_rec)"

// ScriptsEnabled is true in the first untimed and the first timed worker: they run the directed histories first.
var ScriptsEnabled bool

// Main is the entry point of every l1 harness binary: `<bin> <outdir>` (parent) or `<bin> -worker i n timed out.v`.
func Main(gen GenFunc) {
	if len(os.Args) < 2 {
		fmt.Fprintln(os.Stderr, "usage: <bin> <outdir> | <bin> -worker i n timed out.v")
		os.Exit(2)
	}
	if os.Args[1] == "-worker" {
		i, _ := strconv.Atoi(os.Args[2])
		n, _ := strconv.Atoi(os.Args[3])
		timed := os.Args[4] == "1"
		worker(gen, i, n, timed, os.Args[5])
		return
	}
	outdir := os.Args[1]
	nw := 16
	per, perTimed := 60, 14
	if coqgen.Thorough() {
		per, perTimed = 300, 90
	}
	if v := os.Getenv("L1_PER_WORKER"); v != "" {
		per, _ = strconv.Atoi(v)
	}
	if v := os.Getenv("L1_PER_TIMED_WORKER"); v != "" {
		perTimed, _ = strconv.Atoi(v)
	}
	var wg sync.WaitGroup
	fail := false
	var mu sync.Mutex
	for i := 0; i < nw; i++ {
		wg.Add(1)
		go func(i int) {
			defer wg.Done()
			// workers 0..11 untimed, 12..15 timed (they sleep, so they get fewer histories)
			timed, n := "0", per
			if i >= timedFrom() {
				timed, n = "1", perTimed
			}
			cmd := exec.Command(os.Args[0], "-worker", fmt.Sprint(i), fmt.Sprint(n), timed,
				filepath.Join(outdir, fmt.Sprintf("defs_%03d.v", i)))
			cmd.Stderr = os.Stderr
			cmd.Env = os.Environ()
			if err := cmd.Run(); err != nil {
				mu.Lock()
				fail = true
				mu.Unlock()
				fmt.Fprintf(os.Stderr, "l1: worker %d: %v\n", i, err)
			}
		}(i)
	}
	wg.Wait()
	if fail {
		os.Exit(1)
	}
}

func worker(gen GenFunc, idx, n int, timed bool, out string) {
	ScriptsEnabled = idx == 0 || idx == timedFrom()
	r := rand.New(rand.NewSource(coqgen.Seed()*1000 + int64(idx)))
	w := coqgen.Create(out)
	defer w.Close()
	var items []string
	discarded := 0
	for len(items) < n && discarded < 4*n+10 {
		c, disc, note := gen(r, timed)
		if disc != "" {
			discarded++
			continue
		}
		if note != "" {
			c += " (* " + note + " *)"
		}
		items = append(items, c)
	}
	w.Def("histories", HistType, items)
	w.P("Definition n_discarded : N := %d.", discarded)
}

// timedFrom: index of the first worker that runs timed histories (the resend-biased mode uses more of them)
func timedFrom() int {
	if os.Getenv("L1_BIAS") == "resend" {
		return 8
	}
	return 12
}
