// l1rep: REP / RESPONDENT / XREP / XRESPONDENT histories (see harness/l1run).  Every history picks one of
// the four protocols; it is emitted as the pair (protocol number, history).  Mock pipes play REQ/SURVEYOR
// peers (and devices in front of them): requests carry a routing header of random depth and content.
package main

import (
	"encoding/binary"
	"fmt"
	"math/rand"
	"sync"
	"time"

	"mangosverif/l1run"
	"mangosverif/mp"
	"mangosverif/seq"

	"go.nanomsg.org/mangos/v3"
	"go.nanomsg.org/mangos/v3/protocol/rep"
	"go.nanomsg.org/mangos/v3/protocol/respondent"
	"go.nanomsg.org/mangos/v3/protocol/xrep"
	"go.nanomsg.org/mangos/v3/protocol/xrespondent"
)

const (
	kRep = iota
	kRespondent
	kXRep
	kXRespondent
)

const injectWait = 5 * time.Millisecond

type repGen struct {
	r          *rand.Rand
	d          *seq.Driver
	kind       int
	raw        bool
	alive      map[int]bool
	hold       map[int]bool
	nextPipe   int
	nextCtx    int
	nextCall   int
	nreq       int // request numbers issued
	nrep       int // reply numbers issued
	ttl        int
	sockClosed bool
	bare       bool
	closedCtx  map[int]bool
	recvCalls  map[int]bool // call ids that are Recv calls
	recvCtx    map[int]int  // Recv call -> context
	taken      int          // requests a receiver took
	returned   int          // requests a Recv returned

	mu  sync.Mutex
	got [][]byte // raw: headers of the messages Recv returned, in order of return
	has map[int]bool // cooked: context -> its latest Recv returned a request and it has not sent since (a guess that steers the choice of operations)
}

type op struct {
	k       string
	a, b, c int
}

type script struct {
	kind int
	ops  []op
}

var scriptIdx = map[bool]int{}

func newProto(kind int) mangos.ProtocolBase {
	switch kind {
	case kRep:
		return rep.NewProtocol()
	case kRespondent:
		return respondent.NewProtocol()
	case kXRep:
		return xrep.NewProtocol()
	}
	return xrespondent.NewProtocol()
}

func genRep(r *rand.Rand, second bool) (string, string, string) {
	var sc *script
	scripts := cookedScripts
	if second {
		scripts = rawScripts
	}
	if i := scriptIdx[second]; i < len(scripts) && l1run.ScriptsEnabled {
		sc = &scripts[i]
		scriptIdx[second] = i + 1
	}
	kind := []int{kRep, kRep, kRep, kRespondent, kRespondent, kXRep, kXRep, kXRespondent}[r.Intn(8)]
	if sc != nil {
		kind = sc.kind
	}
	p := newProto(kind)
	d := seq.NewDriver(p)
	g := &repGen{r: r, d: d, kind: kind, raw: kind >= kXRep, alive: map[int]bool{}, hold: map[int]bool{}, ttl: 8,
		closedCtx: map[int]bool{}, recvCalls: map[int]bool{}, recvCtx: map[int]int{}, has: map[int]bool{}}
	if sc != nil {
		for _, o := range sc.ops {
			if d.Bad == "" {
				g.apply(o)
			}
		}
	} else {
		nsteps := 12 + r.Intn(25)
		for i := 0; i < nsteps && d.Bad == ""; i++ {
			g.stepOnce()
		}
	}
	// release everything
	_ = p.Close()
	for _, pp := range d.Pipes {
		_ = pp.Close()
	}
	seq.Quiesce(500 * time.Millisecond)
	if d.Stuck {
		return fmt.Sprintf("(%d, %s)", kind, d.Coq()), "", "STUCK: " + d.Bad
	}
	if d.Bad != "" {
		return "", d.Bad, ""
	}
	return fmt.Sprintf("(%d, %s)", kind, d.Coq()), "", ""
}

func (g *repGen) ctxs() []int {
	var cs []int
	for c := 0; c <= g.nextCtx; c++ {
		if _, ok := g.d.Ctxs[c]; ok {
			cs = append(cs, c)
		}
	}
	return cs
}

func (g *repGen) pickCtx() int { cs := g.ctxs(); return cs[g.r.Intn(len(cs))] }

func (g *repGen) alivePipes() []int {
	var ps []int
	for p := 1; p <= g.nextPipe; p++ {
		if g.alive[p] {
			ps = append(ps, p)
		}
	}
	return ps
}

// blockedRecvs counts the Recv calls that were blocked at the end of the last step.
func (g *repGen) blockedRecvs() int {
	n := 0
	if k := len(g.d.Steps); k > 0 {
		for _, t := range g.d.Steps[k-1].Blocked {
			if g.recvCalls[t] {
				n++
			}
		}
	}
	return n
}

// recvBlockedOn reports whether a Recv call on context c was blocked at the end of the last step.
func (g *repGen) recvBlockedOn(c int) bool {
	if k := len(g.d.Steps); k > 0 {
		for _, t := range g.d.Steps[k-1].Blocked {
			if cc, ok := g.recvCtx[t]; ok && cc == c {
				return true
			}
		}
	}
	return false
}

func (g *repGen) choose() (op, bool) {
	r := g.r
	w := r.Intn(100)
	if len(g.alivePipes()) == 0 && g.nextPipe < 3 && r.Intn(2) == 0 {
		w = 0 // nothing much happens without a peer
	}
	switch {
	case w < 9:
		return op{k: "addpipe"}, g.nextPipe < 3
	case w < 15:
		ps := g.alivePipes()
		if len(ps) == 0 {
			return op{}, false
		}
		return op{k: "drop", a: ps[r.Intn(len(ps))]}, true
	case w < 37:
		ps := g.alivePipes()
		if len(ps) == 0 {
			return op{}, false
		}
		// unbuffered REP: several receivers holding a request race for the next Recv; keep that rare
		if g.kind == kRep && g.taken-g.returned >= 1 && r.Intn(3) != 0 {
			return op{}, false
		}
		depth := 0
		switch {
		case r.Intn(10) == 0:
			depth = -1 - r.Intn(3) // malformed
		case r.Intn(10) < 7:
			depth = r.Intn(min(3, g.ttl))
		default:
			depth = r.Intn(min(g.ttl+2, 11)) // long bodies are slow to evaluate as big-endian numbers
		}
		return op{k: "req", a: ps[r.Intn(len(ps))], b: depth}, true
	case w < 56:
		if g.blockedRecvs() >= 1 && r.Intn(8) != 0 {
			return op{}, false
		}
		c := g.pickCtx()
		// RESPONDENT does not refuse a second Recv on a context whose Recv is still waiting; which request the context
		// then holds depends on the order the two return and on queue resizes: not a situation C05 speaks about
		if g.kind == kRespondent && g.recvBlockedOn(c) {
			return op{}, false
		}
		return op{k: "recv", a: c}, true
	case w < 75:
		mode := 0
		if g.raw {
			mode = []int{0, 0, 0, 0, 1, 1, 2, 3, 4, 5}[r.Intn(10)]
		}
		c := g.pickCtx()
		if !g.raw {
			// prefer a context that holds a request; a Send with nothing pending is tried now and then
			g.mu.Lock()
			var cand []int
			for _, x := range g.ctxs() {
				if g.has[x] {
					cand = append(cand, x)
				}
			}
			g.mu.Unlock()
			if len(cand) > 0 && r.Intn(10) < 7 {
				c = cand[r.Intn(len(cand))]
			} else if len(cand) == 0 && r.Intn(4) != 0 {
				return op{}, false
			}
		}
		return op{k: "send", a: c, b: mode, c: r.Intn(8)}, true
	case w < 81:
		ps := g.alivePipes()
		if len(ps) == 0 {
			return op{}, false
		}
		n := ps[r.Intn(len(ps))]
		h := 0
		if !g.hold[n] {
			h = 1
		} else if r.Intn(3) != 0 {
			return op{}, false // stay in hold mode for a while
		}
		return op{k: "hold", a: n, b: h}, true
	case w < 90:
		var cand []int
		for _, n := range g.alivePipes() {
			if g.d.Pipes[n].Pending() > 0 {
				cand = append(cand, n)
			}
		}
		if len(cand) == 0 {
			return op{}, false
		}
		ok := 1
		if r.Intn(4) == 0 {
			ok = 0
		}
		return op{k: "release", a: cand[r.Intn(len(cand))], b: ok}, true
	case w < 93:
		return op{k: "openctx"}, g.nextCtx < 2 && !g.sockClosed && (!g.raw || r.Intn(4) == 0)
	case w < 94:
		c := g.pickCtx()
		return op{k: "closectx", a: c}, c != 0
	case w < 95:
		return op{k: "closesock"}, r.Intn(2) == 0
	default:
		// options: 0 TTL, 1 WriteQLen, 2 ReadQLen, 3 BestEffort, 4 SendDeadline, 5 RecvDeadline, 6 RetryTime (never valid here)
		o := []int{0, 0, 0, 1, 1, 1, 2, 2, 4, 5, 6, 3}[r.Intn(12)]
		if o == 3 && r.Intn(3) != 0 {
			o = 1
		}
		v := 0
		switch o {
		case 0:
			v = []int{1, 2, 3, 4, 8, 255, 0, 256}[r.Intn(8)]
		case 1:
			v = []int{0, 0, 1, 1, 2, -1}[r.Intn(6)]
		case 2:
			v = []int{0, 1, 1, 2, 128, -1}[r.Intn(6)]
		case 3:
			v = r.Intn(2)
		default:
			v = []int{3600000, 0}[r.Intn(2)]
		}
		return op{k: "opt", a: g.pickCtx(), b: o, c: v}, true
	}
}

func min(a, b int) int {
	if a < b {
		return a
	}
	return b
}

func (g *repGen) stepOnce() {
	for {
		if o, ok := g.choose(); ok {
			g.apply(o)
			return
		}
	}
}

func (g *repGen) word(high bool) []byte {
	w := make([]byte, 4)
	g.r.Read(w)
	if high {
		w[0] |= 0x80
	} else {
		w[0] &= 0x7f
	}
	return w
}

// request builds a request as it comes off the wire: depth device words, the request id word, the payload
// (request number in two bytes, then random bytes).  depth < 0: malformed.
func (g *repGen) request(depth int) []byte {
	r := g.r
	var b []byte
	g.nreq++
	payload := make([]byte, 3+r.Intn(3))
	r.Read(payload)
	binary.BigEndian.PutUint16(payload, uint16(g.nreq))
	switch depth {
	case -1: // shorter than one word
		b = make([]byte, r.Intn(4))
		r.Read(b)
		return b
	case -2: // device words only, the id word is missing; ends in a fragment
		for i := 0; i < 1+r.Intn(3); i++ {
			b = append(b, g.word(false)...)
		}
		frag := make([]byte, r.Intn(4))
		r.Read(frag)
		for i := range frag {
			frag[i] &= 0x7f
		}
		return append(b, frag...)
	case -3: // an id word and nothing else: a request with an empty payload (cannot be numbered: at most one per history)
		if g.bare {
			return nil
		}
		g.bare = true
		return g.word(true)
	}
	for i := 0; i < depth; i++ {
		b = append(b, g.word(false)...)
	}
	b = append(b, g.word(true)...)
	return append(b, payload...)
}

func (g *repGen) apply(o op) {
	r, d := g.r, g.d
	t0 := time.Now()
	switch o.k {
	case "addpipe":
		g.nextPipe++
		n := g.nextPipe
		pp := mp.NewPipe(uint32(1000+n), n, d.Proto, d.Rec)
		d.Pipes[n] = pp
		if err := pp.Attach(); err == nil {
			g.alive[n] = true
		}
		d.Finish(fmt.Sprintf("SAddPipe %d", n), nil, false, t0)
	case "drop":
		n := o.a
		g.alive[n] = false
		d.DropPipe(d.Pipes[n])
		d.Finish(fmt.Sprintf("SDropPipe %d", n), nil, false, t0)
	case "req":
		n := o.a
		body := g.request(o.b)
		var extra []string
		if !d.Pipes[n].Inject(body, injectWait) {
			extra = append(extra, fmt.Sprintf("ONotTaken %d", n))
		} else if o.b >= 0 && o.b < g.ttl {
			g.taken++
		}
		d.Finish(fmt.Sprintf("SDeliver %d %s", n, seq.B(body)), extra, false, t0)
	case "recv":
		c := o.a
		if g.raw {
			c = 0
		}
		g.nextCall++
		t := g.nextCall
		g.recvCalls[t] = true
		g.recvCtx[t] = c
		ctx := d.Ctxs[c]
		d.Call(t, func() (*seq.Msg, error) {
			m, err := ctx.RecvMsg()
			if err != nil {
				return nil, err
			}
			res := &seq.Msg{Header: append([]byte{}, m.Header...), Body: append([]byte{}, m.Body...)}
			m.Free()
			g.mu.Lock()
			g.got = append(g.got, res.Header)
			g.returned++
			g.has[c] = true
			g.mu.Unlock()
			return res, nil
		})
		d.Finish(fmt.Sprintf("SCall %d (CRecv %d)", t, c), nil, false, t0)
	case "send":
		// raw modes (o.b): 0 header of the latest message received; 1 header of an earlier one (o.c from the end);
		// 2 shorter than a word; 3 unknown pipe id; 4 a live pipe named directly with a made-up backtrace;
		// 5 header of the latest message with the pipe word changed to another pipe
		c := o.a
		if g.raw {
			c = 0
		}
		g.nextCall++
		g.nrep++
		t := g.nextCall
		g.mu.Lock()
		g.has[c] = false
		g.mu.Unlock()
		body := make([]byte, 3+r.Intn(3))
		r.Read(body)
		binary.BigEndian.PutUint16(body, uint16(g.nrep))
		var hdr []byte
		if g.raw {
			g.mu.Lock()
			got := g.got
			g.mu.Unlock()
			mode := o.b
			if len(got) == 0 && (mode == 0 || mode == 1 || mode == 5) {
				mode = 4
			}
			switch mode {
			case 0:
				hdr = append(hdr, got[len(got)-1]...)
			case 1:
				hdr = append(hdr, got[len(got)-1-o.c%len(got)]...)
			case 2:
				hdr = make([]byte, r.Intn(4))
				r.Read(hdr)
			case 3:
				hdr = append(be32(uint32([]int{0, 7, 999, 1000, 1004, 1000 + 77, 0x7fffffff}[r.Intn(7)])), g.word(true)...)
			case 4:
				hdr = be32(uint32(1000 + 1 + r.Intn(3)))
				for i := r.Intn(3); i > 0; i-- {
					hdr = append(hdr, g.word(false)...)
				}
				hdr = append(hdr, g.word(true)...)
			case 5:
				hdr = append(hdr, got[len(got)-1]...)
				binary.BigEndian.PutUint32(hdr, uint32(1000+1+r.Intn(3)))
			}
		}
		ctx := d.Ctxs[c]
		d.Call(t, func() (*seq.Msg, error) {
			m := mangos.NewMessage(len(body))
			m.Body = append(m.Body, body...)
			m.Header = append(m.Header, hdr...)
			err := ctx.SendMsg(m)
			if err != nil {
				m.Free()
			}
			return nil, err
		})
		d.Finish(fmt.Sprintf("SCall %d (CSend %d %s %s)", t, c, seq.B(hdr), seq.B(body)), nil, false, t0)
	case "hold":
		g.hold[o.a] = o.b == 1
		d.Pipes[o.a].SetHold(o.b == 1)
		d.Finish(fmt.Sprintf("SHold %d %v", o.a, o.b == 1), nil, false, t0)
	case "release":
		n, ok := o.a, o.b == 1
		if !ok {
			g.alive[n] = false
			d.MarkHarnessClose(d.Pipes[n])
		}
		d.Pipes[n].Release(ok)
		d.Finish(fmt.Sprintf("SRelease %d %v", n, ok), nil, false, t0)
	case "openctx":
		g.nextCtx++
		c := g.nextCtx
		g.nextCall++
		t := g.nextCall
		ctx, err := d.Proto.OpenContext()
		if err == nil {
			d.Ctxs[c] = ctx
		}
		d.Call(t, func() (*seq.Msg, error) { return nil, err })
		d.Finish(fmt.Sprintf("SCall %d (COpenCtx %d)", t, c), nil, false, t0)
	case "closectx":
		g.nextCall++
		t := g.nextCall
		ctx := d.Ctxs[o.a]
		d.Call(t, func() (*seq.Msg, error) { return nil, ctx.Close() })
		d.Finish(fmt.Sprintf("SCall %d (CCloseCtx %d)", t, o.a), nil, false, t0)
	case "closesock":
		g.nextCall++
		t := g.nextCall
		g.sockClosed = true
		d.Call(t, func() (*seq.Msg, error) { return nil, d.Proto.Close() })
		d.Finish(fmt.Sprintf("SCall %d CCloseSock", t), nil, false, t0)
	case "opt":
		c := o.a
		if g.raw {
			c = 0
		}
		g.nextCall++
		t := g.nextCall
		ctx := d.Ctxs[c]
		names := []string{mangos.OptionTTL, mangos.OptionWriteQLen, mangos.OptionReadQLen, mangos.OptionBestEffort,
			mangos.OptionSendDeadline, mangos.OptionRecvDeadline, mangos.OptionRetryTime}
		coqs := []string{"OTtl", "OWriteQLen", "OReadQLen", "OBestEffort", "OSendDeadline", "ORecvDeadline", "ORetryTime"}
		var val interface{}
		switch {
		case o.b <= 2:
			val = o.c
		case o.b == 3:
			val = o.c == 1
		default:
			val = time.Duration(o.c) * time.Millisecond
		}
		if o.b == 0 && c == 0 && o.c > 0 && o.c < 256 {
			g.ttl = o.c
		}
		name := names[o.b]
		d.Call(t, func() (*seq.Msg, error) { return nil, ctx.SetOption(name, val) })
		v := fmt.Sprintf("%d%%Z", o.c)
		if o.c < 0 {
			v = fmt.Sprintf("(%d)%%Z", o.c)
		}
		d.Finish(fmt.Sprintf("SCall %d (CSetOpt %d %s %s [])", t, c, coqs[o.b], v), nil, false, t0)
	}
}

func be32(v uint32) []byte { b := make([]byte, 4); binary.BigEndian.PutUint32(b, v); return b }

// directed histories (minimal schedules for each behaviour C05 names); op fields: req a=pipe b=depth;
// recv a=ctx; send a=ctx b=raw mode c=index; opt a=ctx b=option c=value
var cookedScripts = []script{
	// reply follows the request; a second Send is a protocol-state error; Send before any Recv too
	{kRep, []op{{k: "send", a: 0}, {k: "addpipe"}, {k: "req", a: 1, b: 0}, {k: "recv", a: 0}, {k: "send", a: 0}, {k: "send", a: 0}}},
	{kRespondent, []op{{k: "send", a: 0}, {k: "addpipe"}, {k: "req", a: 1, b: 2}, {k: "recv", a: 0}, {k: "send", a: 0}, {k: "send", a: 0}}},
	// two pipes, two contexts, replies in the opposite order
	{kRep, []op{{k: "addpipe"}, {k: "addpipe"}, {k: "openctx"}, {k: "recv", a: 0}, {k: "req", a: 1, b: 1}, {k: "recv", a: 1}, {k: "req", a: 2, b: 3},
		{k: "send", a: 1}, {k: "send", a: 0}, {k: "send", a: 1}}},
	{kRespondent, []op{{k: "addpipe"}, {k: "addpipe"}, {k: "openctx"}, {k: "openctx"}, {k: "req", a: 1, b: 0}, {k: "req", a: 2, b: 1}, {k: "req", a: 1, b: 2},
		{k: "recv", a: 0}, {k: "recv", a: 1}, {k: "recv", a: 2}, {k: "send", a: 2}, {k: "send", a: 0}, {k: "send", a: 1}, {k: "send", a: 0}}},
	// the requesting pipe goes between Recv and Send: the reply is discarded, then nothing is pending
	{kRep, []op{{k: "addpipe"}, {k: "addpipe"}, {k: "req", a: 1, b: 0}, {k: "recv", a: 0}, {k: "drop", a: 1}, {k: "send", a: 0}, {k: "send", a: 0}}},
	{kRespondent, []op{{k: "addpipe"}, {k: "addpipe"}, {k: "req", a: 1, b: 1}, {k: "req", a: 2, b: 0}, {k: "drop", a: 1}, {k: "recv", a: 0}, {k: "send", a: 0},
		{k: "recv", a: 0}, {k: "send", a: 0}}},
	// the pipe goes while its receiver still holds the request (REP is unbuffered)
	{kRep, []op{{k: "addpipe"}, {k: "req", a: 1, b: 0}, {k: "req", a: 1, b: 0}, {k: "drop", a: 1}, {k: "recv", a: 0}, {k: "addpipe"}, {k: "req", a: 2, b: 1},
		{k: "send", a: 0}}},
	// the pipe goes while the reply is held by the transport / blocked behind it
	{kRep, []op{{k: "addpipe"}, {k: "hold", a: 1, b: 1}, {k: "req", a: 1, b: 0}, {k: "recv", a: 0}, {k: "send", a: 0}, {k: "req", a: 1, b: 1}, {k: "recv", a: 0},
		{k: "send", a: 0}, {k: "drop", a: 1}, {k: "send", a: 0}}},
	// a write queue of one: first reply in the transport, second queued, third blocked; released in order
	{kRep, []op{{k: "opt", a: 0, b: 1, c: 1}, {k: "addpipe"}, {k: "openctx"}, {k: "openctx"}, {k: "hold", a: 1, b: 1},
		{k: "req", a: 1, b: 0}, {k: "recv", a: 0}, {k: "send", a: 0}, {k: "req", a: 1, b: 1}, {k: "recv", a: 1}, {k: "send", a: 1},
		{k: "req", a: 1, b: 2}, {k: "recv", a: 2}, {k: "send", a: 2}, {k: "release", a: 1, b: 1}, {k: "release", a: 1, b: 1}, {k: "release", a: 1, b: 0}}},
	// hop limit: a request that crossed exactly ttl connections is answered with its whole header, one more is dropped
	{kRep, []op{{k: "opt", a: 0, b: 0, c: 3}, {k: "addpipe"}, {k: "recv", a: 0}, {k: "req", a: 1, b: 3}, {k: "req", a: 1, b: 2}, {k: "send", a: 0}}},
	{kRespondent, []op{{k: "opt", a: 0, b: 0, c: 2}, {k: "addpipe"}, {k: "req", a: 1, b: 2}, {k: "req", a: 1, b: 1}, {k: "req", a: 1, b: -2}, {k: "recv", a: 0},
		{k: "send", a: 0}, {k: "recv", a: 0}}},
	// a raised hop limit: a request that crossed 10 connections (a routing header of 44 bytes) is answered with its whole header
	{kRep, []op{{k: "opt", a: 0, b: 0, c: 12}, {k: "addpipe"}, {k: "req", a: 1, b: 10}, {k: "recv", a: 0}, {k: "send", a: 0}, {k: "req", a: 1, b: 9}, {k: "recv", a: 0}, {k: "send", a: 0}}},
	{kRespondent, []op{{k: "opt", a: 0, b: 0, c: 12}, {k: "addpipe"}, {k: "req", a: 1, b: 10}, {k: "recv", a: 0}, {k: "send", a: 0}, {k: "req", a: 1, b: 8}, {k: "recv", a: 0}, {k: "send", a: 0}}},
	// REP keeps the request while a later Recv waits; RESPONDENT forgets it
	{kRep, []op{{k: "addpipe"}, {k: "req", a: 1, b: 0}, {k: "recv", a: 0}, {k: "recv", a: 0}, {k: "recv", a: 0}, {k: "send", a: 0}, {k: "req", a: 1, b: 1},
		{k: "send", a: 0}}},
	{kRespondent, []op{{k: "addpipe"}, {k: "req", a: 1, b: 0}, {k: "recv", a: 0}, {k: "recv", a: 0}, {k: "send", a: 0}, {k: "req", a: 1, b: 1}, {k: "send", a: 0}}},
	// a newer request replaces the older one in the same context
	{kRep, []op{{k: "addpipe"}, {k: "addpipe"}, {k: "req", a: 1, b: 0}, {k: "recv", a: 0}, {k: "req", a: 2, b: 1}, {k: "recv", a: 0}, {k: "send", a: 0},
		{k: "send", a: 0}}},
	// RESPONDENT read queue resized / socket closed while receivers hold surveys
	{kRespondent, []op{{k: "opt", a: 0, b: 2, c: 1}, {k: "addpipe"}, {k: "addpipe"}, {k: "req", a: 1, b: 0}, {k: "req", a: 2, b: 0}, {k: "req", a: 2, b: 0},
		{k: "recv", a: 0}, {k: "send", a: 0}, {k: "recv", a: 0}, {k: "send", a: 0}, {k: "req", a: 1, b: 0}, {k: "req", a: 2, b: 1}, {k: "closesock"},
		{k: "send", a: 0}}},
	// closing a context while its Recv / its Send is blocked
	{kRep, []op{{k: "addpipe"}, {k: "openctx"}, {k: "hold", a: 1, b: 1}, {k: "req", a: 1, b: 0}, {k: "recv", a: 0}, {k: "send", a: 0}, {k: "req", a: 1, b: 0},
		{k: "recv", a: 1}, {k: "send", a: 1}, {k: "recv", a: 1}, {k: "closectx", a: 1}, {k: "release", a: 1, b: 1}, {k: "closesock"}, {k: "send", a: 0}}},
}

var rawScripts = []script{
	// two pipes: replies routed by the first header word, which is stripped; short / unknown headers vanish
	{kXRep, []op{{k: "addpipe"}, {k: "addpipe"}, {k: "req", a: 1, b: 0}, {k: "req", a: 2, b: 2}, {k: "recv"}, {k: "recv"}, {k: "send", b: 0}, {k: "send", b: 1, c: 1},
		{k: "send", b: 2}, {k: "send", b: 3}, {k: "drop", a: 1}, {k: "send", b: 1, c: 1}, {k: "send", b: 0}}},
	{kXRespondent, []op{{k: "addpipe"}, {k: "addpipe"}, {k: "req", a: 1, b: 1}, {k: "req", a: 2, b: 0}, {k: "recv"}, {k: "recv"}, {k: "send", b: 0}, {k: "send", b: 1, c: 1},
		{k: "send", b: 2}, {k: "send", b: 3}, {k: "drop", a: 2}, {k: "send", b: 0}, {k: "send", b: 1, c: 1}}},
	// unbuffered write queue, transport holding: the second reply blocks; the pipe goes: XREP reports closed, XRESPONDENT drops
	{kXRep, []op{{k: "opt", b: 1, c: 0}, {k: "addpipe"}, {k: "hold", a: 1, b: 1}, {k: "req", a: 1, b: 0}, {k: "recv"}, {k: "send", b: 0}, {k: "send", b: 0},
		{k: "drop", a: 1}, {k: "send", b: 0}}},
	{kXRespondent, []op{{k: "opt", b: 1, c: 0}, {k: "addpipe"}, {k: "hold", a: 1, b: 1}, {k: "req", a: 1, b: 0}, {k: "recv"}, {k: "send", b: 0}, {k: "send", b: 0},
		{k: "drop", a: 1}, {k: "send", b: 0}}},
	// hop limit in raw mode; the pipe id is put in front of the header
	{kXRep, []op{{k: "opt", b: 0, c: 12}, {k: "addpipe"}, {k: "req", a: 1, b: 10}, {k: "recv"}, {k: "send", b: 0}}},
	{kXRespondent, []op{{k: "opt", b: 0, c: 12}, {k: "addpipe"}, {k: "req", a: 1, b: 10}, {k: "recv"}, {k: "send", b: 0}}},
	{kXRep, []op{{k: "opt", b: 0, c: 2}, {k: "addpipe"}, {k: "req", a: 1, b: 2}, {k: "req", a: 1, b: 1}, {k: "recv"}, {k: "send", b: 0}, {k: "recv"}}},
	{kXRespondent, []op{{k: "opt", b: 0, c: 2}, {k: "addpipe"}, {k: "req", a: 1, b: 2}, {k: "req", a: 1, b: 1}, {k: "req", a: 1, b: -1}, {k: "recv"}, {k: "send", b: 0}, {k: "recv"}}},
	// a reply re-addressed to the other pipe goes there (the application owns the header in raw mode)
	{kXRep, []op{{k: "addpipe"}, {k: "addpipe"}, {k: "addpipe"}, {k: "req", a: 1, b: 0}, {k: "recv"}, {k: "send", b: 5}, {k: "send", b: 4}, {k: "closesock"}, {k: "send", b: 0},
		{k: "recv"}}},
	// read queue resized while a receiver holds a request: raw receivers give it up
	{kXRespondent, []op{{k: "opt", b: 2, c: 1}, {k: "addpipe"}, {k: "req", a: 1, b: 0}, {k: "req", a: 1, b: 0}, {k: "req", a: 1, b: 0}, {k: "opt", b: 2, c: 2},
		{k: "req", a: 1, b: 1}, {k: "recv"}, {k: "send", b: 0}, {k: "recv"}}},
}

func main() {
	l1run.HistType = "list (N * list step_rec)"
	l1run.Main(genRep)
}
