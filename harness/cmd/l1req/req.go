// l1req: REQ histories (see harness/l1run).
package main

import (
	"encoding/binary"
	"fmt"
	"math/rand"
	"os"
	"time"

	"mangosverif/l1run"
	"mangosverif/mp"
	"mangosverif/seq"

	"go.nanomsg.org/mangos/v3"
	"go.nanomsg.org/mangos/v3/protocol/req"
)

const (
	shortRetry = 100 // ms
	shortSend  = 60
	shortRecv  = 80
	passMs     = 140
	maxGapMs   = 25
)

type reqGen struct {
	r             *rand.Rand
	d             *seq.Driver
	timed         bool
	base          uint32
	haveB         bool
	nsend         int         // SendMsg calls so far
	lastID        map[int]int // ctx -> id of its latest Send call
	ids           []int       // all ids issued
	alive         map[int]bool
	hold          map[int]bool
	inflight      map[int]int
	nextPipe      int
	nextCtx       int
	nextCall      int
	closedCtx     map[int]bool
	sockClosed    bool
	lastReply     []byte
	lastReplyPipe int
	passes        int
	sincePass     time.Duration
}

func be32(v uint32) []byte { b := make([]byte, 4); binary.BigEndian.PutUint32(b, v); return b }

func (g *reqGen) real(k int) uint32 { return 0x80000000 | ((g.base + uint32(k)) & 0x7fffffff) }

var reqScriptIdx = map[bool]int{}
var resendBias = os.Getenv("L1_BIAS") == "resend"

func genReq(r *rand.Rand, timed bool) (string, string, string) {
	var script []op
	scripts := reqScripts
	if timed {
		scripts = reqTimedScripts
	}
	if i := reqScriptIdx[timed]; i < len(scripts) && l1run.ScriptsEnabled {
		script = scripts[i]
		reqScriptIdx[timed] = i + 1
	}
	p := req.NewProtocol()
	d := seq.NewDriver(p)
	g := &reqGen{r: r, d: d, timed: timed, lastID: map[int]int{}, alive: map[int]bool{}, hold: map[int]bool{}, inflight: map[int]int{},
		closedCtx: map[int]bool{}}
	d.CanonTx = func(pipe int, hdr, body []byte) ([]byte, []byte) {
		if len(hdr) == 4 && len(body) >= 2 {
			realID := binary.BigEndian.Uint32(hdr)
			n := uint32(binary.BigEndian.Uint16(body))
			if !g.haveB {
				g.base = (realID & 0x7fffffff) - n
				g.haveB = true
			}
			k := (realID - g.base) & 0x7fffffff
			return be32(0x80000000 | k), body
		}
		return hdr, body
	}
	d.CanonRet = func(hdr, body []byte) ([]byte, []byte) { return nil, body }
	if script != nil {
		for _, o := range script {
			if d.Bad == "" {
				g.apply(o)
			}
		}
	} else {
		nsteps := 12 + r.Intn(25)
		for i := 0; i < nsteps && d.Bad == ""; i++ {
			g.stepOnce()
		}
	}
	// release everything
	_ = p.Close()
	for _, pp := range d.Pipes {
		_ = pp.Close()
	}
	seq.Quiesce(500 * time.Millisecond)
	note := ""
	if d.Stuck {
		// a deadlock is an observation, not a reason to discard
		return d.Coq(), "", "STUCK: " + d.Bad
	}
	if d.Bad != "" {
		return "", d.Bad, ""
	}

	return d.Coq(), "", note
}

func (g *reqGen) ctxs() []int {
	var cs []int
	for c := 0; c <= g.nextCtx; c++ {
		if _, ok := g.d.Ctxs[c]; ok {
			cs = append(cs, c)
		}
	}
	return cs
}

func (g *reqGen) pickCtx() int { cs := g.ctxs(); return cs[g.r.Intn(len(cs))] }

func (g *reqGen) alivePipes() []int {
	var ps []int
	for p := 1; p <= g.nextPipe; p++ {
		if g.alive[p] {
			ps = append(ps, p)
		}
	}
	return ps
}

type op struct {
	k       string
	a, b, c int
}

// random choice of the next operation (returns false if the choice is not applicable now)
func (g *reqGen) choose() (op, bool) {
	r := g.r
	w := r.Intn(100)
	if resendBias && r.Intn(3) == 0 {
		// favour pipe loss, held sends and time passing
		w = []int{14, 14, 74, 74, 80, 80, 80, 99, 99, 93}[r.Intn(10)]
	}
	switch {
	case w < 12:
		return op{k: "addpipe"}, g.nextPipe < 3
	case w < 18:
		ps := g.alivePipes()
		if len(ps) == 0 {
			return op{}, false
		}
		return op{k: "drop", a: ps[r.Intn(len(ps))]}, true
	case w < 38:
		return op{k: "send", a: g.pickCtx()}, true
	case w < 52:
		return op{k: "recv", a: g.pickCtx()}, true
	case w < 72:
		ps := g.alivePipes()
		if len(ps) == 0 || (!g.haveB && r.Intn(3) != 0) {
			return op{}, false
		}
		return op{k: "reply", a: ps[r.Intn(len(ps))], b: r.Intn(20), c: g.pickCtx()}, true
	case w < 77:
		ps := g.alivePipes()
		if len(ps) == 0 {
			return op{}, false
		}
		n := ps[r.Intn(len(ps))]
		h := 0
		if !g.hold[n] {
			h = 1
		}
		return op{k: "hold", a: n, b: h}, true
	case w < 84:
		var cand []int
		for _, n := range g.alivePipes() {
			if g.d.Pipes[n].Pending() > 0 {
				cand = append(cand, n)
			}
		}
		if len(cand) == 0 {
			return op{}, false
		}
		ok := 1
		if r.Intn(4) == 0 {
			ok = 0
		}
		return op{k: "release", a: cand[r.Intn(len(cand))], b: ok}, true
	case w < 88:
		return op{k: "openctx"}, g.nextCtx < 2 && !g.sockClosed
	case w < 90:
		c := g.pickCtx()
		return op{k: "closectx", a: c}, c != 0
	case w < 91:
		return op{k: "closesock"}, true
	case w < 97:
		o := r.Intn(5)
		if resendBias && r.Intn(2) == 0 {
			o = 0
		}
		v := 0
		switch o {
		case 0:
			v = []int{0, 3600000, 3600000}[r.Intn(3)]
			if g.timed && r.Intn(2) == 0 {
				v = shortRetry
			}
		case 1:
			v = []int{0, 3600000}[r.Intn(2)]
			if g.timed && r.Intn(2) == 0 {
				v = shortSend
			}
		case 2:
			v = []int{0, 3600000}[r.Intn(2)]
			if g.timed && r.Intn(2) == 0 {
				v = shortRecv
			}
		default:
			v = r.Intn(2)
		}
		return op{k: "opt", a: g.pickCtx(), b: o, c: v}, true
	default:
		return op{k: "pass"}, g.timed && g.passes < 4
	}
}

func (g *reqGen) stepOnce() {
	for {
		if o, ok := g.choose(); ok {
			g.apply(o)
			return
		}
	}
}

// apply executes one operation and records the step.
func (g *reqGen) apply(o op) {
	r, d := g.r, g.d
	if g.timed && o.k != "pass" {
		d.Tick()
	}
	t0 := time.Now()
	switch o.k {
	case "addpipe":
		g.nextPipe++
		n := g.nextPipe
		pp := mp.NewPipe(uint32(1000+n), n, d.Proto, d.Rec)
		d.Pipes[n] = pp
		if err := pp.Attach(); err == nil {
			g.alive[n] = true
		}
		d.Finish(fmt.Sprintf("SAddPipe %d", n), nil, false, t0)
	case "drop":
		n := o.a
		g.alive[n] = false
		d.DropPipe(d.Pipes[n])
		d.Finish(fmt.Sprintf("SDropPipe %d", n), nil, false, t0)
	case "send":
		c := o.a
		g.nextCall++
		g.nsend++
		t, n := g.nextCall, g.nsend
		body := make([]byte, 3+r.Intn(3))
		r.Read(body)
		binary.BigEndian.PutUint16(body, uint16(n))
		g.lastID[c] = n
		g.ids = append(g.ids, n)
		ctx := d.Ctxs[c]
		d.Call(t, func() (*seq.Msg, error) {
			m := mangos.NewMessage(len(body))
			m.Body = append(m.Body, body...)
			err := ctx.SendMsg(m)
			if err != nil {
				m.Free()
			}
			return nil, err
		})
		d.Finish(fmt.Sprintf("SCall %d (CSend %d [] %s)", t, c, seq.B(body)), nil, false, t0)
	case "recv":
		c := o.a
		g.nextCall++
		t := g.nextCall
		ctx := d.Ctxs[c]
		d.Call(t, func() (*seq.Msg, error) {
			m, err := ctx.RecvMsg()
			if err != nil {
				return nil, err
			}
			r := &seq.Msg{Header: append([]byte{}, m.Header...), Body: append([]byte{}, m.Body...)}
			m.Free()
			return r, nil
		})
		d.Finish(fmt.Sprintf("SCall %d (CRecv %d)", t, c), nil, false, t0)
	case "reply":
		// o.b: kind (0 malformed, 1 duplicate, 2 foreign, 3 no request bit, 4..7 any issued id, else current of ctx o.c;
		//      100+k: exactly id k)
		n := o.a
		var canon, realb []byte
		payload := make([]byte, 3+r.Intn(2))
		r.Read(payload)
		tag := func(k int) []byte { binary.BigEndian.PutUint16(payload, uint16(k)); return payload }
		kind := o.b
		mk := func(k int, bit uint32) {
			canon = append(be32(bit|uint32(k)), tag(k)...)
			realb = append(be32((g.real(k)&0x7fffffff)|bit), tag(k)...)
		}
		switch {
		case kind >= 100:
			mk(kind-100, 0x80000000)
		case !g.haveB || kind == 0:
			if r.Intn(2) == 0 {
				// the literal word 0 (what a context without a request has as its id), then a payload
				canon = append([]byte{0, 0, 0, 0}, payload...)
			} else {
				canon = make([]byte, r.Intn(4))
				r.Read(canon)
			}
			realb = canon
		case kind == 1 && g.lastReply != nil:
			realb = g.lastReply
			canon = g.canonOf(realb)
		case kind == 2:
			mk(g.nsend+500+r.Intn(100), 0x80000000)
		case kind == 3 && len(g.ids) > 0:
			mk(g.ids[r.Intn(len(g.ids))], 0)
		case kind < 8 && len(g.ids) > 0:
			mk(g.ids[r.Intn(len(g.ids))], 0x80000000)
		default:
			k, ok := g.lastID[o.c]
			if !ok {
				k = g.nsend + 700
			}
			mk(k, 0x80000000)
		}
		g.lastReply = realb
		var extra []string
		if !d.Pipes[n].Inject(realb, 100*time.Millisecond) {
			extra = append(extra, fmt.Sprintf("ONotTaken %d", n))
		}
		d.Finish(fmt.Sprintf("SDeliver %d %s", n, seq.B(canon)), extra, false, t0)
	case "hold":
		g.hold[o.a] = o.b == 1
		d.Pipes[o.a].SetHold(o.b == 1)
		d.Finish(fmt.Sprintf("SHold %d %v", o.a, o.b == 1), nil, false, t0)
	case "release":
		n, ok := o.a, o.b == 1
		if !ok {
			g.alive[n] = false
			d.MarkHarnessClose(d.Pipes[n])
		}
		d.Pipes[n].Release(ok)
		d.Finish(fmt.Sprintf("SRelease %d %v", n, ok), nil, false, t0)
	case "openctx":
		g.nextCtx++
		c := g.nextCtx
		g.nextCall++
		t := g.nextCall
		ctx, err := d.Proto.OpenContext()
		if err == nil {
			d.Ctxs[c] = ctx
		}
		d.Call(t, func() (*seq.Msg, error) { return nil, err })
		d.Finish(fmt.Sprintf("SCall %d (COpenCtx %d)", t, c), nil, false, t0)
	case "closectx":
		g.nextCall++
		t := g.nextCall
		ctx := d.Ctxs[o.a]
		d.Call(t, func() (*seq.Msg, error) { return nil, ctx.Close() })
		d.Finish(fmt.Sprintf("SCall %d (CCloseCtx %d)", t, o.a), nil, false, t0)
	case "closesock":
		g.nextCall++
		t := g.nextCall
		g.sockClosed = true
		d.Call(t, func() (*seq.Msg, error) { return nil, d.Proto.Close() })
		d.Finish(fmt.Sprintf("SCall %d CCloseSock", t), nil, false, t0)
	case "opt":
		c := o.a
		g.nextCall++
		t := g.nextCall
		ctx := d.Ctxs[c]
		names := []string{mangos.OptionRetryTime, mangos.OptionSendDeadline, mangos.OptionRecvDeadline, mangos.OptionBestEffort, mangos.OptionFailNoPeers}
		coqs := []string{"ORetryTime", "OSendDeadline", "ORecvDeadline", "OBestEffort", "OFailNoPeers"}
		var val interface{}
		if o.b < 3 {
			val = time.Duration(o.c) * time.Millisecond
		} else {
			val = o.c == 1
		}
		name := names[o.b]
		d.Call(t, func() (*seq.Msg, error) { return nil, ctx.SetOption(name, val) })
		d.Finish(fmt.Sprintf("SCall %d (CSetOpt %d %s %d%%Z [])", t, c, coqs[o.b], o.c), nil, false, t0)
	case "pass":
		g.passes++
		d.NowMs()
		ms := passMs
		if o.a > 0 {
			ms = o.a
		}
		time.Sleep(time.Duration(ms) * time.Millisecond)
		d.Finish("SPass", nil, true, t0)
	}
}

// directed histories that run before the generated ones (minimised schedules of interest)
var reqScripts = [][]op{
	// a new Send while a Recv of the previous request is blocked; then a later request must not get the earlier reply
	{{k: "addpipe"}, {k: "send", a: 0}, {k: "recv", a: 0}, {k: "send", a: 0}, {k: "recv", a: 0}, {k: "send", a: 0},
		{k: "reply", a: 1, b: 102}, {k: "recv", a: 0}, {k: "reply", a: 1, b: 103}},
	{{k: "addpipe"}, {k: "send", a: 0}, {k: "recv", a: 0}, {k: "send", a: 0}, {k: "reply", a: 1, b: 102}, {k: "recv", a: 0}},
	// duplicate, stale and foreign replies
	{{k: "addpipe"}, {k: "addpipe"}, {k: "send", a: 0}, {k: "reply", a: 2, b: 101}, {k: "reply", a: 1, b: 101}, {k: "recv", a: 0},
		{k: "recv", a: 0}, {k: "send", a: 0}, {k: "reply", a: 1, b: 101}, {k: "recv", a: 0}, {k: "reply", a: 2, b: 102}},
	// pipe loss with the request in flight: resent on the other pipe, not on a third transmission
	{{k: "addpipe"}, {k: "hold", a: 1, b: 1}, {k: "send", a: 0}, {k: "addpipe"}, {k: "release", a: 1, b: 0}, {k: "recv", a: 0},
		{k: "reply", a: 2, b: 101}, {k: "addpipe"}},
	// retries disabled: losing the pipe cancels
	{{k: "opt", a: 0, b: 0, c: 0}, {k: "addpipe"}, {k: "addpipe"}, {k: "send", a: 0}, {k: "recv", a: 0}, {k: "drop", a: 1}, {k: "recv", a: 0}},
	// two contexts, replies crossed
	{{k: "addpipe"}, {k: "openctx"}, {k: "send", a: 0}, {k: "send", a: 1}, {k: "recv", a: 1}, {k: "reply", a: 1, b: 101}, {k: "recv", a: 0},
		{k: "reply", a: 1, b: 102}, {k: "reply", a: 1, b: 102}},
	// close while blocked
	{{k: "send", a: 0}, {k: "openctx"}, {k: "send", a: 1}, {k: "closectx", a: 1}, {k: "closesock"}, {k: "send", a: 0}, {k: "recv", a: 0}},
}

var reqTimedScripts = [][]op{
	// retry timer: retransmission after the interval, none after the reply
	{{k: "opt", a: 0, b: 0, c: shortRetry}, {k: "addpipe"}, {k: "send", a: 0}, {k: "pass"}, {k: "reply", a: 1, b: 101}, {k: "pass"}, {k: "recv", a: 0}},
	// deadlines
	{{k: "opt", a: 0, b: 1, c: shortSend}, {k: "opt", a: 0, b: 2, c: shortRecv}, {k: "send", a: 0}, {k: "pass"}, {k: "addpipe"}, {k: "send", a: 0},
		{k: "recv", a: 0}, {k: "pass"}, {k: "recv", a: 0}},
	// pipe loss then the first transmission's timer
	{{k: "opt", a: 0, b: 0, c: shortRetry}, {k: "addpipe"}, {k: "addpipe"}, {k: "send", a: 0}, {k: "drop", a: 1}, {k: "pass"}, {k: "pass"}},
	// a timer left over from an abandoned request must not re-send the next request early
	{{k: "opt", a: 0, b: 0, c: shortRetry}, {k: "addpipe"}, {k: "addpipe"}, {k: "send", a: 0}, {k: "drop", a: 1}, {k: "pass", a: 55},
		{k: "send", a: 0}, {k: "pass", a: 70}, {k: "pass", a: 60}},
	// answered during the retry interval: no retransmission afterwards; retry disabled later
	{{k: "opt", a: 0, b: 0, c: shortRetry}, {k: "addpipe"}, {k: "send", a: 0}, {k: "pass", a: 50}, {k: "reply", a: 1, b: 101}, {k: "pass", a: 80},
		{k: "recv", a: 0}, {k: "send", a: 0}, {k: "opt", a: 0, b: 0, c: 0}, {k: "pass", a: 130}},
}

func (g *reqGen) canonOf(realb []byte) []byte {
	if len(realb) < 4 || !g.haveB {
		return realb
	}
	id := binary.BigEndian.Uint32(realb)
	k := (id - g.base) & 0x7fffffff
	return append(be32((id&0x80000000)|k), realb[4:]...)
}

func main() { l1run.Main(genReq) }
