// c07race searches for the interleavings that the quiescence-granularity histories cannot reach: a survey's timer
// expiring at the very moment the next survey is started on the same context (sweeping the offset around the expiry
// while other goroutines keep the socket mutex busy).  Whatever the order, once SendMsg for the new survey has
// returned, Recv must treat it as the current, live survey: it may time out (RECV-DEADLINE), it may return a response
// to the new survey, it must not report "no survey in progress" and must not return a response to the old one.
package main

import (
	"fmt"
	"os"
	"sync"
	"time"

	"mangosverif/coqgen"
	"mangosverif/mp"

	"go.nanomsg.org/mangos/v3"
	"go.nanomsg.org/mangos/v3/protocol"
	"go.nanomsg.org/mangos/v3/protocol/surveyor"
)

func sweep(budget time.Duration, ctxMode bool) (iters, protoState, stale, other int) {
	p := surveyor.NewProtocol()
	defer p.Close()
	rec := &mp.Recorder{}
	pipe := mp.NewPipe(1, 0, p, rec)
	if err := pipe.Attach(); err != nil {
		return 0, 0, 0, 1
	}
	defer pipe.Close()
	var c protocol.Context = nil
	send := func(m *mangos.Message) error { return p.SendMsg(m) }
	recv := func() (*mangos.Message, error) { return p.RecvMsg() }
	setopt := func(n string, v interface{}) error { return p.SetOption(n, v) }
	if ctxMode {
		cc, err := p.OpenContext()
		if err != nil {
			return 0, 0, 0, 1
		}
		c = cc
		send, recv, setopt = c.SendMsg, c.RecvMsg, c.SetOption
	}
	stop := make(chan struct{})
	var wg sync.WaitGroup
	for i := 0; i < 4; i++ {
		wg.Add(1)
		go func() {
			defer wg.Done()
			for {
				select {
				case <-stop:
					return
				default:
				}
				_, _ = p.GetOption(mangos.OptionWriteQLen)
			}
		}()
	}
	_ = setopt(mangos.OptionRecvDeadline, time.Millisecond)
	const short = 2 * time.Millisecond
	deadline := time.Now().Add(budget)
	for time.Now().Before(deadline) {
		iters++
		off := time.Duration(iters%400-200) * time.Microsecond / 2 // +-100us around the expiry
		_ = setopt(mangos.OptionSurveyTime, short)
		start := time.Now()
		m := mangos.NewMessage(8)
		m.Body = append(m.Body, "one"...)
		if send(m) != nil {
			other++
			continue
		}
		_ = setopt(mangos.OptionSurveyTime, 10*time.Second)
		for time.Since(start) < short+off {
		}
		m = mangos.NewMessage(8)
		m.Body = append(m.Body, "two"...)
		if send(m) != nil {
			other++
			continue
		}
		// the id of survey "two": the header of the frame the mock pipe is given for it
		var id2 []byte
		if iters%3 == 0 {
			for t0 := time.Now(); id2 == nil && time.Since(t0) < 5*time.Millisecond; {
				for _, tx := range rec.TakeTx() {
					if string(tx.Body) == "two" && len(tx.Header) >= 4 {
						id2 = append([]byte{}, tx.Header[:4]...)
					}
				}
			}
		} else {
			rec.TakeTx()
		}
		// now and then a respondent answers the new survey at once
		if iters%3 == 0 && id2 != nil {
			pipe.Inject(append(append([]byte{}, id2...), "ans"...), 50*time.Millisecond)
		}
		r, e := recv()
		switch {
		case e == mangos.ErrProtoState:
			protoState++
		case e == nil:
			if string(r.Body) != "ans" {
				stale++
			}
			r.Free()
		case e == mangos.ErrRecvTimeout:
		default:
			other++
		}
	}
	close(stop)
	wg.Wait()
	return
}

// closeRecv: a context with a response already queued is closed and Recv is called at once (before the library's
// own clean-up goroutine has run): the closed context must not hand out the response.
func closeRecv(rounds int) (iters, delivered, other int) {
	p := surveyor.NewProtocol()
	defer p.Close()
	rec := &mp.Recorder{}
	pipe := mp.NewPipe(1, 0, p, rec)
	if err := pipe.Attach(); err != nil {
		return 0, 0, 1
	}
	defer pipe.Close()
	for i := 0; i < rounds; i++ {
		c, err := p.OpenContext()
		if err != nil {
			other++
			continue
		}
		_ = c.SetOption(mangos.OptionSurveyTime, 10*time.Second)
		_ = c.SetOption(mangos.OptionRecvDeadline, 20*time.Millisecond)
		rec.TakeTx()
		m := mangos.NewMessage(8)
		m.Body = append(m.Body, "cr"...)
		if c.SendMsg(m) != nil {
			other++
			_ = c.Close()
			continue
		}
		var id []byte
		for t0 := time.Now(); id == nil && time.Since(t0) < 20*time.Millisecond; {
			for _, tx := range rec.TakeTx() {
				if string(tx.Body) == "cr" && len(tx.Header) >= 4 {
					id = append([]byte{}, tx.Header[:4]...)
				}
			}
		}
		if id == nil {
			other++
			_ = c.Close()
			continue
		}
		pipe.Inject(append(append([]byte{}, id...), "ans"...), 50*time.Millisecond)
		time.Sleep(300 * time.Microsecond) // the response is in the survey's queue now
		iters++
		_ = c.Close()
		if r, e := c.RecvMsg(); e == nil {
			delivered++
			r.Free()
		}
	}
	return
}

func main() {
	if len(os.Args) < 2 {
		fmt.Fprintln(os.Stderr, "usage: c07race <out.v>")
		os.Exit(2)
	}
	budget := 1500 * time.Millisecond
	if coqgen.Thorough() {
		budget = 15 * time.Second
	}
	coqgen.Watchdog(4*budget + time.Minute)
	w := coqgen.Create(os.Args[1])
	defer w.Close()
	var items []string
	for _, ctx := range []bool{false, true} {
		it, ps, st, ot := sweep(budget, ctx)
		items = append(items, fmt.Sprintf("(%s, %d, %d, %d, %d)", coqgen.Bool(ctx), it, ps, st, ot))
	}
	w.Def("race_cases", "list (bool * N * N * N * N)", items)
	rounds := 300
	if coqgen.Thorough() {
		rounds = 3000
	}
	it, dl, ot := closeRecv(rounds)
	w.Def("closerecv_cases", "list (N * N * N)", []string{fmt.Sprintf("(%d, %d, %d)", it, dl, ot)})
}
