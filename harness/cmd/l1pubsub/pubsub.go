// l1pubsub: SUB / XSUB / PUB / XPUB histories (see harness/l1run).  Every history starts with the marker step
// `SCall 0 (CSetOpt 0 OTtl <kind> [])` (not an API call) that tells the Coq side which machine to run.
package main

import (
	"fmt"
	"math/rand"
	"time"

	"mangosverif/coqgen"
	"mangosverif/l1run"
	"mangosverif/mp"
	"mangosverif/seq"

	"go.nanomsg.org/mangos/v3"
	"go.nanomsg.org/mangos/v3/protocol/pub"
	"go.nanomsg.org/mangos/v3/protocol/sub"
	"go.nanomsg.org/mangos/v3/protocol/xpub"
	"go.nanomsg.org/mangos/v3/protocol/xsub"
)

const (
	kSub = 1 + iota
	kXSub
	kPub
	kXPub
)

const (
	shortRecvA = 60 // ms
	shortRecvB = 85
	passMs     = 140
	maxGapMs   = 12
)

type op struct {
	k       string
	a, b, c int
	s, h    []byte
}

type psGen struct {
	r          *rand.Rand
	d          *seq.Driver
	timed      bool
	kind       int
	alive      map[int]bool
	hold       map[int]bool
	nextPipe   int
	nextCtx    int
	nextCall   int
	closedCtx  map[int]bool
	sockClosed bool
	subs       map[int][][]byte
	pseq       map[int]int // per pipe: messages delivered so far
	nsent      int
	recvCtx    map[int]int // Recv call -> context
	qlen       map[int]int // context -> READQ-LEN as set through the harness (0 = never set)
	passes     int
}

var scriptIdx = map[bool]int{}

// poisoned: a history of this process ended with goroutines parked on a mutex (reported as STUCK). They stay
// parked, so quiescence detection can no longer tell later histories apart: the worker produces nothing more.
var poisoned bool

func newProto(kind int) mangos.ProtocolBase {
	switch kind {
	case kSub:
		return sub.NewProtocol()
	case kXSub:
		return xsub.NewProtocol()
	case kPub:
		return pub.NewProtocol()
	}
	return xpub.NewProtocol()
}

func genPS(r *rand.Rand, timed bool) (string, string, string) {
	if poisoned {
		return "", "process poisoned by an earlier deadlock", ""
	}
	var script *scriptT
	scripts := psScripts
	if timed {
		scripts = psTimedScripts
	}
	if i := scriptIdx[timed]; i < len(scripts) && l1run.ScriptsEnabled {
		script = &scripts[i]
		scriptIdx[timed] = i + 1
	}
	kind := 0
	switch {
	case script != nil:
		kind = script.kind
	case timed:
		kind = []int{kSub, kSub, kSub, kXSub}[r.Intn(4)]
	default:
		kind = []int{kSub, kSub, kSub, kSub, kSub, kSub, kXSub, kXSub, kPub, kPub, kPub, kXPub}[r.Intn(12)]
	}
	p := newProto(kind)
	d := seq.NewDriver(p)
	d.Steps = append(d.Steps, seq.Step{Stim: fmt.Sprintf("SCall 0 (CSetOpt 0 OTtl %d%%Z [])", kind)})
	g := &psGen{r: r, d: d, timed: timed, kind: kind, alive: map[int]bool{}, hold: map[int]bool{}, closedCtx: map[int]bool{},
		subs: map[int][][]byte{}, pseq: map[int]int{}, recvCtx: map[int]int{}, qlen: map[int]int{}}
	switch {
	case script != nil:
		for _, o := range script.ops {
			if d.Bad == "" {
				g.apply(o)
			}
		}
	default:
		g.prologue()
		nsteps := 14 + r.Intn(28)
		for i := 0; i < nsteps && d.Bad == ""; i++ {
			g.stepOnce()
		}
	}
	// release everything (a deadlocked socket would also block Close)
	if d.Stuck {
		poisoned = true
		go func() { _ = p.Close() }()
	} else {
		_ = p.Close()
		for _, pp := range d.Pipes {
			_ = pp.Close()
		}
	}
	seq.Quiesce(500 * time.Millisecond)
	if d.Stuck {
		return d.Coq(), "", "STUCK: " + d.Bad
	}
	if d.Bad != "" {
		return "", d.Bad, ""
	}
	if timed && d.MaxGap > maxGapMs*time.Millisecond {
		return "", "slow step", ""
	}
	return d.Coq(), "", ""
}

// ---- byte strings: a tiny alphabet, so that equal / prefix-of-each-other / empty topics are frequent ----

var alphabet = []byte{'a', 'a', 'b', 'b', 0x00, 0xff, 'c'}

func (g *psGen) topic() []byte {
	n := []int{0, 1, 1, 1, 2, 2, 2, 3, 3}[g.r.Intn(9)]
	t := make([]byte, n)
	for i := range t {
		t[i] = alphabet[g.r.Intn(len(alphabet))]
	}
	return t
}

func (g *psGen) allSubs() [][]byte {
	var l [][]byte
	for c := 0; c <= g.nextCtx; c++ {
		l = append(l, g.subs[c]...)
	}
	return l
}

// body = topic-ish prefix + tag (pipe, per-pipe sequence number); the tag's first byte is outside the alphabet
func (g *psGen) body(pipe int) []byte {
	r := g.r
	var pre []byte
	if l := g.allSubs(); len(l) > 0 && r.Intn(2) == 0 {
		pre = append(pre, l[r.Intn(len(l))]...)
		switch r.Intn(4) {
		case 0:
			if len(pre) > 0 {
				pre = pre[:len(pre)-1] // one byte short of the topic
			}
		case 1:
			pre = append(pre, alphabet[r.Intn(len(alphabet))])
		}
	} else {
		pre = g.topic()
	}
	g.pseq[pipe]++
	if r.Intn(12) == 0 {
		return pre // no tag: empty bodies, bodies equal to a topic
	}
	return append(pre, byte(0x80|pipe), byte(g.pseq[pipe]))
}

func (g *psGen) ctxs(open bool) []int {
	var cs []int
	for c := 0; c <= g.nextCtx; c++ {
		if _, ok := g.d.Ctxs[c]; ok && !(open && (g.closedCtx[c] || g.sockClosed)) {
			cs = append(cs, c)
		}
	}
	return cs
}

func (g *psGen) pickCtx() int {
	cs := g.ctxs(true)
	if len(cs) == 0 || g.r.Intn(10) == 0 {
		cs = g.ctxs(false)
	}
	return cs[g.r.Intn(len(cs))]
}

func (g *psGen) alivePipes() []int {
	var ps []int
	for p := 1; p <= g.nextPipe; p++ {
		if g.alive[p] {
			ps = append(ps, p)
		}
	}
	return ps
}

func (g *psGen) blockedOn(c int) bool {
	if n := len(g.d.Steps); n > 0 {
		for _, t := range g.d.Steps[n-1].Blocked {
			if cc, ok := g.recvCtx[t]; ok && cc == c {
				return true
			}
		}
	}
	return false
}

// most generated histories start with a small queue so that overflow happens
func (g *psGen) prologue() {
	r := g.r
	switch g.kind {
	case kSub:
		if r.Intn(4) != 0 {
			g.apply(op{k: "qlen", a: 0, c: 1 + r.Intn(4)})
		}
		for i := r.Intn(3); i > 0; i-- {
			g.apply(op{k: "openctx"})
		}
		g.apply(op{k: "addpipe"})
	case kXSub:
		if r.Intn(4) != 0 {
			g.apply(op{k: "qlen", a: 0, c: r.Intn(5)})
		}
		g.apply(op{k: "addpipe"})
	default:
		if r.Intn(5) != 0 {
			g.apply(op{k: "wqlen", c: r.Intn(4)})
		}
		g.apply(op{k: "addpipe"})
	}
}

// timed histories: favour deadlines, Recv calls that wait for them, and sleeps
func (g *psGen) timedBias(w int) int {
	if g.timed && g.r.Intn(3) == 0 {
		return []int{93, 93, 40, 45, 50, 99, 99}[g.r.Intn(7)]
	}
	return w
}

func (g *psGen) chooseSub() (op, bool) {
	r := g.r
	w := g.timedBias(r.Intn(100))
	switch {
	case w < 7:
		return op{k: "addpipe"}, g.nextPipe < 3
	case w < 37:
		ps := g.alivePipes()
		if len(ps) == 0 {
			return op{}, false
		}
		return op{k: "deliver", a: ps[r.Intn(len(ps))]}, true
	case w < 57:
		c := g.pickCtx()
		return op{k: "recv", a: c}, !g.blockedOn(c)
	case w < 70:
		return op{k: "sub", a: g.pickCtx(), s: g.topic(), b: r.Intn(2)}, true
	case w < 79:
		c := g.pickCtx()
		t := g.topic()
		if l := g.subs[c]; len(l) > 0 && r.Intn(5) != 0 {
			t = l[r.Intn(len(l))]
		}
		return op{k: "unsub", a: c, s: t, b: r.Intn(2)}, true
	case w < 83:
		return op{k: "openctx"}, g.nextCtx < 2
	case w < 88:
		// 0: rendezvous only (what no parked Recv takes is dropped); < 0: ErrBadValue
		v := []int{0, 1, 1, 2, 2, 3, 4}[r.Intn(7)]
		if r.Intn(12) == 0 {
			v = -1 - r.Intn(3)
		}
		return op{k: "qlen", a: g.pickCtx(), c: v}, true
	case w < 89:
		c := g.pickCtx()
		return op{k: "closectx", a: c}, c != 0
	case w < 90:
		return op{k: "closesock"}, r.Intn(2) == 0
	case w < 92:
		ps := g.alivePipes()
		if len(ps) == 0 {
			return op{}, false
		}
		return op{k: "drop", a: ps[r.Intn(len(ps))]}, true
	case w < 95:
		v := []int{0, 3600000, -5}[r.Intn(3)]
		if g.timed && r.Intn(3) != 0 {
			v = []int{shortRecvA, shortRecvB}[r.Intn(2)]
		}
		return op{k: "rdl", a: g.pickCtx(), c: v}, true
	case w < 96:
		return op{k: "badopt", a: g.pickCtx(), b: r.Intn(3)}, true
	case w < 97:
		return op{k: "send", s: g.topic()}, true
	default:
		return op{k: "pass"}, g.timed && g.passes < 4
	}
}

func (g *psGen) chooseXSub() (op, bool) {
	r := g.r
	w := r.Intn(100)
	if g.timed && r.Intn(3) == 0 {
		w = []int{85, 85, 50, 55, 60, 99, 99}[r.Intn(7)]
	}
	switch {
	case w < 8:
		return op{k: "addpipe"}, g.nextPipe < 3
	case w < 45:
		ps := g.alivePipes()
		if len(ps) == 0 {
			return op{}, false
		}
		return op{k: "deliver", a: ps[r.Intn(len(ps))]}, true
	case w < 70:
		return op{k: "recv", a: 0}, !g.blockedOn(0)
	case w < 78:
		v := r.Intn(5)
		if r.Intn(10) == 0 {
			v = -1
		}
		return op{k: "qlen", a: 0, c: v}, true
	case w < 80:
		return op{k: "closesock"}, r.Intn(2) == 0
	case w < 83:
		ps := g.alivePipes()
		if len(ps) == 0 {
			return op{}, false
		}
		return op{k: "drop", a: ps[r.Intn(len(ps))]}, true
	case w < 88:
		v := []int{0, 3600000, -5}[r.Intn(3)]
		if g.timed && r.Intn(3) != 0 {
			v = []int{shortRecvA, shortRecvB}[r.Intn(2)]
		}
		return op{k: "rdl", a: 0, c: v}, true
	case w < 91:
		return op{k: "sub", a: 0, s: g.topic()}, true // not an XSUB option
	case w < 93:
		return op{k: "badopt", a: 0, b: r.Intn(3)}, true
	case w < 95:
		return op{k: "openctx"}, true
	case w < 96:
		return op{k: "send", s: g.topic()}, true
	default:
		return op{k: "pass"}, g.timed && g.passes < 4
	}
}

func (g *psGen) choosePub() (op, bool) {
	r := g.r
	w := r.Intn(100)
	switch {
	case w < 10:
		return op{k: "addpipe"}, g.nextPipe < 3
	case w < 50:
		o := op{k: "send", s: g.topic()}
		if g.kind == kXPub && r.Intn(2) == 0 {
			o.h = g.topic()
		}
		return o, true
	case w < 60:
		ps := g.alivePipes()
		if len(ps) == 0 {
			return op{}, false
		}
		n := ps[r.Intn(len(ps))]
		h := 0
		if !g.hold[n] {
			h = 1
		}
		return op{k: "hold", a: n, b: h}, true
	case w < 75:
		var cand []int
		for _, n := range g.alivePipes() {
			if g.d.Pipes[n].Pending() > 0 {
				cand = append(cand, n)
			}
		}
		if len(cand) == 0 {
			return op{}, false
		}
		ok := 1
		if r.Intn(5) == 0 {
			ok = 0
		}
		return op{k: "release", a: cand[r.Intn(len(cand))], b: ok}, true
	case w < 82:
		v := r.Intn(4)
		if r.Intn(8) == 0 {
			v = -1
		}
		return op{k: "wqlen", c: v}, true
	case w < 86:
		ps := g.alivePipes()
		if len(ps) == 0 {
			return op{}, false
		}
		return op{k: "drop", a: ps[r.Intn(len(ps))]}, true
	case w < 88:
		return op{k: "closesock"}, r.Intn(2) == 0
	case w < 91:
		return op{k: "recv", a: 0}, true
	case w < 93:
		return op{k: "openctx"}, true
	case w < 96:
		ps := g.alivePipes()
		if len(ps) == 0 {
			return op{}, false
		}
		return op{k: "deliver", a: ps[r.Intn(len(ps))]}, true
	default:
		return op{k: "badopt", a: 0, b: r.Intn(3)}, true
	}
}

func (g *psGen) stepOnce() {
	for {
		var o op
		var ok bool
		switch g.kind {
		case kSub:
			o, ok = g.chooseSub()
		case kXSub:
			o, ok = g.chooseXSub()
		default:
			o, ok = g.choosePub()
		}
		if ok {
			g.apply(o)
			return
		}
	}
}

// guard turns a panic of the API call into an error value
func guard(fn func() error) func() (*seq.Msg, error) {
	return func() (m *seq.Msg, err error) {
		defer func() {
			if x := recover(); x != nil {
				m, err = nil, seq.ErrPanic
			}
		}()
		return nil, fn()
	}
}

func topicVal(s []byte, asString int) interface{} {
	if asString == 1 {
		return string(s)
	}
	return append([]byte{}, s...)
}

func (g *psGen) setopt(c int, coqName string, v int, arg []byte, name string, val interface{}) {
	d := g.d
	g.nextCall++
	t := g.nextCall
	ctx := d.Ctxs[c]
	t0 := time.Now()
	d.Call(t, guard(func() error { return ctx.SetOption(name, val) }))
	d.Finish(fmt.Sprintf("SCall %d (CSetOpt %d %s %s %s)", t, c, coqName, coqgen.Z(int64(v)), seq.B(arg)), nil, false, t0)
}

func containsB(l [][]byte, s []byte) int {
	for i, x := range l {
		if string(x) == string(s) {
			return i
		}
	}
	return -1
}

// apply executes one operation and records the step.
func (g *psGen) apply(o op) {
	d := g.d
	if g.timed && o.k != "pass" {
		d.Tick()
	}
	t0 := time.Now()
	switch o.k {
	case "addpipe":
		g.nextPipe++
		n := g.nextPipe
		pp := mp.NewPipe(uint32(1000+n), n, d.Proto, d.Rec)
		d.Pipes[n] = pp
		// AddPipe takes the socket lock: run it aside so that a deadlocked socket cannot hang the driver
		done := make(chan error, 1)
		go func() { done <- pp.Attach() }()
		d.Finish(fmt.Sprintf("SAddPipe %d", n), nil, false, t0)
		select {
		case err := <-done:
			g.alive[n] = err == nil
		default:
			d.Stuck, d.Bad = true, "AddPipe did not return"
		}
	case "drop":
		n := o.a
		g.alive[n] = false
		d.DropPipe(d.Pipes[n])
		d.Finish(fmt.Sprintf("SDropPipe %d", n), nil, false, t0)
	case "deliver":
		n := o.a
		body := o.s
		if body == nil {
			body = g.body(n)
		}
		var extra []string
		if !d.Pipes[n].Inject(body, 100*time.Millisecond) {
			extra = append(extra, fmt.Sprintf("ONotTaken %d", n))
		}
		d.Finish(fmt.Sprintf("SDeliver %d %s", n, seq.B(body)), extra, false, t0)
	case "recv":
		c := o.a
		g.nextCall++
		t := g.nextCall
		g.recvCtx[t] = c
		ctx := d.Ctxs[c]
		d.Call(t, func() (*seq.Msg, error) {
			m, err := ctx.RecvMsg()
			if err != nil {
				return nil, err
			}
			r := &seq.Msg{Header: append([]byte{}, m.Header...), Body: append([]byte{}, m.Body...)}
			// the application owns the message now: scribbling on it must not show anywhere else
			for i := range m.Body {
				m.Body[i] = 0xEE
			}
			m.Free()
			return r, nil
		})
		d.Finish(fmt.Sprintf("SCall %d (CRecv %d)", t, c), nil, false, t0)
	case "send":
		g.nextCall++
		g.nsent++
		t := g.nextCall
		body := append(append([]byte{}, o.s...), 0x90, byte(g.nsent))
		hdr := o.h
		d.Call(t, func() (*seq.Msg, error) {
			m := mangos.NewMessage(len(body))
			m.Body = append(m.Body, body...)
			m.Header = append(m.Header, hdr...)
			err := d.Proto.SendMsg(m)
			if err != nil {
				m.Free()
			}
			return nil, err
		})
		d.Finish(fmt.Sprintf("SCall %d (CSend 0 %s %s)", t, seq.B(hdr), seq.B(body)), nil, false, t0)
	case "sub":
		if i := containsB(g.subs[o.a], o.s); i < 0 && g.kind == kSub {
			g.subs[o.a] = append(g.subs[o.a], o.s)
		}
		g.setopt(o.a, "OSubscribe", 0, o.s, mangos.OptionSubscribe, topicVal(o.s, o.b))
	case "unsub":
		if i := containsB(g.subs[o.a], o.s); i >= 0 {
			g.subs[o.a] = append(append([][]byte{}, g.subs[o.a][:i]...), g.subs[o.a][i+1:]...)
		}
		g.setopt(o.a, "OUnsubscribe", 0, o.s, mangos.OptionUnsubscribe, topicVal(o.s, o.b))
	case "qlen":
		g.setopt(o.a, "OReadQLen", o.c, nil, mangos.OptionReadQLen, o.c)
	case "wqlen":
		g.setopt(0, "OWriteQLen", o.c, nil, mangos.OptionWriteQLen, o.c)
	case "rdl":
		g.setopt(o.a, "ORecvDeadline", o.c, nil, mangos.OptionRecvDeadline, time.Duration(o.c)*time.Millisecond)
	case "badopt":
		// options these protocols do not have
		switch o.b {
		case 0:
			if g.kind == kSub || g.kind == kXSub {
				g.setopt(o.a, "OWriteQLen", 2, nil, mangos.OptionWriteQLen, 2)
			} else {
				g.setopt(o.a, "OReadQLen", 2, nil, mangos.OptionReadQLen, 2)
			}
		case 1:
			g.setopt(o.a, "ORetryTime", 100, nil, mangos.OptionRetryTime, 100*time.Millisecond)
		default:
			if g.kind == kSub || g.kind == kXSub {
				g.setopt(o.a, "OBestEffort", 1, nil, mangos.OptionBestEffort, true)
			} else {
				g.setopt(o.a, "OSubscribe", 0, []byte("a"), mangos.OptionSubscribe, []byte("a"))
			}
		}
	case "hold":
		g.hold[o.a] = o.b == 1
		d.Pipes[o.a].SetHold(o.b == 1)
		d.Finish(fmt.Sprintf("SHold %d %v", o.a, o.b == 1), nil, false, t0)
	case "release":
		n, ok := o.a, o.b == 1
		if !ok {
			g.alive[n] = false
			d.MarkHarnessClose(d.Pipes[n])
		}
		d.Pipes[n].Release(ok)
		d.Finish(fmt.Sprintf("SRelease %d %v", n, ok), nil, false, t0)
	case "openctx":
		c := g.nextCtx + 1
		g.nextCall++
		t := g.nextCall
		type res struct {
			ctx mangos.ProtocolContext
			err error
		}
		done := make(chan res, 1)
		d.Call(t, func() (*seq.Msg, error) {
			ctx, err := d.Proto.OpenContext()
			done <- res{ctx, err}
			return nil, err
		})
		d.Finish(fmt.Sprintf("SCall %d (COpenCtx %d)", t, c), nil, false, t0)
		select {
		case x := <-done:
			if x.err == nil {
				g.nextCtx = c
				d.Ctxs[c] = x.ctx
			}
		default: // parked: Finish has recorded it as blocked / stuck
		}
	case "closectx":
		g.nextCall++
		t := g.nextCall
		g.closedCtx[o.a] = true
		ctx := d.Ctxs[o.a]
		d.Call(t, func() (*seq.Msg, error) { return nil, ctx.Close() })
		d.Finish(fmt.Sprintf("SCall %d (CCloseCtx %d)", t, o.a), nil, false, t0)
	case "closesock":
		g.nextCall++
		t := g.nextCall
		g.sockClosed = true
		d.Call(t, func() (*seq.Msg, error) { return nil, d.Proto.Close() })
		d.Finish(fmt.Sprintf("SCall %d CCloseSock", t), nil, false, t0)
	case "pass":
		g.passes++
		d.NowMs()
		ms := passMs
		if o.a > 0 {
			ms = o.a
		}
		time.Sleep(time.Duration(ms) * time.Millisecond)
		d.Finish("SPass", nil, true, t0)
	}
}

// ---- directed histories (run before the generated ones): minimal schedules for each behaviour C06 names ----

type scriptT struct {
	kind int
	ops  []op
}

func b(s string) []byte { return []byte(s) }

var psScripts = []scriptT{
	// prefix, equal, longer-than-body, empty body; nothing without a subscription; a sentinel closes each probe
	{kSub, []op{{k: "addpipe"}, {k: "recv", a: 0}, {k: "deliver", a: 1, s: b("a1")}, {k: "deliver", a: 1, s: b("")},
		{k: "sub", a: 0, s: b("ab")}, {k: "deliver", a: 1, s: b("a")}, {k: "deliver", a: 1, s: b("b")}, {k: "deliver", a: 1, s: b("ba")},
		{k: "deliver", a: 1, s: b("ab")}, {k: "deliver", a: 1, s: b("abc")}, {k: "deliver", a: 1, s: b("aab")}, {k: "recv", a: 0}, {k: "recv", a: 0}}},
	// the empty subscription matches everything, also the empty body; removing it matches nothing again
	{kSub, []op{{k: "addpipe"}, {k: "sub", a: 0, s: b("")}, {k: "deliver", a: 1, s: b("")}, {k: "deliver", a: 1, s: b("\xff\x00")},
		{k: "deliver", a: 1, s: b("zz")}, {k: "recv", a: 0}, {k: "recv", a: 0}, {k: "unsub", a: 0, s: b("")}, {k: "recv", a: 0},
		{k: "deliver", a: 1, s: b("q")}, {k: "sub", a: 0, s: b("q"), b: 1}, {k: "deliver", a: 1, s: b("q!")}}},
	// Unsubscribe prunes the queue: only what still matches stays, in order
	{kSub, []op{{k: "qlen", a: 0, c: 4}, {k: "addpipe"}, {k: "sub", a: 0, s: b("a")}, {k: "sub", a: 0, s: b("ab")},
		{k: "deliver", a: 1, s: b("a1")}, {k: "deliver", a: 1, s: b("ab2")}, {k: "deliver", a: 1, s: b("b3")}, {k: "deliver", a: 1, s: b("ab4")},
		{k: "unsub", a: 0, s: b("a")}, {k: "recv", a: 0}, {k: "recv", a: 0}, {k: "recv", a: 0}, {k: "deliver", a: 1, s: b("a5")}, {k: "deliver", a: 1, s: b("ab6")}}},
	// overflow drops the oldest
	{kSub, []op{{k: "qlen", a: 0, c: 2}, {k: "addpipe"}, {k: "sub", a: 0, s: b("")}, {k: "deliver", a: 1, s: b("m1")}, {k: "deliver", a: 1, s: b("m2")},
		{k: "deliver", a: 1, s: b("m3")}, {k: "recv", a: 0}, {k: "recv", a: 0}, {k: "recv", a: 0}, {k: "deliver", a: 1, s: b("m4")}}},
	// contexts are independent: subscriptions, queues, queue lengths, unsubscribe, close
	{kSub, []op{{k: "qlen", a: 0, c: 3}, {k: "openctx"}, {k: "openctx"}, {k: "addpipe"}, {k: "addpipe"}, {k: "sub", a: 0, s: b("a")}, {k: "sub", a: 1, s: b("b")},
		{k: "sub", a: 2, s: b("a")}, {k: "deliver", a: 1, s: b("a1")}, {k: "deliver", a: 2, s: b("b2")}, {k: "deliver", a: 1, s: b("ab3")}, {k: "deliver", a: 2, s: b("ba4")},
		{k: "unsub", a: 0, s: b("a")}, {k: "qlen", a: 2, c: 1}, {k: "recv", a: 1}, {k: "recv", a: 1}, {k: "recv", a: 0}, {k: "recv", a: 2},
		{k: "deliver", a: 2, s: b("a5")}, {k: "closectx", a: 1}, {k: "deliver", a: 1, s: b("b6")}, {k: "recv", a: 1}, {k: "deliver", a: 1, s: b("a7")}}},
	// non-UTF8 topics, topics that are prefixes of each other, duplicates, absent topic
	{kSub, []op{{k: "addpipe"}, {k: "sub", a: 0, s: b("\xff")}, {k: "sub", a: 0, s: b("\xff\x00")}, {k: "sub", a: 0, s: b("\xff")}, {k: "sub", a: 0, s: b("\x00"), b: 1},
		{k: "deliver", a: 1, s: b("\xff\x00\x01")}, {k: "deliver", a: 1, s: b("\x00\xff")}, {k: "deliver", a: 1, s: b("\xfe")}, {k: "unsub", a: 0, s: b("\xff")},
		{k: "unsub", a: 0, s: b("\xff")}, {k: "unsub", a: 0, s: b("a")}, {k: "recv", a: 0}, {k: "recv", a: 0}, {k: "deliver", a: 1, s: b("\xff\x01")}, {k: "recv", a: 0},
		{k: "deliver", a: 1, s: b("\xff\x00")}}},
	// three publishers: each one's order is kept
	{kSub, []op{{k: "addpipe"}, {k: "addpipe"}, {k: "addpipe"}, {k: "sub", a: 0, s: b("t")}, {k: "deliver", a: 1, s: b("t11")}, {k: "deliver", a: 2, s: b("t21")},
		{k: "deliver", a: 1, s: b("t12")}, {k: "deliver", a: 3, s: b("u31")}, {k: "deliver", a: 3, s: b("t32")}, {k: "deliver", a: 2, s: b("t22")},
		{k: "recv", a: 0}, {k: "recv", a: 0}, {k: "recv", a: 0}, {k: "recv", a: 0}, {k: "recv", a: 0}, {k: "recv", a: 0}, {k: "drop", a: 2}, {k: "deliver", a: 2, s: b("t23")}, {k: "deliver", a: 1, s: b("t13")}}},
	// READQ-LEN 0 with a Recv already parked is a rendezvous; READQ-LEN < 0 panics in make(chan)
	{kSub, []op{{k: "addpipe"}, {k: "sub", a: 0, s: b("a")}, {k: "qlen", a: 0, c: 0}, {k: "recv", a: 0}, {k: "deliver", a: 1, s: b("b1")}, {k: "deliver", a: 1, s: b("a2")},
		{k: "qlen", a: 0, c: 2}, {k: "qlen", a: 0, c: -1}, {k: "deliver", a: 1, s: b("a3")}, {k: "recv", a: 0}}},
	// READQ-LEN 0 with nobody parked: the message is dropped, the socket keeps working (this history used to wedge it)
	{kSub, []op{{k: "addpipe"}, {k: "sub", a: 0, s: b("")}, {k: "qlen", a: 0, c: 0}, {k: "deliver", a: 1, s: b("a\x81\x01")}, {k: "recv", a: 0},
		{k: "openctx"}, {k: "addpipe"}, {k: "deliver", a: 2, s: b("a\x82\x01")}, {k: "deliver", a: 1, s: b("a\x81\x02")}, {k: "sub", a: 1, s: b("a")},
		{k: "deliver", a: 1, s: b("a\x81\x03")}, {k: "qlen", a: 1, c: 0}, {k: "deliver", a: 1, s: b("a\x81\x04")}, {k: "recv", a: 1}, {k: "recv", a: 0},
		{k: "deliver", a: 2, s: b("a\x82\x02")}, {k: "closesock"}}},
	// changing READQ-LEN abandons the queued messages; closing; options of other protocols
	{kSub, []op{{k: "addpipe"}, {k: "sub", a: 0, s: b("")}, {k: "deliver", a: 1, s: b("x1")}, {k: "qlen", a: 0, c: 2}, {k: "deliver", a: 1, s: b("x2")}, {k: "recv", a: 0},
		{k: "recv", a: 0}, {k: "openctx"}, {k: "sub", a: 1, s: b("x")}, {k: "recv", a: 1}, {k: "badopt", a: 0, b: 0}, {k: "send", s: b("s")}, {k: "closesock"}, {k: "closesock"},
		{k: "recv", a: 1}, {k: "openctx"}, {k: "addpipe"}, {k: "sub", a: 0, s: b("y")}}},
	// XSUB: everything is delivered; overflow drops the newest; resizing tosses the queue
	{kXSub, []op{{k: "qlen", a: 0, c: 2}, {k: "addpipe"}, {k: "addpipe"}, {k: "deliver", a: 1, s: b("")}, {k: "deliver", a: 2, s: b("\xffq")}, {k: "deliver", a: 1, s: b("m3")},
		{k: "recv", a: 0}, {k: "recv", a: 0}, {k: "recv", a: 0}, {k: "deliver", a: 2, s: b("m4")}, {k: "deliver", a: 1, s: b("m5")}, {k: "qlen", a: 0, c: 1}, {k: "recv", a: 0},
		{k: "qlen", a: 0, c: -1}, {k: "qlen", a: 0, c: 0}, {k: "deliver", a: 1, s: b("m6")}, {k: "deliver", a: 1, s: b("m7")}, {k: "sub", a: 0, s: b("a")}, {k: "openctx"},
		{k: "closesock"}, {k: "recv", a: 0}}},
	// PUB: every message to every pipe, each pipe's order
	{kPub, []op{{k: "addpipe"}, {k: "addpipe"}, {k: "addpipe"}, {k: "send", s: b("a")}, {k: "send", s: b("")}, {k: "drop", a: 2}, {k: "send", s: b("\xff")},
		{k: "recv", a: 0}, {k: "openctx"}, {k: "deliver", a: 1, s: b("noise")}, {k: "closesock"}, {k: "send", s: b("late")}, {k: "addpipe"}}},
	// PUB: a slow subscriber loses the newest messages once its queue is full, the others lose nothing
	{kPub, []op{{k: "wqlen", c: 1}, {k: "addpipe"}, {k: "addpipe"}, {k: "hold", a: 1, b: 1}, {k: "send", s: b("1")}, {k: "send", s: b("2")}, {k: "send", s: b("3")},
		{k: "send", s: b("4")}, {k: "release", a: 1, b: 1}, {k: "release", a: 1, b: 1}, {k: "send", s: b("5")}, {k: "hold", a: 1, b: 0}, {k: "send", s: b("6")},
		{k: "release", a: 1, b: 1}, {k: "send", s: b("7")}}},
	{kXPub, []op{{k: "wqlen", c: 0}, {k: "addpipe"}, {k: "wqlen", c: 2}, {k: "addpipe"}, {k: "wqlen", c: -1}, {k: "hold", a: 1, b: 1}, {k: "hold", a: 2, b: 1},
		{k: "send", s: b("1"), h: b("h")}, {k: "send", s: b("2")}, {k: "send", s: b("3"), h: b("\x00")}, {k: "send", s: b("4")}, {k: "release", a: 2, b: 1},
		{k: "release", a: 1, b: 0}, {k: "send", s: b("5")}, {k: "release", a: 2, b: 1}, {k: "drop", a: 2}, {k: "send", s: b("6")}, {k: "badopt", a: 0, b: 2}}},
}

var psTimedScripts = []scriptT{
	// RECV-DEADLINE on a context; a matching arrival in time is returned, nothing is returned for a non-matching one
	{kSub, []op{{k: "addpipe"}, {k: "sub", a: 0, s: b("a")}, {k: "rdl", a: 0, c: shortRecvA}, {k: "recv", a: 0}, {k: "deliver", a: 1, s: b("b1")}, {k: "pass"},
		{k: "recv", a: 0}, {k: "deliver", a: 1, s: b("a2")}, {k: "openctx"}, {k: "rdl", a: 0, c: 0}, {k: "recv", a: 1}, {k: "recv", a: 0}, {k: "pass"}}},
	// XSUB: resizing the queue re-arms the deadline of a parked Recv
	{kXSub, []op{{k: "addpipe"}, {k: "rdl", a: 0, c: shortRecvB}, {k: "recv", a: 0}, {k: "pass", a: 45}, {k: "qlen", a: 0, c: 3}, {k: "pass", a: 60}, {k: "pass", a: 60},
		{k: "deliver", a: 1, s: b("m")}, {k: "recv", a: 0}}},
}

func main() { l1run.Main(genPS) }
