package main

import "mangosverif/l1kit"

const (
	wq = l1kit.OWriteQLen
	rq = l1kit.OReadQLen
)

// directed histories (run before the generated ones)
func addScripts(kinds []*l1kit.Kind) {
	pairS := [][]Op{
		// a second and a third peer are refused while the first is connected, without disturbing the conversation;
		// after the first has gone the next one is accepted and gets what is queued
		{{K: "opt", A: wq, C: 2}, {K: "addpipe"}, {K: "hold", A: 1, B: 1}, {K: "send"}, {K: "send"}, {K: "addpipe"}, {K: "send"}, {K: "send"},
			{K: "deliver", A: 1}, {K: "deliver", A: 2}, {K: "recv"}, {K: "addpipe"}, {K: "release", A: 1, B: 1}, {K: "drop", A: 1}, {K: "addpipe"},
			{K: "deliver", A: 4}, {K: "recv"}, {K: "send"}},
		// unbuffered queues: Send completes when the peer takes the message, blocks while the pipe is busy
		{{K: "opt", A: wq, C: 0}, {K: "opt", A: rq, C: 0}, {K: "send"}, {K: "send"}, {K: "addpipe"}, {K: "hold", A: 1, B: 1}, {K: "send"}, {K: "send"},
			{K: "release", A: 1, B: 1}, {K: "release", A: 1, B: 1}, {K: "deliver", A: 1}, {K: "deliver", A: 1}, {K: "recv"}, {K: "recv"}, {K: "recv"},
			{K: "deliver", A: 1}, {K: "release", A: 1, B: 1}, {K: "release", A: 1, B: 1}},
		// several blocked senders, queue length 1, peer loss with a transmission in flight, failed transport send
		{{K: "opt", A: wq, C: 1}, {K: "addpipe"}, {K: "hold", A: 1, B: 1}, {K: "send"}, {K: "send"}, {K: "send"}, {K: "send"}, {K: "release", A: 1, B: 1},
			{K: "release", A: 1, B: 0}, {K: "addpipe"}, {K: "hold", A: 2, B: 1}, {K: "drop", A: 2}, {K: "addpipe"}},
		// queue resizing discards; best effort; close with blocked calls
		{{K: "opt", A: wq, C: 1}, {K: "opt", A: rq, C: 1}, {K: "send"}, {K: "send"}, {K: "opt", A: wq, C: 2}, {K: "addpipe"}, {K: "deliver", A: 1},
			{K: "deliver", A: 1}, {K: "deliver", A: 1}, {K: "opt", A: rq, C: 1}, {K: "deliver", A: 1}, {K: "recv"}, {K: "recv"}, {K: "opt", A: l1kit.OBestEffort, C: 1},
			{K: "hold", A: 1, B: 1}, {K: "send"}, {K: "send"}, {K: "send"}, {K: "opt", A: l1kit.OBestEffort, C: 0}, {K: "send"}, {K: "recv"}, {K: "closesock"},
			{K: "send"}, {K: "recv"}, {K: "addpipe"}},
	}
	pair1S := [][]Op{
		{{K: "opt", A: l1kit.OTtl, C: 2}, {K: "addpipe"}, {K: "deliver", A: 1, B: 1}, {K: "deliver", A: 1, B: 2}, {K: "deliver", A: 1, B: 3}, {K: "deliver", A: 1, B: 4},
			{K: "recv"}, {K: "recv"}, {K: "recv"}, {K: "recv"}, {K: "send"}, {K: "addpipe"}},
	}
	pushS := [][]Op{
		// round robin over held pipes, one message per pipe at a time, per-pipe order
		{{K: "opt", A: wq, C: 2}, {K: "addpipe"}, {K: "addpipe"}, {K: "hold", A: 1, B: 1}, {K: "hold", A: 2, B: 1}, {K: "send"}, {K: "send"}, {K: "send"}, {K: "send"},
			{K: "send"}, {K: "release", A: 2, B: 1}, {K: "release", A: 1, B: 1}, {K: "release", A: 1, B: 1}, {K: "release", A: 2, B: 1}, {K: "send"}, {K: "release", A: 1, B: 1}},
		// pipe removed while ready / while busy; failed transport send; the readyQ must forget it
		{{K: "opt", A: wq, C: 1}, {K: "addpipe"}, {K: "addpipe"}, {K: "addpipe"}, {K: "hold", A: 1, B: 1}, {K: "hold", A: 2, B: 1}, {K: "hold", A: 3, B: 1}, {K: "drop", A: 1},
			{K: "send"}, {K: "send"}, {K: "send"}, {K: "release", A: 2, B: 0}, {K: "release", A: 3, B: 1}, {K: "send"}, {K: "drop", A: 3}, {K: "addpipe"}, {K: "send"}},
		// the peer goes away with a write in flight that still completes: the pipe is gone all the same, what is sent next goes
		// to the peer that is still there
		{{K: "opt", A: wq, C: 2}, {K: "addpipe"}, {K: "hold", A: 1, B: 1}, {K: "send"}, {K: "drop", A: 1, B: 1}, {K: "addpipe"}, {K: "send"}, {K: "send"}, {K: "send"}},
		// no peers: queue fills, then Sends block; a pipe arrives and drains in order; fail-no-peers
		{{K: "opt", A: wq, C: 2}, {K: "send"}, {K: "send"}, {K: "send"}, {K: "send"}, {K: "addpipe"}, {K: "opt", A: l1kit.OFailNoPeers, C: 1}, {K: "hold", A: 1, B: 1},
			{K: "send"}, {K: "send"}, {K: "send"}, {K: "send"}, {K: "drop", A: 1}, {K: "send"}},
		// resizing keeps what fits; best effort drops when full
		{{K: "opt", A: wq, C: 3}, {K: "send"}, {K: "send"}, {K: "send"}, {K: "send"}, {K: "opt", A: wq, C: 2}, {K: "addpipe"}, {K: "opt", A: l1kit.OBestEffort, C: 1},
			{K: "hold", A: 1, B: 1}, {K: "send"}, {K: "send"}, {K: "send"}, {K: "send"}, {K: "release", A: 1, B: 1}, {K: "closesock"}, {K: "release", A: 1, B: 1}, {K: "send"}},
	}
	if !noQ0 {
		// WRITEQ-LEN 0 is accepted; a connected, idle PULL peer is there: Send should complete
		pushS = append(pushS, []Op{{K: "opt", A: wq, C: 0}, {K: "addpipe"}, {K: "send"}, {K: "send"}, {K: "opt", A: wq, C: 1}, {K: "send"}})
	}
	pullS := [][]Op{
		{{K: "opt", A: rq, C: 1}, {K: "addpipe"}, {K: "addpipe"}, {K: "deliver", A: 1}, {K: "deliver", A: 2}, {K: "deliver", A: 1}, {K: "deliver", A: 2}, {K: "recv"},
			{K: "recv"}, {K: "recv"}, {K: "recv"}, {K: "deliver", A: 1}, {K: "recv"}, {K: "drop", A: 2}, {K: "deliver", A: 1}, {K: "deliver", A: 1}, {K: "drop", A: 1}, {K: "recv"}, {K: "recv"}},
		{{K: "opt", A: rq, C: 0}, {K: "addpipe"}, {K: "recv"}, {K: "recv"}, {K: "deliver", A: 1}, {K: "deliver", A: 1}, {K: "deliver", A: 1}, {K: "deliver", A: 1}, {K: "recv"},
			{K: "opt", A: rq, C: 2}, {K: "deliver", A: 1}, {K: "deliver", A: 1}, {K: "opt", A: rq, C: 1}, {K: "recv"}, {K: "recv"}, {K: "closesock"}, {K: "recv"}},
	}
	timedPair := [][]Op{
		{{K: "opt", A: wq, C: 1}, {K: "opt", A: l1kit.OSendDeadline, C: l1kit.ShortSend}, {K: "opt", A: l1kit.ORecvDeadline, C: l1kit.ShortRecv}, {K: "send"}, {K: "send"},
			{K: "recv"}, {K: "pass"}, {K: "addpipe"}, {K: "send"}, {K: "deliver", A: 1}, {K: "recv"}, {K: "recv"}, {K: "pass"}},
	}
	timedPush := [][]Op{
		{{K: "opt", A: wq, C: 1}, {K: "opt", A: l1kit.OSendDeadline, C: l1kit.ShortSend}, {K: "send"}, {K: "send"}, {K: "send"}, {K: "pass"}, {K: "addpipe"}, {K: "send"}},
	}
	timedPull := [][]Op{
		{{K: "opt", A: l1kit.ORecvDeadline, C: l1kit.ShortRecv}, {K: "addpipe"}, {K: "recv"}, {K: "pass"}, {K: "deliver", A: 1}, {K: "recv"}, {K: "recv"}, {K: "pass", A: 50}, {K: "deliver", A: 1}},
	}
	seenPush := false
	for _, k := range kinds {
		switch k.ID {
		case 1, 2:
			k.Scripts, k.TimedScripts = pairS, timedPair
		case 3, 4:
			k.Scripts, k.TimedScripts = append(append([][]Op{}, pair1S...), pairS[0], pairS[1]), timedPair
		case 5:
			if !seenPush {
				k.Scripts, k.TimedScripts = pushS, timedPush
				seenPush = true
			}
		case 6:
			k.Scripts, k.TimedScripts = pullS, timedPull
		}
	}
}
