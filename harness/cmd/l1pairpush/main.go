// l1pairpush: PAIR / PAIR1 / PUSH / PULL histories for property C02 (see harness/l1kit, harness/l1run).
package main

import (
	"os"

	"mangosverif/l1kit"
	"mangosverif/l1run"

	"go.nanomsg.org/mangos/v3"
	"go.nanomsg.org/mangos/v3/protocol/pair"
	"go.nanomsg.org/mangos/v3/protocol/pair1"
	"go.nanomsg.org/mangos/v3/protocol/pull"
	"go.nanomsg.org/mangos/v3/protocol/push"
	"go.nanomsg.org/mangos/v3/protocol/xpair"
	"go.nanomsg.org/mangos/v3/protocol/xpair1"
	"go.nanomsg.org/mangos/v3/protocol/xpull"
	"go.nanomsg.org/mangos/v3/protocol/xpush"
)

type Op = l1kit.Op

// L1_NOQ0=1 keeps PUSH away from WRITEQ-LEN 0 (known defect; used when trying mutants)
var noQ0 = os.Getenv("L1_NOQ0") == "1"

var flip int

func alt(a, b func() mangos.ProtocolBase) func() mangos.ProtocolBase {
	return func() mangos.ProtocolBase {
		flip++
		if flip%2 == 0 {
			return a()
		}
		return b()
	}
}

func hop(h int) []byte { return []byte{0, 0, 0, byte(h)} }

// ---- PAIR ----
func pairKind(id int, name string, mk func() mangos.ProtocolBase) *l1kit.Kind {
	v1 := id >= 3
	raw1 := id == 4
	k := &l1kit.Kind{ID: id, Name: name, New: mk}
	k.MkSend = func(g *l1kit.G, o Op, t, n int) ([]byte, []byte) {
		body := g.Tag(t, n)
		r := g.R
		var hdr []byte
		switch {
		case raw1:
			switch w := r.Intn(20); {
			case w < 15:
				hdr = hop(r.Intn(4))
			case w < 16:
				hdr = make([]byte, r.Intn(4)) // too short: dropped
			case w < 17:
				hdr = []byte{0, 1, 0, 0} // not a hop count: dropped
			case w < 18:
				hdr = []byte{0, 0, 0, 2, 9, 9, 9, 9}
			default:
				hdr = hop(255)
			}
		case r.Intn(6) == 0:
			hdr = make([]byte, 1+r.Intn(5))
			r.Read(hdr)
		}
		return hdr, body
	}
	k.MkDeliver = func(g *l1kit.G, o Op, pipe, n int) []byte {
		pl := g.Tag(0x8000+n, pipe)
		if !v1 {
			return pl
		}
		r := g.R
		switch w := r.Intn(20); {
		case o.B > 0:
			return append(hop(o.B-1), pl...)
		case w < 12:
			return append(hop(r.Intn(g.TTL+1)), pl...)
		case w < 15:
			return append(hop(g.TTL+r.Intn(2)), pl...) // at / beyond the limit
		case w < 16:
			return append(hop(254+r.Intn(2)), pl...)
		case w < 17:
			return append([]byte{0, 0, 1, 0}, pl...) // 256 hops
		case w < 18:
			return pl[:minInt(len(pl), r.Intn(4))] // too short
		default:
			return append([]byte{byte(1 + r.Intn(255)), 0, 0, 1}, pl...)
		}
	}
	k.Choose = func(g *l1kit.G) (Op, bool) {
		r := g.R
		if g.NStep == 0 && r.Intn(8) != 0 {
			return Op{K: "opt", A: l1kit.OWriteQLen, C: r.Intn(3)}, true
		}
		if g.NStep == 1 && r.Intn(4) != 0 {
			return Op{K: "opt", A: l1kit.OReadQLen, C: r.Intn(3)}, true
		}
		ps := g.AlivePipes()
		switch w := r.Intn(100); {
		case w < 12:
			return Op{K: "addpipe"}, g.NextPipe < 4
		case w < 17:
			if len(ps) == 0 {
				return Op{}, false
			}
			return Op{K: "drop", A: g.Pick(ps)}, true
		case w < 42:
			return Op{K: "send"}, true
		case w < 55:
			return Op{K: "recv"}, g.BlockedRecvs() < 3
		case w < 70:
			if len(ps) == 0 || r.Intn(12) == 0 {
				// a pipe that was refused or is gone
				if g.NextPipe == 0 {
					return Op{}, false
				}
				return Op{K: "deliver", A: 1 + r.Intn(g.NextPipe)}, true
			}
			return Op{K: "deliver", A: g.Pick(ps)}, true
		case w < 77:
			if len(ps) == 0 {
				return Op{}, false
			}
			n := g.Pick(ps)
			h := 1
			if g.Hold[n] && r.Intn(3) != 0 {
				h = 0
			}
			return Op{K: "hold", A: n, B: h}, true
		case w < 88:
			pp := g.PendingPipes()
			if len(pp) == 0 {
				return Op{}, false
			}
			ok := 1
			if r.Intn(5) == 0 {
				ok = 0
			}
			return Op{K: "release", A: g.Pick(pp), B: ok}, true
		case w < 95:
			switch o := r.Intn(12); {
			case o < 3:
				return Op{K: "opt", A: l1kit.OWriteQLen, C: r.Intn(4) - r.Intn(2)*r.Intn(2)}, g.ResizeOK()
			case o < 6:
				return Op{K: "opt", A: l1kit.OReadQLen, C: r.Intn(4) - r.Intn(2)*r.Intn(2)}, g.ResizeOK()
			case o < 7:
				return Op{K: "opt", A: l1kit.OBestEffort, C: r.Intn(2)}, r.Intn(2) == 0
			case o < 9:
				v := []int{0, l1kit.Long}[r.Intn(2)]
				if g.Timed && r.Intn(3) != 0 {
					v = l1kit.ShortSend
				}
				return Op{K: "opt", A: l1kit.OSendDeadline, C: v}, true
			case o < 11:
				v := []int{0, l1kit.Long}[r.Intn(2)]
				if g.Timed && r.Intn(3) != 0 {
					v = l1kit.ShortRecv
				}
				return Op{K: "opt", A: l1kit.ORecvDeadline, C: v}, true
			default:
				if r.Intn(2) == 0 {
					return Op{K: "opt", A: l1kit.OTtl, C: []int{1, 2, 3, 0, 256}[r.Intn(5)]}, true
				}
				return Op{K: "opt", A: l1kit.ORetryTime, C: 5}, true
			}
		case w < 96:
			return Op{K: "closesock"}, r.Intn(2) == 0
		case w < 97:
			return Op{K: "openctx"}, true
		default:
			return Op{K: "pass"}, g.Timed && g.Passes < 4
		}
	}
	return k
}

// ---- PUSH ----
func pushKind() *l1kit.Kind {
	k := &l1kit.Kind{ID: 5, Name: "push", New: alt(push.NewProtocol, xpush.NewProtocol)}
	k.MkSend = func(g *l1kit.G, o Op, t, n int) ([]byte, []byte) {
		var hdr []byte
		if g.R.Intn(8) == 0 {
			hdr = make([]byte, 1+g.R.Intn(4))
			g.R.Read(hdr)
		}
		return hdr, g.Tag(t, n)
	}
	k.MkDeliver = func(g *l1kit.G, o Op, pipe, n int) []byte { return g.Tag(0x8000+n, pipe) }
	qlen := func(g *l1kit.G) int {
		v := g.R.Intn(4)
		if v == 0 && (noQ0 || g.R.Intn(3) != 0) {
			v = 1
		}
		return v
	}
	k.Choose = func(g *l1kit.G) (Op, bool) {
		r := g.R
		if g.NStep == 0 && r.Intn(8) != 0 {
			return Op{K: "opt", A: l1kit.OWriteQLen, C: qlen(g)}, true
		}
		ps := g.AlivePipes()
		switch w := r.Intn(100); {
		case w < 12:
			return Op{K: "addpipe"}, len(ps) < 3 && g.NextPipe < 6
		case w < 18:
			if len(ps) == 0 {
				return Op{}, false
			}
			return Op{K: "drop", A: g.Pick(ps)}, true
		case w < 52:
			return Op{K: "send"}, true
		case w < 64:
			if len(ps) == 0 {
				return Op{}, false
			}
			n := g.Pick(ps)
			h := 1
			if g.Hold[n] && r.Intn(3) != 0 {
				h = 0
			}
			return Op{K: "hold", A: n, B: h}, true
		case w < 82:
			pp := g.PendingPipes()
			if len(pp) == 0 {
				return Op{}, false
			}
			ok := 1
			if r.Intn(5) == 0 {
				ok = 0
			}
			return Op{K: "release", A: g.Pick(pp), B: ok}, true
		case w < 90:
			switch o := r.Intn(10); {
			case o < 4:
				v := qlen(g)
				if r.Intn(8) == 0 {
					v = -1
				}
				return Op{K: "opt", A: l1kit.OWriteQLen, C: v}, true
			case o < 5:
				return Op{K: "opt", A: l1kit.OBestEffort, C: r.Intn(2)}, r.Intn(2) == 0
			case o < 7:
				return Op{K: "opt", A: l1kit.OFailNoPeers, C: r.Intn(2)}, true
			case o < 9:
				v := []int{0, l1kit.Long}[r.Intn(2)]
				if g.Timed && r.Intn(3) != 0 {
					v = l1kit.ShortSend
				}
				return Op{K: "opt", A: l1kit.OSendDeadline, C: v}, true
			default:
				return Op{K: "opt", A: l1kit.OReadQLen, C: 1}, true
			}
		case w < 93:
			if len(ps) == 0 {
				return Op{}, false
			}
			return Op{K: "deliver", A: g.Pick(ps)}, true
		case w < 94:
			return Op{K: "recv"}, true
		case w < 95:
			return Op{K: "closesock"}, r.Intn(2) == 0
		case w < 96:
			return Op{K: "openctx"}, true
		default:
			return Op{K: "pass"}, g.Timed && g.Passes < 4
		}
	}
	return k
}

// ---- PULL ----
func pullKind() *l1kit.Kind {
	k := &l1kit.Kind{ID: 6, Name: "pull", New: alt(pull.NewProtocol, xpull.NewProtocol)}
	k.MkSend = func(g *l1kit.G, o Op, t, n int) ([]byte, []byte) { return nil, g.Tag(t, n) }
	k.MkDeliver = func(g *l1kit.G, o Op, pipe, n int) []byte { return g.Tag(0x8000+n, pipe) }
	k.Choose = func(g *l1kit.G) (Op, bool) {
		r := g.R
		if g.NStep == 0 && r.Intn(8) != 0 {
			return Op{K: "opt", A: l1kit.OReadQLen, C: r.Intn(3)}, true
		}
		ps := g.AlivePipes()
		switch w := r.Intn(100); {
		case w < 14:
			return Op{K: "addpipe"}, len(ps) < 3 && g.NextPipe < 6
		case w < 20:
			if len(ps) == 0 {
				return Op{}, false
			}
			return Op{K: "drop", A: g.Pick(ps)}, true
		case w < 55:
			if len(ps) == 0 {
				return Op{}, false
			}
			return Op{K: "deliver", A: g.Pick(ps)}, true
		case w < 85:
			return Op{K: "recv"}, g.BlockedRecvs() < 3
		case w < 92:
			if r.Intn(2) == 0 {
				v := r.Intn(4)
				if r.Intn(8) == 0 {
					v = -1
				}
				return Op{K: "opt", A: l1kit.OReadQLen, C: v}, g.ResizeOK()
			}
			v := []int{0, l1kit.Long}[r.Intn(2)]
			if g.Timed && r.Intn(3) != 0 {
				v = l1kit.ShortRecv
			}
			return Op{K: "opt", A: l1kit.ORecvDeadline, C: v}, true
		case w < 93:
			return Op{K: "send"}, true
		case w < 94:
			return Op{K: "closesock"}, r.Intn(2) == 0
		case w < 95:
			return Op{K: "opt", A: l1kit.OWriteQLen, C: 1}, true
		default:
			return Op{K: "pass"}, g.Timed && g.Passes < 4
		}
	}
	return k
}

func main() {
	kinds := []*l1kit.Kind{
		pairKind(1, "pair", pair.NewProtocol), pairKind(2, "xpair", xpair.NewProtocol),
		pairKind(3, "pair1", pair1.NewProtocol), pairKind(4, "xpair1", xpair1.NewProtocol),
		pushKind(), pushKind(), pullKind(),
	}
	addScripts(kinds)
	l1run.Main(l1kit.Gen(kinds))
}

func minInt(a, b int) int {
	if a < b {
		return a
	}
	return b
}
