// c09 injects messages with every hop count into every hop-counting receiver (through mock
// pipes at protocol level) and records what the application side receives.
package main

import (
	"bytes"
	"encoding/binary"
	"fmt"
	"math/rand"
	"os"
	"strings"
	"sync"
	"time"

	"mangosverif/coqgen"
	"mangosverif/mp"

	"go.nanomsg.org/mangos/v3"
	"go.nanomsg.org/mangos/v3/protocol"
	"go.nanomsg.org/mangos/v3/protocol/pair1"
	"go.nanomsg.org/mangos/v3/protocol/rep"
	"go.nanomsg.org/mangos/v3/protocol/respondent"
	"go.nanomsg.org/mangos/v3/protocol/star"
	"go.nanomsg.org/mangos/v3/protocol/xbus"
	"go.nanomsg.org/mangos/v3/protocol/xpair1"
	"go.nanomsg.org/mangos/v3/protocol/xrep"
	"go.nanomsg.org/mangos/v3/protocol/xreq"
	"go.nanomsg.org/mangos/v3/protocol/xrespondent"
	"go.nanomsg.org/mangos/v3/protocol/xstar"
	"go.nanomsg.org/mangos/v3/protocol/xsurveyor"
)

type rcv struct {
	name   string
	coq    string // model receiver
	cooked bool
	kind   int // 0 backtrace, 1 pair1, 2 star, 3 other (no ttl)
	mk     func() protocol.Protocol
}

var rcvs = []rcv{
	{"rep", "RRep", true, 0, rep.NewProtocol},
	{"xrep", "RXRep", false, 0, xrep.NewProtocol},
	{"respondent", "RRespondent", true, 0, respondent.NewProtocol},
	{"xrespondent", "RXRespondent", false, 0, xrespondent.NewProtocol},
	{"xpair1", "RXPair1", false, 1, xpair1.NewProtocol},
	{"pair1", "RXPair1", true, 1, pair1.NewProtocol},
	{"xstar", "RXStar", false, 2, xstar.NewProtocol},
	{"star", "RXStar", true, 2, star.NewProtocol},
	{"xreq", "RXReq", false, 3, xreq.NewProtocol},
	{"xsurveyor", "RXSurveyor", false, 3, xsurveyor.NewProtocol},
	{"xbus", "RXBus", false, 4, xbus.NewProtocol},
}

const sentinelTag = 0xfffe

func payload(tag int, r *rand.Rand) []byte {
	n := 3 + r.Intn(6)
	b := make([]byte, 2+n)
	binary.BigEndian.PutUint16(b, uint16(tag))
	for i := 2; i < len(b); i++ {
		b[i] = byte(r.Intn(256))
	}
	return b
}

// wellFormed builds the wire body of a message that crossed k connections (kind 0), or carries
// hop value k (kinds 1, 2).
func wellFormed(kind, k int, pl []byte, r *rand.Rand) []byte {
	var b []byte
	switch kind {
	case 0:
		for j := 0; j < k-1; j++ {
			w := make([]byte, 4)
			binary.BigEndian.PutUint32(w, r.Uint32()&0x7fffffff)
			b = append(b, w...)
		}
		w := make([]byte, 4)
		binary.BigEndian.PutUint32(w, r.Uint32()|0x80000000)
		b = append(b, w...)
	case 1:
		w := make([]byte, 4)
		binary.BigEndian.PutUint32(w, uint32(k))
		b = append(b, w...)
	case 2:
		b = append(b, 0, 0, 0, byte(k))
	case 3:
		w := make([]byte, 4)
		binary.BigEndian.PutUint32(w, r.Uint32())
		b = append(b, w...)
	default: // xbus: the whole wire body is the payload
	}
	return append(b, pl...)
}

type got struct {
	hdr, body []byte
}

// session = one protocol instance with one mock pipe
type session struct {
	p    protocol.Protocol
	pipe *mp.Pipe
	rc   rcv
}

func newSession(rc rcv, pid uint32) *session {
	p := rc.mk()
	_ = p.SetOption(mangos.OptionRecvDeadline, 500*time.Millisecond)
	pipe := mp.NewPipe(pid, 0, p, &mp.Recorder{})
	if err := pipe.Attach(); err != nil {
		panic(err)
	}
	return &session{p: p, pipe: pipe, rc: rc}
}

func (s *session) close() {
	_ = s.p.Close()
	_ = s.pipe.Close()
}

// feed injects bodies then a sentinel; returns everything received before the sentinel.
func (s *session) feed(bodies [][]byte, r *rand.Rand) ([]got, error) {
	sent := wellFormed(s.rc.kind, map[int]int{0: 1, 1: 0, 2: 0, 3: 0, 4: 0}[s.rc.kind], payload(sentinelTag, r), r)
	var wg sync.WaitGroup
	wg.Add(1)
	go func() {
		defer wg.Done()
		for _, b := range bodies {
			if !s.pipe.Inject(b, 3*time.Second) {
				return
			}
		}
		s.pipe.Inject(sent, 3*time.Second)
	}()
	var out []got
	var err error
	for {
		m, e := s.p.RecvMsg()
		if e != nil {
			err = e
			break
		}
		g := got{hdr: append([]byte{}, m.Header...), body: append([]byte{}, m.Body...)}
		m.Free()
		if len(g.body) >= 2 && binary.BigEndian.Uint16(g.body) == sentinelTag {
			break
		}
		out = append(out, g)
	}
	wg.Wait()
	return out, err
}

func main() {
	if len(os.Args) < 2 {
		fmt.Fprintln(os.Stderr, "usage: c09 <out.v>")
		os.Exit(2)
	}
	r := coqgen.Rand()
	thorough := coqgen.Thorough()
	w := coqgen.Create(os.Args[1])
	defer w.Close()

	ttls := []int{1, 2, 3, 7, 8, 9, 127, 254, 255}
	if thorough {
		ttls = nil
		for t := 1; t <= 255; t++ {
			ttls = append(ttls, t)
		}
	}

	// ---- (a) delivered/dropped bitmap over the hop grid --------------------------------------
	var grid []string
	var mu sync.Mutex
	var wg sync.WaitGroup
	sem := make(chan struct{}, 16)
	failures := 0
	for ri, rc := range rcvs {
		if rc.kind >= 3 {
			continue
		}
		for _, ttl := range ttls {
			wg.Add(1)
			rr := rand.New(rand.NewSource(r.Int63()))
			go func(ri int, rc rcv, ttl int, r *rand.Rand) {
				defer wg.Done()
				sem <- struct{}{}
				defer func() { <-sem }()
				s := newSession(rc, uint32(1+r.Intn(1<<30)))
				defer s.close()
				if err := s.p.SetOption(mangos.OptionTTL, ttl); err != nil {
					mu.Lock()
					grid = append(grid, fmt.Sprintf("(%s, %d, %q) (* %s: SetOption TTL failed: %v *)", rc.coq, ttl, "setopt-failed", rc.name, err))
					mu.Unlock()
					return
				}
				lo, hi := 1, ttl+2
				if rc.kind != 0 {
					lo = 0
				}
				var bodies [][]byte
				pls := map[int][]byte{}
				for k := lo; k <= hi; k++ {
					pl := payload(k, r)
					pls[k] = pl
					bodies = append(bodies, wellFormed(rc.kind, k, pl, r))
				}
				out, err := s.feed(bodies, r)
				bm := make([]byte, hi-lo+1)
				for i := range bm {
					bm[i] = '0'
				}
				for _, g := range out {
					if len(g.body) < 2 {
						continue
					}
					k := int(binary.BigEndian.Uint16(g.body))
					if k < lo || k > hi {
						continue
					}
					if bm[k-lo] != '0' {
						bm[k-lo] = 'D' // delivered twice
					} else if bytes.Equal(g.body, pls[k]) {
						bm[k-lo] = '1'
					} else {
						bm[k-lo] = 'C' // payload changed
					}
				}
				note := ""
				if err != nil {
					note = fmt.Sprintf(" (* %s: recv error %v *)", rc.name, err)
					bm = append(bm, 'E')
				}
				mu.Lock()
				if err != nil {
					failures++
				}
				grid = append(grid, fmt.Sprintf("(%s, %d, %q)%s", rc.coq, ttl, string(bm), note))
				mu.Unlock()
			}(ri, rc, ttl, rr)
		}
	}
	wg.Wait()
	// deterministic order
	sortStrings(grid)
	w.Def("grid_cases", "list (receiver * N * string)", grid)

	// ---- (b) full observations on random / malformed bodies -------------------------------------
	nobs := 40
	if thorough {
		nobs = 400
	}
	var obs []string
	for _, rc := range rcvs {
		for _, ttl := range []int{1, 3, 8} {
			if rc.kind >= 3 && ttl != 8 {
				continue
			}
			pid := uint32(1 + r.Intn(1<<30))
			s := newSession(rc, pid)
			if rc.kind < 3 {
				_ = s.p.SetOption(mangos.OptionTTL, ttl)
			}
			var bodies [][]byte
			for i := 0; i < nobs; i++ {
				bodies = append(bodies, randomBody(rc.kind, ttl, i, r))
			}
			// one at a time so that each observation is attributable
			nerr := 0
			for i, b := range bodies {
				if nerr >= 2 {
					break // the sentinel itself is being dropped; two observations of that are enough
				}
				tag := 0x7000 + i
				// put the tag where the payload starts if the message is delivered: we cannot know,
				// so identify by feeding singly
				out, err := s.feed([][]byte{b}, r)
				res := "None"
				if err != nil {
					nerr++
					res = fmt.Sprintf("(Some (\"ee\", \"ee\")) (* recv error %v *)", err)
				} else if len(out) == 1 {
					res = fmt.Sprintf("(Some (%s, %s))", coqgen.Hex(out[0].hdr), coqgen.Hex(out[0].body))
				} else if len(out) > 1 {
					res = "(Some (\"dd\", \"dd\")) (* delivered more than once *)"
				}
				_ = tag
				obs = append(obs, fmt.Sprintf("(%s, %s, %d, %d, %s, %s)", rc.coq, coqgen.Bool(rc.cooked), ttl, pid, coqgen.Hex(b), res))
			}
			s.close()
		}
	}
	w.Def("obs_cases", "list (receiver * bool * N * N * string * option (string * string))", obs)

	// ---- (c) TTL option: accepted range, default ------------------------------------------------
	var topt []string
	vals := []int{-1 << 63, -256, -1, 0, 1, 2, 8, 128, 254, 255, 256, 257, 65535, 1 << 31, 1<<63 - 1}
	for _, rc := range rcvs {
		if rc.kind >= 3 {
			continue
		}
		p := rc.mk()
		d, _ := p.GetOption(mangos.OptionTTL)
		topt = append(topt, fmt.Sprintf("(%q, None, %s, %s)", rc.name, coqgen.Bool(true), coqgen.Z(int64(d.(int)))))
		for _, v := range vals {
			err := p.SetOption(mangos.OptionTTL, v)
			g, _ := p.GetOption(mangos.OptionTTL)
			topt = append(topt, fmt.Sprintf("(%q, Some %s, %s, %s)", rc.name, coqgen.Z(int64(v)), coqgen.Bool(err == nil), coqgen.Z(int64(g.(int)))))
			if err != nil && err != mangos.ErrBadValue {
				topt = append(topt, fmt.Sprintf("(%q, Some %s, true, (-1)%%Z) (* wrong error %v *)", rc.name, coqgen.Z(int64(v)), err))
			}
		}
		for _, bad := range []interface{}{"8", int32(8), uint8(8), 8.0, nil, time.Second, true} {
			if err := p.SetOption(mangos.OptionTTL, bad); err != mangos.ErrBadValue {
				topt = append(topt, fmt.Sprintf("(%q, Some 0%%Z, true, (-2)%%Z) (* non-int value %T accepted or wrong error: %v *)", rc.name, bad, err))
			}
		}
		_ = p.Close()
	}
	w.Def("ttl_cases", "list (string * option Z * bool * Z)", topt)
	if failures > 0 {
		fmt.Fprintf(os.Stderr, "c09: %d grid sessions ended with a receive error\n", failures)
	}
}

func sortStrings(s []string) {
	for i := 1; i < len(s); i++ {
		for j := i; j > 0 && strings.Compare(s[j-1], s[j]) > 0; j-- {
			s[j-1], s[j] = s[j], s[j-1]
		}
	}
}

// randomBody builds structured, mostly plausible bodies plus malformed ones.
func randomBody(kind, ttl, i int, r *rand.Rand) []byte {
	pl := payload(0x7000+i, r)
	switch r.Intn(10) {
	case 0: // short garbage
		b := make([]byte, r.Intn(4))
		r.Read(b)
		return b
	case 1: // words without terminator, possibly truncated
		n := r.Intn(ttl + 3)
		var b []byte
		for j := 0; j < n; j++ {
			w := make([]byte, 4)
			binary.BigEndian.PutUint32(w, r.Uint32()&0x7fffffff)
			b = append(b, w...)
		}
		return append(b, make([]byte, r.Intn(4))...)
	case 2: // random bytes
		b := make([]byte, r.Intn(24))
		r.Read(b)
		return b
	case 3: // hop word with junk in the upper bytes (pair1/star)
		w := make([]byte, 4)
		binary.BigEndian.PutUint32(w, uint32(r.Intn(3))<<uint(8*(1+r.Intn(3)))|uint32(r.Intn(ttl+2)))
		return append(w, pl...)
	case 4: // boundary hop values
		hv := []int{0, 1, ttl - 1, ttl, ttl + 1, 253, 254, 255, 256}[r.Intn(9)]
		if hv < 0 {
			hv = 0
		}
		if kind == 2 {
			return append([]byte{0, 0, 0, byte(hv)}, pl...)
		}
		w := make([]byte, 4)
		binary.BigEndian.PutUint32(w, uint32(hv))
		return append(w, pl...)
	default: // well-formed, depth around the limit
		k := r.Intn(ttl + 3)
		if kind == 0 && k == 0 {
			k = 1
		}
		return wellFormed(kind, k, pl, r)
	}
}
