// c17 records the message ledger (every NewMessage / Clone / Free / release / MakeUnique copy reported by the
// verif hook, plus the application's own hand-out / give-up / failed-send events) while real sockets and
// protocol instances run fan-out, retention and failing-send traffic, and plays a careful application:
// every received message is snapshotted, held across more traffic and buffer reuse, and re-compared.
// Parent: `c17 <outdir>` spawns workers; worker: `c17 -worker i n out.v`.
package main

import (
	"bytes"
	"fmt"
	"math/rand"
	"os"
	"os/exec"
	"path/filepath"
	"sort"
	"strconv"
	"strings"
	"sync"
	"time"

	"mangosverif/coqgen"
	"mangosverif/mp"
	"mangosverif/wire"

	"go.nanomsg.org/mangos/v3"
)

// ------------------------------------------------------------------ ledger ----

const (
	opNew = iota + 1
	opClone
	opFree
	opRelease
	opUnique
	opHandOut
	opAppFree
	opSendErr
	opMark
)

type lop struct {
	k          uint8
	m          uint32
	a, b, c, d int
}

var led struct {
	mu   sync.Mutex
	ids  map[*mangos.Message]uint32
	ops  []lop
	keep []*mangos.Message // pins every object ever seen: an address is never reused for another message
}

func idOf(m *mangos.Message) uint32 {
	id, ok := led.ids[m]
	if !ok {
		id = uint32(len(led.ids))
		led.ids[m] = id
		led.keep = append(led.keep, m)
	}
	return id
}

func hook(op mangos.VerifOp, m *mangos.Message, ref int32, arg int) {
	led.mu.Lock()
	id := idOf(m)
	switch op {
	case mangos.VerifOpNew:
		cb, _, _ := mangos.VerifMsgCaps(m)
		led.ops = append(led.ops, lop{opNew, id, arg, cb, len(m.Body), len(m.Header)})
		if cb < arg {
			fmt.Fprintf(os.Stderr, "c17: NewMessage(%d) returned an object whose buffer holds %d bytes (op %d)\n", arg, cb, len(led.ops)-1)
		}
	case mangos.VerifOpClone:
		led.ops = append(led.ops, lop{k: opClone, m: id})
	case mangos.VerifOpFree:
		led.ops = append(led.ops, lop{k: opFree, m: id})
	case mangos.VerifOpRelease:
		led.ops = append(led.ops, lop{k: opRelease, m: id})
	case mangos.VerifOpUnique:
		led.ops = append(led.ops, lop{k: opUnique, m: id})
	}
	led.mu.Unlock()
}

func app(k uint8, m *mangos.Message) {
	led.mu.Lock()
	led.ops = append(led.ops, lop{k: k, m: idOf(m)})
	led.mu.Unlock()
}

func mark(k int) {
	led.mu.Lock()
	led.ops = append(led.ops, lop{k: opMark, m: uint32(k)})
	led.mu.Unlock()
}

func (o lop) coq() string {
	switch o.k {
	case opNew:
		return fmt.Sprintf("MNew %d %d %d %d %d", o.m, o.a, o.b, o.c, o.d)
	case opClone:
		return fmt.Sprintf("MClone %d", o.m)
	case opFree:
		return fmt.Sprintf("MFree %d", o.m)
	case opRelease:
		return fmt.Sprintf("MRelease %d", o.m)
	case opUnique:
		return fmt.Sprintf("MUnique %d", o.m)
	case opHandOut:
		return fmt.Sprintf("MHandOut %d", o.m)
	case opAppFree:
		return fmt.Sprintf("MAppFree %d", o.m)
	case opSendErr:
		return fmt.Sprintf("MSendErr %d", o.m)
	}
	return fmt.Sprintf("MMark %d", o.m)
}

// ------------------------------------------------------------------ the careful application ----

type msgEnd interface {
	SendMsg(*mangos.Message) error
	RecvMsg() (*mangos.Message, error)
}

type held struct {
	m         *mangos.Message
	hdr, body []byte
}

type scen struct {
	name   string
	tr     string
	r      *rand.Rand
	mu     sync.Mutex
	snapOK bool
	errOK  bool
	held   []*held
	notes  []string
	nrecv  int
	nsent  int
	nerr   int
	nsize  int
}

func (s *scen) note(f string, a ...interface{}) {
	s.mu.Lock()
	if len(s.notes) < 6 {
		s.notes = append(s.notes, fmt.Sprintf(f, a...))
	}
	s.mu.Unlock()
}

func cp(b []byte) []byte { return append([]byte{}, b...) }

// recv: Recv, record the hand-out, snapshot, hold.
func (s *scen) recv(e msgEnd) (*held, error) {
	m, err := e.RecvMsg()
	if err != nil {
		return nil, err
	}
	app(opHandOut, m)
	h := &held{m, cp(m.Header), cp(m.Body)}
	s.mu.Lock()
	s.held = append(s.held, h)
	s.nrecv++
	s.mu.Unlock()
	return h, nil
}

func (s *scen) check(h *held, when string) {
	if !bytes.Equal(h.m.Header, h.hdr) || !bytes.Equal(h.m.Body, h.body) {
		s.mu.Lock()
		s.snapOK = false
		s.mu.Unlock()
		s.note("%s: a held message changed (%d+%d bytes; was %s.. now %s..)", when, len(h.hdr), len(h.body), hx(h.body), hx(h.m.Body))
	}
}

func hx(b []byte) string {
	if len(b) > 8 {
		b = b[:8]
	}
	return fmt.Sprintf("%x", b)
}

// verify re-compares every held message with its snapshot.
func (s *scen) verify(when string) {
	s.mu.Lock()
	hs := append([]*held{}, s.held...)
	s.mu.Unlock()
	for _, h := range hs {
		s.check(h, when)
	}
}

func (s *scen) drop(h *held) {
	s.mu.Lock()
	for i, x := range s.held {
		if x == h {
			s.held = append(s.held[:i], s.held[i+1:]...)
			break
		}
	}
	s.mu.Unlock()
}

// free: the application is done with a received message.
func (s *scen) free(h *held) {
	s.check(h, "before free")
	s.drop(h)
	app(opAppFree, h.m)
	h.m.Free()
}

// release frees the n oldest held messages (all if n < 0).
func (s *scen) release(n int) {
	s.mu.Lock()
	hs := append([]*held{}, s.held...)
	s.mu.Unlock()
	for i, h := range hs {
		if n >= 0 && i >= n {
			break
		}
		s.free(h)
	}
}

// forward passes a received message on (a device): the application gives it up to Send.
func (s *scen) forward(h *held, e msgEnd) error {
	s.check(h, "before forward")
	s.drop(h)
	app(opAppFree, h.m)
	body := cp(h.m.Body)
	err := e.SendMsg(h.m)
	if err != nil {
		s.failed(h.m, body, err)
	}
	return err
}

// forwardShared: like forward, but the application keeps a reference of its own (Clone) to the message it forwards:
// that reference stays exactly what was received -- header and body -- whatever the send does with the other one.
func (s *scen) forwardShared(h *held, e msgEnd) error {
	s.check(h, "before forward")
	s.drop(h)
	app(opAppFree, h.m) // from here on the ledger sees plain reference counting: the application's Clone, the send, the two releases
	h.m.Clone()
	hdr, body := cp(h.m.Header), cp(h.m.Body)
	err := e.SendMsg(h.m)
	if err != nil {
		s.failedH(h.m, hdr, true, body, err)
	}
	if !bytes.Equal(h.m.Header, hdr) || !bytes.Equal(h.m.Body, body) {
		s.mu.Lock()
		s.errOK = false
		s.mu.Unlock()
		s.note("the reference the application kept of a message it forwarded was changed by SendMsg (err=%v): header %s -> %s, body %s.. -> %s..", err, hx(hdr), hx(h.m.Header), hx(body), hx(h.m.Body))
	}
	h.m.Free() // the application's own reference
	return err
}

func (s *scen) failed(m *mangos.Message, body []byte, err error) {
	s.failedH(m, nil, false, body, err)
}

// failedH also checks the header the caller supplied: a failed SendMsg leaves the whole message as it was.
func (s *scen) failedH(m *mangos.Message, hdr []byte, checkHdr bool, body []byte, err error) {
	app(opSendErr, m)
	if checkHdr && !bytes.Equal(m.Header, hdr) {
		s.mu.Lock()
		s.errOK = false
		s.mu.Unlock()
		s.note("after Send failed (%v) the caller's header differs: was %s now %s", err, hx(hdr), hx(m.Header))
	}
	if !bytes.Equal(m.Body, body) {
		s.mu.Lock()
		s.errOK = false
		s.mu.Unlock()
		s.note("after Send failed (%v) the caller's body differs: was %s.. now %s..", err, hx(body), hx(m.Body))
	}
	s.mu.Lock()
	s.nerr++
	s.mu.Unlock()
	m.Free()
}

func (s *scen) mk(hdr, body []byte) *mangos.Message {
	m := mangos.NewMessage(len(body))
	m.Body = append(m.Body, body...)
	if hdr != nil {
		m.Header = append(m.Header, hdr...)
	}
	return m
}

// send: on success the message is the library's (never touched again here); on failure it must still be ours.
func (s *scen) send(e msgEnd, hdr, body []byte) error {
	m := s.mk(hdr, body)
	err := e.SendMsg(m)
	if err != nil {
		s.failedH(m, hdr, hdr != nil, body, err)
		return err
	}
	s.mu.Lock()
	s.nsent++
	s.mu.Unlock()
	return nil
}

// sendShared: the application keeps a second reference to what it sends.
func (s *scen) sendShared(e msgEnd, hdr, body []byte, settle time.Duration) error {
	m := s.mk(hdr, body)
	m.Clone()
	err := e.SendMsg(m)
	if err != nil {
		s.failed(m, body, err) // frees the reference Send did not take
	} else {
		time.Sleep(settle)
		s.churn([]int{len(body)})
	}
	if !bytes.Equal(m.Body, body) {
		s.mu.Lock()
		s.errOK = false
		s.mu.Unlock()
		s.note("the application's own reference to a sent message went bad (err=%v): was %s.. now %s..", err, hx(body), hx(m.Body))
	}
	m.Free() // our own reference
	return err
}

var classSizes = []int{63, 64, 65, 127, 128, 129, 255, 256, 257, 511, 512, 513, 1023, 1024, 1025, 4095, 4096, 4097, 8191, 8192, 8193, 0, 1, 100}

// churn allocates, scribbles over and frees buffers of the given sizes (and their neighbours), twice: whatever
// the library released too early is handed out again here and overwritten.
func (s *scen) churn(sizes []int) {
	for round := 0; round < 2; round++ {
		var ms []*mangos.Message
		for _, n := range sizes {
			for _, d := range []int{-1, 0, 1} {
				if n+d < 0 {
					continue
				}
				m := mangos.NewMessage(n + d)
				for i := 0; i < n+d; i++ {
					m.Body = append(m.Body, 0xA5)
				}
				m.Header = append(m.Header, 0xA5, 0xA5, 0xA5, 0xA5, 0xA5, 0xA5, 0xA5, 0xA5)
				ms = append(ms, m)
			}
		}
		for _, m := range ms {
			m.Free()
		}
	}
}

func (s *scen) heldSizes() []int {
	s.mu.Lock()
	defer s.mu.Unlock()
	seen := map[int]bool{}
	var out []int
	for _, h := range s.held {
		n := len(h.body) + len(h.hdr)
		if !seen[n] {
			seen[n] = true
			out = append(out, n)
		}
	}
	return out
}

// settle: more traffic has happened; reuse buffers; re-compare.
func (s *scen) settle(when string) {
	s.churn(s.heldSizes())
	s.verify(when)
}

func (s *scen) size() int {
	n := classSizes[s.nsize%len(classSizes)]
	s.nsize++
	return n
}

func (s *scen) body(prefix string, n int) []byte {
	b := append([]byte(prefix), coqgen.GenBody(uint64(s.r.Intn(256)), n)...)
	return b
}

func setd(e interface {
	SetOption(string, interface{}) error
}, rd, sd time.Duration) {
	_ = e.SetOption(mangos.OptionRecvDeadline, rd)
	_ = e.SetOption(mangos.OptionSendDeadline, sd)
}

// recvN receives up to n messages (stops at the first error), holding them.
func (s *scen) recvN(e msgEnd, n int) []*held {
	var out []*held
	for i := 0; i < n; i++ {
		h, err := s.recv(e)
		if err != nil {
			break
		}
		out = append(out, h)
	}
	return out
}

type sock struct {
	mangos.Socket
	ev *wire.Events
}

func (s *scen) open(name string) *sock {
	x := wire.New(name)
	setd(x, 800*time.Millisecond, 800*time.Millisecond)
	return &sock{x, wire.Track(x)}
}

func (s *scen) connect(l, d *sock) bool {
	if _, err := wire.Connect(s.tr, l.Socket, d.Socket, l.ev, d.ev); err != nil {
		s.note("connect: %v", err)
		return false
	}
	return true
}

// ------------------------------------------------------------------ scenarios: fan-out over real sockets ----

// PUB -> 3 SUB: one cooked SUB with three contexts whose subscriptions overlap, one plain SUB, one raw XSUB.
func pubsub(s *scen) {
	pub := s.open("pub")
	defer pub.Close()
	sa, sb, sc := s.open("sub"), s.open("sub"), s.open("xsub")
	defer sa.Close()
	defer sb.Close()
	defer sc.Close()
	var ctxs []mangos.Context
	for _, topic := range []string{"", "A", "AB"} {
		c, err := sa.OpenContext()
		if err != nil {
			s.note("context: %v", err)
			return
		}
		_ = c.SetOption(mangos.OptionSubscribe, []byte(topic))
		setd(c, 800*time.Millisecond, 0)
		ctxs = append(ctxs, c)
	}
	_ = sb.SetOption(mangos.OptionSubscribe, []byte("A"))
	_ = sc.SetOption(mangos.OptionSubscribe, []byte(""))
	if !s.connect(pub, sa) || !s.connect(pub, sb) || !s.connect(pub, sc) {
		return
	}
	topics := []string{"AB", "A.", "X."}
	for i := 0; i < 12; i++ {
		t := topics[i%3]
		if i == 6 {
			if s.sendShared(pub, nil, s.body(t, s.size()), 3*time.Millisecond) != nil {
				continue
			}
		} else if s.send(pub, nil, s.body(t, s.size())) != nil {
			continue
		}
		// every matching context / socket takes its copy and keeps it
		for ci, c := range ctxs {
			if strings.HasPrefix(t, []string{"", "A", "AB"}[ci]) {
				s.recv(c)
			}
		}
		if t[0] == 'A' {
			s.recv(sb)
		}
		s.recv(sc)
		if i%3 == 2 {
			s.settle("pubsub round")
			s.release(len(s.held) / 2)
		}
	}
	s.settle("pubsub end")
	s.release(-1)
	// a burst nobody reads at once: queues fill, the oldest are dropped
	for i := 0; i < 150; i++ {
		s.send(pub, nil, s.body("AB", 40+i%50))
	}
	time.Sleep(20 * time.Millisecond)
	s.recvN(ctxs[0], 5)
	s.recvN(ctxs[2], 5)
	s.recvN(sb, 5)
	s.settle("pubsub burst")
	s.release(-1)
}

// two contexts of one SUB socket, each read by its own goroutine, both matching every publication: each gets the
// published bytes, and may then do what it likes with its message (it is its own) without the other noticing.
func subConcurrent(s *scen) {
	pub, sub := s.open("pub"), s.open("sub")
	defer pub.Close()
	defer sub.Close()
	var ctxs []mangos.Context
	for i := 0; i < 2; i++ {
		c, err := sub.OpenContext()
		if err != nil {
			s.note("context: %v", err)
			return
		}
		_ = c.SetOption(mangos.OptionSubscribe, []byte(""))
		setd(c, 2*time.Second, 0)
		ctxs = append(ctxs, c)
	}
	if !s.connect(pub, sub) {
		return
	}
	sizes := []int{60000, 200000, 900000, 70, 5000}
	rounds := 12
	for r := 0; r < rounds; r++ {
		want := s.body(fmt.Sprintf("sc%02d", r), sizes[r%len(sizes)])
		if s.send(pub, nil, want) != nil {
			continue
		}
		var wg sync.WaitGroup
		for ci, c := range ctxs {
			wg.Add(1)
			go func(ci int, c mangos.Context) {
				defer wg.Done()
				h, err := s.recv(c)
				if err != nil {
					s.note("context %d round %d: %v", ci, r, err)
					s.mu.Lock()
					s.snapOK = false
					s.mu.Unlock()
					return
				}
				if !bytes.Equal(h.m.Body, want) {
					s.mu.Lock()
					s.snapOK = false
					s.mu.Unlock()
					s.note("context %d round %d: received %d bytes %s.., published %d bytes %s..", ci, r, len(h.m.Body), hx(h.m.Body), len(want), hx(want))
				}
				// its own message: use it as scratch space, then give it back
				s.drop(h)
				for i := range h.m.Body {
					h.m.Body[i] = 0xEE
				}
				app(opAppFree, h.m)
				h.m.Free()
			}(ci, c)
		}
		wg.Wait()
	}
	s.settle("sub concurrent")
}

// a context with READQ-LEN 0 that nobody is receiving on, next to a busy sibling matching the same publications: what the
// idle one cannot take is dropped once; the sibling's copies stay intact.
func subZeroQueue(s *scen) {
	pub, sub := s.open("pub"), s.open("sub")
	defer pub.Close()
	defer sub.Close()
	idle, e1 := sub.OpenContext()
	busy, e2 := sub.OpenContext()
	if e1 != nil || e2 != nil {
		return
	}
	_ = idle.SetOption(mangos.OptionReadQLen, 0)
	_ = idle.SetOption(mangos.OptionSubscribe, []byte(""))
	_ = busy.SetOption(mangos.OptionReadQLen, 64)
	_ = busy.SetOption(mangos.OptionSubscribe, []byte(""))
	setd(busy, 300*time.Millisecond, 0)
	if !s.connect(pub, sub) {
		return
	}
	for i := 0; i < 30; i++ {
		if s.send(pub, nil, s.body(fmt.Sprintf("zq%02d", i), s.size())) != nil {
			continue
		}
		if i%3 == 2 {
			s.recvN(busy, 3)
			s.churn(s.heldSizes())
			s.settle("sub zero queue")
		}
	}
	s.release(-1)
}

// BUS mesh of three.
func busMesh(s *scen) {
	b := []*sock{s.open("bus"), s.open("bus"), s.open("bus")}
	for _, x := range b {
		defer x.Close()
	}
	if !s.connect(b[0], b[1]) || !s.connect(b[0], b[2]) || !s.connect(b[1], b[2]) {
		return
	}
	for round := 0; round < 4; round++ {
		for i := range b {
			s.send(b[i], nil, s.body(fmt.Sprintf("b%d", i), s.size()))
		}
		for i := range b {
			s.recvN(b[i], 2)
		}
		s.settle("bus round")
		if round%2 == 1 {
			s.release(-1)
		}
	}
	s.release(-1)
}

// two cooked BUS sockets around a raw XBUS that bounces everything it receives (device style).
func busBounce(s *scen) {
	a, x, c := s.open("bus"), s.open("xbus"), s.open("bus")
	defer a.Close()
	defer x.Close()
	defer c.Close()
	if !s.connect(x, a) || !s.connect(x, c) {
		return
	}
	for i := 0; i < 6; i++ {
		from, to := a, c
		if i%2 == 1 {
			from, to = c, a
		}
		s.send(from, nil, s.body("bb", s.size()))
		h, err := s.recv(x)
		if err != nil {
			continue
		}
		s.settle("bounce held")
		if i%2 == 1 {
			s.forwardShared(h, x)
		} else {
			s.forward(h, x)
		}
		s.recv(to)
		s.settle("bounce delivered")
	}
	s.release(-1)
}

// STAR: a centre and two leaves; what a leaf sends reaches the other leaf through the centre.
func star(s *scen) {
	c, l1, l2 := s.open("star"), s.open("star"), s.open("star")
	defer c.Close()
	defer l1.Close()
	defer l2.Close()
	if !s.connect(c, l1) || !s.connect(c, l2) {
		return
	}
	all := []*sock{c, l1, l2}
	for round := 0; round < 4; round++ {
		for i := range all {
			s.send(all[i], nil, s.body(fmt.Sprintf("s%d", i), s.size()))
		}
		for i := range all {
			s.recvN(all[i], 2)
		}
		s.settle("star round")
		if round%2 == 1 {
			s.release(-1)
		}
	}
	s.release(-1)
	// the application owns what Recv returned: it may refill that very object and send it on the same socket -- every
	// other member gets it, the one the earlier message came from included
	for _, from := range []*sock{l1, l2} {
		s.send(from, nil, s.body("ask", 40))
		h, err := s.recv(c)
		if err != nil {
			s.note("hub did not receive: %v", err)
			continue
		}
		s.drop(h)
		app(opAppFree, h.m)
		want := s.body("ans", 50)
		h.m.Body = append(h.m.Body[:0], want...)
		if err := c.SendMsg(h.m); err != nil {
			s.failed(h.m, want, err)
			continue
		}
		for _, to := range []*sock{l1, l2} {
			g, err := s.recv(to)
			if err == nil && !bytes.Equal(g.m.Body, want) {
				g, err = s.recv(to) // the other leaf first gets the question, relayed by the hub
			}
			if err != nil || !bytes.Equal(g.m.Body, want) {
				s.mu.Lock()
				s.errOK = false
				s.mu.Unlock()
				s.note("a message object returned by Recv, refilled and sent again on the same socket, did not reach every member: %v", err)
			}
		}
		s.settle("star reuse")
		s.release(-1)
	}
}

// raw XSTAR leaf and centre.
func starRaw(s *scen) {
	c, l1, l2 := s.open("xstar"), s.open("xstar"), s.open("star")
	defer c.Close()
	defer l1.Close()
	defer l2.Close()
	if !s.connect(c, l1) || !s.connect(c, l2) {
		return
	}
	for i := 0; i < 5; i++ {
		s.send(l1, []byte{0, 0, 0, 0}, s.body("xs", s.size()))
		s.recv(c)  // the centre's application copy
		s.recv(l2) // forwarded by the centre's receiver
		s.send(l2, nil, s.body("cs", s.size()))
		s.recv(c)
		s.recv(l1)
		s.settle("xstar round")
	}
	s.release(-1)
}

// SURVEYOR -> 3 RESPONDENT (one raw).
func survey(s *scen) {
	sv := s.open("surveyor")
	defer sv.Close()
	_ = sv.SetOption(mangos.OptionSurveyTime, 600*time.Millisecond)
	rs := []*sock{s.open("respondent"), s.open("respondent"), s.open("xrespondent")}
	for _, r := range rs {
		defer r.Close()
		if !s.connect(sv, r) {
			return
		}
	}
	c2, err := sv.OpenContext()
	if err == nil {
		_ = c2.SetOption(mangos.OptionSurveyTime, 600*time.Millisecond)
		setd(c2, 800*time.Millisecond, 800*time.Millisecond)
	}
	for round := 0; round < 4; round++ {
		var from msgEnd = sv
		if round == 2 && err == nil {
			from = c2
		}
		if s.send(from, nil, s.body("sv", s.size())) != nil {
			continue
		}
		for i, r := range rs {
			h, e := s.recv(r)
			if e != nil {
				continue
			}
			if i == 2 {
				s.settle("survey held raw")
				s.forward(h, r) // the raw respondent answers with the very message (header = return path)
			} else {
				s.send(r, nil, s.body("rs", s.size()))
			}
		}
		s.recvN(from, 3)
		s.settle("survey round")
		if round%2 == 1 {
			s.release(-1)
		}
	}
	s.release(-1)
	// a new survey cancels the previous one while answers are still queued for it
	if s.send(sv, nil, s.body("sv", 70)) == nil {
		for _, r := range rs[:2] {
			if h, e := s.recv(r); e == nil {
				s.send(r, nil, s.body("rs", 200))
				s.free(h)
			}
		}
		time.Sleep(10 * time.Millisecond)
		s.send(sv, nil, s.body("sv", 71))
		time.Sleep(10 * time.Millisecond)
	}
	s.release(-1)
}

// raw XSURVEYOR -> 2 RESPONDENT
func surveyRaw(s *scen) {
	sv := s.open("xsurveyor")
	defer sv.Close()
	rs := []*sock{s.open("respondent"), s.open("respondent")}
	for _, r := range rs {
		defer r.Close()
		if !s.connect(sv, r) {
			return
		}
	}
	for round := 0; round < 3; round++ {
		s.send(sv, []byte{0x80, 0, 0, byte(round + 1)}, s.body("xv", s.size()))
		for _, r := range rs {
			if _, e := s.recv(r); e == nil {
				s.send(r, nil, s.body("xr", s.size()))
			}
		}
		s.recvN(sv, 2)
		s.settle("xsurvey round")
	}
	s.release(-1)
}

// REQ -> REP, the reply held back beyond the retry time: the request is transmitted again.
func reqRetry(s *scen) {
	rq, rp := s.open("req"), s.open("rep")
	defer rq.Close()
	defer rp.Close()
	_ = rq.SetOption(mangos.OptionRetryTime, 40*time.Millisecond)
	if !s.connect(rp, rq) {
		return
	}
	for round := 0; round < 3; round++ {
		if s.send(rq, nil, s.body("rq", s.size())) != nil {
			continue
		}
		h, err := s.recv(rp)
		if err != nil {
			continue
		}
		time.Sleep(60 * time.Millisecond) // at least one retransmission is now queued at the REP
		s.settle("req retry wait")
		s.send(rp, nil, s.body("rp", s.size()))
		s.free(h)
		if _, err := s.recv(rp); err == nil { // the retransmitted copy
			s.send(rp, nil, s.body("r2", s.size())) // answered again: the REQ drops this one
		}
		s.recv(rq)
		s.settle("req retry reply")
	}
	// a request abandoned by a new one, and one cancelled by Close
	s.send(rq, nil, s.body("rq", 300))
	s.send(rq, nil, s.body("rq", 301))
	s.recvN(rp, 2)
	s.settle("req replaced")
	s.release(-1)
	s.send(rq, nil, s.body("rq", 302))
}

// REQ with retransmission switched off (RETRY-TIME 0): the request still belongs to the socket until it is answered,
// replaced or the socket closes -- also after the transport has written and released its reference.
func reqNoRetry(s *scen) {
	rq, rp := s.open("req"), s.open("rep")
	defer rq.Close()
	defer rp.Close()
	_ = rq.SetOption(mangos.OptionRetryTime, time.Duration(0))
	if !s.connect(rp, rq) {
		return
	}
	for round := 0; round < 4; round++ {
		n := s.size()
		if s.send(rq, nil, s.body("nr", n)) != nil {
			continue
		}
		h, err := s.recv(rp)
		if err != nil {
			continue
		}
		s.churn([]int{n, n + 4, 64}) // the application allocates while the request is outstanding
		s.settle("req no-retry outstanding")
		s.send(rp, nil, s.body("np", s.size()))
		s.free(h)
		s.recv(rq)
		s.settle("req no-retry answered")
	}
	s.release(-1)
	s.send(rq, nil, s.body("nr", 200)) // left outstanding at Close
	time.Sleep(2 * time.Millisecond)
}

// two contexts on one REQ, answers crossing.
func reqContexts(s *scen) {
	rq, rp := s.open("req"), s.open("xrep")
	defer rq.Close()
	defer rp.Close()
	if !s.connect(rp, rq) {
		return
	}
	c1, e1 := rq.OpenContext()
	c2, e2 := rq.OpenContext()
	if e1 != nil || e2 != nil {
		return
	}
	setd(c1, 800*time.Millisecond, 800*time.Millisecond)
	setd(c2, 800*time.Millisecond, 800*time.Millisecond)
	for round := 0; round < 3; round++ {
		s.send(c1, nil, s.body("c1", s.size()))
		s.send(c2, nil, s.body("c2", s.size()))
		hs := s.recvN(rp, 2)
		s.settle("req ctx held")
		for i := len(hs) - 1; i >= 0; i-- { // answered in the opposite order, with the request itself
			s.forward(hs[i], rp)
		}
		s.recv(c1)
		s.recv(c2)
		s.settle("req ctx replies")
	}
	s.release(-1)
}

// REQ with two REP peers; the one that gets the request goes away without answering.
func reqDrop(s *scen) {
	rq := s.open("req")
	defer rq.Close()
	_ = rq.SetOption(mangos.OptionRetryTime, 50*time.Millisecond)
	r1, r2 := s.open("rep"), s.open("rep")
	defer r2.Close()
	defer r1.Close()
	if !s.connect(r1, rq) || !s.connect(r2, rq) {
		return
	}
	setd(r1, 150*time.Millisecond, 300*time.Millisecond)
	setd(r2, 150*time.Millisecond, 300*time.Millisecond)
	if s.send(rq, nil, s.body("rq", 1023)) != nil {
		return
	}
	got := make([]*held, 2)
	var wg sync.WaitGroup
	for i, r := range []*sock{r1, r2} {
		wg.Add(1)
		go func(i int, r *sock) {
			defer wg.Done()
			got[i], _ = s.recv(r)
		}(i, r)
	}
	wg.Wait()
	first, other := r1, r2
	if got[0] == nil {
		first, other = r2, r1
	}
	if got[0] == nil && got[1] == nil {
		s.note("request reached nobody")
		return
	}
	if got[0] == nil || got[1] == nil {
		first.Close() // the peer that holds the request drops; the held message stays the application's
		s.settle("req peer dropped")
		setd(other, 800*time.Millisecond, 300*time.Millisecond)
		if _, err := s.recv(other); err == nil {
			s.send(other, nil, s.body("rp", 4097))
		}
	} else {
		s.send(first, nil, s.body("rp", 4097))
	}
	s.recv(rq)
	s.settle("req drop end")
	s.release(-1)
}

// one-hop patterns, cooked and raw, both directions where there is one.
func oneHop(sn, rn string, shdr []byte, twoWay bool) func(*scen) {
	return func(s *scen) {
		a, b := s.open(sn), s.open(rn)
		defer a.Close()
		defer b.Close()
		if rn == "sub" || rn == "xsub" {
			_ = b.SetOption(mangos.OptionSubscribe, []byte(""))
		}
		if !s.connect(b, a) {
			return
		}
		for i := 0; i < 10; i++ {
			if i == 5 { // the application keeps a reference of its own to this one
				if s.sendShared(a, shdr, s.body("oh", s.size()), 3*time.Millisecond) != nil {
					continue
				}
			} else if s.send(a, shdr, s.body("oh", s.size())) != nil {
				continue
			}
			h, err := s.recv(b)
			if err != nil {
				continue
			}
			if twoWay {
				if strings.HasPrefix(rn, "x") {
					s.forward(h, b)
				} else {
					s.send(b, nil, s.body("ob", s.size()))
				}
				s.recv(a)
			}
			if i%4 == 3 {
				s.settle("one hop")
				s.release(len(s.held) - 1)
			}
		}
		s.settle("one hop end")
		s.release(-1)
	}
}

// big messages (not pooled above the last class) through a fan-out.
func bigFan(s *scen) {
	pub := s.open("pub")
	defer pub.Close()
	var subs []*sock
	for i := 0; i < 3; i++ {
		x := s.open("sub")
		defer x.Close()
		_ = x.SetOption(mangos.OptionSubscribe, []byte(""))
		if !s.connect(pub, x) {
			return
		}
		subs = append(subs, x)
	}
	for _, n := range []int{65535, 65536, 65537, 8192, 100000} {
		if s.send(pub, nil, s.body("", n)) != nil {
			continue
		}
		for _, x := range subs {
			s.recv(x)
		}
		s.settle("big fan")
		s.release(2)
	}
	s.release(-1)
}

// the receiving peer goes away in the middle of a bulk transfer: sends fail inside the transport and time out above.
func bulkDrop(sn, rn string) func(*scen) {
	return func(s *scen) {
		a, b := s.open(sn), s.open(rn)
		defer a.Close()
		if rn == "sub" {
			_ = b.SetOption(mangos.OptionSubscribe, []byte(""))
		}
		if !s.connect(b, a) {
			b.Close()
			return
		}
		setd(a, 100*time.Millisecond, 30*time.Millisecond)
		done := make(chan struct{})
		go func() {
			defer close(done)
			s.recvN(b, 2)
			b.Close()
		}()
		fails := 0
		for i := 0; i < 60 && fails < 3; i++ {
			if s.send(a, nil, s.body("bk", 65536+i)) != nil {
				fails++
			}
		}
		<-done
		s.settle("bulk drop")
		s.release(-1)
	}
}

// ------------------------------------------------------------------ scenarios: Send outcomes ----

var rawHdr = map[string][]byte{
	"xreq": {0x80, 0, 0, 1}, "xsurveyor": {0x80, 0, 0, 1}, "xstar": {0, 0, 0, 0}, "xpair1": {0, 0, 0, 0},
	"xrep": {0, 0, 0, 1, 0x80, 0, 0, 1}, "xrespondent": {0, 0, 0, 1, 0x80, 0, 0, 1},
}

// every way a Send can end without a peer, for one socket type.
func sendOutcomes(name string) func(*scen) {
	return func(s *scen) {
		hdr := rawHdr[name]
		try := func(prep func(x mangos.Socket), shared bool) {
			x := wire.New(name)
			_ = x.SetOption(mangos.OptionSendDeadline, 15*time.Millisecond)
			if prep != nil {
				prep(x)
			}
			n := s.size()
			if shared {
				s.sendShared(x, hdr, s.body("se", n), 3*time.Millisecond)
			} else {
				s.send(x, hdr, s.body("se", n))
			}
			x.Close()
		}
		for _, shared := range []bool{false, true} {
			try(nil, shared)                                 // deadline with nobody there (or a silent drop)
			try(func(x mangos.Socket) { x.Close() }, shared) // closed
			try(func(x mangos.Socket) { _ = x.SetOption(mangos.OptionFailNoPeers, true) }, shared)
			try(func(x mangos.Socket) { _ = x.SetOption(mangos.OptionBestEffort, true) }, shared)
			try(func(x mangos.Socket) {
				_ = x.SetOption(mangos.OptionSendDeadline, time.Duration(0))
				go func() { time.Sleep(8 * time.Millisecond); x.Close() }()
			}, shared) // closed while blocked
		}
		s.churn([]int{64, 128, 1024})
	}
}

// a connected peer that does not read: queues fill, Send times out; then it reads and everything drains.
func fullQueue(sn, rn string, shdr []byte) func(*scen) {
	return func(s *scen) {
		a, b := s.open(sn), s.open(rn)
		defer a.Close()
		defer b.Close()
		_ = a.SetOption(mangos.OptionWriteQLen, 1)
		_ = b.SetOption(mangos.OptionReadQLen, 1)
		if !s.connect(b, a) {
			return
		}
		setd(a, 100*time.Millisecond, 15*time.Millisecond)
		n := 700
		if s.tr != "inproc" {
			n = 65536 + 100
		}
		fails := 0
		for i := 0; i < 400 && fails < 2; i++ {
			if s.send(a, shdr, s.body("fq", n)) != nil {
				fails++
			}
		}
		if fails > 0 {
			s.sendShared(a, shdr, s.body("fq", n), time.Millisecond) // times out as well: both references stay ours
		}
		_ = a.SetOption(mangos.OptionBestEffort, true)
		for i := 0; i < 3; i++ {
			s.send(a, shdr, s.body("fq", n)) // dropped by the library
		}
		setd(b, 40*time.Millisecond, 0)
		for {
			hs := s.recvN(b, 8)
			s.settle("full queue drain")
			s.release(-1)
			if len(hs) < 8 {
				break
			}
		}
	}
}

// ------------------------------------------------------------------ scenarios: protocol instances over mock pipes ----

// every protocol implementation with mock pipes: sends that the transport fails, peers that vanish with sends
// pending, arbitrary and well-formed bodies coming in while the application holds what it receives.
func mock(name string) func(*scen) {
	return func(s *scen) {
		p := wire.Protocols[name]()
		defer p.Close()
		if name == "sub" || name == "xsub" {
			_ = p.SetOption(mangos.OptionSubscribe, []byte{})
		}
		_ = p.SetOption(mangos.OptionRecvDeadline, 15*time.Millisecond)
		_ = p.SetOption(mangos.OptionSendDeadline, 15*time.Millisecond)
		_ = p.SetOption(mangos.OptionRetryTime, 25*time.Millisecond)
		_ = p.SetOption(mangos.OptionSurveyTime, 200*time.Millisecond)
		rec := &mp.Recorder{}
		var pipes []*mp.Pipe
		for i := 0; i < 3; i++ {
			pp := mp.NewPipe(uint32(100+i), i, p, rec)
			if err := pp.Attach(); err != nil {
				if i == 0 {
					s.note("attach: %v", err)
					return
				}
				break // the PAIR family takes one peer
			}
			pipes = append(pipes, pp)
		}
		if len(pipes) < 3 { // one pipe plays all parts: its held send completes, the failing send comes last
			one := pipes[0]
			spare := mp.NewPipe(199, 3, p, rec) // never attached: failing / closing it is harmless
			pipes = []*mp.Pipe{spare, one, one}
		}
		hdr := rawHdr[name]
		if name == "xrep" || name == "xrespondent" {
			hdr = []byte{0, 0, 0, 100, 0x80, 0, 0, 1}
		}
		// 1. pipe 0 holds its sends and then fails them; pipe 1 holds and completes; pipe 2 completes at once
		pipes[0].SetHold(true)
		pipes[1].SetHold(true)
		for i := 0; i < 4; i++ {
			s.send(p, hdr, s.body("mk", s.size()))
			if name == "req" || name == "surveyor" || name == "rep" || name == "respondent" {
				break
			}
		}
		time.Sleep(3 * time.Millisecond)
		for pipes[1].Release(true) {
		}
		time.Sleep(2 * time.Millisecond)
		pipes[0].Release(false) // the transport reports failure: the protocol still owns that message
		time.Sleep(3 * time.Millisecond)
		for pipes[1].Release(true) {
		}
		pipes[1].SetHold(false)
		// 2. well-formed and arbitrary bodies come in; the application holds what it gets
		inj := func(pp *mp.Pipe, b []byte) { pp.Inject(b, 30*time.Millisecond) }
		for i := 0; i < 14; i++ {
			n := s.size()
			var b []byte
			switch i % 7 {
			case 0:
				b = s.body("", n)
			case 1:
				b = append([]byte{0x80, 0, 0, 1}, s.body("", n)...) // request/survey id 1 (first of a fresh socket is nextID+1 ...)
			case 2:
				b = append([]byte{0, 0, 0, 1, 0x80, 0, 0, 2}, s.body("", n)...)
			case 3:
				b = append([]byte{0, 0, 0, 1}, s.body("", n)...) // star / pair1 hop count
			case 4:
				b = []byte{1, 2}
			case 5:
				b = append([]byte{0, 0, 0, 200}, s.body("", 10)...) // too many hops
			default:
				b = append([]byte{0, 0, 0, 1, 0, 0, 0, 2, 0, 0, 0, 3}, s.body("", 5)...) // no request bit
			}
			inj(pipes[1+i%2], b)
			if i%3 == 2 {
				time.Sleep(time.Millisecond)
				hs := s.recvN(p, 3)
				if (name == "rep" || name == "respondent") && len(hs) > 0 {
					s.send(p, nil, s.body("rp", s.size()))
				}
				if (name == "xrep" || name == "xrespondent" || name == "xbus" || name == "xstar") && len(hs) > 0 {
					s.forward(hs[0], p)
				}
				s.settle("mock rx")
			}
		}
		s.release(-1)
		// 3. a request / survey answered properly (the id is read off the transmission)
		if name == "req" || name == "surveyor" {
			rec.TakeTx()
			if s.send(p, nil, s.body("q2", 500)) == nil {
				time.Sleep(3 * time.Millisecond)
				for _, tx := range rec.TakeTx() {
					if len(tx.Header) >= 4 {
						id := tx.Header[len(tx.Header)-4:]
						inj(tx.Pipe, append(cp(id), s.body("a2", 513)...))
						inj(tx.Pipe, append(cp(id), s.body("a3", 64)...)) // a duplicate answer
					}
				}
				time.Sleep(2 * time.Millisecond)
				s.recvN(p, 3)
				s.settle("mock answered")
				if name == "req" { // retransmission after the retry time, then the peer vanishes
					s.send(p, nil, s.body("q3", 129))
					time.Sleep(35 * time.Millisecond)
				}
			}
		}
		// 4. a peer vanishes with a send pending
		pipes[2].SetHold(true)
		s.send(p, hdr, s.body("mk", s.size()))
		time.Sleep(2 * time.Millisecond)
		pipes[2].Close()
		time.Sleep(2 * time.Millisecond)
		s.settle("mock end")
		s.release(-1)
	}
}

// the receive queue is full and a pipe's receiver goroutine sits on one more message when READQ-LEN is changed (twice):
// whatever the application receives afterwards is its own -- held, compared again after more traffic of the same sizes,
// then released exactly once.  Every protocol that takes READQ-LEN, over mock pipes.
func mockResize(name string) func(*scen) {
	return func(s *scen) {
		p := wire.Protocols[name]()
		defer p.Close()
		if name == "sub" || name == "xsub" {
			_ = p.SetOption(mangos.OptionSubscribe, []byte{})
		}
		if p.SetOption(mangos.OptionReadQLen, 1) != nil {
			s.note("no READQ-LEN")
			return
		}
		_ = p.SetOption(mangos.OptionRecvDeadline, 15*time.Millisecond)
		_ = p.SetOption(mangos.OptionSendDeadline, 15*time.Millisecond)
		_ = p.SetOption(mangos.OptionSurveyTime, 500*time.Millisecond)
		rec := &mp.Recorder{}
		var pipes []*mp.Pipe
		for i := 0; i < 2; i++ {
			pp := mp.NewPipe(uint32(100+i), i, p, rec)
			if pp.Attach() != nil {
				break
			}
			pipes = append(pipes, pp)
		}
		if len(pipes) == 0 {
			s.note("attach failed")
			return
		}
		// what a peer has to put in front of the body for the message to be accepted
		pre := []byte{}
		switch name {
		case "rep", "xrep", "respondent", "xrespondent":
			pre = []byte{0x80, 0, 0, 1}
		case "star", "xstar", "pair1", "xpair1":
			pre = []byte{0, 0, 0, 1}
		case "req", "xreq", "surveyor", "xsurveyor":
			rec.TakeTx()
			if s.send(p, rawHdr[name], s.body("q", 64)) != nil {
				return
			}
			time.Sleep(3 * time.Millisecond)
			for _, tx := range rec.TakeTx() {
				if len(tx.Header) >= 4 {
					pre = cp(tx.Header[len(tx.Header)-4:])
				}
			}
			if len(pre) == 0 {
				pre = []byte{0x80, 0, 0, 1}
			}
		}
		for round := 0; round < 2; round++ {
			sizes := []int{s.size(), s.size(), s.size(), s.size()}
			for i, n := range sizes {
				pipes[i%len(pipes)].Inject(append(cp(pre), s.body("rz", n)...), 5*time.Millisecond)
			}
			time.Sleep(3 * time.Millisecond)
			_ = p.SetOption(mangos.OptionReadQLen, 2+round) // the receivers blocked on the full queue wake up
			time.Sleep(3 * time.Millisecond)
			for i, n := range sizes {
				pipes[i%len(pipes)].Inject(append(cp(pre), s.body("rz", n)...), 5*time.Millisecond)
			}
			time.Sleep(2 * time.Millisecond)
			s.recvN(p, 8)
			s.churn(sizes)
			s.settle("resize with a receiver holding a message")
			_ = p.SetOption(mangos.OptionReadQLen, 1)
		}
		s.release(-1)
	}
}

// a raw reply whose send times out (the requester's connection is backed up) and is then sent again by the caller:
// the failed call must leave the message exactly as it was, so that the second attempt takes the same route.
func rawRetry(name string) func(*scen) {
	return func(s *scen) {
		p := wire.Protocols[name]()
		defer p.Close()
		_ = p.SetOption(mangos.OptionWriteQLen, 1)
		_ = p.SetOption(mangos.OptionSendDeadline, 15*time.Millisecond)
		rec := &mp.Recorder{}
		a, b := mp.NewPipe(100, 0, p, rec), mp.NewPipe(101, 1, p, rec)
		if a.Attach() != nil || b.Attach() != nil {
			s.note("attach failed")
			return
		}
		a.SetHold(true)
		hdr := []byte{0, 0, 0, 100, 0, 0, 0, 101, 0x80, 0, 0, 9} // via pipe 100, then a hop that happens to be 101
		var stuck *mangos.Message
		var stuckBody []byte
		for i := 0; i < 5 && stuck == nil; i++ {
			body := s.body("rr", 40+i)
			m := s.mk(hdr, body)
			if err := p.SendMsg(m); err != nil {
				app(opSendErr, m)
				if !bytes.Equal(m.Header, hdr) || !bytes.Equal(m.Body, body) {
					s.mu.Lock()
					s.errOK = false
					s.mu.Unlock()
					s.note("after Send failed (%v) the caller's message differs: header was %s now %s", err, hx(hdr), hx(m.Header))
				}
				stuck, stuckBody = m, body
			}
		}
		if stuck == nil {
			s.note("no send timed out")
			return
		}
		// the connection drains; the caller sends the very same message again
		a.SetHold(false)
		for a.Release(true) {
		}
		time.Sleep(5 * time.Millisecond)
		rec.TakeTx()
		if err := p.SendMsg(stuck); err != nil {
			s.note("retry failed: %v", err)
			app(opSendErr, stuck)
			stuck.Free()
			return
		}
		time.Sleep(5 * time.Millisecond)
		ok := false
		for _, tx := range rec.TakeTx() {
			if bytes.Equal(tx.Body, stuckBody) {
				ok = tx.Pipe == a && bytes.Equal(tx.Header, hdr[4:])
				if !ok {
					s.note("the retried reply went to pipe %d with header %s (want pipe 100, header %s)", tx.Pipe.ID(), hx(tx.Header), hx(hdr[4:]))
				}
			}
		}
		if !ok {
			s.mu.Lock()
			s.errOK = false
			s.mu.Unlock()
			s.note("the retried reply did not reach the requester's pipe")
		}
	}
}

// ------------------------------------------------------------------ main ----

type job struct {
	name string
	tr   string
	f    func(*scen)
}

func jobs() []job {
	var js []job
	thorough := coqgen.Thorough()
	trs := []string{"inproc", "tcp", "ipc", "ws"}
	if thorough {
		trs = wire.Transports
	}
	reps := 1
	if thorough {
		reps = 3
	}
	for rep := 0; rep < reps; rep++ {
		sfx := ""
		if rep > 0 {
			sfx = fmt.Sprintf("#%d", rep)
		}
		for ti, tr := range trs {
			all := ti < 2 || thorough // quick: everything over inproc and tcp, the main topologies over ipc and ws as well
			add := func(main bool, n string, f func(*scen)) {
				if all || main {
					js = append(js, job{n + "/" + tr + sfx, tr, f})
				}
			}
			add(true, "pubsub", pubsub)
			add(ti == 0, "sub-concurrent", subConcurrent)
			add(ti < 2, "sub-zeroq", subZeroQueue)
			add(true, "bus-mesh", busMesh)
			add(false, "bus-bounce", busBounce)
			add(true, "star", star)
			add(false, "star-raw", starRaw)
			add(true, "survey", survey)
			add(false, "survey-raw", surveyRaw)
			add(true, "req-retry", reqRetry)
			add(true, "req-noretry", reqNoRetry)
			add(false, "req-contexts", reqContexts)
			add(true, "req-drop", reqDrop)
			add(false, "big-fan", bigFan)
			add(true, "hop/push-pull", oneHop("push", "pull", nil, false))
			add(false, "hop/xpush-xpull", oneHop("xpush", "xpull", nil, false))
			add(true, "hop/pair", oneHop("pair", "pair", nil, true))
			add(false, "hop/xpair", oneHop("xpair", "xpair", nil, true))
			add(false, "hop/pair1", oneHop("pair1", "pair1", nil, true))
			add(false, "hop/xpair1", oneHop("xpair1", "xpair1", []byte{0, 0, 0, 0}, false))
			add(false, "hop/xpub-xsub", oneHop("xpub", "xsub", nil, false))
			add(false, "hop/req-rep", oneHop("req", "rep", nil, true))
			add(false, "hop/xreq-xrep", oneHop("xreq", "xrep", []byte{0x80, 0, 0, 7}, true))
			add(false, "hop/surveyor-respondent", oneHop("surveyor", "respondent", nil, true))
			add(false, "full/push-pull", fullQueue("push", "pull", nil))
			add(false, "full/pair", fullQueue("pair", "pair", nil))
			add(false, "full/xpair1", fullQueue("xpair1", "xpair1", []byte{0, 0, 0, 0}))
			add(false, "full/xreq-xrep", fullQueue("xreq", "xrep", []byte{0x80, 0, 0, 9}))
			if tr != "inproc" {
				for _, p := range [][2]string{{"push", "pull"}, {"pub", "sub"}, {"pair", "pair"}, {"bus", "bus"}} {
					add(tr == "tcp" || p[0] == "push" || p[0] == "pub", "bulk-drop/"+p[0], bulkDrop(p[0], p[1]))
				}
			}
		}
		for _, n := range []string{"xrep", "xrespondent"} {
			js = append(js, job{"raw-retry/" + n + sfx, "mock", rawRetry(n)})
		}
		for _, n := range wire.AllNames {
			js = append(js, job{"send-outcomes/" + n + sfx, "inproc", sendOutcomes(n)})
			js = append(js, job{"mock/" + n + sfx, "mock", mock(n)})
			js = append(js, job{"mock-resize/" + n + sfx, "mock", mockResize(n)})
		}
	}
	return js
}

// one runs a single scenario in this (fresh) process and writes its result line and ledger to `out`:
// pools, ids and any damage a defect does stay inside the scenario.
func one(ji int, out string) {
	led.ids = map[*mangos.Message]uint32{}
	mangos.VerifHook = hook
	mangos.VerifPoison = true
	defer wire.Cleanup()
	seed := coqgen.Seed()
	j := jobs()[ji]
	s := &scen{name: j.name, tr: j.tr, r: rand.New(rand.NewSource(seed*7919 + int64(ji))), snapOK: true, errOK: true}
	s.nsize = s.r.Intn(len(classSizes))
	wd := time.AfterFunc(40*time.Second, func() {
		fmt.Fprintf(os.Stderr, "c17: watchdog: scenario %s did not finish in 40 s\n", j.name)
		os.Exit(3)
	})
	func() {
		defer func() {
			if e := recover(); e != nil {
				s.note("panic: %v", e)
				s.snapOK = false
			}
		}()
		j.f(s)
	}()
	wd.Stop()
	time.Sleep(5 * time.Millisecond) // let closed sockets' goroutines drop what they hold
	s.release(-1)
	time.Sleep(5 * time.Millisecond)
	note := fmt.Sprintf("recv %d sent %d failed %d", s.nrecv, s.nsent, s.nerr)
	if len(s.notes) > 0 {
		note += "; " + strings.Join(s.notes, "; ")
		fmt.Fprintf(os.Stderr, "c17: %s: %s\n", s.name, strings.Join(s.notes, "; "))
	}
	led.mu.Lock()
	ops := append([]lop{}, led.ops...)
	led.mu.Unlock()
	w := coqgen.Create(out)
	w.P("%s %s %s", coqgen.Bool(s.snapOK), coqgen.Bool(s.errOK), strings.Replace(note, "\n", " ", -1))
	for _, o := range ops {
		w.P("%d %d %d %d %d %d", o.k, o.m, o.a, o.b, o.c, o.d)
	}
	w.Close()
}

func clean(note string) string {
	return strings.NewReplacer("*)", "* )", "(*", "( *", "\n", " ", "\"", "'").Replace(note)
}

// worker runs its share of the scenarios, each in a process of its own, and writes one shard: the ledgers one
// after the other (object ids shifted so that they never collide), a marker in front of each.
func worker(idx, nw int, out string) {
	js := jobs()
	seed := coqgen.Seed()
	order := rand.New(rand.NewSource(seed)).Perm(len(js)) // seed-dependent, worker-independent
	var res, names, items []string
	k := 0
	base := uint32(0)
	for pos, ji := range order {
		if pos%nw != idx {
			continue
		}
		j := js[ji]
		part := fmt.Sprintf("%s.part%d", out, ji)
		cmd := exec.Command(os.Args[0], "-one", fmt.Sprint(ji), part)
		var eb bytes.Buffer
		cmd.Stderr = &eb
		cmd.Env = os.Environ()
		err := cmd.Run()
		os.Stderr.Write(eb.Bytes())
		items = append(items, fmt.Sprintf("MMark %d", k))
		names = append(names, fmt.Sprintf("(%d, %q)", k, j.name))
		k++
		data, rerr := os.ReadFile(part)
		os.Remove(part)
		if err != nil || rerr != nil {
			// the scenario's process died (a panic in a library goroutine, the watchdog): that is its result
			var keep []string
			for _, l := range strings.Split(eb.String(), "\n") {
				if strings.HasPrefix(l, "c17:") || strings.HasPrefix(l, "panic:") || strings.HasPrefix(l, "fatal error:") {
					keep = append(keep, l)
				}
				if len(keep) >= 4 {
					break
				}
			}
			res = append(res, fmt.Sprintf("(%q, false, false) (* recv 0 sent 0 failed 0; process died: %v; %s *)", j.name, err, clean(strings.Join(keep, "; "))))
			continue
		}
		lines := strings.Split(strings.TrimRight(string(data), "\n"), "\n")
		hd := strings.SplitN(lines[0], " ", 3)
		res = append(res, fmt.Sprintf("(%q, %s, %s) (* %s *)", j.name, hd[0], hd[1], clean(hd[2])))
		maxid := uint32(0)
		for _, l := range lines[1:] {
			var o lop
			var kk, m int
			fmt.Sscanf(l, "%d %d %d %d %d %d", &kk, &m, &o.a, &o.b, &o.c, &o.d)
			o.k, o.m = uint8(kk), uint32(m)+base
			if uint32(m) > maxid {
				maxid = uint32(m)
			}
			items = append(items, o.coq())
		}
		base += maxid + 1
	}
	w := coqgen.Create(out)
	w.Def("trace", "list memop", items)
	w.Def("scen_names", "list (N * string)", names)
	w.Def("scen_results", "list (string * bool * bool)", res)
	w.Close()
}

func main() {
	if len(os.Args) < 2 {
		fmt.Fprintln(os.Stderr, "usage: c17 <outdir> | c17 -worker i n out.v | c17 -list")
		os.Exit(2)
	}
	if os.Args[1] == "-list" {
		var ns []string
		for _, j := range jobs() {
			ns = append(ns, j.name)
		}
		sort.Strings(ns)
		fmt.Println(strings.Join(ns, "\n"))
		return
	}
	if os.Args[1] == "-one" {
		ji, _ := strconv.Atoi(os.Args[2])
		one(ji, os.Args[3])
		return
	}
	if os.Args[1] == "-worker" {
		i, _ := strconv.Atoi(os.Args[2])
		n, _ := strconv.Atoi(os.Args[3])
		worker(i, n, os.Args[4])
		return
	}
	outdir := os.Args[1]
	nw := 12
	if v := os.Getenv("C17_WORKERS"); v != "" {
		nw, _ = strconv.Atoi(v)
	}
	var wg sync.WaitGroup
	var mu sync.Mutex
	fail := false
	for i := 0; i < nw; i++ {
		wg.Add(1)
		go func(i int) {
			defer wg.Done()
			cmd := exec.Command(os.Args[0], "-worker", fmt.Sprint(i), fmt.Sprint(nw), filepath.Join(outdir, fmt.Sprintf("defs_%03d.v", i)))
			cmd.Stderr = os.Stderr
			cmd.Env = os.Environ()
			if err := cmd.Run(); err != nil {
				mu.Lock()
				fail = true
				mu.Unlock()
				fmt.Fprintf(os.Stderr, "c17: worker %d: %v\n", i, err)
			}
		}(i)
	}
	wg.Wait()
	if fail {
		os.Exit(1)
	}
}
