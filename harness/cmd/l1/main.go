// l1 generates and runs protocol-level histories (mock pipes, public ProtocolBase API, sequential
// driving with quiescence detection) and writes them as Gallina terms.
//
//	l1 <proto> <outdir>            parent: spawns workers, one defs_NNN.v shard per worker
//	l1 <proto> -worker <i> <n> <timed> <out.v>
package main

import (
	"fmt"
	"math/rand"
	"os"
	"os/exec"
	"path/filepath"
	"strconv"
	"sync"

	"mangosverif/coqgen"
)

type genFunc func(r *rand.Rand, timed bool) (coq string, discarded string, note string)

var gens = map[string]genFunc{
	"req": genReq,
}

func main() {
	if len(os.Args) < 3 {
		fmt.Fprintln(os.Stderr, "usage: l1 <proto> <outdir> | l1 <proto> -worker i n timed out.v")
		os.Exit(2)
	}
	proto := os.Args[1]
	gen, ok := gens[proto]
	if !ok {
		fmt.Fprintln(os.Stderr, "unknown protocol", proto)
		os.Exit(2)
	}
	if os.Args[2] == "-worker" {
		i, _ := strconv.Atoi(os.Args[3])
		n, _ := strconv.Atoi(os.Args[4])
		timed := os.Args[5] == "1"
		worker(gen, i, n, timed, os.Args[6])
		return
	}
	outdir := os.Args[2]
	nw := 16
	per, perTimed := 60, 14
	if coqgen.Thorough() {
		per, perTimed = 300, 90
	}
	if v := os.Getenv("L1_PER_WORKER"); v != "" {
		per, _ = strconv.Atoi(v)
	}
	var wg sync.WaitGroup
	fail := false
	var mu sync.Mutex
	for i := 0; i < nw; i++ {
		wg.Add(1)
		go func(i int) {
			defer wg.Done()
			// workers 0..11 untimed, 12..15 timed (they sleep, so they get fewer histories)
			timed, n := "0", per
			if i >= timedFrom() {
				timed, n = "1", perTimed
			}
			cmd := exec.Command(os.Args[0], proto, "-worker", fmt.Sprint(i), fmt.Sprint(n), timed,
				filepath.Join(outdir, fmt.Sprintf("defs_%03d.v", i)))
			cmd.Stderr = os.Stderr
			cmd.Env = os.Environ()
			if err := cmd.Run(); err != nil {
				mu.Lock()
				fail = true
				mu.Unlock()
				fmt.Fprintf(os.Stderr, "l1: worker %d: %v\n", i, err)
			}
		}(i)
	}
	wg.Wait()
	if fail {
		os.Exit(1)
	}
}

// only the first untimed and the first timed worker run the directed scripts
var scriptsEnabled bool

func worker(gen genFunc, idx, n int, timed bool, out string) {
	scriptsEnabled = idx == 0 || idx == timedFrom()
	r := rand.New(rand.NewSource(coqgen.Seed()*1000 + int64(idx)))
	w := coqgen.Create(out)
	defer w.Close()
	var items []string
	discarded := 0
	for len(items) < n && discarded < 4*n+10 {
		c, disc, note := gen(r, timed)
		if disc != "" {
			discarded++
			continue
		}
		if note != "" {
			c += " (* " + note + " *)"
		}
		items = append(items, c)
	}
	w.Def("histories", "list (list step_rec)", items)
	w.P("Definition n_discarded : N := %d.", discarded)
}

// timedFrom: index of the first worker that runs timed histories (the resend-biased mode uses more of them)
func timedFrom() int {
	if os.Getenv("L1_BIAS") == "resend" {
		return 8
	}
	return 12
}
