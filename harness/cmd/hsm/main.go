// hsm drives the stream transports' handshaker (transport.NewConnHandshaker over NewConnPipe / NewConnPipeIPC) through
// random operation sequences -- Start, a handshake completing (well or badly), Wait, Close -- over connections whose
// peer side the harness controls, one operation at a time (quiescence in between), and writes what every call returned
// and which connections were still open after it; coqc replays the same operations on Model/Handshaker.v (htrace).
package main

import (
	"errors"
	"fmt"
	"math/rand"
	"net"
	"os"
	"sort"
	"sync"
	"time"

	"mangosverif/coqgen"
	"mangosverif/seq"

	"go.nanomsg.org/mangos/v3"
	"go.nanomsg.org/mangos/v3/transport"
)

// gconn: the library's end of a connection; the harness plays the peer
type gconn struct {
	mu     sync.Mutex
	in     chan []byte
	rest   []byte
	closed bool
	cq     chan struct{}
}

func newGconn() *gconn { return &gconn{in: make(chan []byte, 4), cq: make(chan struct{})} }

func (c *gconn) Read(b []byte) (int, error) {
	c.mu.Lock()
	if len(c.rest) > 0 {
		n := copy(b, c.rest)
		c.rest = c.rest[n:]
		c.mu.Unlock()
		return n, nil
	}
	c.mu.Unlock()
	select {
	case d, ok := <-c.in:
		if !ok || d == nil {
			return 0, errors.New("EOF from the peer")
		}
		n := copy(b, d)
		c.mu.Lock()
		c.rest = append(c.rest, d[n:]...)
		c.mu.Unlock()
		return n, nil
	case <-c.cq:
		return 0, net.ErrClosed
	}
}
func (c *gconn) Write(b []byte) (int, error) {
	select {
	case <-c.cq:
		return 0, net.ErrClosed
	default:
	}
	return len(b), nil
}
func (c *gconn) Close() error {
	c.mu.Lock()
	defer c.mu.Unlock()
	if !c.closed {
		c.closed = true
		close(c.cq)
	}
	return nil
}
func (c *gconn) isClosed() bool                     { c.mu.Lock(); defer c.mu.Unlock(); return c.closed }
func (c *gconn) LocalAddr() net.Addr                { return addr{} }
func (c *gconn) RemoteAddr() net.Addr               { return addr{} }
func (c *gconn) SetDeadline(t time.Time) error      { return nil }
func (c *gconn) SetReadDeadline(t time.Time) error  { return nil }
func (c *gconn) SetWriteDeadline(t time.Time) error { return nil }

type addr struct{}

func (addr) Network() string { return "hsm" }
func (addr) String() string  { return "hsm" }

func history(r *rand.Rand) (string, string) {
	pi := transport.ProtocolInfo{Self: 16, Peer: 16, SelfName: "pair", PeerName: "pair"}
	hs := transport.NewConnHandshaker()
	conns := map[int]*gconn{}
	byPipe := map[transport.Pipe]int{}
	var inflight []int // started, handshake not finished
	pending := 0       // finished before Close and not yet collected
	closed := false
	next := 0
	var ops, obs []string
	bad := ""
	quiesce := func(what string) {
		if ok, _ := seq.Quiesce(2 * time.Second); !ok && bad == "" {
			bad = "no quiescence after " + what
		}
	}
	record := func(op, ret string) {
		var open []int
		for i, c := range conns {
			if !c.isClosed() {
				open = append(open, i)
			}
		}
		sort.Ints(open)
		var os []string
		for _, i := range open {
			os = append(os, fmt.Sprint(i))
		}
		ops = append(ops, op)
		obs = append(obs, fmt.Sprintf("(%s, %s)", ret, coqgen.List(os)))
	}
	finish := func(c int, ok bool) {
		for i, x := range inflight {
			if x == c {
				inflight = append(inflight[:i], inflight[i+1:]...)
				break
			}
		}
		if ok {
			conns[c].in <- []byte{0, 'S', 'P', 0, 0, 16, 0, 0}
		} else {
			switch r.Intn(3) {
			case 0:
				conns[c].in <- []byte{0, 'S', 'P', 0, 0, 17, 0, 0} // another protocol
			case 1:
				conns[c].in <- []byte{1, 'S', 'P', 0, 0, 16, 0, 0}
			default:
				conns[c].in <- nil // the peer hangs up
			}
		}
		quiesce("finish")
	}
	n := 8 + r.Intn(16)
	after := 0
	for step := 0; step < n && bad == "" && after < 5; step++ {
		if closed {
			after++
		}
		switch x := r.Intn(20); {
		case x < 6 && next < 9:
			next++
			c := next
			g := newGconn()
			conns[c] = g
			var p transport.ConnPipe
			if r.Intn(2) == 0 {
				p = transport.NewConnPipe(g, pi)
			} else {
				p = transport.NewConnPipeIPC(g, pi)
			}
			byPipe[p] = c
			hs.Start(p)
			quiesce("start")
			if !closed {
				inflight = append(inflight, c)
			}
			record(fmt.Sprintf("HStart %d", c), "WBlock")
		case x < 12 && len(inflight) > 0:
			c := inflight[r.Intn(len(inflight))]
			ok := r.Intn(3) != 0
			finish(c, ok)
			pending++
			record(fmt.Sprintf("HFinish %d %s", c, coqgen.Bool(ok)), "WBlock")
		case x < 17 && (pending > 0 || closed):
			type wr struct {
				p transport.Pipe
				e error
			}
			ch := make(chan wr, 1)
			go func() { p, e := hs.Wait(); ch <- wr{p, e} }()
			select {
			case w := <-ch:
				if !closed {
					pending--
				}
				ret := "WFail"
				switch {
				case w.e == nil && w.p != nil:
					ret = fmt.Sprintf("(WPipe %d)", byPipe[w.p])
				case w.e == mangos.ErrClosed && w.p == nil:
					ret = "WClosed"
				case w.e == mangos.ErrClosed:
					ret = fmt.Sprintf("(WLate %d)", byPipe[w.p])
				}
				record("HWait", ret)
			case <-time.After(2 * time.Second):
				bad = "Wait blocked although a handshake had finished"
			}
		case x == 18 && !closed && step > 3:
			done := make(chan struct{})
			go func() { hs.Close(); close(done) }()
			select {
			case <-done:
			case <-time.After(2 * time.Second):
				bad = "Close did not return"
			}
			quiesce("close")
			closed = true
			record("HClose", "WBlock")
			// the handshakes that were in flight fail at once: their connections have just been closed under them
			for _, c := range inflight {
				record(fmt.Sprintf("HFinish %d false", c), "WBlock")
			}
			inflight = nil
		}
	}
	if !closed {
		hs.Close()
	}
	for _, c := range conns {
		_ = c.Close()
	}
	seq.Quiesce(500 * time.Millisecond)
	return fmt.Sprintf("(%s, %s)", coqgen.List(ops), coqgen.List(obs)), bad
}

func main() {
	if len(os.Args) < 2 {
		fmt.Fprintln(os.Stderr, "usage: hsm <out.v>")
		os.Exit(2)
	}
	coqgen.Watchdog(5 * time.Minute)
	r := coqgen.Rand()
	n := 150
	if coqgen.Thorough() {
		n = 1500
	}
	w := coqgen.Create(os.Args[1])
	defer w.Close()
	var hsts []string
	for i := 0; i < n; i++ {
		h, bad := history(r)
		if bad != "" {
			h += " (* " + bad + " *)"
			fmt.Fprintln(os.Stderr, "hsm:", bad)
		}
		hsts = append(hsts, h)
	}
	w.Def("hs_histories", "list (list hop * list (wres * list N))", hsts)
}
