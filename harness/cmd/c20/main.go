// c20 drives the real macat code (printMsg through the verif hook, Duration
// parsing, App.Run end to end over inproc) and writes what it did and saw as
// Gallina terms for the model comparison.
package main

import (
	"context"
	"os/exec"
	"bytes"
	"fmt"
	"math/rand"
	"os"
	"path/filepath"
	"strings"
	"sync"
	"sync/atomic"
	"time"

	"mangosverif/coqgen"
	"mangosverif/wire"

	"go.nanomsg.org/mangos/v3"
	"go.nanomsg.org/mangos/v3/macat"
	"go.nanomsg.org/mangos/v3/protocol/pair"
	"go.nanomsg.org/mangos/v3/protocol/pub"
	"go.nanomsg.org/mangos/v3/protocol/pull"
	"go.nanomsg.org/mangos/v3/protocol/push"
	_ "go.nanomsg.org/mangos/v3/transport/all"
)

var formats = []string{"raw", "ascii", "quoted", "msgpack"}
var coqFmt = map[string]string{"no": "FNo", "raw": "FRaw", "ascii": "FAscii", "quoted": "FQuoted", "msgpack": "FMsgpack"}

var addrSeq int64

func addr() string {
	return fmt.Sprintf("inproc://c20-%d-%d", os.Getpid(), atomic.AddInt64(&addrSeq, 1))
}

func body(r *rand.Rand, n int, mode int) []byte {
	b := make([]byte, n)
	switch mode {
	case 0: // uniform
		r.Read(b)
	case 1: // heavy on the special bytes
		special := []byte{'\n', '\r', '\\', '"', 0, 0x7f, 0x80, 0xa0, 0xa1, 0xad, 0xff, ' ', '~', 'x', '.'}
		for i := range b {
			b[i] = special[r.Intn(len(special))]
		}
	default: // printable text with a few specials
		for i := range b {
			if r.Intn(8) == 0 {
				b[i] = byte(r.Intn(256))
			} else {
				b[i] = byte(32 + r.Intn(95))
			}
		}
	}
	return b
}

func runApp(out *bytes.Buffer, args ...string) error {
	a := &macat.App{}
	a.Initialize()
	if out != nil {
		a.VerifSetStdout(out)
	}
	return a.Run(args...)
}

func main() {
	if len(os.Args) < 2 {
		fmt.Fprintln(os.Stderr, "usage: c20 <out.v>")
		os.Exit(2)
	}
	r := coqgen.Rand()
	coqgen.Watchdog(8 * time.Minute)
	thorough := coqgen.Thorough()
	w := coqgen.Create(os.Args[1])
	defer w.Close()
	tmp, _ := os.MkdirTemp("", "c20")
	defer os.RemoveAll(tmp)

	// ---- A/B: direct format cases -------------------------------------------------
	var fc []string
	add := func(f string, b []byte) {
		out := macat.VerifFormat(f, b)
		fc = append(fc, fmt.Sprintf("(%s, %s, %s)", coqFmt[f], coqgen.Hex(b), coqgen.Hex(out)))
	}
	for v := 0; v < 256; v++ {
		for _, f := range formats {
			add(f, []byte{byte(v)})
		}
	}
	lens := []int{0, 1, 2, 3, 7, 254, 255, 256, 257, 300}
	for _, n := range lens {
		for _, f := range formats {
			add(f, body(r, n, r.Intn(3)))
		}
	}
	// large bodies: described by (seed, n) and compared by digest (see Lib/Bytes.v gen_body/digest)
	big := []int{1000, 65534, 65535, 65536, 65537}
	if thorough {
		big = append(big, 70000, 1<<17, (1<<20)-1, 1<<20)
	}
	var bc []string
	for _, n := range big {
		for _, f := range formats {
			seed := uint64(r.Intn(256))
			out := macat.VerifFormat(f, coqgen.GenBody(seed, n))
			bc = append(bc, fmt.Sprintf("(%s, %d, %d, %s)", coqFmt[f], seed, n, coqgen.Digest(out)))
		}
	}
	w.Def("big_cases", "list (format * N * N * (N * N * string * string))", bc)
	nrand := 150
	if thorough {
		nrand = 1500
	}
	for i := 0; i < nrand; i++ {
		n := r.Intn(40)
		if r.Intn(10) == 0 {
			n = 200 + r.Intn(200)
		}
		add(formats[r.Intn(len(formats))], body(r, n, r.Intn(3)))
	}
	add("no", []byte("ignored"))
	w.Def("fmt_cases", "list (format * string * string)", fc)

	// ---- C: end-to-end receive streams through App.Run ------------------------------
	type streamCase struct {
		f    string
		msgs [][]byte
		out  []byte
		err  string
	}
	nstream := 12
	if thorough {
		nstream = 60
	}
	scs := make([]streamCase, nstream)
	var wg sync.WaitGroup
	sem := make(chan struct{}, 8)
	for i := range scs {
		f := formats[i%len(formats)]
		k := 1 + r.Intn(5)
		var msgs [][]byte
		for j := 0; j < k; j++ {
			n := r.Intn(30)
			if r.Intn(6) == 0 {
				n = 250 + r.Intn(12)
			}
			msgs = append(msgs, body(r, n, r.Intn(3)))
		}
		kind := i % 3
		scs[i] = streamCase{f: f, msgs: msgs}
		wg.Add(1)
		go func(i, kind int) {
			defer wg.Done()
			sem <- struct{}{}
			defer func() { <-sem }()
			sc := &scs[i]
			a := addr()
			var out bytes.Buffer
			done := make(chan error, 1)
			var sock mangos.Socket
			var flag string
			switch kind {
			case 0:
				sock, _ = push.NewSocket()
				flag = "--pull"
			case 1:
				sock, _ = pub.NewSocket()
				flag = "--sub"
			default:
				sock, _ = pair.NewSocket()
				flag = "--pair"
			}
			defer sock.Close()
			go func() {
				done <- runApp(&out, flag, "--bind", a, "--format", sc.f, "--recv-timeout", "400ms")
			}()
			var err error
			for t := 0; t < 200; t++ {
				if err = sock.Dial(a); err == nil {
					break
				}
				time.Sleep(2 * time.Millisecond)
			}
			if err != nil {
				sc.err = "dial: " + err.Error()
				return
			}
			time.Sleep(60 * time.Millisecond) // let the subscription / pipe settle
			for _, m := range sc.msgs {
				if e := sock.Send(m); e != nil {
					sc.err = "send: " + e.Error()
				}
			}
			if e := <-done; e != nil {
				sc.err = "run: " + e.Error()
			}
			sc.out = out.Bytes()
		}(i, kind)
	}
	wg.Wait()
	var sitems []string
	for _, sc := range scs {
		var ms []string
		for _, m := range sc.msgs {
			ms = append(ms, coqgen.Hex(m))
		}
		if sc.err != "" {
			fmt.Fprintf(os.Stderr, "c20: stream case error: %s\n", sc.err)
			// recorded as an impossible output so that it shows up as a mismatch
			sitems = append(sitems, fmt.Sprintf("(%s, %s, %s)", coqFmt[sc.f], coqgen.List(ms), `"ff"`))
			continue
		}
		sitems = append(sitems, fmt.Sprintf("(%s, %s, %s)", coqFmt[sc.f], coqgen.List(ms), coqgen.Hex(sc.out)))
	}
	w.Def("stream_cases", "list (format * list string * string)", sitems)

	// ---- D: send path: --data / --file, --count ------------------------------------
	type sendCase struct {
		count int
		data  []byte
		got   [][]byte
		err   string
	}
	nsend := 8
	if thorough {
		nsend = 40
	}
	sends := make([]sendCase, nsend)
	for i := range sends {
		sends[i].count = r.Intn(5)
		if i < 6 {
			sends[i].count = 1 + i%2 // the default value given explicitly, and 2
		}
		n := 1 + r.Intn(40)
		if i%4 == 3 {
			n = 250 + r.Intn(10)
		}
		d := body(r, n, 2)
		// command-line data cannot carry NUL; keep it printable for --data, arbitrary for --file
		if i%2 == 0 {
			for j := range d {
				if d[j] == 0 {
					d[j] = 'z'
				}
			}
		} else {
			d = body(r, n, 0)
		}
		sends[i].data = d
		wg.Add(1)
		go func(i int) {
			defer wg.Done()
			sem <- struct{}{}
			defer func() { <-sem }()
			sc := &sends[i]
			a := addr()
			sock, _ := pull.NewSocket()
			defer sock.Close()
			_ = sock.SetOption(mangos.OptionRecvDeadline, 500*time.Millisecond)
			if e := sock.Listen(a); e != nil {
				sc.err = e.Error()
				return
			}
			args := []string{"--push", "--connect", a}
			switch i % 3 { // --count with and without a send interval, in both orders
			case 0:
				args = append(args, "--count", fmt.Sprint(sc.count))
			case 1:
				args = append(args, "--count", fmt.Sprint(sc.count), "--send-interval", "10ms")
			default:
				args = append(args, "--send-interval", "10ms", "--count", fmt.Sprint(sc.count))
			}
			if i%2 == 0 {
				args = append(args, "--data", string(sc.data))
			} else {
				p := filepath.Join(tmp, fmt.Sprintf("f%d", i))
				_ = os.WriteFile(p, sc.data, 0600)
				args = append(args, "--file", p)
			}
			done := make(chan error, 1)
			go func() { done <- runApp(nil, args...) }()
			for len(sc.got) <= sc.count+3 { // a few more than asked for are enough to show it
				m, e := sock.Recv()
				if e != nil {
					break
				}
				sc.got = append(sc.got, m)
			}
			select {
			case e := <-done:
				if e != nil {
					sc.err = "run: " + e.Error()
				}
			case <-time.After(3 * time.Second):
				sc.err = "macat did not return (still sending?)"
			}
		}(i)
	}
	wg.Wait()
	// the send-and-receive patterns, with the boundary payload (nothing at all, given as --data "" or as an empty file):
	// macat sends it once (no --interval) and then receives until --recv-timeout
	type srCase struct {
		pat   string
		data  []byte
		file  bool
		count int // > 1: --count N --send-interval 50ms and NO --recv-timeout, against a peer that never answers
		got   [][]byte
		err   string
	}
	var srs []*srCase
	for _, pat := range []string{"pair", "bus", "star", "push", "pub"} {
		for k, d := range [][]byte{{}, {}, []byte("x"), body(r, 5+r.Intn(20), 2)} {
			for j := range d {
				if d[j] == 0 {
					d[j] = 'z'
				}
			}
			srs = append(srs, &srCase{pat: pat, data: d, file: k == 1, count: 1})
		}
	}
	// repeated sends on the send-and-receive patterns: the wait for an answer is capped by the send interval whether or not a
	// receive timeout was given; the peer stays silent and macat still sends the requested number of times and ends
	for _, pat := range []string{"pair", "bus", "star"} {
		srs = append(srs, &srCase{pat: pat, data: []byte("ping"), count: 3})
	}
	for i, sc := range srs {
		wg.Add(1)
		go func(i int, sc *srCase) {
			defer wg.Done()
			sem <- struct{}{}
			defer func() { <-sem }()
			a := addr()
			peer := map[string]string{"pair": "pair", "bus": "bus", "star": "star", "push": "pull", "pub": "sub"}[sc.pat]
			sock := wire.New(peer)
			defer sock.Close()
			if peer == "sub" {
				_ = sock.SetOption(mangos.OptionSubscribe, []byte{})
			}
			_ = sock.SetOption(mangos.OptionRecvDeadline, 700*time.Millisecond)
			if e := sock.Listen(a); e != nil {
				sc.err = e.Error()
				return
			}
			args := []string{"--" + sc.pat, "--connect", a, "--recv-timeout", "1", "--send-delay", "0"}
			if sc.count > 1 {
				args = []string{"--" + sc.pat, "--connect", a, "--send-delay", "0", "--count", fmt.Sprint(sc.count), "--send-interval", "50ms"}
			}
			if sc.pat == "push" || sc.pat == "pub" {
				args = append(args, "--count", "1")
			}
			if sc.file {
				p := filepath.Join(tmp, fmt.Sprintf("sr%d", i))
				_ = os.WriteFile(p, sc.data, 0600)
				args = append(args, "--file", p)
			} else {
				args = append(args, "--data", string(sc.data))
			}
			done := make(chan error, 1)
			go func() { done <- runApp(&bytes.Buffer{}, args...) }()
			for {
				m, e := sock.Recv()
				if e != nil {
					break
				}
				sc.got = append(sc.got, m)
			}
			select {
			case e := <-done:
				if e != nil {
					sc.err = "run: " + e.Error()
				}
			case <-time.After(3 * time.Second):
				sc.err = "macat did not return"
			}
		}(i, sc)
	}
	wg.Wait()
	var ditems []string
	for _, sc := range srs {
		var ms []string
		for _, m := range sc.got {
			ms = append(ms, coqgen.Hex(m))
		}
		if sc.err != "" {
			fmt.Fprintf(os.Stderr, "c20: send/recv case %s error: %s\n", sc.pat, sc.err)
			ms = append(ms, `"ff"`, `"ff"`, `"ff"`)
		}
		ditems = append(ditems, fmt.Sprintf("(%d%%nat, %s, %s) (* --%s %s *)", sc.count, coqgen.Hex(sc.data), coqgen.List(ms), sc.pat, map[bool]string{true: "--file", false: "--data"}[sc.file]))
	}
	for _, sc := range sends {
		var ms []string
		for _, m := range sc.got {
			ms = append(ms, coqgen.Hex(m))
		}
		if sc.err != "" {
			fmt.Fprintf(os.Stderr, "c20: send case error: %s\n", sc.err)
			ms = append(ms, `"ff"`, `"ff"`, `"ff"`, `"ff"`, `"ff"`, `"ff"`)
		}
		ditems = append(ditems, fmt.Sprintf("(%d%%nat, %s, %s)", sc.count, coqgen.Hex(sc.data), coqgen.List(ms)))
	}
	w.Def("send_cases", "list (nat * string * list string)", ditems)

	// ---- E: durations -------------------------------------------------------------------
	durs := []string{"0", "1", "5", "10", "60", "007", "+3", "-1", "-0", "9223372036", "9223372037", "18446744073",
		"9223372036854775807", "9223372036854775808", "-9223372036854775808", "99999999999999999999",
		"", "+", "-", "1s", "5ms", "1.5", "1e3", " 1", "1 ", "0x10", "1_000", "3h", "abc"}
	for i := 0; i < 60; i++ {
		n := 1 + r.Intn(12)
		s := ""
		if r.Intn(5) == 0 {
			s = string("+-"[r.Intn(2)])
		}
		for j := 0; j < n; j++ {
			s += string(rune('0' + r.Intn(10)))
		}
		durs = append(durs, s)
	}
	var uitems []string
	for _, s := range durs {
		var d macat.Duration
		err := d.UnmarshalText([]byte(s))
		uitems = append(uitems, fmt.Sprintf("(%s, %s, %s)", coqgen.Hex([]byte(s)), coqgen.Bool(err == nil), coqgen.Z(int64(d))))
	}
	w.Def("dur_cases", "list (string * bool * Z)", uitems)

	// ---- F: option validation --------------------------------------------------------
	protos := []struct{ flag, coq string }{{"--push", "PPush"}, {"--pull", "PPull"}, {"--pub", "PPub"}, {"--sub", "PSub"},
		{"--req", "PReq"}, {"--rep", "PRep"}, {"--surveyor", "PSurveyor"}, {"--respondent", "PRespondent"},
		{"--bus", "PBus"}, {"--pair", "PPair"}, {"--star", "PStar"}}
	goodFile := filepath.Join(tmp, "data")
	_ = os.WriteFile(goodFile, []byte("filedata"), 0600)
	type valCase struct {
		args []string
		evs  []string
		err  error
	}
	nval := 120
	if thorough {
		nval = 600
	}
	vals := make([]valCase, nval)
	for i := range vals {
		vc := &vals[i]
		ntok := r.Intn(7)
		// bias: most cases have one protocol and one address so that deeper conflicts are reached
		if r.Intn(4) != 0 {
			p := protos[r.Intn(len(protos))]
			vc.args = append(vc.args, p.flag)
			vc.evs = append(vc.evs, "OProto "+p.coq)
		}
		if r.Intn(5) != 0 {
			vc.args = append(vc.args, "--bind", addr())
			vc.evs = append(vc.evs, "OAddr true")
		}
		for j := 0; j < ntok; j++ {
			switch r.Intn(12) {
			case 0:
				p := protos[r.Intn(len(protos))]
				vc.args = append(vc.args, p.flag)
				vc.evs = append(vc.evs, "OProto "+p.coq)
			case 1:
				switch r.Intn(4) {
				case 0:
					vc.args = append(vc.args, "--connect", addr())
				case 1:
					vc.args = append(vc.args, "--bind", addr())
				case 2:
					vc.args = append(vc.args, "-X", filepath.Join(tmp, fmt.Sprintf("s%d-%d", i, j)))
				default:
					vc.args = append(vc.args, "--connect", addr())
				}
				vc.evs = append(vc.evs, "OAddr true")
			case 2:
				bad := []string{"nocolon", "tcp:/x", "", "tcp//127.0.0.1:1"}
				vc.args = append(vc.args, []string{"--bind", "--connect"}[r.Intn(2)], bad[r.Intn(len(bad))])
				vc.evs = append(vc.evs, "OAddr false")
			case 3:
				vc.args = append(vc.args, "--subscribe", []string{"", "a", "topic"}[r.Intn(3)])
				vc.evs = append(vc.evs, "OSub")
			case 4:
				vc.args = append(vc.args, []string{"--raw", "--ascii", "-A", "--quoted", "-Q", "--msgpack"}[r.Intn(6)])
				vc.evs = append(vc.evs, "OFormat true")
			case 5:
				f := []string{"no", "raw", "ascii", "quoted", "msgpack", "hex", "", "ASCII"}[r.Intn(8)]
				vc.args = append(vc.args, "--format", f)
				_, ok := coqFmt[f]
				vc.evs = append(vc.evs, "OFormat "+coqgen.Bool(ok))
			case 6:
				vc.args = append(vc.args, []string{"--data", "-D"}[r.Intn(2)], "hello")
				vc.evs = append(vc.evs, "OData")
			case 7:
				if r.Intn(3) == 0 {
					vc.args = append(vc.args, "--file", filepath.Join(tmp, "missing"))
					vc.evs = append(vc.evs, "OFile false")
				} else {
					vc.args = append(vc.args, []string{"--file", "-F"}[r.Intn(2)], goodFile)
					vc.evs = append(vc.evs, "OFile true")
				}
			case 8:
				vc.args = append(vc.args, "-v")
				vc.evs = append(vc.evs, "OOther")
			case 9:
				vc.args = append(vc.args, "--count", "1")
				vc.evs = append(vc.evs, "OOther")
			default:
				vc.args = append(vc.args, "-q")
				vc.evs = append(vc.evs, "OOther")
			}
		}
		// keep runs short whatever happens
		vc.args = append(vc.args, "--recv-timeout", "1ms", "--send-timeout", "1ms")
		vc.evs = append(vc.evs, "OOther", "OOther")
	}
	sem2 := make(chan struct{}, 32)
	for i := range vals {
		wg.Add(1)
		go func(i int) {
			defer wg.Done()
			sem2 <- struct{}{}
			defer func() { <-sem2 }()
			var out bytes.Buffer
			vals[i].err = runApp(&out, vals[i].args...)
		}(i)
	}
	wg.Wait()
	var vitems []string
	for _, vc := range vals {
		vitems = append(vitems, fmt.Sprintf("(%s, %s)", coqgen.List(vc.evs), classify(vc.err)))
	}
	w.Def("val_cases", "list (list optev * N)", vitems)
	// the built macat command itself (macat/macat/main.go): a rejected command line ends with a non-zero exit status
	// and something on stderr.  Every option list that App.Run rejected above (up to 80), plus the usage class (unknown
	// option, missing value, stray argument).  (usage class?, option events, exit status, bytes on stderr)
	var eitems []string
	if bin := os.Getenv("MACAT_BIN"); bin != "" {
		type ec struct {
			evs  []string
			args []string
		}
		var ecs []ec
		for _, vc := range vals {
			if vc.err != nil && classify(vc.err) != "100" && len(ecs) < 80 {
				ecs = append(ecs, ec{vc.evs, vc.args})
			}
		}
		ecs = append(ecs, ec{nil, []string{"--no-such-option"}}, ec{nil, []string{"--pull", "--bind"}},
			ec{nil, []string{"--pull", "--bind", addr(), "stray"}})
		res := make([]string, len(ecs))
		for i := range ecs {
			wg.Add(1)
			go func(i int) {
				defer wg.Done()
				sem2 <- struct{}{}
				defer func() { <-sem2 }()
				ctx, cancel := context.WithTimeout(context.Background(), 20*time.Second)
				defer cancel()
				cmd := exec.CommandContext(ctx, bin, ecs[i].args...)
				var eb bytes.Buffer
				cmd.Stderr = &eb
				err := cmd.Run()
				code := 0
				if ee, ok := err.(*exec.ExitError); ok {
					code = ee.ExitCode()
					if code < 0 {
						code = 998 // killed: it ran instead of rejecting
					}
				} else if err != nil {
					code = 997
				}
				res[i] = fmt.Sprintf("(%s, %s, %d, %d)", coqgen.Bool(ecs[i].evs == nil), coqgen.List(ecs[i].evs), code, eb.Len())
			}(i)
		}
		wg.Wait()
		eitems = res
	}
	w.Def("exit_cases", "list (bool * list optev * N * N)", eitems)
	w.P("(* sample args: %q *)", strings.Join(vals[0].args, " "))
}

// classify maps Run's result to the verdict code of the model (see checks: verdict_code).
func classify(err error) string {
	if err == nil {
		return "100"
	}
	s := err.Error()
	switch {
	case strings.Contains(s, "protocol already selected"):
		return "1"
	case strings.Contains(s, "invalid address format"):
		return "2"
	case strings.Contains(s, "output format already set"):
		return "3"
	case strings.Contains(s, "invalid format type"):
		return "4"
	case strings.Contains(s, "data or file already set"):
		return "5"
	case strings.Contains(s, "no such file") || strings.Contains(s, "cannot find the"):
		return "6"
	case strings.Contains(s, "protocol not specified"):
		return "7"
	case strings.Contains(s, "no address specified"):
		return "8"
	case strings.Contains(s, "subscription only valid"):
		return "9"
	case strings.HasPrefix(s, "send:") || strings.HasPrefix(s, "recv:") || strings.HasPrefix(s, "no data to send"):
		return "100" // got past validation and ran
	case strings.HasPrefix(s, "bind(") || strings.HasPrefix(s, "dial("):
		return "100" // got past validation; the endpoint itself failed
	}
	return "999 (* " + strings.ReplaceAll(s, "*)", "") + " *)"
}
