// l1busstar: BUS / XBUS / STAR / XSTAR histories for property C08 (see harness/l1kit, harness/l1run).
package main

import (
	"os"
	"strings"

	"mangosverif/l1kit"
	"mangosverif/l1run"

	"go.nanomsg.org/mangos/v3"
	"go.nanomsg.org/mangos/v3/protocol/bus"
	"go.nanomsg.org/mangos/v3/protocol/star"
	"go.nanomsg.org/mangos/v3/protocol/xbus"
	"go.nanomsg.org/mangos/v3/protocol/xstar"
)

type Op = l1kit.Op

func hop(h int) []byte { return []byte{0, 0, 0, byte(h)} }

func kind(id int, name string, mk func() mangos.ProtocolBase) *l1kit.Kind {
	isStar := id >= 3
	raw := id == 2 || id == 4
	k := &l1kit.Kind{ID: id, Name: name, New: mk, KeepRecv: true}
	k.MkSend = func(g *l1kit.G, o Op, t, n int) ([]byte, []byte) {
		r := g.R
		body := g.Tag(t, n)
		ps := g.AlivePipes()
		var hdr []byte
		switch {
		case o.B > 0: // header names pipe o.B
			hdr = l1kit.Be32(uint32(1000 + o.B))
		case o.B < 0: // explicit hop byte -o.B-1
			hdr = hop(-o.B - 1)
		case !isStar && raw:
			switch w := r.Intn(20); {
			case w < 10 && len(ps) > 0:
				p := g.Pick(ps)
				if g.Alive[g.LastFrom] && r.Intn(2) == 0 {
					p = g.LastFrom
				}
				hdr = l1kit.Be32(uint32(1000 + p))
			case w < 15:
			case w < 17:
				hdr = make([]byte, []int{3, 5, 8}[r.Intn(3)])
				r.Read(hdr)
			case w < 18:
				hdr = l1kit.Be32(0)
			default:
				hdr = l1kit.Be32(uint32(1000 + g.NextPipe + 1 + r.Intn(3))) // no such pipe
			}
		case !isStar:
			// cooked BUS ignores whatever header the application left
			if len(ps) > 0 && r.Intn(4) == 0 {
				hdr = l1kit.Be32(uint32(1000 + g.Pick(ps)))
			}
		case raw:
			switch w := r.Intn(20); {
			case w < 14:
				hdr = hop(r.Intn(4))
			case w < 17:
				hdr = make([]byte, []int{0, 3, 5}[r.Intn(3)]) // wrong length: dropped
			default:
				hdr = make([]byte, 4)
				r.Read(hdr)
			}
		default:
			if r.Intn(5) == 0 {
				hdr = make([]byte, 1+r.Intn(5))
				r.Read(hdr)
			}
		}
		return hdr, body
	}
	k.MkDeliver = func(g *l1kit.G, o Op, pipe, n int) []byte {
		pl := g.Tag(0x8000+n, pipe)
		if !isStar {
			return pl
		}
		r := g.R
		switch w := r.Intn(20); {
		case o.B > 0:
			return append(hop(o.B-1), pl...)
		case w < 12:
			return append(hop(r.Intn(g.TTL)), pl...)
		case w < 15:
			return append(hop(g.TTL-1+r.Intn(3)), pl...) // around the limit
		case w < 16:
			return append(hop(255), pl...)
		case w < 17:
			return append([]byte{0, 0, 1, 0}, pl...)
		case w < 18:
			return pl[:minInt(len(pl), r.Intn(4))] // too short
		default:
			return append([]byte{byte(1 + r.Intn(255)), 0, 0, 0}, pl...)
		}
	}
	k.Choose = func(g *l1kit.G) (Op, bool) {
		r := g.R
		if g.NStep == 0 && r.Intn(8) != 0 {
			return Op{K: "opt", A: l1kit.OWriteQLen, C: r.Intn(3)}, true
		}
		if g.NStep == 1 && r.Intn(4) != 0 {
			return Op{K: "opt", A: l1kit.OReadQLen, C: r.Intn(3)}, true
		}
		if g.NStep == 2 && isStar && r.Intn(2) == 0 {
			return Op{K: "opt", A: l1kit.OTtl, C: 1 + r.Intn(3)}, true
		}
		ps := g.AlivePipes()
		switch w := r.Intn(100); {
		case w < 14:
			return Op{K: "addpipe"}, len(ps) < 4 && g.NextPipe < 7
		case w < 19:
			if len(ps) == 0 {
				return Op{}, false
			}
			return Op{K: "drop", A: g.Pick(ps)}, true
		case w < 40:
			if g.HasLast() && r.Intn(3) == 0 {
				return Op{K: "send", S: 3}, true // the application refills and re-sends the object its latest Recv returned
			}
			if raw && g.Held != nil {
				return Op{K: "send", S: 2}, true // the message of which the application kept a reference, once more
			}
			if raw && r.Intn(4) == 0 {
				return Op{K: "send", S: 1}, true
			}
			return Op{K: "send"}, true
		case w < 52:
			return Op{K: "recv"}, g.BlockedRecvs() < 3
		case w < 72:
			if len(ps) == 0 {
				return Op{}, false
			}
			return Op{K: "deliver", A: g.Pick(ps)}, true
		case w < 79:
			if len(ps) == 0 {
				return Op{}, false
			}
			n := g.Pick(ps)
			h := 1
			if g.Hold[n] && r.Intn(3) != 0 {
				h = 0
			}
			return Op{K: "hold", A: n, B: h}, true
		case w < 89:
			pp := g.PendingPipes()
			if len(pp) == 0 {
				return Op{}, false
			}
			ok := 1
			if r.Intn(6) == 0 {
				ok = 0
			}
			return Op{K: "release", A: g.Pick(pp), B: ok}, true
		case w < 96:
			switch o := r.Intn(10); {
			case o < 3:
				v := r.Intn(3)
				if r.Intn(10) == 0 {
					v = -1
				}
				return Op{K: "opt", A: l1kit.OWriteQLen, C: v}, true
			case o < 5:
				v := r.Intn(3)
				if r.Intn(10) == 0 {
					v = -2
				}
				return Op{K: "opt", A: l1kit.OReadQLen, C: v}, g.ResizeOK() && (!isStar || g.BlockedRecvs() == 0 || r.Intn(3) == 0)
			case o < 7:
				v := []int{0, l1kit.Long}[r.Intn(2)]
				if g.Timed && r.Intn(3) != 0 {
					v = l1kit.ShortRecv
				}
				return Op{K: "opt", A: l1kit.ORecvDeadline, C: v}, true
			case o < 9:
				return Op{K: "opt", A: l1kit.OTtl, C: []int{1, 2, 3, 4, 0, 256}[r.Intn(6)]}, true
			default:
				return Op{K: "opt", A: []int{l1kit.OBestEffort, l1kit.OSendDeadline, l1kit.ORetryTime}[r.Intn(3)], C: 1}, true
			}
		case w < 97:
			return Op{K: "closesock"}, r.Intn(2) == 0
		case w < 98:
			return Op{K: "openctx"}, true
		default:
			return Op{K: "pass"}, g.Timed && g.Passes < 4
		}
	}
	return k
}

func main() {
	kinds := []*l1kit.Kind{
		kind(1, "bus", bus.NewProtocol), kind(2, "xbus", xbus.NewProtocol),
		kind(3, "star", star.NewProtocol), kind(4, "xstar", xstar.NewProtocol),
	}
	addScripts(kinds)
	// L1_KINDS=star,xstar: only these (C09 drives the STAR relay rule at the hop limit)
	if v := os.Getenv("L1_KINDS"); v != "" {
		var sel []*l1kit.Kind
		for _, k := range kinds {
			for _, n := range strings.Split(v, ",") {
				if n == k.Name {
					sel = append(sel, k)
				}
			}
		}
		kinds = sel
	}
	l1run.Main(l1kit.Gen(kinds))
}

func minInt(a, b int) int {
	if a < b {
		return a
	}
	return b
}
