package main

import "mangosverif/l1kit"

const (
	wq = l1kit.OWriteQLen
	rq = l1kit.OReadQLen
)

// directed histories (run before the generated ones)
func addScripts(kinds []*l1kit.Kind) {
	busS := [][]Op{
		// three peers: a Send reaches each once; received messages are not passed on; queue space: held pipe, queue 1
		{{K: "opt", A: wq, C: 1}, {K: "addpipe"}, {K: "addpipe"}, {K: "addpipe"}, {K: "send"}, {K: "deliver", A: 1}, {K: "deliver", A: 2}, {K: "recv"}, {K: "recv"},
			{K: "hold", A: 2, B: 1}, {K: "send"}, {K: "send"}, {K: "send"}, {K: "release", A: 2, B: 1}, {K: "release", A: 2, B: 1}, {K: "drop", A: 3}, {K: "send"},
			{K: "release", A: 2, B: 0}, {K: "send"}},
		// device forwarding: re-send what came from pipe 2 with its header: everyone but pipe 2 (raw only; cooked ignores the header)
		{{K: "opt", A: wq, C: 2}, {K: "addpipe"}, {K: "addpipe"}, {K: "addpipe"}, {K: "deliver", A: 2}, {K: "recv"}, {K: "send", B: 2}, {K: "send", B: 1}, {K: "send", B: 3},
			{K: "send", B: 9}, {K: "deliver", A: 3}, {K: "deliver", A: 1}, {K: "recv"}, {K: "recv"}, {K: "recv"}},
		// a hub that keeps its own reference of what it forwards (Clone) and sends the same message twice: the second send
		// still names pipe 2 (the first one worked on a private copy)
		{{K: "opt", A: wq, C: 2}, {K: "addpipe"}, {K: "addpipe"}, {K: "addpipe"}, {K: "deliver", A: 2}, {K: "recv"}, {K: "send", B: 2, S: 1}, {K: "send", S: 2},
			{K: "send", B: 3, S: 1}, {K: "send", S: 2}, {K: "send", S: 1}, {K: "send", S: 2}},
		// unbuffered per-pipe queues and read queue; resize with a receiver holding a message
		{{K: "opt", A: wq, C: 0}, {K: "opt", A: rq, C: 0}, {K: "addpipe"}, {K: "addpipe"}, {K: "send"}, {K: "hold", A: 1, B: 1}, {K: "send"}, {K: "send"}, {K: "deliver", A: 1},
			{K: "deliver", A: 1}, {K: "deliver", A: 2}, {K: "recv"}, {K: "recv"}, {K: "recv"}, {K: "deliver", A: 2}, {K: "deliver", A: 1}, {K: "opt", A: rq, C: 1},
			{K: "deliver", A: 2}, {K: "recv"}, {K: "closesock"}, {K: "send"}, {K: "recv"}, {K: "addpipe"}},
	}
	starS := [][]Op{
		// a received message goes to every other pipe with the hop byte incremented and once up; never back
		{{K: "opt", A: wq, C: 1}, {K: "addpipe"}, {K: "addpipe"}, {K: "addpipe"}, {K: "deliver", A: 2, B: 1}, {K: "recv"}, {K: "deliver", A: 1, B: 3}, {K: "send"}, {K: "send", B: -3},
			{K: "hold", A: 3, B: 1}, {K: "deliver", A: 1, B: 1}, {K: "deliver", A: 2, B: 2}, {K: "deliver", A: 2, B: 2}, {K: "release", A: 3, B: 1}, {K: "release", A: 3, B: 1},
			{K: "recv"}, {K: "recv"}, {K: "recv"}, {K: "recv"}},
		// hop limit: TTL 2 -> hop bytes 0 and 1 pass, 2 and more are dropped
		{{K: "opt", A: l1kit.OTtl, C: 2}, {K: "addpipe"}, {K: "addpipe"}, {K: "deliver", A: 1, B: 1}, {K: "deliver", A: 1, B: 2}, {K: "deliver", A: 1, B: 3}, {K: "deliver", A: 2, B: 4},
			{K: "recv"}, {K: "recv"}, {K: "recv"}},
		// a member answers by refilling the message object it received and sending it on the same socket: everybody gets it,
		// the peer the earlier message came from included
		{{K: "addpipe"}, {K: "addpipe"}, {K: "addpipe"}, {K: "recv"}, {K: "deliver", A: 2, B: 1}, {K: "send", S: 3}, {K: "recv"}, {K: "deliver", A: 1, B: 1}, {K: "send", S: 3}, {K: "send"}},
		// a hub with the smallest TTL: what it accepts (hop byte 0) it also passes on, with hop byte 1 -- whether the next
		// member accepts that is the next member's decision (its TTL may be larger); hop byte 1 and more are dropped here
		{{K: "opt", A: l1kit.OTtl, C: 1}, {K: "addpipe"}, {K: "addpipe"}, {K: "addpipe"}, {K: "deliver", A: 1, B: 1}, {K: "deliver", A: 2, B: 1}, {K: "deliver", A: 3, B: 2},
			{K: "recv"}, {K: "recv"}, {K: "recv"}, {K: "opt", A: l1kit.OTtl, C: 3}, {K: "deliver", A: 1, B: 3}, {K: "deliver", A: 1, B: 4}, {K: "recv"}, {K: "recv"}},
		// read queue full: the receiver forwards first, then holds the message; read-queue replacement; close
		{{K: "opt", A: rq, C: 1}, {K: "addpipe"}, {K: "addpipe"}, {K: "deliver", A: 1, B: 1}, {K: "deliver", A: 1, B: 1}, {K: "deliver", A: 1, B: 1}, {K: "deliver", A: 2, B: 1},
			{K: "recv"}, {K: "recv"}, {K: "opt", A: rq, C: 2}, {K: "deliver", A: 2, B: 1}, {K: "deliver", A: 1, B: 1}, {K: "recv"}, {K: "recv"}, {K: "closesock"}, {K: "deliver", A: 1, B: 1}},
	}
	timed := [][]Op{
		{{K: "opt", A: l1kit.ORecvDeadline, C: l1kit.ShortRecv}, {K: "addpipe"}, {K: "addpipe"}, {K: "recv"}, {K: "pass"}, {K: "deliver", A: 1, B: 1}, {K: "recv"}, {K: "recv"},
			{K: "pass", A: 50}, {K: "deliver", A: 2, B: 1}, {K: "send"}},
	}
	for _, k := range kinds {
		if k.ID <= 2 {
			k.Scripts = busS
		} else {
			k.Scripts = starS
		}
		k.TimedScripts = timed
	}
}
