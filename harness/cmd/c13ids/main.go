// c13ids drives the process-wide pipe ID allocator (internal/core pipeIDAllocator) through its verif hooks with
// sequences of: position the counter, allocate, release -- around every boundary of the 32-bit counter and the 31-bit
// mask -- and writes the IDs it was given; coqc replays the same operations on Model/PipeId.v (id_run).
package main

import (
	"fmt"
	"math/rand"
	"os"

	"mangosverif/coqgen"

	"go.nanomsg.org/mangos/v3/protocol"
)

func main() {
	if len(os.Args) < 2 {
		fmt.Fprintln(os.Stderr, "usage: c13ids <out.v>")
		os.Exit(2)
	}
	r := coqgen.Rand()
	n := 60
	if coqgen.Thorough() {
		n = 600
	}
	edges := []uint32{0, 1, 2, 0x7ffffffd, 0x7ffffffe, 0x7fffffff, 0x80000000, 0x80000001, 0x80000002, 0xfffffffd, 0xfffffffe, 0xffffffff}
	w := coqgen.Create(os.Args[1])
	defer w.Close()
	var live []uint32 // oldest first (the model keeps newest first and releases by position from the old end)
	var cases []string
	for c := 0; c < n; c++ {
		// every case starts from an empty allocator
		for _, id := range live {
			protocol.VerifPipeIDFree(id)
		}
		live = nil
		var ops, got []string
		k := 6 + r.Intn(30)
		for i := 0; i < k; i++ {
			switch x := r.Intn(10); {
			case i == 0 || x == 0:
				v := edges[r.Intn(len(edges))]
				if r.Intn(4) == 0 {
					v = r.Uint32()
				}
				if c < len(edges) && i == 0 {
					v = edges[c]
				}
				protocol.VerifPipeIDSetNext(v)
				ops = append(ops, fmt.Sprintf("ISetNext %d", v))
			case x < 7 || len(live) == 0:
				id := protocol.VerifPipeIDGet()
				live = append(live, id)
				ops = append(ops, "IGet")
				got = append(got, fmt.Sprint(id))
			default:
				j := r.Intn(len(live))
				protocol.VerifPipeIDFree(live[j])
				live = append(live[:j], live[j+1:]...)
				ops = append(ops, fmt.Sprintf("IFree %d", j))
				// after a release, re-position the counter just before the released value now and then: the ID may be reused
			}
		}
		cases = append(cases, fmt.Sprintf("(%s, %s)", coqgen.List(ops), coqgen.List(got)))
	}
	for _, id := range live {
		protocol.VerifPipeIDFree(id)
	}
	w.Def("id_cases", "list (list idop * list N)", cases)
	_ = rand.Int
}
