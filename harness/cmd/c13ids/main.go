// c13ids drives the process-wide pipe ID allocator (internal/core pipeIDAllocator) through its verif hooks with
// sequences of: position the counter, allocate, release -- around every boundary of the 32-bit counter and the 31-bit
// mask -- and writes the IDs it was given; coqc replays the same operations on Model/PipeId.v (id_run).
package main

import (
	"fmt"
	"math/rand"
	"os"
	"sync"
	"time"

	"mangosverif/coqgen"
	"mangosverif/wire"

	"go.nanomsg.org/mangos/v3"
	"go.nanomsg.org/mangos/v3/protocol"
)

func main() {
	if len(os.Args) < 2 {
		fmt.Fprintln(os.Stderr, "usage: c13ids <out.v>")
		os.Exit(2)
	}
	r := coqgen.Rand()
	defer wire.Cleanup()
	n := 60
	if coqgen.Thorough() {
		n = 600
	}
	edges := []uint32{0, 1, 2, 0x7ffffffd, 0x7ffffffe, 0x7fffffff, 0x80000000, 0x80000001, 0x80000002, 0xfffffffd, 0xfffffffe, 0xffffffff}
	w := coqgen.Create(os.Args[1])
	defer w.Close()
	var live []uint32 // oldest first (the model keeps newest first and releases by position from the old end)
	var cases []string
	for c := 0; c < n; c++ {
		// every case starts from an empty allocator
		for _, id := range live {
			protocol.VerifPipeIDFree(id)
		}
		live = nil
		var ops, got []string
		k := 6 + r.Intn(30)
		for i := 0; i < k; i++ {
			switch x := r.Intn(10); {
			case i == 0 || x == 0:
				v := edges[r.Intn(len(edges))]
				if r.Intn(4) == 0 {
					v = r.Uint32()
				}
				if c < len(edges) && i == 0 {
					v = edges[c]
				}
				protocol.VerifPipeIDSetNext(v)
				ops = append(ops, fmt.Sprintf("ISetNext %d", v))
			case x < 7 || len(live) == 0:
				id := protocol.VerifPipeIDGet()
				live = append(live, id)
				ops = append(ops, "IGet")
				got = append(got, fmt.Sprint(id))
			default:
				j := r.Intn(len(live))
				protocol.VerifPipeIDFree(live[j])
				live = append(live[:j], live[j+1:]...)
				ops = append(ops, fmt.Sprintf("IFree %d", j))
				// after a release, re-position the counter just before the released value now and then: the ID may be reused
			}
		}
		cases = append(cases, fmt.Sprintf("(%s, %s)", coqgen.List(ops), coqgen.List(got)))
	}
	for _, id := range live {
		protocol.VerifPipeIDFree(id)
	}
	w.Def("id_cases", "list (list idop * list N)", cases)
	_ = rand.Int
	var life []string
	for i := 0; i < 6; i++ {
		life = append(life, lifeCase(i))
	}
	w.Def("life_cases", "list (N * list N * list N)", life)
}

// lifeCase: a pipe's ID stays the pipe's until its Detached callback has returned.  A PULL socket with a hook that
// blocks inside Detached for one pipe; while it is blocked the ID counter is positioned ON that pipe's ID and new peers
// connect; after the callback has returned the counter is positioned there again and another peer connects.
// Result: (the ID, IDs given to new pipes while Detached was running, IDs given afterwards).
func lifeCase(i int) string {
	coqgen.Watchdog(3 * time.Minute)
	srv := wire.New("pull")
	defer srv.Close()
	var mu sync.Mutex
	var target uint32
	var seen []uint32
	entered, release := make(chan struct{}), make(chan struct{})
	attachedQ := make(chan uint32, 16)
	hook := func(ev mangos.PipeEvent, p mangos.Pipe) {
		switch ev {
		case mangos.PipeEventAttaching:
			mu.Lock()
			seen = append(seen, p.ID())
			mu.Unlock()
		case mangos.PipeEventAttached:
			attachedQ <- p.ID()
		case mangos.PipeEventDetached:
			mu.Lock()
			mine := target != 0 && p.ID() == target
			if mine {
				target = 0 // the ID is reused later in the scenario
			}
			mu.Unlock()
			if mine {
				close(entered)
				<-release
			}
		}
	}
	srv.SetPipeEventHook(hook)
	ad := wire.Addr([]string{"inproc", "tcp", "ipc"}[i%3])
	if err := srv.Listen(ad); err != nil {
		return fmt.Sprintf("(0, [], []) (* Listen: %v *)", err)
	}
	clientHook := func(ev mangos.PipeEvent, p mangos.Pipe) {
		if ev == mangos.PipeEventAttaching {
			mu.Lock()
			seen = append(seen, p.ID())
			mu.Unlock()
		}
	}
	dial := func() mangos.Socket {
		c := wire.New("push")
		c.SetPipeEventHook(clientHook)
		_ = c.Dial(ad)
		return c
	}
	waitAttached := func() uint32 {
		select {
		case id := <-attachedQ:
			return id
		case <-time.After(3 * time.Second):
			return 0
		}
	}
	c1 := dial()
	id := waitAttached()
	if id == 0 {
		_ = c1.Close()
		return "(0, [], []) (* first peer never attached *)"
	}
	mu.Lock()
	target = id
	seen = nil
	mu.Unlock()
	_ = c1.Close() // the server side pipe goes away: its Detached callback starts and blocks
	select {
	case <-entered:
	case <-time.After(3 * time.Second):
		close(release)
		return fmt.Sprintf("(%d, [], []) (* Detached never started *)", id)
	}
	protocol.VerifPipeIDSetNext(id)
	c2, c3 := dial(), dial()
	waitAttached()
	waitAttached()
	mu.Lock()
	during := append([]uint32{}, seen...)
	seen = nil
	mu.Unlock()
	close(release)
	// the ID is released once the callback has returned
	for k := 0; k < 300 && protocol.VerifPipeIDInUse(id); k++ {
		time.Sleep(10 * time.Millisecond)
	}
	protocol.VerifPipeIDSetNext(id)
	c4 := dial()
	waitAttached()
	mu.Lock()
	after := append([]uint32{}, seen...)
	mu.Unlock()
	for _, c := range []mangos.Socket{c2, c3, c4} {
		_ = c.Close()
	}
	f := func(l []uint32) string {
		var o []string
		for _, x := range l {
			o = append(o, fmt.Sprint(x))
		}
		return coqgen.List(o)
	}
	return fmt.Sprintf("(%d, %s, %s)", id, f(during), f(after))
}
