// stream drives the stream-transport building blocks (transport.NewConnPipe / NewConnPipeIPC and the connection
// handshaker) over an in-memory net.Conn that hands the incoming bytes to the library in arbitrary pieces, and
// records what the library did: the header it wrote, the outcome of the handshake, the messages Recv returned,
// how the connection ended, the bytes Send put on the wire.  The byte streams are built here from frames plus
// one mutation; the model (Model/Wire.v) is evaluated on the same bytes by coqc.
//
// A scenario is a set of connections given to ONE handshaker (as one listener or dialer does): some of them
// never complete their handshake.  The others must still complete, and Close must return.
package main

import (
	"bufio"
	"encoding/binary"
	"fmt"
	"go.nanomsg.org/mangos/v3/protocol"
	"io"
	"mangosverif/mproto"
	"math/rand"
	"net"
	"net/http"
	"os"
	"path/filepath"
	"runtime"
	"sort"
	"strings"
	"sync"
	"time"

	"mangosverif/coqgen"
	"mangosverif/wire"

	"go.nanomsg.org/mangos/v3"
	"go.nanomsg.org/mangos/v3/transport"
	"go.nanomsg.org/mangos/v3/transport/ws"
)

type addr struct{}

func (addr) Network() string { return "chunk" }
func (addr) String() string  { return "chunk" }

// chunkConn: Read returns at most the next piece of the schedule.
type chunkConn struct {
	mu      sync.Mutex
	data    []byte
	chunks  []int
	ci      int
	rem     int  // what is left of the current piece
	stalled bool // at the end of data: block until closed instead of EOF
	failW   bool // every Write fails (the peer is gone)
	closed  chan struct{}
	once    sync.Once
	wrote   []byte
	nwrites int
}

func newChunkConn(data []byte, chunks []int, stalled bool) *chunkConn {
	return &chunkConn{data: data, chunks: chunks, stalled: stalled, closed: make(chan struct{})}
}

func (c *chunkConn) Read(b []byte) (int, error) {
	select {
	case <-c.closed:
		return 0, net.ErrClosed
	default:
	}
	c.mu.Lock()
	if len(c.data) == 0 {
		c.mu.Unlock()
		if c.stalled {
			<-c.closed
			return 0, net.ErrClosed
		}
		return 0, io.EOF
	}
	if len(b) == 0 {
		c.mu.Unlock()
		return 0, nil
	}
	if c.rem == 0 {
		c.rem = 1
		if len(c.chunks) > 0 {
			c.rem = c.chunks[c.ci%len(c.chunks)]
			c.ci++
		}
		if c.rem < 1 {
			c.rem = 1
		}
	}
	n := c.rem
	if n > len(b) {
		n = len(b)
	}
	if n > len(c.data) {
		n = len(c.data)
	}
	copy(b, c.data[:n])
	c.data = c.data[n:]
	c.rem -= n
	c.mu.Unlock()
	return n, nil
}

func (c *chunkConn) Write(b []byte) (int, error) {
	if c.failW {
		return 0, io.ErrClosedPipe
	}
	select {
	case <-c.closed:
		return 0, net.ErrClosed
	default:
	}
	c.mu.Lock()
	c.wrote = append(c.wrote, b...)
	c.nwrites++
	c.mu.Unlock()
	return len(b), nil
}
func (c *chunkConn) Close() error                       { c.once.Do(func() { close(c.closed) }); return nil }
func (c *chunkConn) LocalAddr() net.Addr                { return addr{} }
func (c *chunkConn) RemoteAddr() net.Addr               { return addr{} }
func (c *chunkConn) SetDeadline(t time.Time) error      { return nil }
func (c *chunkConn) SetReadDeadline(t time.Time) error  { return nil }
func (c *chunkConn) SetWriteDeadline(t time.Time) error { return nil }

func hdr(p uint16) []byte { return []byte{0, 'S', 'P', 0, byte(p >> 8), byte(p), 0, 0} }

func frame(ipc bool, body []byte) []byte {
	var f []byte
	if ipc {
		f = append(f, 1)
	}
	var l [8]byte
	binary.BigEndian.PutUint64(l[:], uint64(len(body)))
	f = append(f, l[:]...)
	return append(f, body...)
}

var poolEdges = []int{0, 1, 2, 3, 7, 8, 9, 15, 16, 17, 31, 33, 63, 64, 65, 127, 128, 129, 255, 256, 257, 513}

// genFrames: well-formed frames (position-dependent bodies), then perhaps one mutation.
func genFrames(r *rand.Rand, ipc bool, maxrx int) []byte {
	var s []byte
	k := 1 + r.Intn(5)
	for i := 0; i < k; i++ {
		n := poolEdges[r.Intn(len(poolEdges))]
		if r.Intn(8) == 0 && maxrx > 0 {
			n = maxrx - r.Intn(2)
		}
		if maxrx > 0 && n > maxrx {
			n = maxrx
		}
		s = append(s, frame(ipc, coqgen.GenBody(uint64(r.Intn(256)), n))...)
	}
	switch r.Intn(8) {
	case 0: // cut somewhere
		if len(s) > 0 {
			s = s[:r.Intn(len(s))]
		}
	case 1: // over the limit
		if maxrx > 0 {
			s = append(s, frame(ipc, make([]byte, maxrx+1+r.Intn(3)))...)
			s = append(s, frame(ipc, []byte("after"))...)
		}
	case 2: // announces a huge or negative length
		if ipc {
			s = append(s, 1)
		}
		var l [8]byte
		binary.BigEndian.PutUint64(l[:], []uint64{1 << 63, 1<<63 - 1, 1 << 40, ^uint64(0)}[r.Intn(4)])
		if maxrx == 0 {
			binary.BigEndian.PutUint64(l[:], []uint64{1 << 63, ^uint64(0)}[r.Intn(2)])
		}
		s = append(s, l[:]...)
		s = append(s, "tail"...)
	case 3: // partial length prefix
		f := frame(ipc, []byte("x"))
		s = append(s, f[:1+r.Intn(7)]...)
	}
	return s
}

func genChunks(r *rand.Rand) []int {
	switch r.Intn(5) {
	case 0:
		return []int{1}
	case 1:
		return []int{1 + r.Intn(8)}
	case 2:
		return []int{1 << 20} // everything at once
	}
	n := 1 + r.Intn(6)
	cs := make([]int, n)
	for i := range cs {
		cs[i] = 1 + r.Intn(13)
		if r.Intn(4) == 0 {
			cs[i] = 1 + r.Intn(700)
		}
	}
	return cs
}

type pcase struct {
	ipc      bool
	self     uint16
	peer     uint16
	maxrx    int
	incoming []byte
	chunks   []int
	stalled  bool
	conn     *chunkConn
	pipe     transport.ConnPipe
	// observed
	hsOK      bool
	delivered [][]byte
	end       int // 0 ended (EOF / truncated), 2 too long, 3 no receive loop (handshake did not succeed), 4 other error
}

func errKind(err error) int {
	switch err {
	case nil:
		return 0
	case mangos.ErrClosed:
		return 1
	case mangos.ErrBadHeader:
		return 2
	case mangos.ErrBadVersion:
		return 3
	case mangos.ErrBadProto:
		return 4
	}
	return 5
}

func withWatchdog(d time.Duration, f func()) bool {
	done := make(chan struct{})
	go func() { f(); close(done) }()
	select {
	case <-done:
		return true
	case <-time.After(d):
		return false
	}
}

func clist(xs []int) string {
	var s []string
	for _, x := range xs {
		s = append(s, fmt.Sprint(x))
	}
	return coqgen.List(s)
}

func runScenario(r *rand.Rand, idx int) string {
	n := 1 + r.Intn(4)
	var cases []*pcase
	for i := 0; i < n; i++ {
		c := &pcase{ipc: r.Intn(2) == 0, self: 0x50, peer: 0x51, maxrx: []int{0, 100, 300, 1000}[r.Intn(4)], chunks: genChunks(r), end: 3}
		if r.Intn(3) == 0 {
			c.self, c.peer = uint16(r.Intn(1<<16)), uint16(r.Intn(1<<16))
		}
		if c.maxrx == 0 {
			// no limit: a mis-decoded length would make the library allocate whatever it announces and the process
			// die of memory exhaustion instead of reporting the scenario -- unlimited pipes get their bytes in one piece
			c.chunks = []int{1 << 20}
		}
		h := hdr(c.peer)
		switch r.Intn(12) {
		case 0:
			h = hdr(c.peer + 1) // wrong protocol
		case 1:
			h[r.Intn(3)] ^= byte(1 + r.Intn(255)) // bad magic
		case 2:
			h[3] = byte(1 + r.Intn(255)) // bad version
		case 3:
			h[6+r.Intn(2)] = byte(1 + r.Intn(255)) // reserved not zero
		case 4:
			h = h[:r.Intn(8)] // hangs up inside (or before) the header
		case 5, 6:
			if idx%2 == 1 { // never completes the handshake, stays connected
				h = h[:r.Intn(8)]
				c.stalled = true
			}
		case 7:
			r.Read(h)
		}
		c.incoming = h
		if len(h) == 8 {
			c.incoming = append(c.incoming, genFrames(r, c.ipc, c.maxrx)...)
		}
		cases = append(cases, c)
	}
	hs := transport.NewConnHandshaker()
	proto := func(c *pcase) transport.ProtocolInfo {
		return transport.ProtocolInfo{Self: c.self, Peer: c.peer, SelfName: "a", PeerName: "b"}
	}
	want := 0
	start := func(c *pcase) {
		c.conn = newChunkConn(append([]byte{}, c.incoming...), c.chunks, c.stalled)
		if c.ipc {
			c.pipe = transport.NewConnPipeIPC(c.conn, proto(c))
		} else {
			c.pipe = transport.NewConnPipe(c.conn, proto(c))
		}
		c.pipe.SetOption(mangos.OptionMaxRecvSize, c.maxrx)
		hs.Start(c.pipe)
	}
	// the peers that never finish their handshake come first and are given time to get stuck in it
	for _, c := range cases {
		if c.stalled {
			start(c)
		}
	}
	for _, c := range cases {
		if c.stalled {
			for i := 0; i < 2000; i++ {
				c.conn.mu.Lock()
				stuck := c.conn.nwrites > 0 && len(c.conn.data) == 0
				c.conn.mu.Unlock()
				if stuck {
					break
				}
				time.Sleep(500 * time.Microsecond)
			}
		}
	}
	blocked := false
	for _, c := range cases {
		if !c.stalled {
			cc := c
			if !withWatchdog(3*time.Second, func() { start(cc) }) { // Start itself must not wait for other peers
				blocked = true
				break
			}
			want++
		}
	}
	var fails []int
	for i := 0; i < want && !blocked; i++ {
		var p transport.Pipe
		var err error
		if !withWatchdog(3*time.Second, func() { p, err = hs.Wait() }) {
			blocked = true
			break
		}
		if err != nil {
			fails = append(fails, errKind(err))
			continue
		}
		for _, c := range cases {
			if transport.Pipe(c.pipe) == p {
				c.hsOK = true
			}
		}
	}
	sort.Ints(fails)
	// receive loops of the connections that made it
	var wg sync.WaitGroup
	for _, c := range cases {
		if !c.hsOK {
			continue
		}
		wg.Add(1)
		go func(c *pcase) {
			defer wg.Done()
			ok := withWatchdog(5*time.Second, func() {
				defer func() {
					if e := recover(); e != nil {
						fmt.Fprintf(os.Stderr, "stream: Recv panicked: %v\n", e)
						c.end = 6
					}
				}()
				for {
					m, err := c.pipe.Recv()
					if err != nil {
						switch err {
						case mangos.ErrTooLong:
							c.end = 2
						case io.EOF, io.ErrUnexpectedEOF:
							c.end = 0
						default:
							c.end = 4
						}
						return
					}
					b := append(append([]byte{}, m.Header...), m.Body...)
					c.delivered = append(c.delivered, b)
					m.Free()
				}
			})
			if !ok {
				c.end = 5
			}
		}(c)
	}
	wg.Wait()
	closeOK := withWatchdog(3*time.Second, func() { hs.Close() })
	// Close must abort the handshakes still in flight: their connections get closed
	if closeOK {
		for _, c := range cases {
			if c.stalled && c.conn != nil {
				select {
				case <-c.conn.closed:
				case <-time.After(300 * time.Millisecond):
					closeOK = false
				}
			}
		}
	}
	for _, c := range cases {
		if c.conn == nil { // never started: an earlier Start did not return
			c.conn = newChunkConn(nil, nil, false)
		}
		_ = c.conn.Close()
	}
	var items []string
	for _, c := range cases {
		var ds []string
		for _, d := range c.delivered {
			ds = append(ds, coqgen.Hex(d))
		}
		c.conn.mu.Lock()
		wrote := append([]byte{}, c.conn.wrote...)
		c.conn.mu.Unlock()
		items = append(items, fmt.Sprintf("(%s, %d, %d, %d, %s, %s, %s, (%s, %s, %s, %d))", coqgen.Bool(c.ipc), c.self, c.peer, c.maxrx,
			coqgen.Hex(c.incoming), clist(c.chunks), coqgen.Bool(c.stalled), coqgen.Bool(c.hsOK), coqgen.Hex(wrote), coqgen.List(ds), c.end))
	}
	return fmt.Sprintf("(%s, %s, %s, %s)", coqgen.List(items), clist(fails), coqgen.Bool(blocked), coqgen.Bool(closeOK))
}

// ---- registration racing Close ------------------------------------------------------------------------------
// The schedules below are the ones the static check-then-register rule (Model/AtomCfg.v) forbids: the caller has
// passed (or never made) its "closed?" check, Close runs to completion, then the object is registered.

// lateStart: a listener's accept loop hands a freshly accepted connection to the handshaker just after Close.
// The peer never sends its header.  Returns: was the connection closed (within 500 ms)?
func lateStart(ipc bool) bool {
	hs := transport.NewConnHandshaker()
	hs.Close()
	c := newChunkConn(nil, nil, true)
	pi := transport.ProtocolInfo{Self: 0x50, Peer: 0x51}
	var p transport.ConnPipe
	if ipc {
		p = transport.NewConnPipeIPC(c, pi)
	} else {
		p = transport.NewConnPipe(c, pi)
	}
	if !withWatchdog(2*time.Second, func() { hs.Start(p) }) {
		return false
	}
	select {
	case <-c.closed:
		return true
	case <-time.After(500 * time.Millisecond):
		_ = c.Close()
		return false
	}
}

type gateWriter struct {
	hdr     http.Header
	conn    net.Conn
	entered chan struct{}
	gate    chan struct{}
	code    int
}

func (g *gateWriter) Header() http.Header         { return g.hdr }
func (g *gateWriter) Write(b []byte) (int, error) { return len(b), nil }
func (g *gateWriter) WriteHeader(c int)           { g.code = c }
func (g *gateWriter) Hijack() (net.Conn, *bufio.ReadWriter, error) {
	close(g.entered)
	<-g.gate
	return g.conn, bufio.NewReadWriter(bufio.NewReader(g.conn), bufio.NewWriter(g.conn)), nil
}

// lateUpgrade: a websocket upgrade is in flight (ServeHTTP has seen the listener running) when the listener is closed.
// Returns: did ServeHTTP return (within 1 s of the upgrade completing), and was the connection closed?
func lateUpgrade() (returned, closed bool, note string) {
	sock := wire.New("pull")
	defer sock.Close()
	tl, err := ws.Transport.NewListener("ws://127.0.0.1:1/late", sock)
	if err != nil {
		return false, false, "NewListener: " + err.Error()
	}
	hv, err := tl.GetOption(ws.OptionWebSocketHandler)
	if err != nil {
		return false, false, "handler: " + err.Error()
	}
	h := hv.(http.Handler)
	srv, cli := net.Pipe()
	go func() { _, _ = io.Copy(io.Discard, cli) }() // the client reads the 101 response
	req, _ := http.NewRequest("GET", "http://127.0.0.1:1/late", nil)
	req.Header.Set("Connection", "Upgrade")
	req.Header.Set("Upgrade", "websocket")
	req.Header.Set("Sec-WebSocket-Version", "13")
	req.Header.Set("Sec-WebSocket-Key", "dGhlIHNhbXBsZSBub25jZQ==")
	req.Header.Set("Sec-WebSocket-Protocol", "pull.sp.nanomsg.org")
	gw := &gateWriter{hdr: http.Header{}, conn: srv, entered: make(chan struct{}), gate: make(chan struct{})}
	done := make(chan struct{})
	go func() { h.ServeHTTP(gw, req); close(done) }()
	select {
	case <-gw.entered:
	case <-done:
		return true, true, fmt.Sprintf("upgrade refused early (status %d)", gw.code)
	case <-time.After(2 * time.Second):
		return false, false, "upgrade never reached Hijack"
	}
	_ = tl.Close() // Close runs to completion while the upgrade is in flight
	close(gw.gate)
	select {
	case <-done:
		returned = true
	case <-time.After(time.Second):
	}
	// closed? a write on the client side of a closed pipe fails at once
	_ = cli.SetWriteDeadline(time.Now().Add(200 * time.Millisecond))
	_, werr := cli.Write([]byte{0})
	closed = werr == io.ErrClosedPipe
	_ = cli.Close()
	_ = srv.Close()
	return returned, closed, ""
}

// isolation: closing an object affects only that object.  Socket A listens on an address; socket B's Listen on the same
// address fails (in use); B is closed; a new peer must still reach A there.  Likewise a listener that was created for
// the address but never started, then closed.
func isolation(tr string, unstarted bool) (ok bool, note string) {
	a := wire.New("pair")
	defer a.Close()
	ad := wire.Addr(tr)
	la, err := a.NewListener(ad, wire.Opts(tr, true))
	if err != nil {
		return false, "NewListener: " + err.Error()
	}
	if err := la.Listen(); err != nil {
		return false, "Listen: " + err.Error()
	}
	b := wire.New("pair")
	lb, err := b.NewListener(ad, wire.Opts(tr, true))
	if err == nil {
		if !unstarted {
			if e := lb.Listen(); e == nil {
				_ = b.Close()
				return false, "second Listen on the same address succeeded"
			}
		}
		_ = lb.Close()
	}
	_ = b.Close()
	c := wire.New("pair")
	defer c.Close()
	_ = c.SetOption(mangos.OptionSendDeadline, time.Second)
	_ = a.SetOption(mangos.OptionRecvDeadline, 2*time.Second)
	if err := c.DialOptions(ad, wire.Opts(tr, false)); err != nil {
		return false, "Dial after the other listener was closed: " + err.Error()
	}
	if err := c.Send([]byte("still here")); err != nil {
		return false, "Send: " + err.Error()
	}
	m, err := a.Recv()
	if err != nil || string(m) != "still here" {
		return false, fmt.Sprintf("Recv: %v %q", err, m)
	}
	return true, ""
}

// silentPeers: connections that are opened at the listener's address and never say a word (no TLS hello, no HTTP
// request, no SP header) while the next, well-behaved peer connects: it must get through at once.
func silentPeers(tr string) (ok bool, note string) {
	a := wire.New("pair")
	defer a.Close()
	ad := wire.Addr(tr)
	la, err := a.NewListener(ad, wire.Opts(tr, true))
	if err != nil {
		return false, "NewListener: " + err.Error()
	}
	if err := la.Listen(); err != nil {
		return false, "Listen: " + err.Error()
	}
	network, target := "tcp", ""
	rest := ad[strings.Index(ad, "://")+3:]
	if tr == "ipc" {
		network, target = "unix", rest
	} else {
		target = rest
		if i := strings.Index(target, "/"); i >= 0 {
			target = target[:i]
		}
	}
	for i := 0; i < 3; i++ {
		rc, err := net.DialTimeout(network, target, time.Second)
		if err != nil {
			return false, "raw connect: " + err.Error()
		}
		defer rc.Close()
	}
	time.Sleep(30 * time.Millisecond)
	c := wire.New("pair")
	defer c.Close()
	done := make(chan error, 1)
	go func() { done <- c.DialOptions(ad, wire.Opts(tr, false)) }()
	select {
	case err := <-done:
		if err != nil {
			return false, "Dial next to silent connections: " + err.Error()
		}
	case <-time.After(3 * time.Second):
		return false, "Dial still blocked 3 s after three connections went silent before their handshake"
	}
	_ = c.SetOption(mangos.OptionSendDeadline, time.Second)
	_ = a.SetOption(mangos.OptionRecvDeadline, 2*time.Second)
	if err := c.Send([]byte("me too")); err != nil {
		return false, "Send: " + err.Error()
	}
	m, err := a.Recv()
	if err != nil || string(m) != "me too" {
		return false, fmt.Sprintf("Recv: %v %q", err, m)
	}
	return true, ""
}

// closeStalledWrite: the peer stops reading (a PULL socket whose application never receives), the connection's
// buffers fill up and the PUSH side's pipe sits in the transport's write; closing the PUSH socket must still release
// the pipe (Detached delivered).  Returns (Close returned within 5 s, pipe detached within 3 s).
func closeStalledWrite(tr string) (bool, bool, string) {
	const msgSize, msgCount = 512 * 1024, 64
	puller := wire.New("pull")
	defer puller.Close()
	_ = puller.SetOption(mangos.OptionReadQLen, 1)
	ad := wire.Addr(tr)
	if err := puller.ListenOptions(ad, wire.Opts(tr, true)); err != nil {
		return false, false, "Listen: " + err.Error()
	}
	pusher := wire.New("push")
	attached, detached := make(chan struct{}, 4), make(chan struct{}, 4)
	pusher.SetPipeEventHook(func(ev mangos.PipeEvent, _ mangos.Pipe) {
		switch ev {
		case mangos.PipeEventAttached:
			attached <- struct{}{}
		case mangos.PipeEventDetached:
			detached <- struct{}{}
		}
	})
	_ = pusher.SetOption(mangos.OptionWriteQLen, msgCount+1)
	if err := pusher.DialOptions(ad, wire.Opts(tr, false)); err != nil {
		_ = pusher.Close()
		return false, false, "Dial: " + err.Error()
	}
	select {
	case <-attached:
	case <-time.After(5 * time.Second):
		_ = pusher.Close()
		return false, false, "never attached"
	}
	body := make([]byte, msgSize)
	for i := 0; i < msgCount; i++ {
		if err := pusher.Send(body); err != nil {
			_ = pusher.Close()
			return false, false, "Send: " + err.Error()
		}
	}
	stalled := func() bool {
		buf := make([]byte, 1<<20)
		g := string(buf[:runtime.Stack(buf, true)])
		return strings.Contains(g, "(*conn).Send") || strings.Contains(g, "(*connipc).Send") || strings.Contains(g, "(*wsPipe).Send")
	}
	ok := false
	for i := 0; i < 60 && !ok; i++ {
		time.Sleep(50 * time.Millisecond)
		ok = stalled()
	}
	time.Sleep(200 * time.Millisecond)
	if !ok || !stalled() {
		_ = pusher.Close()
		return true, true, "not exercised: the transport write did not stall"
	}
	closed := make(chan struct{})
	go func() { _ = pusher.Close(); close(closed) }()
	select {
	case <-closed:
	case <-time.After(5 * time.Second):
		return false, false, "Close of the socket did not return within 5 s"
	}
	select {
	case <-detached:
		return true, true, ""
	case <-time.After(3 * time.Second):
		return true, false, "the pipe was not detached within 3 s of Close: its connection, goroutines and id are still held"
	}
}

// failedListen: a Listen that fails for a network reason (an address of this form that cannot be bound here) leaves the
// listener usable: Address, GetOption, SetOption, a second Listen and Close all return (no panic, no hang).
func failedListen(tr string) (ok bool, note string) {
	s := wire.New("pair")
	defer s.Close()
	ad := map[string]string{"tcp": "tcp://192.0.2.1:0", "tls+tcp": "tls+tcp://192.0.2.1:0", "ws": "ws://192.0.2.1:0/x", "wss": "wss://192.0.2.1:0/x",
		"ipc": "ipc:///nonexistent-dir-mv/sock"}[tr]
	l, err := s.NewListener(ad, wire.Opts(tr, true))
	if err != nil {
		return false, "NewListener: " + err.Error()
	}
	if err := l.Listen(); err == nil {
		return true, "not exercised: Listen on " + ad + " succeeded"
	}
	done := make(chan string, 1)
	go func() {
		defer func() {
			if r := recover(); r != nil {
				done <- fmt.Sprintf("panic after the failed Listen: %v", r)
			}
		}()
		_ = l.Address()
		_, _ = l.GetOption(mangos.OptionMaxRecvSize)
		_ = l.SetOption(mangos.OptionMaxRecvSize, 1000)
		_ = l.Listen()
		_ = l.Address()
		_ = l.Close()
		done <- ""
	}()
	select {
	case r := <-done:
		return r == "", r
	case <-time.After(3 * time.Second):
		return false, "a call on the listener did not return within 3 s after the failed Listen"
	}
}

// inprocParkedDial: an inproc Dial that found the listener but no accepter yet (the server is busy attaching the previous
// connection) is parked; when that listener is closed the Dial returns -- it does not wait for ever for a listener that
// no longer exists.  Returns (Dial returned within 2 s, it returned an error).
func inprocParkedDial() (bool, bool, string) {
	tr := transport.GetTransport("inproc")
	if tr == nil {
		return false, false, "no inproc transport"
	}
	srv, cli := wire.New("pair"), wire.New("pair")
	defer srv.Close()
	defer cli.Close()
	ad := wire.Addr("inproc")
	l, err := tr.NewListener(ad, srv)
	if err != nil {
		return false, false, "NewListener: " + err.Error()
	}
	if err := l.Listen(); err != nil {
		return false, false, "Listen: " + err.Error()
	}
	d, err := tr.NewDialer(ad, cli)
	if err != nil {
		return false, false, "NewDialer: " + err.Error()
	}
	res := make(chan error, 1)
	go func() { _, e := d.Dial(); res <- e }() // nobody is in Accept: parked
	time.Sleep(20 * time.Millisecond)
	_ = l.Close()
	select {
	case e := <-res:
		return true, e != nil, ""
	case <-time.After(2 * time.Second):
		// let it go: a new listener on the address with an accepter
		return false, false, "Dial still parked 2 s after the listener it was waiting for was closed"
	}
}

// pipeAddress: a pipe accepted by a listener that was given a wildcard port reports the address the listener is really
// bound to (what Listener.Address says), in the hook events and afterwards.
func pipeAddress(tr string) (bool, string) {
	srv, cli := wire.New("pair"), wire.New("pair")
	defer srv.Close()
	defer cli.Close()
	ad := map[string]string{"tcp": "tcp://127.0.0.1:0", "tls+tcp": "tls+tcp://127.0.0.1:0", "ws": "ws://127.0.0.1:0/p", "wss": "wss://127.0.0.1:0/p"}[tr]
	l, err := srv.NewListener(ad, wire.Opts(tr, true))
	if err != nil {
		return false, "NewListener: " + err.Error()
	}
	got := make(chan [2]string, 4)
	srv.SetPipeEventHook(func(ev mangos.PipeEvent, p mangos.Pipe) {
		if ev == mangos.PipeEventAttached && p.Listener() != nil {
			got <- [2]string{p.Address(), p.Listener().Address()}
		}
	})
	if err := l.Listen(); err != nil {
		return false, "Listen: " + err.Error()
	}
	if err := cli.DialOptions(l.Address(), wire.Opts(tr, false)); err != nil {
		return false, "Dial " + l.Address() + ": " + err.Error()
	}
	select {
	case g := <-got:
		if g[0] != g[1] || g[0] != l.Address() || strings.HasSuffix(strings.SplitN(g[0], "/p", 2)[0], ":0") {
			return false, fmt.Sprintf("accepted pipe reports %q, its listener %q", g[0], g[1])
		}
		return true, ""
	case <-time.After(3 * time.Second):
		return false, "no pipe attached within 3 s"
	}
}

// lateHandshakeDuringClose: a connection whose handshake completes while Socket.Close is running (the protocol's Close takes
// its time) is closed like every other one: after Close has returned the peer sees the connection go.
// Returns (Close returned within 5 s, the peer saw the connection closed within 3 s).
func lateHandshakeDuringClose() (bool, bool, string) {
	ln, err := net.Listen("tcp", "127.0.0.1:0")
	if err != nil {
		return false, false, "listen: " + err.Error()
	}
	defer ln.Close()
	pr := mproto.New()
	pr.CloseEntered, pr.CloseGate = make(chan struct{}), make(chan struct{})
	sock := protocol.MakeSocket(pr)
	_ = sock.SetOption(mangos.OptionDialAsynch, true)
	if err := sock.Dial("tcp://" + ln.Addr().String()); err != nil {
		return false, false, "Dial: " + err.Error()
	}
	c, err := ln.Accept()
	if err != nil {
		return false, false, "Accept: " + err.Error()
	}
	defer c.Close()
	hb := make([]byte, 8)
	_ = c.SetReadDeadline(time.Now().Add(2 * time.Second))
	if _, err := io.ReadFull(c, hb); err != nil { // the dialer's header; ours is withheld
		return false, false, "reading the dialer's header: " + err.Error()
	}
	closed := make(chan struct{})
	go func() { _ = sock.Close(); close(closed) }()
	select {
	case <-pr.CloseEntered:
	case <-time.After(3 * time.Second):
		return false, false, "the protocol's Close was never called"
	}
	// now, with the protocol's Close in progress, the handshake completes
	_, _ = c.Write([]byte{0, 'S', 'P', 0, byte(pr.SelfNum >> 8), byte(pr.SelfNum), 0, 0})
	time.Sleep(30 * time.Millisecond)
	close(pr.CloseGate)
	select {
	case <-closed:
	case <-time.After(5 * time.Second):
		return false, false, "Socket.Close did not return"
	}
	_ = c.SetReadDeadline(time.Now().Add(3 * time.Second))
	one := make([]byte, 1)
	if _, err := c.Read(one); err == nil {
		return true, false, "the closed socket sent data"
	} else if ne, ok := err.(net.Error); ok && ne.Timeout() {
		return true, false, "3 s after Close returned the connection that completed its handshake during Close is still open"
	}
	return true, true, ""
}

// send side: what Send writes for a header and a body
func runSend(r *rand.Rand) string {
	ipc := r.Intn(2) == 0
	c := newChunkConn(nil, nil, true)
	var p transport.ConnPipe
	pi := transport.ProtocolInfo{Self: 0x50, Peer: 0x51}
	if ipc {
		p = transport.NewConnPipeIPC(c, pi)
	} else {
		p = transport.NewConnPipe(c, pi)
	}
	var specs []string
	k := 1 + r.Intn(4)
	for i := 0; i < k; i++ {
		hl := []int{0, 0, 4, 8, 12}[r.Intn(5)]
		bl := poolEdges[r.Intn(len(poolEdges))]
		m := mangos.NewMessage(bl)
		h := coqgen.GenBody(uint64(r.Intn(256)), hl)
		b := coqgen.GenBody(uint64(r.Intn(256)), bl)
		m.Header = append(m.Header, h...)
		m.Body = append(m.Body, b...)
		specs = append(specs, fmt.Sprintf("(%s, %s)", coqgen.Hex(h), coqgen.Hex(b)))
		if err := p.Send(m); err != nil {
			specs[len(specs)-1] += fmt.Sprintf(" (* send error %v *)", err)
		}
	}
	c.mu.Lock()
	w := append([]byte{}, c.wrote...)
	c.mu.Unlock()
	_ = c.Close()
	return fmt.Sprintf("(%s, %s, %s)", coqgen.Bool(ipc), coqgen.List(specs), coqgen.Hex(w))
}

// a Send whose write fails: the error is returned and the message stays the caller's -- the pipe must not have
// released it (the protocols free or re-queue a message whose send failed; a second release hands the buffer to
// somebody else while it is still in use).  Returns (error returned?, releases by the pipe during Send).
var sendHook struct {
	mu    sync.Mutex
	m     *mangos.Message
	frees int
}

func runSendFail(ipc bool, n int) (bool, int) {
	c := newChunkConn(nil, nil, true)
	c.failW = true
	pi := transport.ProtocolInfo{Self: 0x50, Peer: 0x51}
	var p transport.ConnPipe
	if ipc {
		p = transport.NewConnPipeIPC(c, pi)
	} else {
		p = transport.NewConnPipe(c, pi)
	}
	m := mangos.NewMessage(n)
	m.Body = append(m.Body, coqgen.GenBody(7, n)...)
	sendHook.mu.Lock()
	sendHook.m, sendHook.frees = m, 0
	sendHook.mu.Unlock()
	mangos.VerifHook = func(op mangos.VerifOp, x *mangos.Message, ref int32, arg int) {
		if op == mangos.VerifOpFree {
			sendHook.mu.Lock()
			if x == sendHook.m {
				sendHook.frees++
			}
			sendHook.mu.Unlock()
		}
	}
	err := p.Send(m)
	mangos.VerifHook = nil
	sendHook.mu.Lock()
	fr := sendHook.frees
	sendHook.mu.Unlock()
	if err != nil && fr == 0 {
		m.Free() // ours
	}
	_ = c.Close()
	return err != nil, fr
}

func main() {
	if len(os.Args) < 2 {
		fmt.Fprintln(os.Stderr, "usage: stream <outdir>")
		os.Exit(2)
	}
	r := coqgen.Rand()
	n := 256
	coqgen.Watchdog(4 * time.Minute)
	if coqgen.Thorough() {
		n = 2560
		coqgen.Watchdog(20 * time.Minute)
	}
	res := make([]string, n)
	seeds := make([]int64, n)
	for i := range seeds {
		seeds[i] = r.Int63()
	}
	var wg sync.WaitGroup
	sem := make(chan struct{}, 16)
	for i := 0; i < n; i++ {
		wg.Add(1)
		go func(i int) {
			defer wg.Done()
			sem <- struct{}{}
			defer func() { <-sem }()
			res[i] = runScenario(rand.New(rand.NewSource(seeds[i])), i)
		}(i)
	}
	wg.Wait()
	var ss []string
	for i := 0; i < n/4; i++ {
		ss = append(ss, runSend(r))
	}
	var late []string
	for i := 0; i < 4; i++ {
		late = append(late, fmt.Sprintf("(%q, %s, true)", []string{"handshaker.Start after Close (tcp)", "handshaker.Start after Close (ipc)"}[i%2], coqgen.Bool(lateStart(i%2 == 1))))
	}
	for i := 0; i < 2; i++ {
		ret, cl, note := lateUpgrade()
		n := ""
		if note != "" {
			n = " (* " + note + " *)"
			fmt.Fprintln(os.Stderr, "stream: lateUpgrade:", note)
		}
		late = append(late, fmt.Sprintf("(%q, %s, %s)%s", "ws upgrade completing after listener Close", coqgen.Bool(ret), coqgen.Bool(cl), n))
	}
	var sf []string
	for i, n := range []int{0, 1, 63, 64, 65, 1000, 60000, 70000} {
		e, fr := runSendFail(i%2 == 1, n)
		sf = append(sf, fmt.Sprintf("(%s, %d, %s, %d)", coqgen.Bool(i%2 == 1), n, coqgen.Bool(e), fr))
	}
	for _, tr := range wire.Transports {
		for _, un := range []bool{false, true} {
			ok, note := isolation(tr, un)
			n := ""
			if note != "" {
				n = " (* " + strings.ReplaceAll(note, "*)", "") + " *)"
				fmt.Fprintln(os.Stderr, "stream: isolation", tr, un, note)
			}
			late = append(late, fmt.Sprintf("(%q, %s, true)%s", "closing a second listener for an address in use leaves the first one reachable ("+tr+map[bool]string{true: ", never started", false: ", Listen failed"}[un]+")", coqgen.Bool(ok), n))
		}
	}
	for _, tr := range wire.Transports {
		if tr == "inproc" {
			continue
		}
		ok, note := silentPeers(tr)
		n := ""
		if note != "" {
			n = " (* " + strings.ReplaceAll(note, "*)", "") + " *)"
			fmt.Fprintln(os.Stderr, "stream: silent peers", tr, note)
		}
		late = append(late, fmt.Sprintf("(%q, %s, true)%s", "connections that stay silent before their handshake do not delay the next peer ("+tr+")", coqgen.Bool(ok), n))
	}
	{
		ret, gone, note := lateHandshakeDuringClose()
		n := ""
		if note != "" {
			n = " (* " + note + " *)"
			fmt.Fprintln(os.Stderr, "stream: late handshake during Close:", note)
		}
		late = append(late, fmt.Sprintf("(%q, %s, %s)%s", "a connection whose handshake completes while Socket.Close is running is closed too", coqgen.Bool(ret), coqgen.Bool(gone), n))
	}
	for _, tr := range []string{"tcp", "tls+tcp", "ws", "wss"} {
		ok, note := pipeAddress(tr)
		n := ""
		if note != "" {
			n = " (* " + strings.ReplaceAll(note, "*)", "") + " *)"
			fmt.Fprintln(os.Stderr, "stream: pipe address", tr, note)
		}
		late = append(late, fmt.Sprintf("(%q, %s, true)%s", "a pipe accepted on a wildcard port reports its listener's bound address ("+tr+")", coqgen.Bool(ok), n))
	}
	{
		ret, errd, note := inprocParkedDial()
		n := ""
		if note != "" {
			n = " (* " + note + " *)"
			fmt.Fprintln(os.Stderr, "stream: inproc parked dial:", note)
		}
		late = append(late, fmt.Sprintf("(%q, %s, %s)%s", "an inproc Dial parked for an accepter returns (with an error) when that listener is closed", coqgen.Bool(ret), coqgen.Bool(errd), n))
	}
	for _, tr := range wire.Transports {
		if tr == "inproc" {
			continue
		}
		ok, note := failedListen(tr)
		n := ""
		if note != "" {
			n = " (* " + strings.ReplaceAll(note, "*)", "") + " *)"
			fmt.Fprintln(os.Stderr, "stream: failed listen", tr, note)
		}
		late = append(late, fmt.Sprintf("(%q, %s, true)%s", "a Listen that failed to bind leaves the listener usable: Address, GetOption, SetOption, Listen, Close ("+tr+")", coqgen.Bool(ok), n))
	}
	for _, tr := range wire.Transports {
		if tr == "inproc" {
			continue
		}
		ret, det, note := closeStalledWrite(tr)
		n := ""
		if note != "" {
			n = " (* " + strings.ReplaceAll(note, "*)", "") + " *)"
			fmt.Fprintln(os.Stderr, "stream: close while write stalled", tr, note)
		}
		late = append(late, fmt.Sprintf("(%q, %s, %s)%s", "Close while the transport write is stalled (peer not reading) releases the pipe ("+tr+")", coqgen.Bool(ret), coqgen.Bool(det), n))
	}
	const shards = 16
	for k := 0; k < shards; k++ {
		w := coqgen.Create(filepath.Join(os.Args[1], fmt.Sprintf("defs_%03d.v", k)))
		w.Def("hs_scenarios", "list scenario", res[k*n/shards:(k+1)*n/shards])
		w.Def("send_cases", "list (bool * list (string * string) * string)", ss[k*len(ss)/shards:(k+1)*len(ss)/shards])
		if k == 0 {
			w.Def("late_cases", "list (string * bool * bool)", late)
			w.Def("sendfail_cases", "list (bool * N * bool * N)", sf)
		} else {
			w.Def("late_cases", "list (string * bool * bool)", nil)
			w.Def("sendfail_cases", "list (bool * N * bool * N)", nil)
		}
		w.Close()
	}
}
