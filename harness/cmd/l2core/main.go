// l2core: histories against the real socket core (core.socket, dialers, listeners, pipes, event hook)
// running over the virtual transport with a recording mock protocol.
package main

import (
	"fmt"
	"math/rand"
	"os"
	"sort"
	"strings"
	"sync"
	"time"

	"mangosverif/l1run"
	"mangosverif/mproto"
	"mangosverif/seq"
	"mangosverif/vt"

	"go.nanomsg.org/mangos/v3"
	"go.nanomsg.org/mangos/v3/protocol"
)

type step struct {
	stim    string
	obs     []string
	blocked []int
}

type gen struct {
	r        *rand.Rand
	sock     mangos.Socket
	proto    *mproto.Proto
	mu       sync.Mutex
	hookLog  []string
	policy   int
	curPipe  int            // name of the pipe being attached in this step
	idName   map[uint32]int // core pipe id -> harness name
	mpipes   map[int]mangos.Pipe
	tpipes   map[int]*vt.Pipe
	tclosed  map[int]bool
	lst      map[int]mangos.Listener
	lstAddr  map[int]string
	lstOpen  map[int]bool
	dl       map[int]mangos.Dialer
	dlAddr   map[int]string
	dlSeen   map[int]int // attempts already reported
	calls    map[int]*callRes
	order    []int
	reported map[int]bool
	steps    []step
	nextP    int
	nextL    int
	nextD    int
	nextT    int
	idBase   int
	start    time.Time
	bad      string
	stuck    bool
	closed   bool
	passes   int
}

type callRes struct {
	done bool
	err  error
}

var addrSeq int

func errCode(err error) int {
	switch err {
	case nil:
		return 0
	case mangos.ErrClosed:
		return 1
	case mangos.ErrAddrInUse:
		return 10
	case mangos.ErrConnRefused, mangos.ErrBadProto, mangos.ErrBadHeader, mangos.ErrBadVersion:
		return 11
	}
	return 99
}

func (g *gen) nowMs() int64 { return time.Since(g.start).Milliseconds() }

func (g *gen) call(t int, fn func() error) {
	r := &callRes{}
	g.mu.Lock()
	g.calls[t] = r
	g.order = append(g.order, t)
	g.mu.Unlock()
	go func() {
		err := fn()
		g.mu.Lock()
		r.done, r.err = true, err
		g.mu.Unlock()
	}()
}

func (g *gen) finish(stim string, isPass bool) {
	ok, onLock := seq.Quiesce(2 * time.Second)
	if !ok {
		g.bad = "no quiescence after " + stim
	}
	if onLock {
		g.stuck = true
		g.bad = "deadlock after " + stim
	}
	if isPass {
		stim = fmt.Sprintf("KPass %d", g.nowMs())
	}
	st := step{stim: stim}
	g.mu.Lock()
	st.obs = append(st.obs, g.hookLog...)
	g.hookLog = nil
	for _, t := range g.order {
		r := g.calls[t]
		if !r.done {
			st.blocked = append(st.blocked, t)
		} else if !g.reported[t] {
			g.reported[t] = true
			st.obs = append(st.obs, fmt.Sprintf("KRet %d %d", t, errCode(r.err)))
		}
	}
	g.mu.Unlock()
	for _, e := range g.proto.Take() {
		n, ok := g.idName[e.ID]
		if !ok {
			n = 9999
		}
		switch e.Kind {
		case "add":
			st.obs = append(st.obs, fmt.Sprintf("PAdd %d true", n))
		case "refuse":
			st.obs = append(st.obs, fmt.Sprintf("PAdd %d false", n))
		case "remove":
			st.obs = append(st.obs, fmt.Sprintf("PRemove %d", n))
		}
	}
	var names []int
	for n := range g.tpipes {
		names = append(names, n)
	}
	sort.Ints(names)
	for _, n := range names {
		if g.tpipes[n].IsClosed() && !g.tclosed[n] {
			g.tclosed[n] = true
			st.obs = append(st.obs, fmt.Sprintf("TClose %d", n))
		}
	}
	var ds []int
	for d := range g.dl {
		ds = append(ds, d)
	}
	sort.Ints(ds)
	for _, d := range ds {
		td := vt.GetDialer(g.dlAddr[d])
		if td == nil {
			continue
		}
		n := len(td.Attempts())
		for i := g.dlSeen[d]; i < n; i++ {
			st.obs = append(st.obs, fmt.Sprintf("DialAttempt %d", d))
		}
		g.dlSeen[d] = n
	}
	st.obs = append(st.obs, fmt.Sprintf("Ids %d", protocol.VerifPipeIDsInUse()-g.idBase))
	st.obs = append(st.obs, fmt.Sprintf("Listed %d", protocol.VerifPipesListed(g.sock)))
	sort.Ints(st.blocked)
	g.steps = append(g.steps, st)
}

func (g *gen) tick() {
	st := step{stim: fmt.Sprintf("KTick %d", g.nowMs())}
	if n := len(g.steps); n > 0 {
		st.blocked = g.steps[n-1].blocked
		// the counters are part of every step's observations
		for _, o := range g.steps[n-1].obs {
			if strings.HasPrefix(o, "Ids ") || strings.HasPrefix(o, "Listed ") {
				st.obs = append(st.obs, o)
			}
		}
	} else {
		st.obs = []string{"Ids 0", "Listed 0"}
	}
	g.steps = append(g.steps, st)
}

func (g *gen) hook(ev mangos.PipeEvent, p mangos.Pipe) {
	g.mu.Lock()
	var n int
	switch ev {
	case mangos.PipeEventAttaching:
		n = g.curPipe
		g.idName[p.ID()] = n
		g.mpipes[n] = p
		g.hookLog = append(g.hookLog, fmt.Sprintf("HAttaching %d", n))
	case mangos.PipeEventAttached:
		n = g.idName[p.ID()]
		g.hookLog = append(g.hookLog, fmt.Sprintf("HAttached %d", n))
	case mangos.PipeEventDetached:
		n = g.idName[p.ID()]
		g.hookLog = append(g.hookLog, fmt.Sprintf("HDetached %d", n))
		if p.ID() == 0 || p.ID() >= 1<<31 {
			g.hookLog = append(g.hookLog, "HDetached 8888")
		}
	}
	pol := g.policy
	g.mu.Unlock()
	if (ev == mangos.PipeEventAttaching && pol == 1) || (ev == mangos.PipeEventAttached && pol == 2) {
		_ = p.Close()
	}
}

type op struct {
	k       string
	a, b, c int
}

func (g *gen) openListeners() []int {
	var ls []int
	for l := 1; l <= g.nextL; l++ {
		if g.lstOpen[l] {
			ls = append(ls, l)
		}
	}
	return ls
}

func (g *gen) choose() (op, bool) {
	r := g.r
	switch w := r.Intn(100); {
	case w < 8:
		return op{k: "listen", a: b2i(r.Intn(5) == 0)}, g.nextL < 2 && !g.closed
	case w < 11:
		return op{k: "listenagain", a: 1 + r.Intn(2)}, g.nextL >= 1
	case w < 30:
		ls := g.openListeners()
		if len(ls) == 0 {
			return op{}, false
		}
		return op{k: "connect", a: ls[r.Intn(len(ls))]}, true
	case w < 33:
		return op{k: "closelistener", a: 1 + r.Intn(2)}, g.nextL >= 1
	case w < 40:
		return op{k: "newdialer", a: r.Intn(2), b: []int{30, 50}[r.Intn(2)], c: []int{0, 0, 1, 120}[r.Intn(4)]}, g.nextD < 2 && !g.closed
	case w < 48:
		return op{k: "dial", a: 1 + r.Intn(2)}, g.nextD >= 1
	case w < 66:
		var ds []int
		for d := 1; d <= g.nextD; d++ {
			if td := vt.GetDialer(g.dlAddr[d]); td != nil && td.Pending() > 0 {
				ds = append(ds, d)
			}
		}
		if len(ds) == 0 {
			return op{}, false
		}
		return op{k: "resolve", a: ds[r.Intn(len(ds))], b: r.Intn(2)}, true
	case w < 69:
		return op{k: "closedialer", a: 1 + r.Intn(2)}, g.nextD >= 1
	case w < 77:
		var ps []int
		for n, tp := range g.tpipes {
			if !tp.IsClosed() {
				ps = append(ps, n)
			}
		}
		if len(ps) == 0 {
			return op{}, false
		}
		sort.Ints(ps)
		return op{k: []string{"pipefail", "pipeclose"}[r.Intn(2)], a: ps[r.Intn(len(ps))]}, true
	case w < 82:
		return op{k: "policy", a: r.Intn(4)}, true
	case w < 86:
		return op{k: "refuse", a: r.Intn(2)}, true
	case w < 88:
		return op{k: "closesock"}, !g.closed
	default:
		return op{k: "pass", a: []int{15, 45, 60, 75, 90, 130, 200, 330}[r.Intn(8)]}, g.passes < 6
	}
}

func b2i(b bool) int {
	if b {
		return 1
	}
	return 0
}

func (g *gen) apply(o op) {
	// the time stamp before every stimulus (passes included) tells the model how long the previous step really took:
	// a step that lasted long enough for a redial timer to come due in it is then recognised as ambiguous
	g.tick()
	switch o.k {
	case "listen":
		g.nextL++
		l := g.nextL
		g.nextT++
		t := g.nextT
		addrSeq++
		a := fmt.Sprintf("vt://l%d-%d", os.Getpid(), addrSeq)
		g.lstAddr[l] = a
		if o.a == 1 {
			vt.FailNextListen(a, mangos.ErrAddrInUse)
		}
		ml, err := g.sock.NewListener(a, nil)
		if err == nil {
			g.lst[l] = ml
			err = ml.Listen()
			g.lstOpen[l] = err == nil
		}
		e := err
		g.call(t, func() error {
			if e != nil && e != mangos.ErrClosed {
				return fmt.Errorf("other")
			}
			return e
		})
		g.finish(fmt.Sprintf("KListen %d %d %v", t, l, o.a == 1), false)
	case "listenagain":
		ml := g.lst[o.a]
		if ml == nil {
			return
		}
		g.nextT++
		t := g.nextT
		err := ml.Listen()
		if err == nil {
			g.lstOpen[o.a] = true
		}
		g.call(t, func() error { return err })
		g.finish(fmt.Sprintf("KListenAgain %d %d", t, o.a), false)
	case "connect":
		g.nextP++
		p := g.nextP
		g.mu.Lock()
		g.curPipe = p
		g.mu.Unlock()
		g.tpipes[p] = vt.GetListener(g.lstAddr[o.a]).Connect(p)
		g.finish(fmt.Sprintf("KConnect %d %d", o.a, p), false)
	case "closelistener":
		ml := g.lst[o.a]
		if ml == nil {
			return
		}
		g.nextT++
		t := g.nextT
		g.lstOpen[o.a] = false
		g.call(t, func() error { return ml.Close() })
		g.finish(fmt.Sprintf("KCloseListener %d %d", t, o.a), false)
	case "newdialer":
		g.nextD++
		d := g.nextD
		addrSeq++
		a := fmt.Sprintf("vt://d%d-%d", os.Getpid(), addrSeq)
		g.dlAddr[d] = a
		opts := map[string]interface{}{
			mangos.OptionDialAsynch:       o.a == 1,
			mangos.OptionReconnectTime:    time.Duration(o.b) * time.Millisecond,
			mangos.OptionMaxReconnectTime: time.Duration(g.maxOf(o)) * time.Millisecond,
		}
		md, err := g.sock.NewDialer(a, opts)
		if err == nil {
			g.dl[d] = md
		}
		g.finish(fmt.Sprintf("KNewDialer %d %v %d %d", d, o.a == 1, o.b, g.maxOf(o)), false)
	case "dial":
		md := g.dl[o.a]
		if md == nil {
			return
		}
		g.nextT++
		t := g.nextT
		g.call(t, func() error { return md.Dial() })
		g.finish(fmt.Sprintf("KDial %d %d", t, o.a), false)
	case "resolve":
		td := vt.GetDialer(g.dlAddr[o.a])
		if td == nil || td.Pending() == 0 {
			g.steps = g.steps[:len(g.steps)-1] // drop the tick
			return
		}
		if o.b == 1 {
			g.nextP++
			p := g.nextP
			g.mu.Lock()
			g.curPipe = p
			g.mu.Unlock()
			g.tpipes[p] = td.Resolve(nil, p)
			g.finish(fmt.Sprintf("KResolve %d DOk %d", o.a, p), false)
		} else {
			// whatever the reason of the failure -- refused, a peer of another protocol, a garbled header -- the attempt has
			// failed and the dialer goes on (for the model all are "refused")
			td.Resolve([]error{vt.ErrRefused, vt.ErrRefused, mangos.ErrBadProto, mangos.ErrBadHeader, mangos.ErrBadVersion}[g.r.Intn(5)], 0)
			g.finish(fmt.Sprintf("KResolve %d DRefused 0", o.a), false)
		}
	case "closedialer":
		md := g.dl[o.a]
		if md == nil {
			return
		}
		g.nextT++
		t := g.nextT
		g.call(t, func() error { return md.Close() })
		g.finish(fmt.Sprintf("KCloseDialer %d %d", t, o.a), false)
	case "pipefail":
		if g.tpipes[o.a] == nil {
			g.steps = g.steps[:len(g.steps)-1]
			return
		}
		g.tpipes[o.a].Fail()
		g.finish(fmt.Sprintf("KPipeFail %d", o.a), false)
	case "pipeclose":
		g.mu.Lock()
		mp := g.mpipes[o.a]
		g.mu.Unlock()
		if mp == nil {
			g.steps = g.steps[:len(g.steps)-1]
			return
		}
		_ = mp.Close()
		g.finish(fmt.Sprintf("KPipeClose %d", o.a), false)
	case "policy":
		// 3: the pipe is closed by another goroutine while the protocol's AddPipe is running -- for the model the same event as 2
		// (closed right after it was attached): Attached and Detached both happen, the ID is released, nothing stays listed
		g.mu.Lock()
		g.policy = o.a
		g.mu.Unlock()
		g.proto.SetCloseInAdd(o.a == 3)
		m := o.a
		if m == 3 {
			m = 2
		}
		g.finish(fmt.Sprintf("KHookPolicy %d", m), false)
	case "refuse":
		g.proto.SetRefuse(o.a == 1)
		g.finish(fmt.Sprintf("KProtoRefuse %v", o.a == 1), false)
	case "closesock":
		g.nextT++
		t := g.nextT
		g.closed = true
		for l := range g.lstOpen {
			g.lstOpen[l] = false
		}
		g.call(t, func() error { return g.sock.Close() })
		g.finish(fmt.Sprintf("KCloseSock %d", t), false)
	case "pass":
		g.passes++
		time.Sleep(time.Duration(o.a) * time.Millisecond)
		g.finish("KPass", true)
	}
}

func (g *gen) maxOf(o op) int {
	switch o.c {
	case 1:
		return o.b // max == min
	}
	return o.c
}

// directed histories
var scripts = [][]op{
	// pipe closed during Attaching: the listener must go on accepting
	{{k: "listen"}, {k: "policy", a: 1}, {k: "connect", a: 1}, {k: "policy", a: 0}, {k: "connect", a: 1}, {k: "pipefail", a: 2}, {k: "closesock"}},
	// protocol refuses, then accepts
	{{k: "listen"}, {k: "refuse", a: 1}, {k: "connect", a: 1}, {k: "refuse", a: 0}, {k: "connect", a: 1}, {k: "pipeclose", a: 2}, {k: "closesock"}},
	// closed during Attached
	{{k: "listen"}, {k: "policy", a: 2}, {k: "connect", a: 1}, {k: "connect", a: 1}, {k: "closesock"}},
	// closed by another goroutine while the protocol's AddPipe is running (listener side, then dialer side)
	{{k: "listen"}, {k: "policy", a: 3}, {k: "connect", a: 1}, {k: "connect", a: 1}, {k: "policy", a: 0}, {k: "connect", a: 1}, {k: "closesock"}},
	{{k: "newdialer", a: 1, b: 30, c: 0}, {k: "policy", a: 3}, {k: "dial", a: 1}, {k: "resolve", a: 1, b: 1}, {k: "pass", a: 60}, {k: "resolve", a: 1, b: 1}, {k: "closesock"}},
	// synchronous dial refused, then retried
	{{k: "newdialer", a: 0, b: 30, c: 0}, {k: "dial", a: 1}, {k: "resolve", a: 1, b: 0}, {k: "dial", a: 1}, {k: "resolve", a: 1, b: 1}, {k: "pipefail", a: 1},
		{k: "pass", a: 90}, {k: "resolve", a: 1, b: 1}, {k: "closesock"}},
	// asynchronous dial: back-off grows to the cap, resets after attach, stops at close
	{{k: "newdialer", a: 1, b: 30, c: 120}, {k: "dial", a: 1}, {k: "resolve", a: 1, b: 0}, {k: "pass", a: 15}, {k: "pass", a: 90}, {k: "resolve", a: 1, b: 0},
		{k: "pass", a: 200}, {k: "resolve", a: 1, b: 1}, {k: "pipefail", a: 1}, {k: "pass", a: 90}, {k: "closedialer", a: 1}, {k: "resolve", a: 1, b: 0}, {k: "pass", a: 330}},
	// the delay grows by at most 1.5x per failure (not straight to the maximum) and is capped
	{{k: "newdialer", a: 1, b: 30, c: 120}, {k: "dial", a: 1}, {k: "resolve", a: 1, b: 0}, {k: "pass", a: 60}, {k: "resolve", a: 1, b: 0}, {k: "pass", a: 75},
		{k: "resolve", a: 1, b: 0}, {k: "pass", a: 100}, {k: "resolve", a: 1, b: 0}, {k: "pass", a: 135}, {k: "resolve", a: 1, b: 0}, {k: "pass", a: 60}, {k: "pass", a: 150}},
	// no maximum: the delay stays at the reconnect time
	{{k: "newdialer", a: 1, b: 50, c: 0}, {k: "dial", a: 1}, {k: "resolve", a: 1, b: 0}, {k: "pass", a: 80}, {k: "resolve", a: 1, b: 0}, {k: "pass", a: 80},
		{k: "resolve", a: 1, b: 0}, {k: "pass", a: 25}, {k: "pass", a: 60}},
	// listen failure then retry
	{{k: "listen", a: 1}, {k: "listenagain", a: 1}, {k: "connect", a: 1}, {k: "listenagain", a: 1}, {k: "closelistener", a: 1}, {k: "listenagain", a: 1}},
	// refused by the protocol on the dialer side: redial after the delay
	{{k: "newdialer", a: 1, b: 30, c: 0}, {k: "refuse", a: 1}, {k: "dial", a: 1}, {k: "resolve", a: 1, b: 1}, {k: "pass", a: 90}, {k: "refuse", a: 0},
		{k: "resolve", a: 1, b: 1}, {k: "closesock"}, {k: "pass", a: 90}},
	// after a successful attach the delay is back at the reconnect time, however far it had grown: ten refusals push it to
	// at least 30*1.1^10 = 78 ms (cap 120); then connect, lose the pipe: the next attempt comes after 30 ms, inside a 45 ms pass
	{{k: "newdialer", a: 1, b: 30, c: 120}, {k: "dial", a: 1},
		{k: "resolve", a: 1, b: 0}, {k: "pass", a: 135}, {k: "resolve", a: 1, b: 0}, {k: "pass", a: 135}, {k: "resolve", a: 1, b: 0}, {k: "pass", a: 135},
		{k: "resolve", a: 1, b: 0}, {k: "pass", a: 135}, {k: "resolve", a: 1, b: 0}, {k: "pass", a: 135}, {k: "resolve", a: 1, b: 0}, {k: "pass", a: 135},
		{k: "resolve", a: 1, b: 0}, {k: "pass", a: 135}, {k: "resolve", a: 1, b: 0}, {k: "pass", a: 135}, {k: "resolve", a: 1, b: 0}, {k: "pass", a: 135},
		{k: "resolve", a: 1, b: 0}, {k: "pass", a: 135},
		{k: "resolve", a: 1, b: 1}, {k: "pipefail", a: 1}, {k: "pass", a: 45}, {k: "resolve", a: 1, b: 0}, {k: "pass", a: 48}, {k: "pass", a: 100}, {k: "closesock"}},
	// a connection that is established but never attached does NOT reset the delay: ten refusals (>= 78 ms), then the protocol
	// refuses the pipe (and then the Attaching hook closes one): the next attempt is not inside a 60 ms pass
	{{k: "newdialer", a: 1, b: 30, c: 120}, {k: "dial", a: 1},
		{k: "resolve", a: 1, b: 0}, {k: "pass", a: 135}, {k: "resolve", a: 1, b: 0}, {k: "pass", a: 135}, {k: "resolve", a: 1, b: 0}, {k: "pass", a: 135},
		{k: "resolve", a: 1, b: 0}, {k: "pass", a: 135}, {k: "resolve", a: 1, b: 0}, {k: "pass", a: 135}, {k: "resolve", a: 1, b: 0}, {k: "pass", a: 135},
		{k: "resolve", a: 1, b: 0}, {k: "pass", a: 135}, {k: "resolve", a: 1, b: 0}, {k: "pass", a: 135}, {k: "resolve", a: 1, b: 0}, {k: "pass", a: 135},
		{k: "resolve", a: 1, b: 0}, {k: "pass", a: 135},
		{k: "refuse", a: 1}, {k: "resolve", a: 1, b: 1}, {k: "pass", a: 60}, {k: "pass", a: 135}, {k: "resolve", a: 1, b: 1}, {k: "pass", a: 60}, {k: "pass", a: 135},
		{k: "resolve", a: 1, b: 1}, {k: "pass", a: 60}, {k: "pass", a: 135},
		{k: "refuse", a: 0}, {k: "policy", a: 1}, {k: "resolve", a: 1, b: 1}, {k: "pass", a: 60}, {k: "pass", a: 135}, {k: "resolve", a: 1, b: 1}, {k: "pass", a: 60}, {k: "pass", a: 135},
		{k: "resolve", a: 1, b: 1}, {k: "pass", a: 60}, {k: "pass", a: 135}, {k: "closesock"}},
}

var scriptIdx int

func genCore(r *rand.Rand, timed bool) (string, string, string) {
	pr := mproto.New()
	sock := protocol.MakeSocket(pr)
	g := &gen{r: r, sock: sock, proto: pr, idName: map[uint32]int{}, mpipes: map[int]mangos.Pipe{}, tpipes: map[int]*vt.Pipe{}, tclosed: map[int]bool{},
		lst: map[int]mangos.Listener{}, lstAddr: map[int]string{}, lstOpen: map[int]bool{}, dl: map[int]mangos.Dialer{}, dlAddr: map[int]string{},
		dlSeen: map[int]int{}, calls: map[int]*callRes{}, reported: map[int]bool{}}
	sock.SetPipeEventHook(g.hook)
	g.idBase = protocol.VerifPipeIDsInUse()
	g.start = time.Now()
	var script []op
	if l1run.ScriptsEnabled && scriptIdx < len(scripts) {
		script = scripts[scriptIdx]
		scriptIdx++
	}
	if script != nil {
		for _, o := range script {
			if g.bad == "" {
				g.apply(o)
			}
		}
	} else {
		n := 10 + r.Intn(22)
		for i := 0; i < n && g.bad == ""; i++ {
			for {
				if o, ok := g.choose(); ok {
					g.apply(o)
					break
				}
			}
		}
	}
	// a closing time stamp: the checker judges a step that ran long (a timer fired inside it) by the stamp that follows it
	g.tick()
	// release: close everything, answer pending dials
	_ = sock.Close()
	for d := range g.dl {
		if td := vt.GetDialer(g.dlAddr[d]); td != nil {
			for td.Pending() > 0 {
				td.Resolve(vt.ErrRefused, 0)
			}
		}
	}
	seq.Quiesce(300 * time.Millisecond)
	var sb strings.Builder
	sb.WriteString("[")
	for i, s := range g.steps {
		if i > 0 {
			sb.WriteString(";\n    ")
		}
		var bl []string
		for _, b := range s.blocked {
			bl = append(bl, fmt.Sprint(b))
		}
		fmt.Fprintf(&sb, "(%s, [%s], [%s])", s.stim, strings.Join(s.obs, "; "), strings.Join(bl, "; "))
	}
	sb.WriteString("]")
	if g.stuck {
		return sb.String(), "", "STUCK: " + g.bad
	}
	if g.bad != "" {
		return "", g.bad, ""
	}
	return sb.String(), "", ""
}

func main() { l1run.Main(genCore) }
