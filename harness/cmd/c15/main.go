// c15 talks to mangos sockets as an independent raw peer (net.Conn / TLS / gorilla websocket),
// captures every byte mangos writes and feeds it frames produced by its own encoder.
package main

import (
	"crypto/tls"
	"encoding/binary"
	"fmt"
	"io"
	"math/rand"
	"net"
	"net/http"
	"net/url"
	"os"
	"strings"
	"sync"
	"time"

	"mangosverif/coqgen"
	"mangosverif/wire"

	"github.com/gorilla/websocket"
	"go.nanomsg.org/mangos/v3"
	"go.nanomsg.org/mangos/v3/transport/ws"
)

type proto struct {
	sock     string
	self     uint16
	peer     uint16
	selfName string
	peerName string
	coq      string // pattern in the model
	sends    bool   // can send unsolicited
	recvs    bool   // can receive unsolicited
	whdr     []byte // header a peer must put in front of the body for this socket to deliver it
}

var protos = []proto{
	{"pair", 16, 16, "pair", "pair", "PPair", true, true, nil},
	{"pair1", 17, 17, "pair1", "pair1", "PPair1", true, true, []byte{0, 0, 0, 0}},
	{"pub", 32, 33, "pub", "sub", "PPubSub", true, false, nil},
	{"sub", 33, 32, "sub", "pub", "PPubSub", false, true, nil},
	{"req", 48, 49, "req", "rep", "PReqRep", true, false, nil},
	{"rep", 49, 48, "rep", "req", "PReqRep", false, true, []byte{0x80, 0, 0, 7}},
	{"push", 80, 81, "push", "pull", "PPushPull", true, false, nil},
	{"pull", 81, 80, "pull", "push", "PPushPull", false, true, nil},
	{"surveyor", 98, 99, "surveyor", "respondent", "PSurvey", true, false, nil},
	{"respondent", 99, 98, "respondent", "surveyor", "PSurvey", false, true, []byte{0x80, 0, 0, 9}},
	{"bus", 112, 112, "bus", "bus", "PBus", true, true, nil},
	{"star", 1600, 1600, "star", "star", "PStar", true, true, []byte{0, 0, 0, 0}},
}

// independent encoders (checked against the model's hs_header / frame inside Coq)
func rawHeader(p uint16) []byte { return []byte{0, 'S', 'P', 0, byte(p >> 8), byte(p), 0, 0} }

func rawFrame(ipc bool, payload []byte) []byte {
	var b []byte
	if ipc {
		b = append(b, 1)
	}
	l := make([]byte, 8)
	binary.BigEndian.PutUint64(l, uint64(len(payload)))
	b = append(b, l...)
	return append(b, payload...)
}

func rawDial(scheme, addr string) (net.Conn, error) {
	u := strings.SplitN(addr, "://", 2)[1]
	switch scheme {
	case "tcp":
		return net.DialTimeout("tcp", u, 2*time.Second)
	case "ipc":
		return net.DialTimeout("unix", u, 2*time.Second)
	case "tls+tcp":
		_, c := wire.TLS()
		return tls.DialWithDialer(&net.Dialer{Timeout: 2 * time.Second}, "tcp", u, c)
	}
	return nil, fmt.Errorf("scheme")
}

func rawListen(scheme, addr string) (net.Listener, error) {
	u := strings.SplitN(addr, "://", 2)[1]
	switch scheme {
	case "tcp":
		return net.Listen("tcp", u)
	case "ipc":
		return net.Listen("unix", u)
	case "tls+tcp":
		s, _ := wire.TLS()
		return tls.Listen("tcp", u, s)
	}
	return nil, fmt.Errorf("scheme")
}

// readQuiet reads until nothing arrives for `quiet`.
func readQuiet(c net.Conn, quiet time.Duration) []byte {
	var out []byte
	buf := make([]byte, 65536)
	for {
		_ = c.SetReadDeadline(time.Now().Add(quiet))
		n, err := c.Read(buf)
		out = append(out, buf[:n]...)
		if err != nil {
			return out
		}
	}
}

func bodies(r *rand.Rand) [][]byte {
	var bs [][]byte
	for _, n := range []int{0, 1, 5, 255, 256, 300, 17} {
		b := make([]byte, n)
		r.Read(b)
		bs = append(bs, b)
	}
	r.Shuffle(len(bs), func(i, j int) { bs[i], bs[j] = bs[j], bs[i] })
	return bs
}

func hexList(bs [][]byte) string {
	var it []string
	for _, b := range bs {
		it = append(it, coqgen.Hex(b))
	}
	return coqgen.List(it)
}

type out struct {
	mu                               sync.Mutex
	hs, sent, rcvd, dev, wsub, wsmsg []string
	notes                            []string
}

func (o *out) add(dst *[]string, s string) {
	o.mu.Lock()
	*dst = append(*dst, s)
	o.mu.Unlock()
}

func streamCase(o *out, scheme string, p proto, mangosListens bool, r *rand.Rand) {
	s := wire.New(p.sock)
	defer s.Close()
	ev := wire.Track(s)
	if p.sock == "sub" {
		_ = s.SetOption(mangos.OptionSubscribe, []byte{})
	}
	if p.sock == "req" {
		_ = s.SetOption(mangos.OptionRetryTime, time.Hour)
	}
	if p.sock == "surveyor" {
		_ = s.SetOption(mangos.OptionSurveyTime, time.Hour)
	}
	_ = s.SetOption(mangos.OptionRecvDeadline, 2*time.Second)
	_ = s.SetOption(mangos.OptionSendDeadline, 2*time.Second)
	a := wire.Addr(scheme)
	var c net.Conn
	var err error
	tag := fmt.Sprintf("%s %s listen=%v", scheme, p.sock, mangosListens)
	if mangosListens {
		if err = s.ListenOptions(a, wire.Opts(scheme, true)); err != nil {
			o.add(&o.notes, tag+": listen: "+err.Error())
			return
		}
		if c, err = rawDial(scheme, a); err != nil {
			o.add(&o.notes, tag+": raw dial: "+err.Error())
			return
		}
	} else {
		l, err := rawListen(scheme, a)
		if err != nil {
			o.add(&o.notes, tag+": raw listen: "+err.Error())
			return
		}
		defer l.Close()
		acc := make(chan net.Conn, 1)
		go func() {
			cc, e := l.Accept()
			if e == nil {
				acc <- cc
			}
		}()
		opts := wire.Opts(scheme, false)
		opts[mangos.OptionDialAsynch] = true
		if err = s.DialOptions(a, opts); err != nil {
			o.add(&o.notes, tag+": dial: "+err.Error())
			return
		}
		select {
		case c = <-acc:
		case <-time.After(3 * time.Second):
			o.add(&o.notes, tag+": nobody connected")
			return
		}
	}
	defer c.Close()
	// handshake: write ours, capture theirs
	_, _ = c.Write(rawHeader(p.peer))
	hb := make([]byte, 8)
	_ = c.SetReadDeadline(time.Now().Add(3 * time.Second))
	if _, err = io.ReadFull(c, hb); err != nil {
		o.add(&o.hs, fmt.Sprintf("(%d, %q) (* %s: reading header: %v *)", p.self, "", tag, err))
		return
	}
	o.add(&o.hs, fmt.Sprintf("(%d, %s)", p.self, coqgen.Hex(hb)))
	if !ev.Wait(3*time.Second, func(e *wire.Events) bool { return e.Attached > 0 }) {
		o.add(&o.notes, tag+": pipe not attached after a correct handshake")
		o.add(&o.dev, fmt.Sprintf("(%d, %s, false) (* correct header refused: %s *)", p.peer, coqgen.Hex(rawHeader(p.peer)), tag))
		return
	}
	ipc := scheme == "ipc"
	tr := wire.CoqTransport[scheme]
	// raw -> mangos
	if p.recvs {
		bs := bodies(r)
		var written []byte
		for _, b := range bs {
			f := rawFrame(ipc, append(append([]byte{}, p.whdr...), b...))
			written = append(written, f...)
		}
		go func() { _, _ = c.Write(written) }()
		var got [][]byte
		for range bs {
			m, e := s.RecvMsg()
			if e != nil {
				break
			}
			got = append(got, append([]byte{}, m.Body...))
			if p.sock == "rep" || p.sock == "respondent" {
				// answer, so that the reply path is captured below
				rm := mangos.NewMessage(8)
				rm.Body = append(rm.Body, []byte("re:")...)
				rm.Body = append(rm.Body, m.Body...)
				if e := s.SendMsg(rm); e != nil {
					o.add(&o.notes, tag+": reply: "+e.Error())
				}
			}
			m.Free()
		}
		o.add(&o.rcvd, fmt.Sprintf("(%s, %s, %s, %s, %s, %s)", tr, p.coq, coqgen.Hex(p.whdr), coqgen.Hex(written), hexList(bs), hexList(got)))
		if p.sock == "rep" || p.sock == "respondent" {
			cap := readQuiet(c, 150*time.Millisecond)
			var rs [][]byte
			for _, b := range got {
				rs = append(rs, append([]byte("re:"), b...))
			}
			// replies carry the backtrace = the id word we sent
			o.add(&o.sent, fmt.Sprintf("(%s, %s, %s, %s, %s)", tr, p.coq, coqgen.Hex(p.whdr), coqgen.Hex(cap), hexList(rs)))
		}
	}
	// mangos -> raw
	if p.sends {
		bs := bodies(r)
		if p.sock == "req" || p.sock == "surveyor" {
			bs = bs[:3]
		}
		done := make(chan []byte, 1)
		go func() { done <- readQuiet(c, 250*time.Millisecond) }()
		for _, b := range bs {
			if e := s.Send(b); e != nil {
				o.add(&o.notes, tag+": send: "+e.Error())
			}
			time.Sleep(2 * time.Millisecond)
		}
		cap := <-done
		o.add(&o.sent, fmt.Sprintf("(%s, %s, %s, %s, %s)", tr, p.coq, `""`, coqgen.Hex(cap), hexList(bs)))
		if p.sock == "req" || p.sock == "surveyor" {
			// answer the last request with its own id word: the reply must come out of Recv
			if len(cap) >= 12 {
				// find the last frame's id word: it is at the start of the last frame's payload
				off := 0
				var last []byte
				for off < len(cap) {
					if ipc {
						off++
					}
					if off+8 > len(cap) {
						break
					}
					n := int(binary.BigEndian.Uint64(cap[off:]))
					off += 8
					if off+n > len(cap) || n < 4 {
						break
					}
					last = cap[off : off+4]
					off += n
				}
				if last != nil {
					rb := []byte("the-reply")
					w := rawFrame(ipc, append(append([]byte{}, last...), rb...))
					_, _ = c.Write(w)
					m, e := s.RecvMsg()
					var got [][]byte
					if e == nil {
						got = append(got, append([]byte{}, m.Body...))
						m.Free()
					}
					o.add(&o.rcvd, fmt.Sprintf("(%s, %s, %s, %s, %s, %s) (* reply to %s *)", tr, "PPair", coqgen.Hex(last), coqgen.Hex(w), hexList([][]byte{rb}), hexList(got), p.sock))
				}
			}
		}
	}
}

// deviation: connect to a mangos listener, send `hdr`, report whether the connection is kept.
func deviation(scheme, addr string, hdr []byte) (accepted bool, err error) {
	c, err := rawDial(scheme, addr)
	if err != nil {
		return false, err
	}
	defer c.Close()
	_, _ = c.Write(hdr)
	buf := make([]byte, 64)
	got := 0
	for {
		_ = c.SetReadDeadline(time.Now().Add(400 * time.Millisecond))
		n, e := c.Read(buf)
		got += n
		if e != nil {
			if ne, ok := e.(net.Error); ok && ne.Timeout() {
				return true, nil // still open after the exchange: accepted
			}
			return false, nil // closed by mangos: refused
		}
		if got > 8 {
			return true, nil
		}
	}
}

func main() {
	if len(os.Args) < 2 {
		fmt.Fprintln(os.Stderr, "usage: c15 <out.v>")
		os.Exit(2)
	}
	r := coqgen.Rand()
	thorough := coqgen.Thorough()
	defer wire.Cleanup()
	o := &out{}
	var wg sync.WaitGroup
	sem := make(chan struct{}, 12)
	for _, scheme := range []string{"tcp", "ipc", "tls+tcp"} {
		for _, p := range protos {
			for _, ml := range []bool{true, false} {
				wg.Add(1)
				rr := rand.New(rand.NewSource(r.Int63()))
				go func(scheme string, p proto, ml bool) {
					defer wg.Done()
					sem <- struct{}{}
					defer func() { <-sem }()
					streamCase(o, scheme, p, ml, rr)
				}(scheme, p, ml)
			}
		}
	}
	wg.Wait()

	// ---- handshake deviations against a listening REP socket (expects peer 48) and a STAR socket ----
	for _, scheme := range []string{"tcp", "ipc", "tls+tcp"} {
		if scheme != "tcp" && !thorough {
			continue
		}
		for _, p := range []proto{protos[5], protos[11]} {
			s := wire.New(p.sock)
			a := wire.Addr(scheme)
			if err := s.ListenOptions(a, wire.Opts(scheme, true)); err != nil {
				o.add(&o.notes, "deviation listen: "+err.Error())
				continue
			}
			good := rawHeader(p.peer)
			var hdrs [][]byte
			hdrs = append(hdrs, good)
			for pos := 0; pos < 8; pos++ {
				vals := []int{0, 1, 2, 0x30, 0x31, 0x40, 0x53, 0x50, 0x7f, 0x80, 0xfe, 0xff}
				if thorough {
					vals = nil
					for v := 0; v < 256; v++ {
						vals = append(vals, v)
					}
				}
				for _, v := range vals {
					h := append([]byte{}, good...)
					if h[pos] == byte(v) {
						continue
					}
					h[pos] = byte(v)
					hdrs = append(hdrs, h)
				}
			}
			for i := 0; i < 20; i++ { // multi-byte deviations
				h := append([]byte{}, good...)
				for j := 0; j < 2+r.Intn(3); j++ {
					h[r.Intn(8)] = byte(r.Intn(256))
				}
				hdrs = append(hdrs, h)
			}
			// other protocols' correct headers
			for _, q := range protos {
				hdrs = append(hdrs, rawHeader(q.self))
			}
			res := make([]string, len(hdrs))
			var dwg sync.WaitGroup
			dsem := make(chan struct{}, 48)
			for i, h := range hdrs {
				dwg.Add(1)
				go func(i int, h []byte) {
					defer dwg.Done()
					dsem <- struct{}{}
					defer func() { <-dsem }()
					acc, err := deviation(scheme, a, h)
					if err != nil {
						res[i] = ""
						o.add(&o.notes, "deviation dial: "+err.Error())
						return
					}
					res[i] = fmt.Sprintf("(%d, %s, %s)", p.peer, coqgen.Hex(h), coqgen.Bool(acc))
				}(i, h)
			}
			dwg.Wait()
			for _, x := range res {
				if x != "" {
					o.add(&o.dev, x)
				}
			}
			s.Close()
		}
	}

	// ---- websocket: subprotocol offered by a mangos dialer; one binary message per send ----
	for _, scheme := range []string{"ws", "wss"} {
		for _, p := range protos {
			wsDialerCase(o, scheme, p, r)
			wsListenerCase(o, scheme, p, r)
		}
	}

	w := coqgen.Create(os.Args[1])
	defer w.Close()
	w.Def("hs_cases", "list (N * string)", o.hs)
	w.Def("sent_cases", "list (transport * pattern * string * string * list string)", o.sent)
	w.Def("rcvd_cases", "list (transport * pattern * string * string * list string * list string)", o.rcvd)
	w.Def("dev_cases", "list (N * string * bool)", o.dev)
	w.Def("wsub_cases", "list (string * string)", o.wsub)
	w.Def("wsmsg_cases", "list (pattern * string * list (N * string) * list string)", o.wsmsg)
	for _, n := range o.notes {
		fmt.Fprintln(os.Stderr, "c15:", n)
		w.P("(* note: %s *)", strings.ReplaceAll(n, "*)", ""))
	}
	w.P("Definition n_notes : N := %d.", len(o.notes))
}

// mangos dials a raw websocket server: which subprotocol does it offer, what frames does it send
func wsDialerCase(o *out, scheme string, p proto, r *rand.Rand) {
	a := wire.Addr(scheme)
	u, _ := url.Parse(a)
	type conn struct {
		ws  *websocket.Conn
		sub []string
	}
	connq := make(chan conn, 4)
	up := websocket.Upgrader{Subprotocols: []string{p.peerName + ".sp.nanomsg.org"}, CheckOrigin: func(*http.Request) bool { return true }}
	mux := http.NewServeMux()
	mux.HandleFunc(u.Path, func(rw http.ResponseWriter, rq *http.Request) {
		subs := websocket.Subprotocols(rq)
		ws, err := up.Upgrade(rw, rq, nil)
		if err != nil {
			return
		}
		connq <- conn{ws, subs}
		time.Sleep(2 * time.Second)
	})
	var ln net.Listener
	var err error
	if scheme == "wss" {
		sc, _ := wire.TLS()
		ln, err = tls.Listen("tcp", u.Host, sc)
	} else {
		ln, err = net.Listen("tcp", u.Host)
	}
	if err != nil {
		o.add(&o.notes, "ws raw listen: "+err.Error())
		return
	}
	srv := &http.Server{Handler: mux}
	go func() { _ = srv.Serve(ln) }()
	defer srv.Close()
	s := wire.New(p.sock)
	defer s.Close()
	if p.sock == "req" {
		_ = s.SetOption(mangos.OptionRetryTime, time.Hour)
	}
	_ = s.SetOption(mangos.OptionSendDeadline, 2*time.Second)
	_ = s.SetOption(mangos.OptionReconnectTime, 10*time.Millisecond)
	if err := s.DialOptions(a, wire.Opts(scheme, false)); err != nil {
		o.add(&o.notes, fmt.Sprintf("ws dial %s %s: %v", scheme, p.sock, err))
		o.add(&o.wsub, fmt.Sprintf("(%s, %q) (* dial failed: %v *)", coqgen.Hex([]byte(p.peerName)), "", err))
		return
	}
	var c conn
	select {
	case c = <-connq:
	case <-time.After(3 * time.Second):
		o.add(&o.notes, "ws: no connection")
		return
	}
	defer c.ws.Close()
	o.add(&o.wsub, fmt.Sprintf("(%s, %s)", coqgen.Hex([]byte(p.peerName)), coqgen.Hex([]byte(strings.Join(c.sub, ",")))))
	if p.sends {
		bs := bodies(r)
		if p.sock == "req" || p.sock == "surveyor" {
			bs = bs[:2]
		}
		time.Sleep(30 * time.Millisecond)
		var frames []string
		done := make(chan struct{})
		go func() {
			defer close(done)
			for range bs {
				_ = c.ws.SetReadDeadline(time.Now().Add(2 * time.Second))
				mt, data, err := c.ws.ReadMessage()
				if err != nil {
					return
				}
				frames = append(frames, fmt.Sprintf("(%d, %s)", mt, coqgen.Hex(data)))
			}
		}()
		for _, b := range bs {
			if e := s.Send(b); e != nil {
				o.add(&o.notes, "ws send: "+e.Error())
			}
		}
		<-done
		o.add(&o.wsmsg, fmt.Sprintf("(%s, %q, %s, %s)", p.coq, "", coqgen.List(frames), hexList(bs)))
	}
	// the connection is lost: the same dialer connects again (twice) and offers exactly the same subprotocol each time
	for k := 2; k <= 3; k++ {
		_ = c.ws.Close()
		select {
		case c = <-connq:
			o.add(&o.wsub, fmt.Sprintf("(%s, %s) (* offered by the %s dialer's connection number %d *)", coqgen.Hex([]byte(p.peerName)), coqgen.Hex([]byte(strings.Join(c.sub, ","))), p.sock, k))
		case <-time.After(3 * time.Second):
			o.add(&o.notes, fmt.Sprintf("ws: the %s dialer did not reconnect (connection %d)", p.sock, k))
			return
		}
	}
	_ = c.ws.Close()
}

// a raw websocket client dials a mangos listener offering the right / a wrong subprotocol
func wsListenerCase(o *out, scheme string, p proto, r *rand.Rand) {
	s := wire.New(p.sock)
	defer s.Close()
	if p.sock == "sub" {
		_ = s.SetOption(mangos.OptionSubscribe, []byte{})
	}
	_ = s.SetOption(mangos.OptionRecvDeadline, 2*time.Second)
	a := wire.Addr(scheme)
	l, err := s.NewListener(a, wire.Opts(scheme, true))
	if err != nil {
		o.add(&o.notes, "ws listener: "+err.Error())
		return
	}
	// listener options set before the first connection must not change what goes on the wire
	variant := r.Intn(3)
	if variant > 0 {
		_ = l.SetOption(ws.OptionWebSocketCheckOrigin, variant == 2)
	}
	if err := l.Listen(); err != nil {
		o.add(&o.notes, "ws listen: "+err.Error())
		return
	}
	d := websocket.Dialer{HandshakeTimeout: 2 * time.Second}
	if scheme == "wss" {
		_, cc := wire.TLS()
		d.TLSClientConfig = cc
	}
	// wrong subprotocol must be refused
	d.Subprotocols = []string{"bogus.sp.nanomsg.org"}
	if ws, _, err := d.Dial(a, nil); err == nil {
		ws.Close()
		o.add(&o.wsub, fmt.Sprintf("(%s, %s) (* listener %s accepted a bogus subprotocol *)", coqgen.Hex([]byte("x")), coqgen.Hex([]byte("accepted-bogus")), p.sock))
	}
	d.Subprotocols = []string{p.selfName + ".sp.nanomsg.org"}
	ws, _, err := d.Dial(a, nil)
	if err != nil {
		o.add(&o.wsub, fmt.Sprintf("(%s, %s) (* listener %s refused its own subprotocol: %v *)", coqgen.Hex([]byte("x")), coqgen.Hex([]byte("refused")), p.sock, err))
		return
	}
	defer ws.Close()
	// the server's answer names the subprotocol it selected: the one offered (RFC 6455; other SP implementations check it)
	o.add(&o.wsub, fmt.Sprintf("(%s, %s) (* subprotocol selected by listener %s/%s, CHECKORIGIN variant %d *)",
		coqgen.Hex([]byte(p.selfName)), coqgen.Hex([]byte(ws.Subprotocol())), p.sock, scheme, variant))
	if p.recvs {
		bs := bodies(r)
		for _, b := range bs {
			_ = ws.WriteMessage(websocket.BinaryMessage, append(append([]byte{}, p.whdr...), b...))
		}
		var got [][]byte
		for range bs {
			m, e := s.RecvMsg()
			if e != nil {
				break
			}
			got = append(got, append([]byte{}, m.Body...))
			m.Free()
		}
		var frames []string
		for _, b := range bs {
			frames = append(frames, fmt.Sprintf("(2, %s)", coqgen.Hex(append(append([]byte{}, p.whdr...), b...))))
		}
		o.add(&o.wsmsg, fmt.Sprintf("(%s, %s, %s, %s)", p.coq, coqgen.Hex(p.whdr), coqgen.List(frames), hexList(got)))
	}
}
