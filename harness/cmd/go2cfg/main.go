// go2cfg is translator T1: it loads every non-test package of /repo with go/packages, builds the
// control-flow graph of every function and function literal (x/tools/go/cfg) and abstracts each basic
// block to the lock / unlock / defer-unlock / cond-wait / blocking instructions of Model/LockCfg.v.
// Output: a Gallina file defining `program : list func` (+ name tables and self-check counters).
package main

import (
	"fmt"
	"go/ast"
	"go/token"
	"go/types"
	"os"
	"path/filepath"
	"regexp"
	"sort"
	"strings"

	"mangosverif/coqgen"

	"golang.org/x/tools/go/cfg"
	"golang.org/x/tools/go/packages"
)

const mod = "go.nanomsg.org/mangos/v3"

// cond variable -> lock it was built with, as (declaring package suffix, struct type, cond field) -> rewrite
// of the cond expression's path: drop the cond field and append the suffix.
var condLock = map[string]string{
	"protocol/xpush.socket.cv":      "",      // sync.NewCond(s)
	"protocol/req.context.cond":     ".s",    // sync.NewCond(s) with s the owning socket
	"transport.connHandshaker.cv":   "",      // sync.NewCond(h)
	"transport/inproc.listeners.cv": ".mx",   // listeners.cv.L = &listeners.mx
	"transport/ws.listener.cv":      ".lock", // l.cv.L = &l.lock
}

type instr struct {
	op   string // ILock IUnlock IDeferUnlock ICondWait IBlocking IOther
	lock string
	kind int
}

type fn struct {
	name    string
	pos     string
	blocks  []blk
	locks   map[string]int
	lockOps int
	blocks0 int
}

type blk struct {
	body    []instr
	succs   []int
	returns bool
}

type ctx struct {
	pkg     *packages.Package
	alias   map[types.Object]ast.Expr
	selComm map[ast.Stmt]*ast.SelectStmt
	seenSel map[*ast.SelectStmt]bool
	notes   *[]string
}

func exprPath(c *ctx, e ast.Expr, depth int) string {
	if depth > 8 {
		return "?deep"
	}
	switch x := e.(type) {
	case *ast.Ident:
		if obj := c.pkg.TypesInfo.Uses[x]; obj != nil {
			if a, ok := c.alias[obj]; ok {
				return exprPath(c, a, depth+1)
			}
		}
		return x.Name
	case *ast.SelectorExpr:
		return exprPath(c, x.X, depth+1) + "." + x.Sel.Name
	case *ast.ParenExpr:
		return exprPath(c, x.X, depth+1)
	case *ast.StarExpr:
		return exprPath(c, x.X, depth+1)
	case *ast.UnaryExpr:
		if x.Op == token.AND {
			return exprPath(c, x.X, depth+1)
		}
	}
	return fmt.Sprintf("?expr@%d", e.Pos())
}

func normLock(p string) string {
	p = strings.TrimSuffix(p, ".Mutex")
	p = strings.TrimSuffix(p, ".RWMutex")
	return p
}

// collectAliases: idents defined exactly once by `x := <selector chain>` and never re-assigned.
func collectAliases(c *ctx, body *ast.BlockStmt) {
	defs := map[types.Object]ast.Expr{}
	assigned := map[types.Object]int{}
	ast.Inspect(body, func(n ast.Node) bool {
		switch s := n.(type) {
		case *ast.AssignStmt:
			for i, lhs := range s.Lhs {
				id, ok := lhs.(*ast.Ident)
				if !ok {
					continue
				}
				var obj types.Object
				if s.Tok == token.DEFINE {
					obj = c.pkg.TypesInfo.Defs[id]
				}
				if obj == nil {
					obj = c.pkg.TypesInfo.Uses[id]
				}
				if obj == nil {
					continue
				}
				assigned[obj]++
				if s.Tok == token.DEFINE && len(s.Lhs) == len(s.Rhs) && isChain(s.Rhs[i]) {
					defs[obj] = s.Rhs[i]
				}
			}
		case *ast.IncDecStmt:
			if id, ok := s.X.(*ast.Ident); ok {
				if obj := c.pkg.TypesInfo.Uses[id]; obj != nil {
					assigned[obj] += 2
				}
			}
		case *ast.RangeStmt:
			for _, e := range []ast.Expr{s.Key, s.Value} {
				if id, ok := e.(*ast.Ident); ok {
					if obj := c.pkg.TypesInfo.Defs[id]; obj != nil {
						assigned[obj] += 2
					}
				}
			}
		}
		return true
	})
	for obj, e := range defs {
		if assigned[obj] == 1 {
			c.alias[obj] = e
		}
	}
}

func isChain(e ast.Expr) bool {
	switch x := e.(type) {
	case *ast.Ident:
		return true
	case *ast.SelectorExpr:
		return isChain(x.X)
	}
	return false
}

func calleeFull(c *ctx, call *ast.CallExpr) (string, *ast.SelectorExpr) {
	sel, ok := call.Fun.(*ast.SelectorExpr)
	if !ok {
		if id, ok := call.Fun.(*ast.Ident); ok {
			if obj, ok := c.pkg.TypesInfo.Uses[id].(*types.Func); ok {
				return obj.FullName(), nil
			}
		}
		return "", nil
	}
	if s := c.pkg.TypesInfo.Selections[sel]; s != nil {
		if f, ok := s.Obj().(*types.Func); ok {
			return f.FullName(), sel
		}
		return "", sel
	}
	if obj, ok := c.pkg.TypesInfo.Uses[sel.Sel].(*types.Func); ok {
		return obj.FullName(), sel
	}
	return "", sel
}

var blockingCalls = map[string]int{
	"time.Sleep": 4, "(*sync.WaitGroup).Wait": 5,
	"(net.Conn).Read": 6, "(net.Conn).Write": 6, "(net.Listener).Accept": 6, "(io.Reader).Read": 6, "(io.Writer).Write": 6,
	"io.ReadFull": 6, "encoding/binary.Read": 6, "encoding/binary.Write": 6, "(*net.Buffers).WriteTo": 6,
	"net.Dial": 6, "net.DialTimeout": 6, "(*net.Dialer).Dial": 6, "(*net.Dialer).DialContext": 6, "crypto/tls.Dial": 6, "crypto/tls.DialWithDialer": 6,
	"(*net.TCPListener).AcceptTCP": 6, "(*net.UnixListener).AcceptUnix": 6, "(*net.TCPListener).Accept": 6, "(*net.UnixListener).Accept": 6,
	"(*crypto/tls.Conn).Handshake": 6,
	"(*github.com/gorilla/websocket.Conn).ReadMessage": 6, "(*github.com/gorilla/websocket.Conn).WriteMessage": 6,
	"(*github.com/gorilla/websocket.Dialer).Dial": 6, "(*net/http.Server).Serve": 6,
	"(" + mod + "/transport.Pipe).Send": 6, "(" + mod + "/transport.Pipe).Recv": 6,
	"(" + mod + ".TranPipe).Send": 6, "(" + mod + ".TranPipe).Recv": 6,
	"(" + mod + ".ProtocolPipe).SendMsg": 6, "(" + mod + ".ProtocolPipe).RecvMsg": 6,
	"(" + mod + "/transport.Dialer).Dial": 6, "(" + mod + "/transport.Listener).Accept": 6,
	"(" + mod + ".TranDialer).Dial": 6, "(" + mod + ".TranListener).Accept": 6,
	"(" + mod + "/transport.Handshaker).Wait": 6, "(" + mod + ".TranHandshaker).Wait": 6,
}

func nodeInstrs(c *ctx, f *fn, n ast.Node, out *[]instr) {
	lockID := func(p string) string { return normLock(p) }
	// select comm statements are evaluated in the head block: one blocking instruction per select
	if st, ok := n.(ast.Stmt); ok {
		if sel, ok := c.selComm[st]; ok {
			if !c.seenSel[sel] {
				c.seenSel[sel] = true
				hasDefault := false
				for _, cc := range sel.Body.List {
					if cc.(*ast.CommClause).Comm == nil {
						hasDefault = true
					}
				}
				if !hasDefault {
					*out = append(*out, instr{op: "IBlocking", kind: 3})
				}
			}
			// still scan the comm for calls on the channel expression side (rare); skip arrows
			return
		}
	}
	if _, ok := n.(*ast.ReturnStmt); ok {
		// expressions in the return are scanned below
	}
	var deferCall *ast.CallExpr
	if d, ok := n.(*ast.DeferStmt); ok {
		deferCall = d.Call
	}
	ast.Inspect(n, func(x ast.Node) bool {
		switch e := x.(type) {
		case *ast.FuncLit:
			return false // separate function
		case *ast.GoStmt:
			// arguments are evaluated here, the call runs elsewhere
			for _, a := range e.Call.Args {
				ast.Inspect(a, func(ast.Node) bool { return true })
			}
			return false
		case *ast.SendStmt:
			*out = append(*out, instr{op: "IBlocking", kind: 1})
		case *ast.UnaryExpr:
			if e.Op == token.ARROW {
				*out = append(*out, instr{op: "IBlocking", kind: 2})
			}
		case *ast.RangeStmt:
			if t := c.pkg.TypesInfo.TypeOf(e.X); t != nil {
				if _, ok := t.Underlying().(*types.Chan); ok {
					*out = append(*out, instr{op: "IBlocking", kind: 7})
				}
			}
		case *ast.CallExpr:
			full, sel := calleeFull(c, e)
			switch full {
			case "(*sync.Mutex).Lock", "(*sync.RWMutex).Lock":
				p := lockID(exprPath(c, sel.X, 0))
				f.lockOps++
				if e == deferCall {
					*c.notes = append(*c.notes, f.name+": defer of Lock()")
				}
				*out = append(*out, instr{op: "ILock", lock: p})
			case "(*sync.RWMutex).RLock":
				f.lockOps++
				*out = append(*out, instr{op: "ILock", lock: lockID(exprPath(c, sel.X, 0)) + "#R"})
			case "(*sync.Mutex).Unlock", "(*sync.RWMutex).Unlock", "(*sync.RWMutex).RUnlock":
				p := lockID(exprPath(c, sel.X, 0))
				if strings.HasSuffix(full, "RUnlock") {
					p += "#R"
				}
				f.lockOps++
				if e == deferCall {
					*out = append(*out, instr{op: "IDeferUnlock", lock: p})
				} else {
					*out = append(*out, instr{op: "IUnlock", lock: p})
				}
			case "(*sync.Cond).Wait":
				// <base>.<condfield>.Wait()
				if cs, ok := sel.X.(*ast.SelectorExpr); ok {
					key := condKey(c, cs)
					if suf, ok := condLock[key]; ok {
						*out = append(*out, instr{op: "ICondWait", lock: lockID(exprPath(c, cs.X, 0) + suf)})
						return true
					}
					*c.notes = append(*c.notes, f.name+": Cond.Wait on unknown condition variable "+key)
				}
				*out = append(*out, instr{op: "IOther"})
			default:
				if k, ok := blockingCalls[full]; ok {
					*out = append(*out, instr{op: "IBlocking", kind: k})
				}
			}
		}
		return true
	})
}

func condKey(c *ctx, cs *ast.SelectorExpr) string {
	t := c.pkg.TypesInfo.TypeOf(cs.X)
	if t == nil {
		return "?"
	}
	if p, ok := t.(*types.Pointer); ok {
		t = p.Elem()
	}
	pkgPath := strings.TrimPrefix(strings.TrimPrefix(c.pkg.PkgPath, mod), "/")
	if n, ok := t.(*types.Named); ok {
		return pkgPath + "." + n.Obj().Name() + "." + cs.Sel.Name
	}
	// anonymous struct variable, e.g. `listeners`
	if id, ok := cs.X.(*ast.Ident); ok {
		return pkgPath + "." + id.Name + "." + cs.Sel.Name
	}
	return pkgPath + ".?." + cs.Sel.Name
}

func mayReturn(c *ctx) func(*ast.CallExpr) bool {
	return func(call *ast.CallExpr) bool {
		if id, ok := call.Fun.(*ast.Ident); ok && id.Name == "panic" {
			if _, isBuiltin := c.pkg.TypesInfo.Uses[id].(*types.Builtin); isBuiltin {
				return false
			}
		}
		full, _ := calleeFull(c, call)
		switch full {
		case "os.Exit", "log.Fatal", "log.Fatalf", "log.Fatalln":
			return false
		}
		return true
	}
}

func translate(c *ctx, name string, pos token.Position, body *ast.BlockStmt, notes *[]string) *fn {
	f := &fn{name: name, pos: fmt.Sprintf("%s:%d", filepath.Base(pos.Filename), pos.Line), locks: map[string]int{}}
	c.selComm = map[ast.Stmt]*ast.SelectStmt{}
	c.seenSel = map[*ast.SelectStmt]bool{}
	ast.Inspect(body, func(n ast.Node) bool {
		if _, ok := n.(*ast.FuncLit); ok {
			return false
		}
		if s, ok := n.(*ast.SelectStmt); ok {
			for _, cc := range s.Body.List {
				if comm := cc.(*ast.CommClause).Comm; comm != nil {
					c.selComm[comm] = s
				}
			}
		}
		return true
	})
	g := cfg.New(body, mayReturn(c))
	idx := map[*cfg.Block]int{}
	var live []*cfg.Block
	for _, b := range g.Blocks {
		if b.Live {
			idx[b] = len(live)
			live = append(live, b)
		}
	}
	for _, b := range live {
		var bl blk
		for _, n := range b.Nodes {
			if _, ok := n.(*ast.ReturnStmt); ok {
				bl.returns = true
			}
			nodeInstrs(c, f, n, &bl.body)
		}
		for _, s := range b.Succs {
			if j, ok := idx[s]; ok {
				bl.succs = append(bl.succs, j)
			}
		}
		f.blocks = append(f.blocks, bl)
	}
	// intern lock names in order of first appearance
	for bi := range f.blocks {
		for _, in := range f.blocks[bi].body {
			if in.lock != "" {
				if _, ok := f.locks[in.lock]; !ok {
					f.locks[in.lock] = len(f.locks) + 1
				}
			}
		}
	}
	return f
}

func main() {
	if len(os.Args) < 2 {
		fmt.Fprintln(os.Stderr, "usage: go2cfg <out.v> [repo]")
		os.Exit(2)
	}
	repo := "/repo"
	if len(os.Args) > 2 {
		repo = os.Args[2]
	}
	cfgp := &packages.Config{
		Mode: packages.NeedName | packages.NeedFiles | packages.NeedSyntax | packages.NeedTypes | packages.NeedTypesInfo | packages.NeedImports | packages.NeedDeps,
		Dir:  repo,
		Env:  append(os.Environ(), "GOFLAGS=-mod=mod", "GOPROXY=off", "GOSUMDB=off"),
	}
	pkgs, err := packages.Load(cfgp, mod, mod+"/errors", mod+"/internal/core", mod+"/protocol/...", mod+"/transport/...", mod+"/macat/...")
	if err != nil {
		fmt.Fprintln(os.Stderr, "go2cfg: load:", err)
		os.Exit(1)
	}
	var notes []string
	var fns []*fn
	tokenCount := 0
	lockRe := regexp.MustCompile(`\.(Lock|Unlock|RLock|RUnlock)\(\)`)
	nfiles := 0
	sort.Slice(pkgs, func(i, j int) bool { return pkgs[i].PkgPath < pkgs[j].PkgPath })
	for _, pkg := range pkgs {
		if len(pkg.Errors) > 0 {
			fmt.Fprintln(os.Stderr, "go2cfg: package errors in", pkg.PkgPath, pkg.Errors[0])
			os.Exit(1)
		}
		short := strings.TrimPrefix(strings.TrimPrefix(pkg.PkgPath, mod), "/")
		if short == "" {
			short = "mangos"
		}
		for _, file := range pkg.Syntax {
			fname := pkg.Fset.Position(file.Pos()).Filename
			if strings.HasSuffix(fname, "_test.go") {
				continue
			}
			nfiles++
			if src, err := os.ReadFile(fname); err == nil {
				// strip comments roughly: count only outside `//` comments
				for _, line := range strings.Split(string(src), "\n") {
					if i := strings.Index(line, "//"); i >= 0 {
						line = line[:i]
					}
					tokenCount += len(lockRe.FindAllString(line, -1))
				}
			}
			for _, d := range file.Decls {
				fd, ok := d.(*ast.FuncDecl)
				if !ok || fd.Body == nil {
					continue
				}
				name := short + "." + fd.Name.Name
				if fd.Recv != nil && len(fd.Recv.List) == 1 {
					t := fd.Recv.List[0].Type
					if st, ok := t.(*ast.StarExpr); ok {
						t = st.X
					}
					if id, ok := t.(*ast.Ident); ok {
						name = short + "." + id.Name + "." + fd.Name.Name
					}
				}
				c := &ctx{pkg: pkg, alias: map[types.Object]ast.Expr{}, notes: &notes}
				collectAliases(c, fd.Body)
				fns = append(fns, translate(c, name, pkg.Fset.Position(fd.Pos()), fd.Body, &notes))
				// function literals, in source order
				li := 0
				ast.Inspect(fd.Body, func(n ast.Node) bool {
					if fl, ok := n.(*ast.FuncLit); ok {
						li++
						fns = append(fns, translate(c, fmt.Sprintf("%s$%d", name, li), pkg.Fset.Position(fl.Pos()), fl.Body, &notes))
					}
					return true
				})
			}
		}
	}
	w := coqgen.Create(os.Args[1])
	defer w.Close()
	w.P("(* GENERATED by harness/cmd/go2cfg from %s -- do not edit *)", repo)
	w.P("From MV Require Import Model.LockCfg.")
	w.P("Open Scope string_scope. Open Scope N_scope.")
	emitted, skipped, ops := 0, 0, 0
	var names []string
	w.P("Definition program : list func := [")
	first := true
	for _, f := range fns {
		ops += f.lockOps
		interesting := false
		for _, b := range f.blocks {
			for _, in := range b.body {
				if in.op != "IOther" && in.op != "IBlocking" {
					interesting = true
				}
			}
		}
		if !interesting {
			skipped++
			continue
		}
		emitted++
		if !first {
			w.P("  ;")
		}
		first = false
		var lk []string
		for n, i := range f.locks {
			lk = append(lk, fmt.Sprintf("%d=%s", i, n))
		}
		sort.Strings(lk)
		names = append(names, fmt.Sprintf("(%q, %q, %q)", f.name, f.pos, strings.Join(lk, " ")))
		w.P("  (* %s  %s  locks: %s *)", f.name, f.pos, strings.Join(lk, " "))
		w.P("  {| fname := %q; entry_held := []; blocks := [", f.name)
		for bi, b := range f.blocks {
			var is []string
			for _, in := range b.body {
				switch in.op {
				case "IOther":
					is = append(is, "IOther")
				case "IBlocking":
					is = append(is, fmt.Sprintf("IBlocking %d", in.kind))
				default:
					is = append(is, fmt.Sprintf("%s %d", in.op, f.locks[in.lock]))
				}
			}
			var ss []string
			for _, s := range b.succs {
				ss = append(ss, fmt.Sprintf("%d%%nat", s))
			}
			sep := ";"
			if bi == len(f.blocks)-1 {
				sep = ""
			}
			w.P("    {| body := %s; succs := %s; returns := %s |}%s", coqgen.List(is), coqgen.List(ss), coqgen.Bool(b.returns), sep)
		}
		w.P("  ] |}")
	}
	w.P("].")
	w.Def("fn_table", "list (string * string * string)", names)
	w.P("Definition n_functions_total : N := %d.", len(fns))
	w.P("Definition n_functions_emitted : N := %d.", emitted)
	w.P("Definition n_files : N := %d.", nfiles)
	w.P("Definition n_lock_ops_emitted : N := %d.", ops)
	w.P("Definition n_lock_tokens_in_source : N := %d.", tokenCount)
	for _, n := range notes {
		w.P("(* note: %s *)", strings.ReplaceAll(n, "*)", ""))
	}
	w.P("Definition n_notes : N := %d.", len(notes))
}
