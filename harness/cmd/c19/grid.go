package main

// The exhaustive option grid: every option name x every value class x every object.
// One row per (object kind, phase, option name); a row holds, for every value of `values`
// (in order), two characters:
//   set class : o = nil error, b = ErrBadOption, v = ErrBadValue, p = panic, x = another error
//   get after : s = Get ok and equals the value just set (and differs from the value before)
//               e = Get ok, equals the value set and the value before (they were equal)
//               u = Get ok and unchanged (equals the value before, not the value set)
//               n = Get ok, equals neither
//               b / v / r / p / x = Get failed: ErrBadOption / ErrBadValue / ErrBadProperty / panic / other
// and the class of the very first Get (before any Set of that name): o b v r p x.

import (
	"crypto/tls"
	"fmt"
	"math"
	"math/rand"
	"os"
	"reflect"
	"strings"
	"time"

	"mangosverif/coqgen"
	"mangosverif/wire"

	"go.nanomsg.org/mangos/v3"
	"go.nanomsg.org/mangos/v3/transport/ipc"
	"go.nanomsg.org/mangos/v3/transport/ws"
)

type value struct {
	coq string
	v   interface{}
}

var tlsValid = &tls.Config{MinVersion: tls.VersionTLS12}

func mkValues() []value {
	vs := []value{}
	for _, i := range []int{math.MinInt, -1, 0, 1, 2, 255, 256, 65536, math.MaxInt} {
		vs = append(vs, value{"VInt " + coqgen.Z(int64(i)), i})
	}
	for _, d := range []time.Duration{-1, 0, time.Millisecond, time.Hour, math.MaxInt64} {
		vs = append(vs, value{"VDur " + coqgen.Z(int64(d)), d})
	}
	vs = append(vs,
		value{"VBool true", true}, value{"VBool false", false},
		value{"VBytes 0", []byte{}}, value{"VBytes 1", []byte("a")}, value{"VString", "a"},
		value{"VNil", nil},
		value{"VOther TFloat64", float64(1)}, value{"VOther TInt32", int32(1)}, value{"VOther TUint8", uint8(1)},
		value{"VOther TStruct", struct{}{}}, value{"VOther TInt64", int64(1)}, value{"VOther TUint", uint(1)},
		value{"VTls false", tlsValid}, value{"VTls true", (*tls.Config)(nil)},
		value{"VU32 " + coqgen.Z(0600), uint32(0600)}, value{"VU32 " + coqgen.Z(01000), uint32(01000)},
		value{"VMode " + coqgen.Z(0600), os.FileMode(0600)}, value{"VMode " + coqgen.Z(01000), os.FileMode(01000)},
	)
	return vs
}

// Option names: every constant of options.go, the transport-specific ones, one hidden hook,
// and random strings.
func mkNames(r *rand.Rand) []string {
	ns := []string{
		mangos.OptionRaw, mangos.OptionRecvDeadline, mangos.OptionSendDeadline, mangos.OptionRetryTime,
		mangos.OptionSubscribe, mangos.OptionUnsubscribe, mangos.OptionSurveyTime, mangos.OptionTLSConfig,
		mangos.OptionWriteQLen, mangos.OptionReadQLen, mangos.OptionKeepAlive, mangos.OptionKeepAliveTime,
		mangos.OptionNoDelay, mangos.OptionLinger, mangos.OptionTTL, mangos.OptionMaxRecvSize,
		mangos.OptionReconnectTime, mangos.OptionMaxReconnectTime, mangos.OptionBestEffort,
		mangos.OptionLocalAddr, mangos.OptionRemoteAddr, mangos.OptionTLSConnState, mangos.OptionHTTPRequest,
		mangos.OptionDialAsynch, mangos.OptionPeerPID, mangos.OptionPeerUID, mangos.OptionPeerGID,
		mangos.OptionPeerZone, mangos.OptionFailNoPeers,
		ipc.OptionIpcSocketPermissions, ipc.OptionIpcSocketOwner, ipc.OptionIpcSocketGroup,
		ipc.OptionSecurityDescriptor, ipc.OptionInputBufferSize, ipc.OptionOutputBufferSize,
		ws.OptionWebSocketMux, ws.OptionWebSocketHandler, ws.OptionWebSocketCheckOrigin,
		"_resizeDiscards",
	}
	const alpha = "ABCDEFGHIJKLMNOPQRSTUVWXYZ-abcdefghijklmnopqrstuvwxyz_0123456789"
	ns = append(ns, "", "raw", "TTL ")
	for i := 0; i < 5; i++ {
		n := 1 + r.Intn(14)
		b := make([]byte, n)
		for j := range b {
			b[j] = alpha[r.Intn(len(alpha))]
		}
		ns = append(ns, "R-"+string(b))
	}
	return ns
}

type optObj interface {
	SetOption(string, interface{}) error
	GetOption(string) (interface{}, error)
}

type getOnly struct {
	g func(string) (interface{}, error)
}

func (g getOnly) GetOption(n string) (interface{}, error) { return g.g(n) }

// object under test: mk makes a fresh one (called again after a panic, which may leave a lock held).
type object struct {
	kind  string // Gallina term of type objkind
	phase string // PBefore / PAfter
	mk    func() (optObj, func())
}

func classErr(err error) byte {
	switch err {
	case nil:
		return 'o'
	case mangos.ErrBadOption:
		return 'b'
	case mangos.ErrBadValue:
		return 'v'
	case mangos.ErrBadProperty:
		return 'r'
	}
	return 'x'
}

func safeSet(o optObj, n string, v interface{}) (c byte, detail string) {
	defer func() {
		if r := recover(); r != nil {
			c, detail = 'p', fmt.Sprint(r)
		}
	}()
	err := o.SetOption(n, v)
	c = classErr(err)
	if c == 'r' {
		c = 'x'
	}
	if c == 'x' {
		detail = err.Error()
	}
	return
}

func safeGet(g func(string) (interface{}, error), n string) (v interface{}, c byte, detail string) {
	defer func() {
		if r := recover(); r != nil {
			v, c, detail = nil, 'p', fmt.Sprint(r)
		}
	}()
	v, err := g(n)
	c = classErr(err)
	if c == 'x' {
		detail = err.Error()
	}
	return
}

func same(a, b interface{}) (r bool) {
	defer func() {
		if recover() != nil {
			r = false
		}
	}()
	if a == nil || b == nil {
		return a == nil && b == nil
	}
	ta, tb := reflect.TypeOf(a), reflect.TypeOf(b)
	if ta != tb {
		return false
	}
	if ta.Comparable() {
		return a == b
	}
	return reflect.DeepEqual(a, b)
}

type gridOut struct {
	rows   []string // compact: one per object = (kind, phase, "<first-Get class per name>", [index into obs per name])
	obs    []string // distinct observation strings
	obsIdx map[string]int
	panics map[string]string // "kind|name|value" -> panic text (first)
	others map[string]string
	calls  int
}

func runGrid(objs []object, names []string, vals []value, out *gridOut) {
	for _, ob := range objs {
		o, cleanup := ob.mk()
		var g0s strings.Builder
		var idxs []string
		for _, n := range names {
			var sb strings.Builder
			_, g0, _ := safeGet(o.GetOption, n)
			out.calls++
			for _, val := range vals {
				prev, pc, _ := safeGet(o.GetOption, n)
				sc, sd := safeSet(o, n, val.v)
				cur, gc, gd := safeGet(o.GetOption, n)
				out.calls += 3
				gch := gc
				if gc == 'o' {
					eqv := same(cur, val.v)
					eqp := pc == 'o' && same(cur, prev)
					switch {
					case eqv && eqp:
						gch = 'e'
					case eqv:
						gch = 's'
					case eqp:
						gch = 'u'
					default:
						gch = 'n'
					}
				}
				sb.WriteByte(sc)
				sb.WriteByte(gch)
				key := ob.kind + "|" + ob.phase + "|" + n + "|" + val.coq
				if sc == 'p' {
					out.panics[key] = "Set: " + sd
				} else if gc == 'p' {
					out.panics[key] = "Get: " + gd
				}
				if sc == 'x' {
					out.others[key] = "Set: " + sd
				} else if gc == 'x' {
					out.others[key] = "Get: " + gd
				}
				if sc == 'p' || gc == 'p' {
					// the object may hold a lock for ever: abandon it
					go cleanup()
					o, cleanup = ob.mk()
				}
			}
			g0s.WriteByte(g0)
			ix, ok := out.obsIdx[sb.String()]
			if !ok {
				ix = len(out.obs)
				out.obsIdx[sb.String()] = ix
				out.obs = append(out.obs, fmt.Sprintf("%q", sb.String()))
			}
			idxs = append(idxs, fmt.Sprintf("%d", ix))
		}
		out.rows = append(out.rows, fmt.Sprintf("(%s, %s, %q, [%s]%%N)", ob.kind, ob.phase, g0s.String(), strings.Join(idxs, "; ")))
		cleanupWithin(cleanup, 3*time.Second)
	}
}

func coqStr(s string) string { return `"` + strings.ReplaceAll(s, `"`, `""`) + `"` }

// cleanupWithin runs f but does not wait longer than d for it (a wedged Close must not hang the grid).
func cleanupWithin(f func(), d time.Duration) bool {
	done := make(chan struct{})
	go func() { f(); close(done) }()
	select {
	case <-done:
		return true
	case <-time.After(d):
		return false
	}
}

func protoCoq(p string) string { return "P" + p }

var tranCoq = map[string]string{"inproc": "OTInproc", "tcp": "OTTcp", "ipc": "OTIpc", "tls+tcp": "OTTls", "ws": "OTWs", "wss": "OTWss"}

// peerOf gives a protocol that can talk to p (same cooked/raw flavour is irrelevant on the wire).
var peerOf = map[string]string{
	"pair": "pair", "xpair": "xpair", "pair1": "pair1", "xpair1": "xpair1", "pub": "sub", "xpub": "xsub", "sub": "pub", "xsub": "xpub",
	"req": "rep", "xreq": "xrep", "rep": "req", "xrep": "xreq", "push": "pull", "xpush": "xpull", "pull": "push", "xpull": "xpush",
	"surveyor": "respondent", "xsurveyor": "xrespondent", "respondent": "surveyor", "xrespondent": "xsurveyor",
	"bus": "bus", "xbus": "xbus", "star": "star", "xstar": "xstar",
}

var ctxProtos = []string{"req", "rep", "sub", "surveyor", "respondent"}

// connected returns a socket of pattern p connected (over the scheme) to a peer, the pipes seen on
// both sides, and a cleanup.
func connected(p, scheme string) (mangos.Socket, mangos.Socket, *wire.Events, *wire.Events, func(), error) {
	s := wire.New(p)
	q := wire.New(peerOf[p])
	se, qe := wire.Track(s), wire.Track(q)
	_, err := wire.Connect(scheme, q, s, qe, se)
	return s, q, se, qe, func() {
		cleanupWithin(func() { _ = s.Close() }, 2*time.Second)
		cleanupWithin(func() { _ = q.Close() }, 2*time.Second)
	}, err
}

func gridObjects() []object {
	var objs []object
	for _, p := range wire.AllNames {
		p := p
		objs = append(objs, object{"KSock " + protoCoq(p), "PBefore", func() (optObj, func()) {
			s := wire.New(p)
			return s, func() { _ = s.Close() }
		}})
		objs = append(objs, object{"KProto " + protoCoq(p), "PBefore", func() (optObj, func()) {
			s := wire.Protocols[p]()
			return s, func() { _ = s.Close() }
		}})
		after := []string{"inproc"}
		if coqgen.Thorough() {
			after = wire.Transports
		}
		for _, t := range after {
			t := t
			objs = append(objs, object{"KSock " + protoCoq(p), "PAfter", func() (optObj, func()) {
				s, _, _, _, cl, err := connected(p, t)
				if err != nil {
					panic(err)
				}
				return s, cl
			}})
		}
	}
	for _, p := range ctxProtos {
		p := p
		objs = append(objs, object{"KCtx " + protoCoq(p), "PBefore", func() (optObj, func()) {
			s := wire.New(p)
			c, err := s.OpenContext()
			if err != nil {
				panic(err)
			}
			return c, func() { _ = c.Close(); _ = s.Close() }
		}})
		objs = append(objs, object{"KCtx " + protoCoq(p), "PAfter", func() (optObj, func()) {
			s, _, _, _, cl, err := connected(p, "inproc")
			if err != nil {
				panic(err)
			}
			c, err := s.OpenContext()
			if err != nil {
				panic(err)
			}
			return c, func() { _ = c.Close(); cl() }
		}})
	}
	for _, t := range wire.Transports {
		t := t
		objs = append(objs, object{"KDialer " + tranCoq[t], "PBefore", func() (optObj, func()) {
			s := wire.New("pair")
			d, err := s.NewDialer(wire.Addr(t), nil)
			if err != nil {
				panic(err)
			}
			return d, func() { _ = s.Close() }
		}})
		objs = append(objs, object{"KListener " + tranCoq[t], "PBefore", func() (optObj, func()) {
			s := wire.New("pair")
			l, err := s.NewListener(wire.Addr(t), nil)
			if err != nil {
				panic(err)
			}
			return l, func() { _ = s.Close() }
		}})
		// after connecting: a live dialer and a live listener with one established pipe
		mkPair := func() (mangos.Dialer, mangos.Listener, func()) {
			ls, ds := wire.New("pair"), wire.New("pair")
			le, de := wire.Track(ls), wire.Track(ds)
			a := wire.Addr(t)
			l, err := ls.NewListener(a, wire.Opts(t, true))
			if err != nil {
				panic(err)
			}
			if err = l.Listen(); err != nil {
				panic(err)
			}
			d, err := ds.NewDialer(a, wire.Opts(t, false))
			if err != nil {
				panic(err)
			}
			if err = d.Dial(); err != nil {
				panic(err)
			}
			if !le.Wait(5*time.Second, func(e *wire.Events) bool { return e.Attached > 0 }) ||
				!de.Wait(5*time.Second, func(e *wire.Events) bool { return e.Attached > 0 }) {
				panic("no connection over " + t)
			}
			return d, l, func() {
				cleanupWithin(func() { _ = ds.Close() }, 2*time.Second)
				cleanupWithin(func() { _ = ls.Close() }, 2*time.Second)
			}
		}
		objs = append(objs, object{"KDialer " + tranCoq[t], "PAfter", func() (optObj, func()) {
			d, _, cl := mkPair()
			return d, cl
		}})
		objs = append(objs, object{"KListener " + tranCoq[t], "PAfter", func() (optObj, func()) {
			_, l, cl := mkPair()
			return l, cl
		}})
	}
	return objs
}

// pipeRows: GetOption of every name on the pipes of an established connection of every transport
// (pipes have no SetOption). Row = (kind, name, class, type of the value).
func pipeRows(names []string, out *gridOut) []string {
	var rows []string
	for _, t := range wire.Transports {
		ls, ds := wire.New("pair"), wire.New("pair")
		le, de := wire.Track(ls), wire.Track(ds)
		if _, err := wire.Connect(t, ls, ds, le, de); err != nil {
			panic(err)
		}
		for i, ev := range []*wire.Events{le, de} {
			side := []string{"SListen", "SDial"}[i]
			p := ev.Pipes[0]
			for _, n := range names {
				v, c, d := safeGet(p.GetOption, n)
				out.calls++
				ty := ""
				if c == 'o' {
					ty = fmt.Sprintf("%T", v)
				}
				if c == 'p' {
					out.panics["KPipe "+tranCoq[t]+" "+side+"|"+n] = d
				}
				rows = append(rows, fmt.Sprintf("(KPipe %s %s, %s, %q, %q)", tranCoq[t], side, coqStr(n), string(c), ty))
			}
		}
		cleanupWithin(func() { _ = ds.Close() }, 2*time.Second)
		cleanupWithin(func() { _ = ls.Close() }, 2*time.Second)
	}
	return rows
}
