// c19 runs the option grid (every option name x every value class x every object), the
// inheritance and unsupported-operation cases in process, and the behavioural effect scenarios in
// sub-processes (a wedged socket must not hang the harness), and writes everything it observed as
// Gallina definitions for Model/Options.v to judge.
package main

import (
	"fmt"
	"os"
	"sort"
	"time"

	"mangosverif/coqgen"
	"mangosverif/wire"
)

func main() {
	if len(os.Args) >= 3 && os.Args[1] == "-scenario" {
		runScenario(os.Args[2])
		return
	}
	if len(os.Args) < 2 {
		fmt.Fprintln(os.Stderr, "usage: c19 <defs.v> | c19 -scenario <name>")
		os.Exit(2)
	}
	defer wire.Cleanup()
	t0 := time.Now()
	r := coqgen.Rand()
	names := mkNames(r)
	vals := mkValues()

	// behavioural scenarios run in parallel with the grid
	behCh := make(chan []string, 1)
	go func() { behCh <- runScenarios() }()

	out := &gridOut{panics: map[string]string{}, others: map[string]string{}, obsIdx: map[string]int{}}
	runGrid(gridObjects(), names, vals, out)
	prow := pipeRows(names, out)
	inh := inheritCases()
	uns := unsupportedCases()
	beh := <-behCh

	w := coqgen.Create(os.Args[1])
	var vs []string
	for _, v := range vals {
		vs = append(vs, v.coq)
	}
	w.Def("grid_values", "list value", vs)
	var ns []string
	for _, n := range names {
		ns = append(ns, coqStr(n))
	}
	w.Def("grid_names", "list string", ns)
	w.Def("grid_obs", "list string", out.obs)
	w.Def("grid_objs", "list (objkind * phase * string * list N)", out.rows)
	w.Def("pipe_rows", "list (objkind * string * string * string)", prow)
	w.Def("inherit_cases", "list (inh_src * string * value * string)", inh)
	w.Def("unsup_cases", "list (unsup_op * string)", uns)
	w.Def("effect_cases", "list (effect * string)", beh)
	var keys []string
	for k := range out.panics {
		keys = append(keys, k)
	}
	sort.Strings(keys)
	for _, k := range keys {
		w.P("(* panic %s : %s *)", k, out.panics[k])
	}
	keys = keys[:0]
	for k := range out.others {
		keys = append(keys, k)
	}
	sort.Strings(keys)
	for _, k := range keys {
		w.P("(* other-error %s : %s *)", k, out.others[k])
	}
	w.P("(* calls %d  wall %.1fs *)", out.calls, time.Since(t0).Seconds())
	w.Close()
	fmt.Fprintf(os.Stderr, "c19: %d option calls, %d rows, %d pipe rows, %d inherit, %d unsupported, %d effects, %.1fs\n",
		out.calls, len(out.rows)*len(names), len(prow), len(inh), len(uns), len(beh), time.Since(t0).Seconds())
}
