package main

// Inheritance cases and unsupported-operation cases (in process, every call under a watchdog).

import (
	"fmt"
	"time"

	"mangosverif/wire"

	"go.nanomsg.org/mangos/v3"
)

type cand struct {
	name string
	v    interface{}
	coq  string
}

// distinct, non-default values for every option a socket may accept
var inheritCands = []cand{
	{mangos.OptionRecvDeadline, 1234 * time.Millisecond, "VDur 1234000000%Z"},
	{mangos.OptionSendDeadline, 2345 * time.Millisecond, "VDur 2345000000%Z"},
	{mangos.OptionRetryTime, 3456 * time.Millisecond, "VDur 3456000000%Z"},
	{mangos.OptionSurveyTime, 4567 * time.Millisecond, "VDur 4567000000%Z"},
	{mangos.OptionBestEffort, true, "VBool true"},
	{mangos.OptionFailNoPeers, true, "VBool true"},
	{mangos.OptionReadQLen, 7, "VInt 7%Z"},
	{mangos.OptionWriteQLen, 9, "VInt 9%Z"},
	{mangos.OptionTTL, 5, "VInt 5%Z"},
	{mangos.OptionMaxRecvSize, 4321, "VInt 4321%Z"},
	{mangos.OptionReconnectTime, 321 * time.Millisecond, "VDur 321000000%Z"},
	{mangos.OptionMaxReconnectTime, 5432 * time.Millisecond, "VDur 5432000000%Z"},
	{mangos.OptionDialAsynch, true, "VBool true"},
}

func childChar(g func(string) (interface{}, error), c cand) string {
	v, cl, _ := safeGet(g, c.name)
	if cl != 'o' {
		return string(cl)
	}
	if same(v, c.v) {
		return "s"
	}
	return "n"
}

func inheritCases() []string {
	var out []string
	for _, p := range ctxProtos {
		for _, c := range inheritCands {
			s := wire.New(p)
			if safeSetErr(s, c.name, c.v) == nil {
				ctx, err := s.OpenContext()
				if err != nil {
					panic(err)
				}
				out = append(out, fmt.Sprintf("(ICtx %s, %s, %s, %q)", protoCoq(p), coqStr(c.name), c.coq, childChar(ctx.GetOption, c)))
				_ = ctx.Close()
			}
			_ = s.Close()
		}
	}
	for _, t := range wire.Transports {
		for _, c := range inheritCands {
			s := wire.New("pair")
			if safeSetErr(s, c.name, c.v) == nil {
				d, err := s.NewDialer(wire.Addr(t), nil)
				if err != nil {
					panic(err)
				}
				out = append(out, fmt.Sprintf("(IDialer %s, %s, %s, %q)", tranCoq[t], coqStr(c.name), c.coq, childChar(d.GetOption, c)))
				l, err := s.NewListener(wire.Addr(t), nil)
				if err != nil {
					panic(err)
				}
				out = append(out, fmt.Sprintf("(IListener %s, %s, %s, %q)", tranCoq[t], coqStr(c.name), c.coq, childChar(l.GetOption, c)))
			}
			_ = s.Close()
		}
	}
	return out
}

func classOp(err error) string {
	switch err {
	case nil:
		return "ok"
	case mangos.ErrProtoOp:
		return "ProtoOp"
	case mangos.ErrNotRaw:
		return "NotRaw"
	case mangos.ErrBadProto:
		return "BadProto"
	case mangos.ErrClosed:
		return "Closed"
	}
	return "other:" + short(err)
}

// guarded runs f under recover and a watchdog.
func guarded(f func() error) string {
	res := make(chan string, 1)
	go func() {
		defer func() {
			if r := recover(); r != nil {
				res <- "panic"
			}
		}()
		res <- classOp(f())
	}()
	select {
	case r := <-res:
		return r
	case <-time.After(time.Second):
		return "other:blocked"
	}
}

// usable: the failed operation left the socket alone (options readable, Close succeeds once)
func usable(s mangos.Socket) string {
	if _, c, _ := safeGet(s.GetOption, mangos.OptionRaw); c != 'o' {
		return "+side-effect"
	}
	var err error
	if !cleanupWithin(func() { err = s.Close() }, 2*time.Second) || err != nil {
		return "+side-effect"
	}
	return ""
}

// stolen: after a refused Device(s, _), messages arriving on s must still reach s's owner -- all of them.
func stolen(s mangos.Socket, name string) string {
	peerOf := map[string]string{"xpair": "pair", "xpair1": "pair1", "xpull": "push", "xsub": "pub", "xbus": "bus", "xstar": "star",
		"xrep": "req", "xrespondent": "surveyor",
		"pair": "pair", "pair1": "pair1", "pull": "push", "sub": "pub", "bus": "bus", "star": "star"}
	pn, ok := peerOf[name]
	if !ok {
		return ""
	}
	peer := wire.New(pn)
	defer peer.Close()
	if name == "sub" || name == "xsub" {
		_ = s.SetOption(mangos.OptionSubscribe, []byte{})
	}
	ad := wire.Addr("inproc")
	if s.Listen(ad) != nil || peer.Dial(ad) != nil {
		return ""
	}
	time.Sleep(5 * time.Millisecond)
	_ = s.SetOption(mangos.OptionRecvDeadline, 150*time.Millisecond)
	_ = peer.SetOption(mangos.OptionSendDeadline, 150*time.Millisecond)
	_ = peer.SetOption(mangos.OptionRetryTime, time.Duration(0))
	got := 0
	const n = 6
	for i := 0; i < n; i++ {
		if peer.Send([]byte("ping")) != nil {
			return "" // could not even send: nothing to conclude
		}
		if m, err := s.RecvMsg(); err == nil {
			got++
			m.Free()
		}
	}
	if got < n {
		return fmt.Sprintf("+stolen(%d of %d messages sent to the first socket reached its owner)", got, n)
	}
	return ""
}

func unsupportedCases() []string {
	var out []string
	quick := func(s mangos.Socket) {
		_ = s.SetOption(mangos.OptionRecvDeadline, 20*time.Millisecond)
		_ = s.SetOption(mangos.OptionSendDeadline, 20*time.Millisecond)
	}
	for _, p := range wire.AllNames {
		s := wire.New(p)
		quick(s)
		r := guarded(func() error { _, err := s.Recv(); return err })
		out = append(out, fmt.Sprintf("(URecv %s, %q)", protoCoq(p), r+usable(s)))

		s = wire.New(p)
		quick(s)
		r = guarded(func() error { return s.Send([]byte("x")) })
		out = append(out, fmt.Sprintf("(USend %s, %q)", protoCoq(p), r+usable(s)))

		s = wire.New(p)
		var ctx mangos.Context
		r = guarded(func() error { var err error; ctx, err = s.OpenContext(); return err })
		if r == "ok" && ctx == nil {
			r = "other:nil-context"
		}
		if r != "ok" && ctx != nil {
			r += "+context"
		}
		out = append(out, fmt.Sprintf("(UOpenCtx %s, %q)", protoCoq(p), r+usable(s)))
	}
	for _, p := range ctxProtos {
		s := wire.New(p)
		ctx, err := s.OpenContext()
		if err != nil {
			panic(err)
		}
		_ = ctx.SetOption(mangos.OptionRecvDeadline, 20*time.Millisecond)
		_ = ctx.SetOption(mangos.OptionSendDeadline, 20*time.Millisecond)
		r := guarded(func() error { _, err := ctx.Recv(); return err })
		out = append(out, fmt.Sprintf("(UCtxRecv %s, %q)", protoCoq(p), r))
		r = guarded(func() error { return ctx.Send([]byte("x")) })
		out = append(out, fmt.Sprintf("(UCtxSend %s, %q)", protoCoq(p), r+usable(s)))
	}
	// Device on every ordered pair of patterns, and with nil sockets
	opt := func(p string) string {
		if p == "" {
			return "None"
		}
		return "(Some " + protoCoq(p) + ")"
	}
	dev := func(a, b string) {
		var sa, sb mangos.Socket
		if a != "" {
			sa = wire.New(a)
		}
		if b != "" {
			sb = wire.New(b)
		}
		r := guarded(func() error { return mangos.Device(sa, sb) })
		se := ""
		if r != "ok" && sa != nil {
			se = stolen(sa, a) // a refused Device must not have left a forwarder draining the first socket
		}
		for _, s := range []mangos.Socket{sa, sb} {
			if s == nil {
				continue
			}
			if r == "ok" {
				cleanupWithin(func() { _ = s.Close() }, 2*time.Second)
			} else if usable(s) != "" {
				se = "+side-effect"
			}
		}
		out = append(out, fmt.Sprintf("(UDevice %s %s, %q)", opt(a), opt(b), r+se))
	}
	for _, a := range wire.AllNames {
		for _, b := range wire.AllNames {
			dev(a, b)
		}
		dev(a, "")
		dev("", a)
	}
	dev("", "")
	return out
}
