package main

// Behavioural effect scenarios.  Each runs in its own sub-process (`c19 -scenario "<spec>"`) and
// prints one word; the parent kills it after a timeout and records "hang" -- a wedged socket can
// never hang the harness.

import (
	"bytes"
	"errors"
	"fmt"
	"net"
	"os"
	"os/exec"
	"strconv"
	"strings"
	"sync"
	"time"

	"mangosverif/coqgen"
	"mangosverif/wire"

	"go.nanomsg.org/mangos/v3"
	"go.nanomsg.org/mangos/v3/transport/ws"
)

type plumbing struct {
	peer string
	kind int // 0 symmetric, 1 p only sends, 2 p only receives, 3 p asks (req-like), 4 p answers (rep-like)
	hdr  []byte
}

var plumb = map[string]plumbing{
	"pair": {"pair", 0, nil}, "xpair": {"pair", 0, nil},
	"pair1": {"pair1", 0, nil}, "xpair1": {"pair1", 0, []byte{0, 0, 0, 0}},
	"bus": {"bus", 0, nil}, "xbus": {"bus", 0, nil},
	"star": {"star", 0, nil}, "xstar": {"star", 0, []byte{0, 0, 0, 0}},
	"pub": {"sub", 1, nil}, "xpub": {"sub", 1, nil}, "push": {"pull", 1, nil}, "xpush": {"pull", 1, nil},
	"sub": {"pub", 2, nil}, "xsub": {"pub", 2, nil}, "pull": {"push", 2, nil}, "xpull": {"push", 2, nil},
	"req": {"rep", 3, nil}, "xreq": {"rep", 3, []byte{0x80, 0, 0, 1}},
	"surveyor": {"respondent", 3, nil}, "xsurveyor": {"respondent", 3, []byte{0x80, 0, 0, 1}},
	"rep": {"req", 4, nil}, "xrep": {"req", 4, nil}, "respondent": {"surveyor", 4, nil}, "xrespondent": {"surveyor", 4, nil},
}

func isRaw(p string) bool { return strings.HasPrefix(p, "x") }

type link struct {
	p      string
	pl     plumbing
	s, q   mangos.Socket
	se, qe *wire.Events
	last   *mangos.Message // last request received by a raw rep-like p (its header routes the answer)
}

var errStale = errors.New("no matching message")

func (l *link) setDeadlines(d time.Duration) {
	for _, x := range []mangos.Socket{l.s, l.q} {
		_ = x.SetOption(mangos.OptionRecvDeadline, d)
		_ = x.SetOption(mangos.OptionSendDeadline, d)
	}
}

func newLink(p string, pre func(s mangos.Socket) error) (*link, error) {
	l := &link{p: p, pl: plumb[p]}
	l.s, l.q = wire.New(p), wire.New(l.pl.peer)
	l.se, l.qe = wire.Track(l.s), wire.Track(l.q)
	if pre != nil {
		if err := pre(l.s); err != nil {
			return l, err
		}
	}
	if p == "sub" {
		_ = l.s.SetOption(mangos.OptionSubscribe, []byte{})
	}
	if l.pl.peer == "sub" {
		_ = l.q.SetOption(mangos.OptionSubscribe, []byte{})
	}
	l.setDeadlines(150 * time.Millisecond)
	if _, err := wire.Connect("inproc", l.q, l.s, l.qe, l.se); err != nil {
		return l, err
	}
	return l, nil
}

func (l *link) closeAll() string {
	ok1 := cleanupWithin(func() { _ = l.s.Close() }, 2*time.Second)
	ok2 := cleanupWithin(func() { _ = l.q.Close() }, 2*time.Second)
	if !ok1 || !ok2 {
		return "close-hang"
	}
	return ""
}

func tagBytes(tag int) []byte { return []byte(fmt.Sprintf("T%06d", tag)) }

func (l *link) pSend(tag int) error {
	if !isRaw(l.p) {
		return l.s.Send(tagBytes(tag))
	}
	var m *mangos.Message
	if l.pl.kind == 4 {
		if l.last == nil {
			return errors.New("no request to answer")
		}
		m = l.last
		l.last = nil
		m.Body = append(m.Body[:0], tagBytes(tag)...)
	} else {
		m = mangos.NewMessage(16)
		m.Header = append(m.Header, l.pl.hdr...)
		m.Body = append(m.Body, tagBytes(tag)...)
	}
	return l.s.SendMsg(m)
}

// pRecv receives on p until the message with `tag` shows up (older ones are skipped); tag < 0 = any.
func (l *link) pRecv(tag int) error {
	for i := 0; i < 64; i++ {
		m, err := l.s.RecvMsg()
		if err != nil {
			return err
		}
		if tag < 0 || bytes.Equal(m.Body, tagBytes(tag)) {
			if isRaw(l.p) && l.pl.kind == 4 {
				l.last = m
			} else {
				m.Free()
			}
			return nil
		}
		m.Free()
	}
	return errStale
}

func (l *link) qSend(tag int) error { return l.q.Send(tagBytes(tag)) }

func (l *link) qRecv(tag int) error {
	for i := 0; i < 64; i++ {
		b, err := l.q.Recv()
		if err != nil {
			return err
		}
		if tag < 0 || bytes.Equal(b, tagBytes(tag)) {
			return nil
		}
	}
	return errStale
}

// in: one message travels towards p's receive side (p does not receive it)
func (l *link) in(tag int) error {
	switch l.pl.kind {
	case 0, 2, 4:
		return l.qSend(tag)
	case 3:
		if err := l.pSend(tag); err != nil {
			return err
		}
		if err := l.qRecv(tag); err != nil {
			return err
		}
		return l.qSend(tag)
	}
	return errors.New("pattern does not receive")
}

// out: p sends one message (the peer does not receive it)
func (l *link) out(tag int) error {
	switch l.pl.kind {
	case 0, 1, 3:
		return l.pSend(tag)
	case 4:
		if err := l.qSend(tag); err != nil {
			return err
		}
		if err := l.pRecv(tag); err != nil {
			return err
		}
		return l.pSend(tag)
	}
	return errors.New("pattern does not send")
}

// roundtrip: one complete legal exchange through p's send and/or receive path
func (l *link) roundtrip(tag int) error {
	step := func(name string, err error) error {
		if err != nil {
			return fmt.Errorf("%s:%v", name, err)
		}
		return nil
	}
	switch l.pl.kind {
	case 0:
		if err := step("send", l.pSend(tag)); err != nil {
			return err
		}
		if err := step("peer-recv", l.qRecv(tag)); err != nil {
			return err
		}
		if err := step("peer-send", l.qSend(tag+1)); err != nil {
			return err
		}
		return step("recv", l.pRecv(tag+1))
	case 1:
		if err := step("send", l.pSend(tag)); err != nil {
			return err
		}
		return step("peer-recv", l.qRecv(tag))
	case 2:
		if err := step("peer-send", l.qSend(tag)); err != nil {
			return err
		}
		return step("recv", l.pRecv(tag))
	case 3:
		if err := step("send", l.pSend(tag)); err != nil {
			return err
		}
		if err := step("peer-recv", l.qRecv(tag)); err != nil {
			return err
		}
		if err := step("peer-send", l.qSend(tag+1)); err != nil {
			return err
		}
		return step("recv", l.pRecv(tag+1))
	default:
		if err := step("peer-send", l.qSend(tag)); err != nil {
			return err
		}
		if err := step("recv", l.pRecv(tag)); err != nil {
			return err
		}
		if err := step("send", l.pSend(tag+1)); err != nil {
			return err
		}
		return step("peer-recv", l.qRecv(tag+1))
	}
}

func (l *link) roundtrips(n, attempts int, base int) error {
	var err error
	for i := 0; i < n; i++ {
		ok := false
		for a := 0; a < attempts && !ok; a++ {
			base += 2
			if err = l.roundtrip(base); err == nil {
				ok = true
			} else {
				time.Sleep(20 * time.Millisecond)
			}
		}
		if !ok {
			return err
		}
	}
	return nil
}

func (l *link) drain() {
	for i := 0; i < 64; i++ {
		if l.pl.kind != 1 {
			if m, err := l.s.RecvMsg(); err == nil {
				m.Free()
				continue
			}
		}
		break
	}
	for i := 0; i < 64; i++ {
		if l.pl.kind != 2 {
			if _, err := l.q.Recv(); err == nil {
				continue
			}
		}
		break
	}
}

func short(err error) string {
	s := err.Error()
	s = strings.ReplaceAll(s, " ", "-")
	if len(s) > 60 {
		s = s[:60]
	}
	return s
}

func safeSetErr(s mangos.Socket, n string, v interface{}) (err error) {
	defer func() {
		if r := recover(); r != nil {
			err = fmt.Errorf("panic:%v", r)
		}
	}()
	return s.SetOption(n, v)
}

// ---- scenarios ----

func scResize(p, opt string, full bool, newlen int) string {
	l, err := newLink(p, func(s mangos.Socket) error { return safeSetErr(s, opt, 2) })
	if err != nil {
		return "setup:" + short(err)
	}
	if err := l.roundtrips(1, 5, 1000); err != nil {
		return "setup-traffic:" + short(err)
	}
	if full {
		done := make(chan struct{})
		go func() {
			defer close(done)
			for i := 0; i < 12; i++ {
				var e error
				if opt == mangos.OptionReadQLen {
					e = l.in(i)
				} else {
					e = l.out(i)
				}
				if e != nil {
					return
				}
			}
		}()
		select {
		case <-done:
		case <-time.After(700 * time.Millisecond):
		}
		time.Sleep(40 * time.Millisecond)
	}
	_, sd0 := l.se.Snapshot()
	_, qd0 := l.qe.Snapshot()
	if err := safeSetErr(l.s, opt, newlen); err != nil {
		return "set:" + short(err)
	}
	time.Sleep(150 * time.Millisecond)
	_, sd1 := l.se.Snapshot()
	_, qd1 := l.qe.Snapshot()
	if sd1 != sd0 || qd1 != qd0 {
		l.closeAll()
		return "detached"
	}
	l.drain()
	if err := l.roundtrips(2, 6, 2000); err != nil {
		l.closeAll()
		return "stalled:" + short(err)
	}
	_, sd1 = l.se.Snapshot()
	_, qd1 = l.qe.Snapshot()
	if sd1 != sd0 || qd1 != qd0 {
		l.closeAll()
		return "detached"
	}
	if r := l.closeAll(); r != "" {
		return r
	}
	return "kept"
}

func scZeroQ(p, opt string) string {
	l, err := newLink(p, func(s mangos.Socket) error { return safeSetErr(s, opt, 0) })
	if err != nil {
		return "setup:" + short(err)
	}
	res := make(chan error, 1)
	go func() {
		// traffic with both ends ready, then one message while the other end is NOT waiting
		// (an unbuffered queue may drop it, or make the sender wait, but must not wedge the
		// socket), then traffic again
		if err := l.roundtrips(2, 4, 3000); err != nil {
			res <- err
			return
		}
		if opt == mangos.OptionReadQLen {
			_ = l.in(3100)
		} else {
			_ = l.out(3100)
		}
		time.Sleep(60 * time.Millisecond)
		l.drain()
		res <- l.roundtrips(2, 4, 3200)
	}()
	select {
	case err = <-res:
	case <-time.After(2500 * time.Millisecond):
		err = errors.New("traffic-hang")
	}
	r := l.closeAll()
	if err != nil {
		if r != "" {
			return "stalled+" + r + ":" + short(err)
		}
		return "stalled:" + short(err)
	}
	if r != "" {
		return r
	}
	return "works"
}

func scRecvBlock(p string, deadline, wait int) string {
	l, err := newLink(p, nil)
	if err != nil {
		return "setup:" + short(err)
	}
	defer l.closeAll()
	// start from a positive deadline, so that an accepted 0 has to restore "no limit"
	if err := l.s.SetOption(mangos.OptionRecvDeadline, 40*time.Millisecond); err != nil {
		return "set:" + short(err)
	}
	if err := l.s.SetOption(mangos.OptionRecvDeadline, time.Duration(deadline)*time.Millisecond); err != nil {
		return "set:" + short(err)
	}
	if l.pl.kind == 3 { // something must be outstanding before Recv is legal
		if err := l.pSend(1); err != nil {
			return "send:" + short(err)
		}
	}
	res := make(chan error, 1)
	go func() {
		m, err := l.s.RecvMsg()
		if m != nil {
			m.Free()
		}
		res <- err
	}()
	select {
	case err := <-res:
		if err == mangos.ErrRecvTimeout {
			return "timeout"
		}
		if err == nil {
			return "message"
		}
		return "error:" + short(err)
	case <-time.After(time.Duration(wait) * time.Millisecond):
		return "blocked"
	}
}

// scSendBlock: no peer, a one-slot send queue where the pattern has one: the sends must stop making
// progress; with SEND-DEADLINE d > 0 one of them fails with ErrSendTimeout after d, with d = 0 the
// sender stays blocked.
func scSendBlock(p string, deadline, wait int) string {
	s := wire.New(p)
	defer cleanupWithin(func() { _ = s.Close() }, time.Second)
	_ = s.SetOption(mangos.OptionWriteQLen, 1)
	if err := s.SetOption(mangos.OptionSendDeadline, 40*time.Millisecond); err != nil {
		return "set:" + short(err)
	}
	if err := s.SetOption(mangos.OptionSendDeadline, time.Duration(deadline)*time.Millisecond); err != nil {
		return "set:" + short(err)
	}
	l := &link{p: p, pl: plumb[p], s: s}
	res := make(chan error, 1)
	go func() {
		for i := 0; i < 4; i++ {
			if err := l.pSend(i); err != nil {
				res <- err
				return
			}
		}
		res <- nil
	}()
	select {
	case err := <-res:
		if err == mangos.ErrSendTimeout {
			return "timeout"
		}
		if err == nil {
			return "nonblocking"
		}
		return "error:" + short(err)
	case <-time.After(time.Duration(wait) * time.Millisecond):
		return "blocked"
	}
}

func scSurvey(st, after int) string {
	s, q := wire.New("surveyor"), wire.New("respondent")
	se, qe := wire.Track(s), wire.Track(q)
	defer func() {
		cleanupWithin(func() { _ = s.Close() }, time.Second)
		cleanupWithin(func() { _ = q.Close() }, time.Second)
	}()
	if err := s.SetOption(mangos.OptionSurveyTime, time.Duration(st)*time.Millisecond); err != nil {
		return "set:" + short(err)
	}
	_ = q.SetOption(mangos.OptionRecvDeadline, time.Second)
	if _, err := wire.Connect("inproc", q, s, qe, se); err != nil {
		return "setup:" + short(err)
	}
	if err := s.Send([]byte("Q")); err != nil {
		return "send:" + short(err)
	}
	if _, err := q.Recv(); err != nil {
		return "peer-recv:" + short(err)
	}
	time.Sleep(time.Duration(after) * time.Millisecond)
	if err := q.Send([]byte("A")); err != nil {
		return "peer-send:" + short(err)
	}
	res := make(chan error, 1)
	go func() { _, err := s.Recv(); res <- err }()
	select {
	case err := <-res:
		if err == nil {
			return "accepted"
		}
		return "rejected" // ErrProtoState / ErrRecvTimeout: the survey is over
	case <-time.After(400 * time.Millisecond):
		return "rejected"
	}
}

func scRetry(rt, wait int) string {
	s, q := wire.New("req"), wire.New("rep")
	se, qe := wire.Track(s), wire.Track(q)
	defer func() {
		cleanupWithin(func() { _ = s.Close() }, time.Second)
		cleanupWithin(func() { _ = q.Close() }, time.Second)
	}()
	if err := s.SetOption(mangos.OptionRetryTime, time.Duration(rt)*time.Millisecond); err != nil {
		return "set:" + short(err)
	}
	_ = q.SetOption(mangos.OptionRecvDeadline, time.Second)
	if _, err := wire.Connect("inproc", q, s, qe, se); err != nil {
		return "setup:" + short(err)
	}
	if err := s.Send([]byte("Q")); err != nil {
		return "send:" + short(err)
	}
	if _, err := q.Recv(); err != nil {
		return "peer-recv:" + short(err)
	}
	_ = q.SetOption(mangos.OptionRecvDeadline, time.Duration(wait)*time.Millisecond)
	if _, err := q.Recv(); err == nil {
		return "retried"
	} else if err == mangos.ErrRecvTimeout {
		return "noretry"
	} else {
		return "peer-error:" + short(err)
	}
}

// scOrigin: a ws listener whose WEBSOCKET-CHECKORIGIN is set to the given values in turn ("t"/"f"); then an upgrade request
// whose Origin differs from the Host.  "refused" (403) or "accepted" (101).
func scOrigin(sets []string) string {
	sock := wire.New("pair")
	defer sock.Close()
	addr := wire.Addr("ws")
	l, err := sock.NewListener(addr, nil)
	if err != nil {
		return "listener:" + short(err)
	}
	half := len(sets) / 2
	apply := func(xs []string) string {
		for _, x := range xs {
			if x == "-" {
				continue
			}
			if err := l.SetOption(ws.OptionWebSocketCheckOrigin, x == "t"); err != nil {
				return "set:" + short(err)
			}
			if v, err := l.GetOption(ws.OptionWebSocketCheckOrigin); err != nil || v != (x == "t") {
				return "get-differs"
			}
		}
		return ""
	}
	if r := apply(sets[:half]); r != "" { // some before Listen, the rest on the live listener
		return r
	}
	if err := l.Listen(); err != nil {
		return "listen:" + short(err)
	}
	if r := apply(sets[half:]); r != "" {
		return r
	}
	u := strings.TrimPrefix(addr, "ws://")
	host := u
	path := "/"
	if i := strings.Index(u, "/"); i >= 0 {
		host, path = u[:i], u[i:]
	}
	c, err := net.DialTimeout("tcp", host, 2*time.Second)
	if err != nil {
		return "dial:" + short(err)
	}
	defer c.Close()
	_ = c.SetDeadline(time.Now().Add(2 * time.Second))
	fmt.Fprintf(c, "GET %s HTTP/1.1\r\nHost: %s\r\nUpgrade: websocket\r\nConnection: Upgrade\r\nSec-WebSocket-Key: dGhlIHNhbXBsZSBub25jZQ==\r\n"+
		"Sec-WebSocket-Version: 13\r\nSec-WebSocket-Protocol: pair.sp.nanomsg.org\r\nOrigin: http://elsewhere.example\r\n\r\n", path, host)
	buf := make([]byte, 64)
	n, _ := c.Read(buf)
	line := string(buf[:n])
	switch {
	case strings.HasPrefix(line, "HTTP/1.1 101"):
		return "accepted"
	case strings.HasPrefix(line, "HTTP/1.1 403"):
		return "refused"
	}
	return "reply:" + strings.ReplaceAll(strings.SplitN(line, "\r", 2)[0], " ", "-")
}

// scMaxRecv: MAX-RCV-SIZE set to these values in turn -- the first half before Listen, the rest on the live listener,
// each either on the listener or on its socket (which passes it on) -- then a new peer connects and sends one message.
func scMaxRecv(tr string, viaSocket bool, msglen int, sets []string) string {
	sock := wire.New("pair")
	defer sock.Close()
	addr := wire.Addr(tr)
	l, err := sock.NewListener(addr, wire.Opts(tr, true))
	if err != nil {
		return "listener:" + short(err)
	}
	half := len(sets) / 2
	apply := func(xs []string) string {
		for _, x := range xs {
			v, _ := strconv.Atoi(x)
			if viaSocket {
				err = sock.SetOption(mangos.OptionMaxRecvSize, v)
			} else {
				err = l.SetOption(mangos.OptionMaxRecvSize, v)
			}
			if err != nil {
				return "set:" + short(err)
			}
			if g, err := l.GetOption(mangos.OptionMaxRecvSize); err != nil || g != v {
				return "get-differs"
			}
		}
		return ""
	}
	if r := apply(sets[:half]); r != "" {
		return r
	}
	if err := l.Listen(); err != nil {
		return "listen:" + short(err)
	}
	if r := apply(sets[half:]); r != "" {
		return r
	}
	peer := wire.New("pair")
	defer peer.Close()
	if err := peer.DialOptions(addr, wire.Opts(tr, false)); err != nil {
		return "dial:" + short(err)
	}
	_ = peer.SetOption(mangos.OptionSendDeadline, time.Second)
	_ = sock.SetOption(mangos.OptionRecvDeadline, 400*time.Millisecond)
	if err := peer.Send(make([]byte, msglen)); err != nil {
		return "send:" + short(err)
	}
	b, err := sock.Recv()
	switch {
	case err == mangos.ErrRecvTimeout:
		return "dropped"
	case err != nil:
		return "recv:" + short(err)
	case len(b) != msglen:
		return "altered"
	}
	return "delivered"
}

// scResizeDeadline: a Recv bounded by RECV-DEADLINE 300 ms is pending while READQ-LEN is changed twice (at 100 and
// 250 ms): the deadline that was accepted still takes effect as documented -- the Recv times out at 300 ms, not later.
func scResizeDeadline(p string) string {
	sock := wire.New(p)
	defer sock.Close()
	if p == "sub" || p == "xsub" {
		_ = sock.SetOption(mangos.OptionSubscribe, []byte{})
	}
	if err := sock.SetOption(mangos.OptionRecvDeadline, 300*time.Millisecond); err != nil {
		return "set:" + short(err)
	}
	type res struct {
		err error
		d   time.Duration
	}
	done := make(chan res, 1)
	t0 := time.Now()
	go func() { _, e := sock.Recv(); done <- res{e, time.Since(t0)} }()
	for i, v := range []int{4, 9} {
		time.Sleep(time.Until(t0.Add([]time.Duration{100 * time.Millisecond, 250 * time.Millisecond}[i])))
		if err := sock.SetOption(mangos.OptionReadQLen, v); err != nil {
			return "resize:" + short(err)
		}
	}
	select {
	case r := <-done:
		switch {
		case r.err != mangos.ErrRecvTimeout:
			return "recv:" + short(r.err)
		case r.d < 290*time.Millisecond:
			return fmt.Sprintf("early:%d", r.d.Milliseconds())
		case r.d > 520*time.Millisecond: // a restarted deadline would end at 550 ms
			return fmt.Sprintf("late:%d", r.d.Milliseconds())
		}
		return "ontime"
	case <-time.After(2 * time.Second):
		return "blocked"
	}
}

// scAlias: an option value handed over as a []byte belongs to the caller again once SetOption has returned: the caller
// re-uses the buffer and the accepted value must not follow it.  (SUB topics are the []byte-valued options.)
func scAlias(onCtx bool) string {
	sock := wire.New("sub")
	defer sock.Close()
	var tgt interface {
		SetOption(string, interface{}) error
	} = sock
	if onCtx {
		c, err := sock.OpenContext()
		if err != nil {
			return "openctx:" + short(err)
		}
		tgt = c
	}
	buf := []byte("AAA")
	if err := tgt.SetOption(mangos.OptionSubscribe, buf); err != nil {
		return "subscribe:" + short(err)
	}
	copy(buf, "zzz") // the caller builds its next topic in the same buffer
	if err := tgt.SetOption(mangos.OptionSubscribe, buf); err != nil {
		return "subscribe2:" + short(err)
	}
	copy(buf, "qqq")
	// both AAA and zzz are subscribed, qqq is not
	r := ""
	for _, t := range []string{"AAA", "zzz", "qqq"} {
		if tgt.SetOption(mangos.OptionUnsubscribe, []byte(t)) == nil {
			r += t
		}
	}
	if r == "AAAzzz" {
		return "kept"
	}
	return "aliased:" + r
}

func runScenario(spec string) {
	f := strings.Fields(spec)
	atoi := func(s string) int { v, _ := strconv.Atoi(s); return v }
	out := "bad-spec"
	func() {
		defer func() {
			if r := recover(); r != nil {
				out = "panic:" + strings.ReplaceAll(fmt.Sprint(r), " ", "-")
			}
		}()
		switch f[0] {
		case "resize":
			out = scResize(f[1], f[2], f[3] == "full", atoi(f[4]))
		case "zeroq":
			out = scZeroQ(f[1], f[2])
		case "recvblock":
			out = scRecvBlock(f[1], atoi(f[2]), atoi(f[3]))
		case "sendblock":
			out = scSendBlock(f[1], atoi(f[2]), atoi(f[3]))
		case "survey":
			out = scSurvey(atoi(f[1]), atoi(f[2]))
		case "retry":
			out = scRetry(atoi(f[1]), atoi(f[2]))
		case "origin":
			out = scOrigin(f[1:])
		case "resizedeadline":
			out = scResizeDeadline(f[1])
		case "alias":
			out = scAlias(f[1] == "ctx")
		case "maxrecv":
			out = scMaxRecv(f[1], f[2] == "sock", atoi(f[3]), f[4:])
		}
	}()
	fmt.Println(out)
	os.Exit(0)
}

type scenario struct {
	spec string
	coq  string
}

var optCoq = map[string]string{mangos.OptionReadQLen: "OReadQLen", mangos.OptionWriteQLen: "OWriteQLen"}

var readQPats = strings.Fields("pair xpair pair1 xpair1 sub xsub xreq xrep pull xpull surveyor xsurveyor respondent xrespondent bus xbus star xstar")
var writeQPats = strings.Fields("pair xpair pair1 xpair1 pub xpub xreq rep xrep push xpush surveyor xsurveyor respondent xrespondent bus xbus star xstar")

// patterns whose RECV-DEADLINE accepts 0 and on which a Recv can be pending (REP/RESPONDENT reject 0;
// SURVEYOR's Recv is governed by SURVEY-TIME, which has its own scenarios)
var recvZeroPats = strings.Fields("pair xpair pair1 xpair1 sub xsub req xreq xrep pull xpull xsurveyor xrespondent bus xbus star xstar")

func has(l []string, s string) bool {
	for _, x := range l {
		if x == s {
			return true
		}
	}
	return false
}

func allScenarios() []scenario {
	var sc []scenario
	for _, p := range wire.AllNames {
		for _, opt := range []string{mangos.OptionReadQLen, mangos.OptionWriteQLen} {
			if (opt == mangos.OptionReadQLen && !has(readQPats, p)) || (opt == mangos.OptionWriteQLen && !has(writeQPats, p)) {
				continue
			}
			for _, full := range []bool{true, false} {
				for _, nl := range []int{8, 1} {
					st := "empty"
					if full {
						st = "full"
					}
					sc = append(sc, scenario{fmt.Sprintf("resize %s %s %s %d", p, opt, st, nl),
						fmt.Sprintf("EResize %s %s %s %d%%N", protoCoq(p), optCoq[opt], coqgen.Bool(full), nl)})
				}
			}
			sc = append(sc, scenario{fmt.Sprintf("zeroq %s %s", p, opt), fmt.Sprintf("EZeroQ %s %s", protoCoq(p), optCoq[opt])})
		}
		// zero RECV-DEADLINE = no limit, wherever a zero is accepted and Recv can be pending
		if has(recvZeroPats, p) {
			for _, d := range []int{0, 50} {
				sc = append(sc, scenario{fmt.Sprintf("recvblock %s %d 300", p, d), fmt.Sprintf("ERecvBlock %s %d%%N 300%%N", protoCoq(p), d)})
			}
		}
	}
	// zero SEND-DEADLINE = no limit, on the patterns whose Send waits for a peer
	for _, p := range strings.Fields("pair xpair pair1 xpair1 req xreq push xpush") {
		for _, d := range []int{0, 50} {
			sc = append(sc, scenario{fmt.Sprintf("sendblock %s %d 300", p, d), fmt.Sprintf("ESendBlock %s %d%%N 300%%N", protoCoq(p), d)})
		}
	}
	for _, c := range [][2]int{{0, 100}, {600, 100}, {50, 250}} {
		sc = append(sc, scenario{fmt.Sprintf("survey %d %d", c[0], c[1]), fmt.Sprintf("ESurvey %d%%N %d%%N", c[0], c[1])})
	}
	for _, c := range [][2]int{{0, 300}, {60, 400}, {60000, 300}} {
		sc = append(sc, scenario{fmt.Sprintf("retry %d %d", c[0], c[1]), fmt.Sprintf("ERetry %d%%N %d%%N", c[0], c[1])})
	}
	// the value in force is the last one set (before or after Listen): WEBSOCKET-CHECKORIGIN toggled in every order of up to 3
	for _, seq := range []string{"", "t", "f", "f t", "t f", "f f", "f t f", "f f t", "t f t", "- f t -", "f - - t"} {
		var bs []string
		for _, x := range strings.Fields(seq) {
			if x != "-" {
				bs = append(bs, map[string]string{"t": "true", "f": "false"}[x])
			}
		}
		sc = append(sc, scenario{strings.TrimSpace("origin " + seq), "EOrigin " + coqgen.List(bs)})
	}
	sc = append(sc, scenario{"alias sock", "EAlias false"}, scenario{"alias ctx", "EAlias true"})
	for _, p := range recvZeroPats {
		if p != "req" && has(readQPats, p) {
			sc = append(sc, scenario{"resizedeadline " + p, "EResizeDeadline " + protoCoq(p)})
		}
	}
	// MAX-RCV-SIZE on a listener, directly or through its socket, before and after Listen: the limit in force for a connection
	// accepted later is the last value set (0 = none; the default is 1 MiB)
	for ti, tr := range []string{"tcp", "ipc", "tls+tcp", "ws", "wss"} {
		for ci, c := range []struct {
			n    int
			sets string
		}{{200, ""}, {200, "100"}, {200, "100 300"}, {200, "300 100"}, {200, "100 0"}, {200, "0 100"}, {200, "100 200"}, {201, "100 200"}, {200, "50 300 100 400"}, {200, "400 50 300 100"}} {
			via := (ti+ci)%2 == 1
			sc = append(sc, scenario{strings.TrimSpace(fmt.Sprintf("maxrecv %s %s %d %s", tr, map[bool]string{true: "sock", false: "lis"}[via], c.n, c.sets)),
				fmt.Sprintf("EMaxRecv %q %s %s %d%%N", tr, coqgen.Bool(via), coqgen.List(nlist(c.sets)), c.n)})
		}
	}
	return sc
}

func nlist(s string) []string {
	var o []string
	for _, x := range strings.Fields(s) {
		o = append(o, x+"%N")
	}
	return o
}

// runScenarios runs every scenario in its own process, a few at a time.
func runScenarios() []string {
	sc := allScenarios()
	res := make([]string, len(sc))
	self, err := os.Executable()
	if err != nil {
		panic(err)
	}
	sem := make(chan struct{}, 10)
	var wg sync.WaitGroup
	for i := range sc {
		wg.Add(1)
		sem <- struct{}{}
		go func(i int) {
			defer wg.Done()
			defer func() { <-sem }()
			res[i] = runOne(self, sc[i].spec)
		}(i)
	}
	wg.Wait()
	var out []string
	for i := range sc {
		out = append(out, fmt.Sprintf("(%s, %q)", sc[i].coq, res[i]))
	}
	return out
}

func runOne(self, spec string) string {
	cmd := exec.Command(self, "-scenario", spec)
	var so bytes.Buffer
	cmd.Stdout = &so
	if err := cmd.Start(); err != nil {
		return "spawn-failed"
	}
	done := make(chan error, 1)
	go func() { done <- cmd.Wait() }()
	select {
	case err := <-done:
		r := strings.TrimSpace(so.String())
		if i := strings.LastIndexByte(r, '\n'); i >= 0 {
			r = r[i+1:]
		}
		if r == "" {
			if err != nil {
				return "crash"
			}
			return "no-output"
		}
		return r
	case <-time.After(9 * time.Second):
		_ = cmd.Process.Kill()
		<-done
		return "hang"
	}
}
