// l1deadline: timed and untimed L1 histories for C18 (deadlines, best effort, fail-no-peers) against a
// representative set of protocols: xpair, xpush, xpull, xpub, xreq, xbus (Model/Deadline.v) and req (Model/Req.v).
// Every history starts with a pseudo-step naming the protocol; see Model/DeadlineOracle.v.
package main

import (
	"encoding/binary"
	"fmt"
	"math/rand"
	"os"
	"strconv"
	"time"

	"mangosverif/l1run"
	"mangosverif/mp"
	"mangosverif/seq"

	"go.nanomsg.org/mangos/v3"
	"go.nanomsg.org/mangos/v3/protocol/rep"
	"go.nanomsg.org/mangos/v3/protocol/req"
	"go.nanomsg.org/mangos/v3/protocol/respondent"
	"go.nanomsg.org/mangos/v3/protocol/xbus"
	"go.nanomsg.org/mangos/v3/protocol/xpair"
	"go.nanomsg.org/mangos/v3/protocol/xpub"
	"go.nanomsg.org/mangos/v3/protocol/xpull"
	"go.nanomsg.org/mangos/v3/protocol/xpush"
	"go.nanomsg.org/mangos/v3/protocol/xreq"
)

// option indices of op "opt"
const (
	oRetry = iota
	oSD
	oRD
	oBE
	oFNP
	oWQ
	oRQ
)

var optNames = []string{mangos.OptionRetryTime, mangos.OptionSendDeadline, mangos.OptionRecvDeadline, mangos.OptionBestEffort,
	mangos.OptionFailNoPeers, mangos.OptionWriteQLen, mangos.OptionReadQLen}
var optCoq = []string{"ORetryTime", "OSendDeadline", "ORecvDeadline", "OBestEffort", "OFailNoPeers", "OWriteQLen", "OReadQLen"}

type family struct {
	name     string
	tag      int
	mk       func() mangos.ProtocolBase
	send     bool // SendMsg can block (shared queue)
	bcast    bool // SendMsg never blocks (per-pipe queues)
	recv     bool
	opts     []int // options the protocol knows
	onePipe  bool  // keep at most one live pipe (which sender goroutine takes a message is not enumerated)
	maxPipes int
	ctx      bool // cooked socket with contexts serving requests (rep, respondent)
}

var families = []*family{
	{name: "xpair", tag: 1, mk: xpair.NewProtocol, send: true, recv: true, opts: []int{oSD, oRD, oBE, oWQ, oRQ}, onePipe: true, maxPipes: 3},
	{name: "xpush", tag: 2, mk: xpush.NewProtocol, send: true, opts: []int{oSD, oBE, oFNP, oWQ}, maxPipes: 2},
	{name: "xpull", tag: 3, mk: xpull.NewProtocol, recv: true, opts: []int{oRD, oRQ}, maxPipes: 2},
	{name: "xpub", tag: 4, mk: xpub.NewProtocol, bcast: true, opts: []int{oWQ}, maxPipes: 2},
	{name: "xreq", tag: 5, mk: xreq.NewProtocol, send: true, recv: true, opts: []int{oSD, oRD, oBE, oWQ, oRQ}, onePipe: true, maxPipes: 3},
	{name: "xbus", tag: 6, mk: xbus.NewProtocol, bcast: true, recv: true, opts: []int{oRD, oWQ, oRQ}, maxPipes: 2},
	{name: "req", tag: 7, mk: req.NewProtocol, send: true, recv: true, opts: []int{oRetry, oSD, oRD, oBE, oFNP}, maxPipes: 2},
	{name: "rep", tag: 8, mk: rep.NewProtocol, send: true, recv: true, opts: []int{oSD, oRD, oBE, oWQ}, maxPipes: 2, ctx: true},
	{name: "respondent", tag: 9, mk: respondent.NewProtocol, send: true, recv: true, opts: []int{oSD, oRD, oBE, oWQ, oRQ}, maxPipes: 2, ctx: true},
}

func famByName(n string) *family {
	for _, f := range families {
		if f.name == n {
			return f
		}
	}
	panic("no family " + n)
}

type op struct {
	k       string
	a, b, c int
}

type script struct {
	fam string
	ops []op
}

type gen struct {
	r        *rand.Rand
	d        *seq.Driver
	f        *family
	timed    bool
	isReq    bool
	isCtx    bool
	closedC  map[int]bool
	alive    map[int]bool
	hold     map[int]bool
	nextPipe int
	nextCall int
	nextCtx  int
	nsend    int
	nreq     int
	passes   int
	closed   bool
	started  bool // a pipe / call / delivery has happened: queue lengths stay as they are
	be       map[int]bool
	beSends  int
	prof     int
	// req id canonicalisation
	base  uint32
	haveB bool
}

func be32(v uint32) []byte { b := make([]byte, 4); binary.BigEndian.PutUint32(b, v); return b }

// worker position: l1run starts us as `<bin> -worker i n timed out.v`
func workerPos(timed bool) (pos, of int) {
	idx := 0
	if len(os.Args) > 2 {
		idx, _ = strconv.Atoi(os.Args[2])
	}
	from := 12
	if os.Getenv("L1_BIAS") == "resend" {
		from = 8
	}
	if timed {
		return idx - from, 16 - from
	}
	return idx, from
}

var scriptNext = map[bool]int{}

func nextScript(timed bool) *script {
	all := untimedScripts
	if timed {
		all = timedScripts
	}
	pos, of := workerPos(timed)
	if pos < 0 || of <= 0 {
		return nil
	}
	i := scriptNext[timed]
	scriptNext[timed] = i + 1
	j := pos + i*of
	if j < len(all) {
		return &all[j]
	}
	return nil
}

var only = os.Getenv("L1_PROTO")

func genOne(r *rand.Rand, timed bool) (string, string, string) {
	sc := nextScript(timed)
	var f *family
	if sc != nil {
		f = famByName(sc.fam)
	} else if only != "" {
		f = famByName(only)
	} else {
		f = families[r.Intn(len(families))]
	}
	p := f.mk()
	d := seq.NewDriver(p)
	g := &gen{r: r, d: d, f: f, timed: timed, isReq: f.name == "req", alive: map[int]bool{}, hold: map[int]bool{}, be: map[int]bool{}, prof: r.Intn(3),
		isCtx: f.ctx, closedC: map[int]bool{}}
	d.Steps = append(d.Steps, seq.Step{Stim: fmt.Sprintf("SCall 0 (CSetOpt 0 OTtl %d%%Z [])", f.tag)})
	if g.isReq {
		d.CanonTx = func(pipe int, hdr, body []byte) ([]byte, []byte) {
			if len(hdr) == 4 && len(body) >= 2 {
				realID := binary.BigEndian.Uint32(hdr)
				n := uint32(binary.BigEndian.Uint16(body))
				if !g.haveB {
					g.base = (realID & 0x7fffffff) - n
					g.haveB = true
				}
				return be32(0x80000000 | ((realID - g.base) & 0x7fffffff)), body
			}
			return hdr, body
		}
		d.CanonRet = func(hdr, body []byte) ([]byte, []byte) { return nil, body }
	}
	if sc != nil {
		for _, o := range sc.ops {
			if d.Bad == "" {
				g.apply(o)
			}
		}
	} else {
		g.preamble()
		n := 12 + r.Intn(22)
		for i := 0; i < n && d.Bad == ""; i++ {
			g.stepOnce()
		}
	}
	_ = p.Close()
	for _, pp := range d.Pipes {
		_ = pp.Close()
	}
	seq.Quiesce(500 * time.Millisecond)
	if d.Stuck {
		return d.Coq(), "", "STUCK: " + d.Bad
	}
	if d.Bad != "" {
		return "", d.Bad, ""
	}
	return d.Coq(), "", f.name
}

// deadline values of a timed history (ms): distinct per option; passes chosen clear of them (tolerance 10 ms)
func (g *gen) deadlines() (sd, rd int, passes []int) {
	switch g.prof {
	case 0:
		return 60, 100, []int{30, 75, 140}
	case 1:
		return 100, 60, []int{30, 75, 140}
	}
	return 80, 60, []int{30, 95, 140}
}

func (g *gen) has(o int) bool {
	for _, x := range g.f.opts {
		if x == o {
			return true
		}
	}
	return false
}

// queue lengths are chosen before anything else happens
func (g *gen) preamble() {
	r := g.r
	if g.isReq {
		if r.Intn(2) == 0 {
			g.apply(op{k: "opt", a: 0, b: oFNP, c: 1})
		}
		return
	}
	if g.isCtx && r.Intn(3) == 0 {
		// (rep / respondent: WRITEQ-LEN is 0 by default)
		return
	}
	if g.has(oWQ) && r.Intn(4) != 0 {
		g.apply(op{k: "opt", b: oWQ, c: []int{0, 1, 1, 2, 2}[r.Intn(5)]})
	}
	if g.has(oRQ) && r.Intn(4) != 0 {
		g.apply(op{k: "opt", b: oRQ, c: []int{0, 1, 1, 2, 2}[r.Intn(5)]})
	}
}

func (g *gen) alivePipes() []int {
	var ps []int
	for p := 1; p <= g.nextPipe; p++ {
		if g.alive[p] {
			ps = append(ps, p)
		}
	}
	return ps
}

func (g *gen) ctxs() []int {
	var cs []int
	for c := 0; c <= g.nextCtx; c++ {
		if _, ok := g.d.Ctxs[c]; ok {
			cs = append(cs, c)
		}
	}
	return cs
}

func (g *gen) pickCtx() int { cs := g.ctxs(); return cs[g.r.Intn(len(cs))] }

func (g *gen) choose() (op, bool) {
	r, f := g.r, g.f
	if g.closed {
		switch r.Intn(3) {
		case 0:
			return op{k: "send", a: g.pickCtx()}, true
		case 1:
			return op{k: "recv", a: g.pickCtx()}, true
		}
		o := f.opts[r.Intn(len(f.opts))]
		// (xreq: a queue length set after Close re-creates sendQ and Send then races closeQ -- not a C18 matter)
		return op{k: "opt", a: g.pickCtx(), b: o, c: 0}, o != oWQ && o != oRQ
	}
	w := r.Intn(100)
	switch {
	case w < 10:
		if f.onePipe && len(g.alivePipes()) > 0 {
			return op{}, false
		}
		return op{k: "addpipe"}, g.nextPipe < f.maxPipes
	case w < 16:
		ps := g.alivePipes()
		if len(ps) == 0 {
			return op{}, false
		}
		return op{k: "drop", a: ps[r.Intn(len(ps))]}, true
	case w < 40:
		if !f.send && !f.bcast && r.Intn(8) != 0 {
			return op{}, false
		}
		c := g.pickCtx()
		if g.be[c] && g.beSends >= 5 {
			return op{}, false
		}
		return op{k: "send", a: c}, true
	case w < 55:
		if !f.recv && r.Intn(8) != 0 {
			return op{}, false
		}
		return op{k: "recv", a: g.pickCtx()}, true
	case w < 67:
		ps := g.alivePipes()
		if len(ps) == 0 {
			return op{}, false
		}
		n := ps[r.Intn(len(ps))]
		if g.isReq {
			if g.nsend == 0 || !g.haveB {
				return op{}, false
			}
			return op{k: "reply", a: n, b: 1 + r.Intn(g.nsend)}, true
		}
		if g.isCtx {
			return op{k: "request", a: n, b: r.Intn(10)}, true
		}
		return op{k: "deliver", a: n}, true
	case w < 74:
		ps := g.alivePipes()
		if len(ps) == 0 {
			return op{}, false
		}
		n := ps[r.Intn(len(ps))]
		h := 0
		if !g.hold[n] {
			h = 1
		}
		return op{k: "hold", a: n, b: h}, true
	case w < 82:
		var cand []int
		for _, n := range g.alivePipes() {
			if g.d.Pipes[n].Pending() > 0 {
				cand = append(cand, n)
			}
		}
		if len(cand) == 0 {
			return op{}, false
		}
		ok := 1
		if r.Intn(5) == 0 {
			ok = 0
		}
		return op{k: "release", a: cand[r.Intn(len(cand))], b: ok}, true
	case w < 92:
		o := f.opts[r.Intn(len(f.opts))]
		if o == oWQ || o == oRQ {
			if g.started && !((f.bcast || f.ctx) && o == oWQ) {
				return op{}, false
			}
			return op{k: "opt", b: o, c: []int{-1, 0, 1, 2}[r.Intn(4)]}, true
		}
		v := 0
		sd, rd, _ := g.deadlines()
		switch o {
		case oRetry:
			v = []int{0, 3600000}[r.Intn(2)]
		case oSD:
			v = []int{0, 3600000}[r.Intn(2)]
			if g.timed && r.Intn(3) != 0 {
				v = sd
			}
		case oRD:
			v = []int{0, 3600000}[r.Intn(2)]
			if g.timed && r.Intn(3) != 0 {
				v = rd
			}
		default:
			v = r.Intn(2)
		}
		if g.isCtx && (o == oSD || o == oRD) && v == 0 && r.Intn(2) == 0 {
			v = -7 // (rejected like 0)
		}
		return op{k: "opt", a: g.pickCtx(), b: o, c: v}, true
	case w < 94:
		// an option the protocol may not know
		o := []int{oSD, oRD, oBE, oFNP}[r.Intn(4)]
		v := 1
		if o == oSD || o == oRD {
			v = []int{0, 3600000}[r.Intn(2)]
		}
		return op{k: "opt", a: g.pickCtx(), b: o, c: v}, !g.isReq
	case w < 95:
		if g.isCtx && g.nextCtx >= 1 && r.Intn(3) == 0 {
			c := g.pickCtx()
			return op{k: "closectx", a: c}, c != 0 && !g.closedC[c]
		}
		return op{k: "openctx"}, g.nextCtx < 2
	case w < 96:
		return op{k: "closesock"}, !g.isReq
	default:
		_, _, ps := g.deadlines()
		return op{k: "pass", a: ps[r.Intn(len(ps))]}, g.timed && g.passes < 4
	}
}

func (g *gen) stepOnce() {
	for {
		if o, ok := g.choose(); ok {
			g.apply(o)
			return
		}
	}
}

func (g *gen) real(k int) uint32 { return 0x80000000 | ((g.base + uint32(k)) & 0x7fffffff) }

func (g *gen) apply(o op) {
	r, d := g.r, g.d
	if g.timed {
		d.Tick()
	}
	t0 := time.Now()
	switch o.k {
	case "addpipe":
		g.started = true
		g.nextPipe++
		n := g.nextPipe
		pp := mp.NewPipe(uint32(1000+n), n, d.Proto, d.Rec)
		d.Pipes[n] = pp
		if err := pp.Attach(); err == nil {
			g.alive[n] = true
		}
		d.Finish(fmt.Sprintf("SAddPipe %d", n), nil, false, t0)
	case "drop":
		g.alive[o.a] = false
		d.DropPipe(d.Pipes[o.a])
		d.Finish(fmt.Sprintf("SDropPipe %d", o.a), nil, false, t0)
	case "send":
		g.started = true
		c := o.a
		g.nextCall++
		g.nsend++
		t, n := g.nextCall, g.nsend
		if g.be[c] {
			g.beSends++
		}
		body := make([]byte, 3+r.Intn(3))
		r.Read(body)
		binary.BigEndian.PutUint16(body, uint16(n))
		var hdr []byte
		if !g.isReq && !g.isCtx {
			switch {
			case o.b > 0:
				hdr = be32(uint32(1000 + o.b)) // xbus: the pipe that must not get a copy
			case o.b < 0:
				hdr = make([]byte, -o.b)
				r.Read(hdr)
			case r.Intn(4) == 0 && o.c == 0:
				hdr = be32(uint32(1000 + 1 + r.Intn(2)))
			case r.Intn(6) == 0 && o.c == 0:
				hdr = make([]byte, 1+r.Intn(6))
				r.Read(hdr)
			}
		}
		ctx := d.Ctxs[c]
		d.Call(t, func() (*seq.Msg, error) {
			m := mangos.NewMessage(len(body))
			m.Body = append(m.Body, body...)
			m.Header = append(m.Header, hdr...)
			err := ctx.SendMsg(m)
			if err != nil {
				m.Free()
			}
			return nil, err
		})
		d.Finish(fmt.Sprintf("SCall %d (CSend %d %s %s)", t, c, seq.B(hdr), seq.B(body)), nil, false, t0)
	case "recv":
		g.started = true
		c := o.a
		g.nextCall++
		t := g.nextCall
		ctx := d.Ctxs[c]
		d.Call(t, func() (*seq.Msg, error) {
			m, err := ctx.RecvMsg()
			if err != nil {
				return nil, err
			}
			x := &seq.Msg{Header: append([]byte{}, m.Header...), Body: append([]byte{}, m.Body...)}
			m.Free()
			return x, nil
		})
		d.Finish(fmt.Sprintf("SCall %d (CRecv %d)", t, c), nil, false, t0)
	case "deliver":
		g.started = true
		n := o.a
		body := make([]byte, 1+r.Intn(7))
		if o.b > 0 {
			body = make([]byte, o.b)
		}
		r.Read(body)
		var extra []string
		if !d.Pipes[n].Inject(body, 100*time.Millisecond) {
			extra = append(extra, fmt.Sprintf("ONotTaken %d", n))
		}
		d.Finish(fmt.Sprintf("SDeliver %d %s", n, seq.B(body)), extra, false, t0)
	case "request":
		// rep / respondent: a request on pipe o.a; o.b: 0 short (garbled), 1 two hops, else one hop
		g.started = true
		n := o.a
		g.nreq++
		body := make([]byte, 4+2+r.Intn(3))
		r.Read(body)
		body[0] |= 0x80
		binary.BigEndian.PutUint16(body[4:], uint16(g.nreq))
		switch o.b {
		case 0:
			body = body[:1+r.Intn(3)]
		case 1:
			pre := make([]byte, 4)
			r.Read(pre)
			pre[0] &= 0x7f
			body = append(pre, body...)
		}
		var extra []string
		if !d.Pipes[n].Inject(body, 100*time.Millisecond) {
			extra = append(extra, fmt.Sprintf("ONotTaken %d", n))
		}
		d.Finish(fmt.Sprintf("SDeliver %d %s", n, seq.B(body)), extra, false, t0)
	case "closectx":
		g.nextCall++
		t := g.nextCall
		ctx := d.Ctxs[o.a]
		g.closedC[o.a] = true
		d.Call(t, func() (*seq.Msg, error) { return nil, ctx.Close() })
		d.Finish(fmt.Sprintf("SCall %d (CCloseCtx %d)", t, o.a), nil, false, t0)
	case "reply":
		// req: the reply to request o.b on pipe o.a
		n, k := o.a, o.b
		payload := make([]byte, 3+r.Intn(2))
		r.Read(payload)
		binary.BigEndian.PutUint16(payload, uint16(k))
		canon := append(be32(0x80000000|uint32(k)), payload...)
		realb := append(be32(g.real(k)), payload...)
		var extra []string
		if !d.Pipes[n].Inject(realb, 100*time.Millisecond) {
			extra = append(extra, fmt.Sprintf("ONotTaken %d", n))
		}
		d.Finish(fmt.Sprintf("SDeliver %d %s", n, seq.B(canon)), extra, false, t0)
	case "hold":
		g.hold[o.a] = o.b == 1
		d.Pipes[o.a].SetHold(o.b == 1)
		d.Finish(fmt.Sprintf("SHold %d %v", o.a, o.b == 1), nil, false, t0)
	case "release":
		n, ok := o.a, o.b == 1
		if !ok {
			g.alive[n] = false
			d.MarkHarnessClose(d.Pipes[n])
		}
		d.Pipes[n].Release(ok)
		d.Finish(fmt.Sprintf("SRelease %d %v", n, ok), nil, false, t0)
	case "openctx":
		g.nextCtx++
		c := g.nextCtx
		g.nextCall++
		t := g.nextCall
		ctx, err := d.Proto.OpenContext()
		if err == nil {
			d.Ctxs[c] = ctx
			g.be[c] = g.be[0]
		}
		d.Call(t, func() (*seq.Msg, error) { return nil, err })
		d.Finish(fmt.Sprintf("SCall %d (COpenCtx %d)", t, c), nil, false, t0)
	case "closesock":
		g.nextCall++
		t := g.nextCall
		g.closed = true
		d.Call(t, func() (*seq.Msg, error) { return nil, d.Proto.Close() })
		d.Finish(fmt.Sprintf("SCall %d CCloseSock", t), nil, false, t0)
	case "opt":
		c := o.a
		g.nextCall++
		t := g.nextCall
		ctx := d.Ctxs[c]
		var val interface{}
		switch o.b {
		case oRetry, oSD, oRD:
			val = time.Duration(o.c) * time.Millisecond
		case oBE, oFNP:
			val = o.c == 1
		default:
			val = o.c
		}
		name := optNames[o.b]
		err := ctx.SetOption(name, val)
		d.Call(t, func() (*seq.Msg, error) { return nil, err })
		d.Finish(fmt.Sprintf("SCall %d (CSetOpt %d %s %s [])", t, c, optCoq[o.b], zlit(o.c)), nil, false, t0)
		if o.b == oBE && err == nil {
			g.be[c] = o.c == 1
		}
	case "pass":
		g.passes++
		d.NowMs()
		ms := 140
		if o.a > 0 {
			ms = o.a
		}
		time.Sleep(time.Duration(ms) * time.Millisecond)
		d.Finish("SPass", nil, true, t0)
	}
}

func zlit(v int) string {
	if v < 0 {
		return fmt.Sprintf("(%d)%%Z", v)
	}
	return fmt.Sprintf("%d%%Z", v)
}

func main() { l1run.Main(genOne) }
