package main

// Directed histories (minimal schedules for each behaviour C18 names), spread over the workers.

func opt(o, v int) op       { return op{k: "opt", b: o, c: v} }
func optc(c, o, v int) op   { return op{k: "opt", a: c, b: o, c: v} }
func add() op               { return op{k: "addpipe"} }
func drop(n int) op         { return op{k: "drop", a: n} }
func hold(n int) op         { return op{k: "hold", a: n, b: 1} }
func unhold(n int) op       { return op{k: "hold", a: n, b: 0} }
func rel(n int) op          { return op{k: "release", a: n, b: 1} }
func relFail(n int) op      { return op{k: "release", a: n, b: 0} }
func send() op              { return op{k: "send", c: 1} }
func sendc(c int) op        { return op{k: "send", a: c, c: 1} }
func sendExcl(p int) op     { return op{k: "send", b: p, c: 1} }
func sendHdr(n int) op      { return op{k: "send", b: -n, c: 1} }
func recv() op              { return op{k: "recv"} }
func recvc(c int) op        { return op{k: "recv", a: c} }
func deliver(n int) op      { return op{k: "deliver", a: n, b: 6} }
func deliverN(n, l int) op  { return op{k: "deliver", a: n, b: l} }
func pass(ms int) op        { return op{k: "pass", a: ms} }
func closesock() op         { return op{k: "closesock"} }
func openctx() op           { return op{k: "openctx"} }
func reply(n, k int) op     { return op{k: "reply", a: n, b: k} }
func request(n int) op      { return op{k: "request", a: n, b: 5} }
func requestK(n, k int) op  { return op{k: "request", a: n, b: k} }
func closectx(c int) op     { return op{k: "closectx", a: c} }
func sc(f string, o ...op) script { return script{fam: f, ops: o} }

var sharedSenders = []string{"xpair", "xreq", "xpush"}
var receivers = []string{"xpair", "xreq", "xpull", "xbus"}
var bcasters = []string{"xpub", "xbus"}

var untimedScripts, timedScripts []script

func init() {
	u := func(s script) { untimedScripts = append(untimedScripts, s) }
	t := func(s script) { timedScripts = append(timedScripts, s) }

	for _, f := range sharedSenders {
		// queue states empty -> partial -> full; with no deadline a Send on a full queue waits (blocked set); a peer drains it
		u(sc(f, opt(oWQ, 2), send(), send(), send(), send(), add(), send()))
		// best effort never blocks: room (queue or drop), full, held peer
		u(sc(f, opt(oWQ, 1), opt(oBE, 1), send(), send(), send(), add(), send(), hold(1), send(), send(), send()))
		u(sc(f, opt(oWQ, 1), send(), opt(oBE, 1), send(), opt(oBE, 0), send(), opt(oBE, 1), send(), add()))
		// peer connected but stalled, then leaving while a Send is parked, then a new peer
		u(sc(f, opt(oWQ, 1), add(), hold(1), send(), send(), send(), drop(1), add()))
		// unbuffered queue
		u(sc(f, opt(oWQ, 0), send(), add(), send(), hold(1), send(), send(), opt(oBE, 1), send(), rel(1)))
		// Close wakes parked calls
		u(sc(f, opt(oWQ, 1), send(), send(), recv(), closesock(), send(), recv(), opt(oBE, 1), send()))
		// failed transport send
		u(sc(f, opt(oWQ, 1), add(), hold(1), send(), send(), send(), relFail(1), add()))
		// option values: negative durations mean none; unknown options
		u(sc(f, opt(oSD, -5), opt(oRD, -5), opt(oFNP, 1), opt(oWQ, -1), opt(oRQ, -1), opt(oWQ, 1), send(), send(), openctx()))

		// deadline: a Send that can complete at once is not failed; a parked one times out, not early, not late
		t(sc(f, opt(oWQ, 1), opt(oSD, 60), send(), send(), pass(30), pass(140), send()))
		t(sc(f, opt(oWQ, 1), opt(oSD, 60), send(), send(), pass(75)))
		t(sc(f, opt(oWQ, 1), opt(oRD, 100), opt(oSD, 60), send(), send(), pass(75), pass(140)))
		// peer leaving mid-call does not disturb the deadline
		t(sc(f, opt(oWQ, 1), opt(oSD, 100), add(), hold(1), send(), send(), send(), pass(30), drop(1), pass(30), pass(140)))
		// room appears before the deadline: the call succeeds and nothing fires later
		t(sc(f, opt(oWQ, 1), opt(oSD, 100), add(), hold(1), send(), send(), send(), pass(40), rel(1), pass(140)))
		// no deadline: waits; a deadline set later concerns later calls only
		t(sc(f, opt(oWQ, 1), send(), send(), pass(140), opt(oSD, 60), pass(140), send(), pass(140)))
		// best effort overrides the deadline
		t(sc(f, opt(oWQ, 1), opt(oSD, 60), opt(oBE, 1), send(), send(), send(), pass(140), opt(oBE, 0), send(), pass(140)))
		// two parked calls started at different times expire at different times
		t(sc(f, opt(oWQ, 1), opt(oSD, 80), send(), send(), pass(30), send(), pass(55), pass(140)))
	}
	// fail-no-peers (xpush)
	u(sc("xpush", opt(oWQ, 1), opt(oFNP, 1), send(), add(), hold(1), send(), send(), send(), drop(1), send(), opt(oBE, 1), send()))
	u(sc("xpush", opt(oWQ, 1), opt(oFNP, 1), add(), add(), hold(1), hold(2), send(), send(), send(), send(), drop(1), drop(2), send()))
	u(sc("xpush", opt(oWQ, 1), add(), hold(1), send(), send(), send(), opt(oFNP, 1), drop(1)))
	u(sc("xpush", opt(oWQ, 1), opt(oFNP, 1), add(), hold(1), send(), send(), send(), relFail(1)))
	u(sc("xpush", opt(oWQ, 1), opt(oFNP, 1), opt(oFNP, 0), send(), send(), add(), hold(1), send(), send(), drop(1)))
	// the last peer leaves, a peer returns, the last peer leaves again: sends in between behave as with any connected peer
	u(sc("xpush", opt(oWQ, 2), opt(oFNP, 1), add(), send(), drop(1), send(), add(), send(), send(), send(), drop(2), send(), add(), send(), drop(3), closesock()))
	u(sc("xpush", opt(oWQ, 2), opt(oFNP, 1), add(), drop(1), add(), send(), send(), send(), send(), send(), send(), drop(2), add(), closesock()))
	t(sc("xpush", opt(oWQ, 1), opt(oFNP, 1), opt(oSD, 100), add(), hold(1), send(), send(), send(), pass(40), drop(1), pass(140), send()))
	t(sc("xpush", opt(oWQ, 1), opt(oFNP, 1), opt(oSD, 60), add(), hold(1), send(), send(), send(), pass(140), send(), drop(1), pass(140)))

	for _, f := range receivers {
		// receive queue empty / full / overfull; Recv takes at once what is there, waits otherwise
		u(sc(f, opt(oRQ, 1), add(), deliver(1), deliver(1), deliver(1), recv(), recv(), recv(), deliver(1)))
		u(sc(f, opt(oRQ, 0), add(), deliver(1), recv(), recv(), deliver(1), recv()))
		u(sc(f, opt(oRQ, 2), add(), deliver(1), recv(), recv(), drop(1), add(), deliver(2), deliverN(2, 2)))
		u(sc(f, opt(oRQ, 1), add(), recv(), closesock(), recv()))
		u(sc(f, opt(oRQ, 1), add(), deliver(1), closesock(), recv(), recv()))

		t(sc(f, opt(oRD, 80), add(), recv(), pass(40), deliver(1), recv(), pass(140), deliver(1), recv()))
		t(sc(f, opt(oRD, 80), recv(), pass(40), pass(140), recv(), pass(95)))
		t(sc(f, opt(oSD, 100), opt(oRD, 60), recv(), pass(75), pass(140)))
		t(sc(f, opt(oRD, 80), add(), recv(), pass(40), drop(1), pass(140)))
		t(sc(f, recv(), pass(140), opt(oRD, 80), pass(140), recv(), pass(140)))
		t(sc(f, opt(oRD, -5), recv(), pass(140), opt(oRD, 60), recv(), pass(30), pass(140)))
		t(sc(f, opt(oRQ, 1), opt(oRD, 100), add(), deliver(1), deliver(1), recv(), recv(), recv(), pass(40), deliver(1), pass(140)))
		// a queue resize while a Recv is parked (the code re-creates the timer: the deadline starts again)
		t(sc(f, opt(oRD, 80), recv(), pass(40), opt(oRQ, 2), pass(60), pass(140)))
	}
	for _, f := range []string{"xpull", "xbus"} {
		u(sc(f, opt(oRQ, 1), add(), add(), deliver(1), deliver(2), deliver(1), recv(), recv(), recv(), recv(), deliver(2)))
	}
	for _, f := range bcasters {
		// Send never blocks: no peer, stalled peer with empty / partial / full queue
		u(sc(f, send(), opt(oWQ, 1), add(), hold(1), send(), send(), send(), rel(1), rel(1), send(), unhold(1), rel(1), send()))
		u(sc(f, opt(oWQ, 0), add(), send(), hold(1), send(), send(), rel(1), send()))
		u(sc(f, opt(oWQ, 1), add(), add(), hold(1), send(), send(), send(), drop(1), send()))
		u(sc(f, opt(oWQ, 1), add(), opt(oWQ, 2), add(), hold(1), hold(2), send(), send(), send(), send(), rel(1), rel(2)))
		u(sc(f, add(), closesock(), send(), recv()))
		u(sc(f, opt(oSD, 60), opt(oBE, 1), opt(oFNP, 1), opt(oRD, 60), add(), send(), recv()))
		t(sc(f, opt(oWQ, 1), add(), hold(1), send(), send(), send(), pass(140), rel(1), send()))
	}
	u(sc("xbus", add(), add(), sendExcl(1), sendExcl(2), sendExcl(3), sendHdr(3), sendHdr(5), send()))

	// ---- REP / RESPONDENT contexts (Model/DeadlineCtx.v) ----
	for _, f := range []string{"rep", "respondent"} {
		// serve(c): a request arrives on pipe 1, context c receives it and replies
		serve := func(c int) []op { return []op{request(1), recvc(c), sendc(c)} }
		cat := func(parts ...[]op) script {
			var o []op
			for _, p := range parts {
				o = append(o, p...)
			}
			return script{fam: f, ops: o}
		}
		one := func(o ...op) []op { return o }
		// default WRITEQ-LEN 0: the reply waits for the stalled peer; released later; peer leaving drops it (nil)
		u(cat(one(add(), hold(1)), serve(0), serve(0), one(rel(1)), serve(0), one(drop(1), sendc(0), recvc(0))))
		// queue states empty / partial / full with WRITEQ-LEN 2, no deadline: waits; peer leaves mid-call
		u(cat(one(opt(oWQ, 2), add(), hold(1)), serve(0), serve(0), serve(0), serve(0), one(drop(1))))
		// best effort never blocks
		u(cat(one(opt(oWQ, 1), opt(oBE, 1), add(), hold(1)), serve(0), serve(0), serve(0), serve(0), one(opt(oBE, 0)), serve(0), one(rel(1))))
		// contexts: own options, requests go to parked Recvs in order, a context's Close wakes its calls only
		u(cat(one(add(), openctx(), optc(1, oBE, 1), recvc(1), recvc(0), request(1), request(1), sendc(1), sendc(0), recvc(1), recvc(0), closectx(1), recvc(1), sendc(1), closesock(), recvc(0))))
		// option ranges: deadlines <= 0 are rejected
		u(cat(one(opt(oSD, 0), opt(oRD, 0), opt(oSD, -7), opt(oRD, -7), opt(oSD, 3600000), opt(oRD, 3600000), opt(oFNP, 1), opt(oBE, 1), openctx(),
			optc(1, oSD, 0), optc(1, oRD, 0), optc(1, oWQ, 1), optc(1, oRQ, 1), opt(oWQ, -1), opt(oRQ, -1), opt(oRQ, 1), sendc(1), recvc(1), recvc(1), recvc(0))))
		// malformed requests are dropped, a two-hop one is served
		u(cat(one(add(), recvc(0), requestK(1, 0), requestK(1, 1), sendc(0), request(1), request(1), request(1), recvc(0))))
		// failed transport send with a Send parked
		u(cat(one(opt(oWQ, 1), add(), hold(1)), serve(0), serve(0), serve(0), one(relFail(1))))

		// receive deadline: not early, not late, not failing a Recv that can complete; per context
		t(cat(one(opt(oRD, 80), add(), recvc(0), pass(40), request(1), recvc(0), pass(140), request(1), recvc(0), sendc(0))))
		t(cat(one(opt(oRD, 60), openctx(), optc(1, oRD, 100), recvc(0), recvc(1), pass(30), pass(45), pass(140))))
		t(cat(one(opt(oRD, 60), openctx(), recvc(1), pass(30), pass(140), recvc(0), pass(140))))
		t(cat(one(add(), recvc(0), pass(140), opt(oRD, 80), pass(140), request(1), recvc(0), pass(140))))
		// send deadline on a stalled peer: empty / full queue; leaving and released mid-call
		t(cat(one(opt(oSD, 60), add(), hold(1)), serve(0), serve(0), one(pass(30), pass(140))))
		t(cat(one(opt(oWQ, 1), opt(oSD, 100), add(), hold(1)), serve(0), serve(0), serve(0), one(pass(30), drop(1), pass(140))))
		t(cat(one(opt(oWQ, 1), opt(oSD, 100), add(), hold(1)), serve(0), serve(0), serve(0), one(pass(30), rel(1), pass(140))))
		t(cat(one(opt(oRD, 100), opt(oSD, 60), add(), hold(1)), serve(0), serve(0), one(pass(75), pass(140))))
		t(cat(one(opt(oSD, 60), opt(oBE, 1), add(), hold(1)), serve(0), serve(0), one(pass(140), opt(oBE, 0)), serve(0), one(pass(140))))
		t(cat(one(add(), hold(1)), serve(0), serve(0), one(pass(140), opt(oSD, 60), pass(140), closesock())))
	}

	// (RESPONDENT re-creates the timer after a READQ-LEN change as well)
	t(sc("respondent", opt(oRD, 80), recv(), pass(40), opt(oRQ, 2), pass(60), pass(140)))

	// ---- REQ (Model/Req.v): fail-no-peers at entry and when the last peer leaves during the wait ----
	u(sc("req", opt(oFNP, 1), send(), recv(), add(), send(), recv(), drop(1), send(), recv()))
	u(sc("req", opt(oFNP, 1), add(), hold(1), send(), openctx(), sendc(1), recv(), drop(1), recvc(1)))
	u(sc("req", opt(oFNP, 1), add(), add(), send(), recv(), drop(1), drop(2)))
	u(sc("req", add(), hold(1), send(), openctx(), sendc(1), opt(oFNP, 1), optc(1, oFNP, 1), recv(), drop(1)))
	u(sc("req", opt(oFNP, 1), add(), hold(1), send(), openctx(), sendc(1), recv(), relFail(1)))
	u(sc("req", opt(oFNP, 0), send(), opt(oBE, 1), send(), send(), opt(oFNP, 1), send()))
	u(sc("req", add(), hold(1), send(), openctx(), sendc(1), recv(), drop(1), add()))
	// FAIL-NO-PEERS is each context's own setting: set on a context only (its parked Recv fails when the last peer leaves, the
	// socket's own does not), and set on the socket but cleared on the context (the other way round)
	u(sc("req", add(), openctx(), optc(1, oFNP, 1), send(), sendc(1), recv(), recvc(1), drop(1), add()))
	u(sc("req", opt(oFNP, 1), add(), openctx(), optc(1, oFNP, 0), send(), sendc(1), recv(), recvc(1), drop(1), add()))
	t(sc("req", opt(oFNP, 1), opt(oSD, 100), opt(oRD, 100), add(), hold(1), send(), openctx(), sendc(1), recv(), pass(40), drop(1), pass(140)))
	t(sc("req", opt(oFNP, 1), opt(oRD, 80), add(), send(), recv(), pass(40), drop(1), pass(140), send()))
	t(sc("req", opt(oSD, 60), send(), pass(30), pass(140), opt(oSD, 0), add(), send(), opt(oRD, 80), recv(), pass(40), pass(140)))
	t(sc("req", opt(oSD, 100), opt(oRD, 80), add(), send(), reply(1, 1), recv(), send(), recv(), pass(30), reply(1, 2), pass(140)))
	t(sc("req", send(), pass(140), opt(oSD, 60), pass(140), add(), recv(), pass(140)))
	t(sc("req", opt(oSD, 60), opt(oBE, 1), send(), send(), pass(140), opt(oBE, 0), send(), pass(75)))
	t(sc("req", opt(oSD, 100), opt(oRD, 60), add(), send(), recv(), pass(75), pass(140)))
	t(sc("req", opt(oRD, 100), opt(oSD, 60), send(), pass(75), pass(140)))
	// a Send still waiting for a ready pipe and a Recv on the same context: the Recv's deadline passes first; the Send
	// has its own (later) deadline and must not hang beyond it; then the same with a pipe turning up afterwards
	t(sc("req", opt(oSD, 200), opt(oRD, 60), send(), recv(), pass(100), pass(140), pass(140)))
	t(sc("req", opt(oRD, 60), send(), recv(), pass(100), add(), pass(40), send(), recv(), pass(100)))
}
