// consts is translator T2: it re-derives, from the current /repo sources (go/ast) and from the
// running library, the constants and small tables the Rocq theorems quantify over, and writes
// them as Gallina definitions (gen/Consts.v).  Obligations in coq/gen_props/*.v are re-checked
// against them on every run.
package main

import (
	"fmt"
	"go/ast"
	"go/parser"
	"go/token"
	"os"
	"path/filepath"
	"strconv"
	"strings"
	"time"

	"mangosverif/coqgen"

	"go.nanomsg.org/mangos/v3"
	"go.nanomsg.org/mangos/v3/protocol"
	"go.nanomsg.org/mangos/v3/protocol/bus"
	"go.nanomsg.org/mangos/v3/protocol/pair"
	"go.nanomsg.org/mangos/v3/protocol/pair1"
	"go.nanomsg.org/mangos/v3/protocol/pub"
	"go.nanomsg.org/mangos/v3/protocol/pull"
	"go.nanomsg.org/mangos/v3/protocol/push"
	"go.nanomsg.org/mangos/v3/protocol/rep"
	"go.nanomsg.org/mangos/v3/protocol/req"
	"go.nanomsg.org/mangos/v3/protocol/respondent"
	"go.nanomsg.org/mangos/v3/protocol/star"
	"go.nanomsg.org/mangos/v3/protocol/sub"
	"go.nanomsg.org/mangos/v3/protocol/surveyor"
	"go.nanomsg.org/mangos/v3/protocol/xbus"
	"go.nanomsg.org/mangos/v3/protocol/xpair"
	"go.nanomsg.org/mangos/v3/protocol/xpair1"
	"go.nanomsg.org/mangos/v3/protocol/xpub"
	"go.nanomsg.org/mangos/v3/protocol/xpull"
	"go.nanomsg.org/mangos/v3/protocol/xpush"
	"go.nanomsg.org/mangos/v3/protocol/xrep"
	"go.nanomsg.org/mangos/v3/protocol/xreq"
	"go.nanomsg.org/mangos/v3/protocol/xrespondent"
	"go.nanomsg.org/mangos/v3/protocol/xstar"
	"go.nanomsg.org/mangos/v3/protocol/xsub"
	"go.nanomsg.org/mangos/v3/protocol/xsurveyor"
)

var repo = "/repo"

func parseFile(rel string) (*token.FileSet, *ast.File) {
	fset := token.NewFileSet()
	f, err := parser.ParseFile(fset, filepath.Join(repo, rel), nil, 0)
	if err != nil {
		fmt.Fprintln(os.Stderr, "consts: parse", rel, err)
		return fset, nil
	}
	return fset, f
}

func findFunc(f *ast.File, recv, name string) *ast.FuncDecl {
	if f == nil {
		return nil
	}
	for _, d := range f.Decls {
		fd, ok := d.(*ast.FuncDecl)
		if !ok || fd.Name.Name != name {
			continue
		}
		if recv == "" && fd.Recv == nil {
			return fd
		}
		if fd.Recv != nil && len(fd.Recv.List) == 1 {
			t := fd.Recv.List[0].Type
			if st, ok := t.(*ast.StarExpr); ok {
				t = st.X
			}
			if id, ok := t.(*ast.Ident); ok && id.Name == recv {
				return fd
			}
		}
	}
	return nil
}

// hopsParams finds `hops := N` and the first `if hops OP <ttl>` in pipe.receiver.
func hopsParams(rel string) string {
	_, f := parseFile(rel)
	fd := findFunc(f, "pipe", "receiver")
	if fd == nil {
		return "(999, CmpGE) (* receiver not found *)"
	}
	start, op := "", ""
	nIf := 0
	ast.Inspect(fd.Body, func(n ast.Node) bool {
		switch x := n.(type) {
		case *ast.AssignStmt:
			if len(x.Lhs) == 1 && len(x.Rhs) == 1 && x.Tok == token.DEFINE {
				if id, ok := x.Lhs[0].(*ast.Ident); ok && id.Name == "hops" {
					if bl, ok := x.Rhs[0].(*ast.BasicLit); ok {
						start = bl.Value
					}
				}
			}
		case *ast.IfStmt:
			if be, ok := x.Cond.(*ast.BinaryExpr); ok {
				if id, ok := be.X.(*ast.Ident); ok && id.Name == "hops" {
					nIf++
					if nIf == 1 {
						rhs := exprString(be.Y)
						if strings.HasSuffix(rhs, "ttl") {
							op = be.Op.String()
						}
					}
				}
			}
		}
		return true
	})
	c := map[string]string{">=": "CmpGE", ">": "CmpGT"}[op]
	if start == "" || c == "" || nIf != 1 {
		return fmt.Sprintf("(999, CmpGE) (* unrecognised loop: start=%q op=%q ifs=%d *)", start, op, nIf)
	}
	return fmt.Sprintf("(%s, %s)", start, c)
}

// pushSignal looks at xpush SendMsg: after the select that puts the message on sendQ, is the forwarding goroutine's
// condition variable signalled by a statement of the function body itself (not nested in an if / for / switch), and
// with which call.  Model/Wakeup.v's [cond] = false is exactly that shape.
func pushSignal() string {
	_, f := parseFile("protocol/xpush/xpush.go")
	fd := findFunc(f, "socket", "SendMsg")
	if fd == nil {
		return `(false, "SendMsg not found")`
	}
	seenSelect := false
	for _, st := range fd.Body.List {
		if sel, ok := st.(*ast.SelectStmt); ok {
			ast.Inspect(sel, func(n ast.Node) bool {
				if ss, ok := n.(*ast.SendStmt); ok && strings.HasSuffix(exprString(ss.Chan), "sendQ") {
					seenSelect = true
				}
				return true
			})
			continue
		}
		if !seenSelect {
			continue
		}
		if es, ok := st.(*ast.ExprStmt); ok {
			if call, ok := es.X.(*ast.CallExpr); ok {
				if se, ok := call.Fun.(*ast.SelectorExpr); ok && strings.HasSuffix(exprString(se.X), "cv") &&
					(se.Sel.Name == "Signal" || se.Sel.Name == "Broadcast") {
					return fmt.Sprintf("(true, %q)", se.Sel.Name)
				}
			}
		}
	}
	if !seenSelect {
		return `(false, "no send to sendQ in a select")`
	}
	return `(false, "no unconditional Signal after the enqueue")`
}

func exprString(e ast.Expr) string {
	switch x := e.(type) {
	case *ast.Ident:
		return x.Name
	case *ast.SelectorExpr:
		return exprString(x.X) + "." + x.Sel.Name
	}
	return "?"
}

// poolTable reads messageCache's maxbody literals and NewMessage's comparison operator.
func poolTable() (string, string, string) {
	_, f := parseFile("message.go")
	var sizes, news []string
	op := "?"
	if f != nil {
		ast.Inspect(f, func(n ast.Node) bool {
			switch x := n.(type) {
			case *ast.KeyValueExpr:
				if id, ok := x.Key.(*ast.Ident); ok && id.Name == "maxbody" {
					if bl, ok := x.Value.(*ast.BasicLit); ok {
						sizes = append(sizes, bl.Value)
					}
				}
			case *ast.CallExpr:
				if id, ok := x.Fun.(*ast.Ident); ok && id.Name == "newMsg" && len(x.Args) == 1 {
					if bl, ok := x.Args[0].(*ast.BasicLit); ok {
						news = append(news, bl.Value)
					}
				}
			}
			return true
		})
		if fd := findFunc(f, "", "NewMessage"); fd != nil {
			ast.Inspect(fd.Body, func(n ast.Node) bool {
				if be, ok := n.(*ast.BinaryExpr); ok {
					if id, ok := be.X.(*ast.Ident); ok && id.Name == "sz" {
						// the right-hand side must be exactly <table>[i].maxbody, else we do not understand the test
						if se, ok := be.Y.(*ast.SelectorExpr); ok && se.Sel.Name == "maxbody" {
							if _, ok := se.X.(*ast.IndexExpr); ok {
								op = be.Op.String()
							}
						}
					}
				}
				return true
			})
		}
	}
	return coqgen.List(sizes), coqgen.List(news), op
}

type pinfo struct {
	name string
	mk   func() protocol.Protocol
}

var protos = []pinfo{
	{"pair", pair.NewProtocol}, {"xpair", xpair.NewProtocol}, {"pair1", pair1.NewProtocol}, {"xpair1", xpair1.NewProtocol},
	{"pub", pub.NewProtocol}, {"xpub", xpub.NewProtocol}, {"sub", sub.NewProtocol}, {"xsub", xsub.NewProtocol},
	{"req", req.NewProtocol}, {"xreq", xreq.NewProtocol}, {"rep", rep.NewProtocol}, {"xrep", xrep.NewProtocol},
	{"push", push.NewProtocol}, {"xpush", xpush.NewProtocol}, {"pull", pull.NewProtocol}, {"xpull", xpull.NewProtocol},
	{"surveyor", surveyor.NewProtocol}, {"xsurveyor", xsurveyor.NewProtocol},
	{"respondent", respondent.NewProtocol}, {"xrespondent", xrespondent.NewProtocol},
	{"bus", bus.NewProtocol}, {"xbus", xbus.NewProtocol}, {"star", star.NewProtocol}, {"xstar", xstar.NewProtocol},
}

func optZ(p protocol.Protocol, name string) string {
	v, err := p.GetOption(name)
	if err != nil {
		return "None"
	}
	switch x := v.(type) {
	case int:
		return fmt.Sprintf("(Some %s)", coqgen.Z(int64(x)))
	case time.Duration:
		return fmt.Sprintf("(Some %s)", coqgen.Z(int64(x)))
	case bool:
		if x {
			return "(Some 1%Z)"
		}
		return "(Some 0%Z)"
	}
	return "None"
}

func main() {
	if len(os.Args) < 2 {
		fmt.Fprintln(os.Stderr, "usage: consts <out.v> [repo]")
		os.Exit(2)
	}
	if len(os.Args) > 2 {
		repo = os.Args[2]
	}
	w := coqgen.Create(os.Args[1])
	defer w.Close()
	w.P("(* GENERATED by harness/cmd/consts from %s -- do not edit *)", repo)
	w.P("From MV Require Import Lib.Bytes Model.Hops.")
	w.P("Open Scope string_scope. Open Scope N_scope.")
	for _, r := range []string{"rep", "xrep", "respondent", "xrespondent"} {
		w.P("Definition gen_%s_params : N * cmp := %s.", r, hopsParams("protocol/"+r+"/"+r+".go"))
	}
	sizes, news, op := poolTable()
	w.P("Definition gen_pool_maxbody : list N := %s.", sizes)
	w.P("Definition gen_pool_newmsg : list N := %s.", news)
	w.P("Definition gen_pool_cmp : string := %s.", strconv.Quote(op))

	w.P("Definition gen_push_signal : bool * string := %s.", pushSignal())

	// protocol registry and defaults, obtained by running the constructors
	var items []string
	for _, pi := range protos {
		p := pi.mk()
		in := p.Info()
		items = append(items, fmt.Sprintf("(%q, %d, %d, %q, %q, %s, %s, %s, %s, %s)", pi.name, in.Self, in.Peer, in.SelfName, in.PeerName,
			optZ(p, mangos.OptionTTL), optZ(p, mangos.OptionReadQLen), optZ(p, mangos.OptionWriteQLen),
			optZ(p, mangos.OptionRetryTime), optZ(p, mangos.OptionSurveyTime)))
		_ = p.Close()
	}
	w.Def("gen_protocols", "list (string * N * N * string * string * option Z * option Z * option Z * option Z * option Z)", items)
	s, _ := req.NewSocket()
	w.P("Definition gen_max_recv_size : option Z := %s.", sockOptZ(s, mangos.OptionMaxRecvSize))
	w.P("Definition gen_reconnect_time : option Z := %s.", sockOptZ(s, mangos.OptionReconnectTime))
	w.P("Definition gen_max_reconnect_time : option Z := %s.", sockOptZ(s, mangos.OptionMaxReconnectTime))
	_ = s.Close()
}

func sockOptZ(s mangos.Socket, name string) string {
	v, err := s.GetOption(name)
	if err != nil {
		return "None"
	}
	switch x := v.(type) {
	case int:
		return fmt.Sprintf("(Some %s)", coqgen.Z(int64(x)))
	case time.Duration:
		return fmt.Sprintf("(Some %s)", coqgen.Z(int64(x)))
	}
	return "None"
}
