// l1survey: SURVEYOR (default), XSURVEYOR (L1_MODE=raw) and RESPONDENT (L1_MODE=resp, judged by an oracle only)
// histories (see harness/l1run).
package main

import (
	"encoding/binary"
	"fmt"
	"math/rand"
	"os"
	"reflect"
	"sync"
	"time"
	"unsafe"

	"mangosverif/l1run"
	"mangosverif/mp"
	"mangosverif/seq"

	"go.nanomsg.org/mangos/v3"
	"go.nanomsg.org/mangos/v3/protocol/respondent"
	"go.nanomsg.org/mangos/v3/protocol/surveyor"
	"go.nanomsg.org/mangos/v3/protocol/xsurveyor"
)

const (
	shortSurvey = 80 // ms
	shortRecv   = 50
	passMs      = 140
	maxGapMs    = 12 // a non-sleeping step of a timed history that took longer endangers the model's timer tolerance
	longMs      = 3600000
)

var rawMode = os.Getenv("L1_MODE") == "raw"
var respMode = os.Getenv("L1_MODE") == "resp"

type sgen struct {
	r          *rand.Rand
	d          *seq.Driver
	timed      bool
	raw        bool
	base       uint32
	haveB      bool
	nsend      int         // SendMsg calls so far
	lastID     map[int]int // ctx -> id of its latest Send call
	prevID     map[int]int // ctx -> the one before
	ids        []int
	alive      map[int]bool
	dropped    []int
	hold       map[int]bool
	nextPipe   int
	nextCtx    int
	nextCall   int
	closedCtx  map[int]bool
	sockClosed bool
	lastResp   []byte
	passes     int
	recvCtx    map[int]int // Recv call -> context
	// RESPONDENT mode
	mu       sync.Mutex
	nsurv    int
	lastRecv map[int]int // context -> number of the survey its latest Recv returned
}

type op struct {
	k       string
	a, b, c int
}

func be32(v uint32) []byte { b := make([]byte, 4); binary.BigEndian.PutUint32(b, v); return b }

func (g *sgen) real(k int) uint32 { return 0x80000000 | ((g.base + uint32(k)) & 0x7fffffff) }

// canonOf renames the id word of a body the peer sends (cooked mode): real id -> index of the SendMsg call.
func (g *sgen) canonOf(realb []byte) []byte {
	if g.raw || len(realb) < 4 || !g.haveB {
		return realb
	}
	id := binary.BigEndian.Uint32(realb)
	k := (id - g.base) & 0x7fffffff
	return append(be32((id&0x80000000)|k), realb[4:]...)
}

var scriptIdx = map[bool]int{}

func gen(r *rand.Rand, timed bool) (string, string, string) {
	if respMode {
		return genResp(r)
	}
	var script []op
	scripts := cookedScripts
	switch {
	case rawMode && timed:
		scripts = rawTimedScripts
	case rawMode:
		scripts = rawScripts
	case timed:
		scripts = cookedTimedScripts
	}
	if i := scriptIdx[timed]; i < len(scripts) && l1run.ScriptsEnabled {
		script = scripts[i]
		scriptIdx[timed] = i + 1
	}
	var p mangos.ProtocolBase
	g := &sgen{r: r, timed: timed, raw: rawMode, lastID: map[int]int{}, prevID: map[int]int{}, alive: map[int]bool{}, hold: map[int]bool{},
		closedCtx: map[int]bool{}, recvCtx: map[int]int{}}
	if rawMode {
		p = xsurveyor.NewProtocol()
	} else {
		p = surveyor.NewProtocol()
		// the id the next survey will get is nextID+1: read the (unexported) start value; if the field is not there the
		// base is learnt from the first transmission instead
		if v := reflect.ValueOf(p); v.Kind() == reflect.Ptr && v.Elem().Kind() == reflect.Struct {
			if f := v.Elem().FieldByName("nextID"); f.IsValid() && f.Kind() == reflect.Uint32 {
				// one history in four starts a few surveys before the 32-bit counter wraps (a long-lived socket gets there)
				if r.Intn(4) == 0 && f.CanAddr() {
					nv := uint32(0xfffffffa) + uint32(r.Intn(6))
					reflect.NewAt(f.Type(), unsafe.Pointer(f.UnsafeAddr())).Elem().SetUint(uint64(nv))
				}
				g.base = uint32(f.Uint()) & 0x7fffffff
				g.haveB = true
			}
		}
	}
	d := seq.NewDriver(p)
	g.d = d
	d.CanonTx = func(pipe int, hdr, body []byte) ([]byte, []byte) {
		if g.raw {
			return hdr, body
		}
		if len(hdr) == 4 && len(body) >= 2 {
			realID := binary.BigEndian.Uint32(hdr)
			if !g.haveB {
				g.base = ((realID & 0x7fffffff) - uint32(binary.BigEndian.Uint16(body))) & 0x7fffffff
				g.haveB = true
			}
			return g.canonOf(hdr), body
		}
		return hdr, body
	}
	d.CanonRet = func(hdr, body []byte) ([]byte, []byte) { return g.canonOf(hdr), body }
	if script != nil {
		for _, o := range script {
			if d.Bad == "" {
				g.apply(o)
			}
		}
	} else {
		// the default SURVEY-TIME is one second: histories without a clock never let it run out
		switch {
		case g.raw:
		case !timed:
			g.apply(op{k: "opt", a: 0, b: 0, c: longMs})
		case r.Intn(4) != 0:
			g.apply(op{k: "opt", a: 0, b: 0, c: shortSurvey})
		}
		nsteps := 12 + r.Intn(25)
		for i := 0; i < nsteps && d.Bad == ""; i++ {
			g.stepOnce()
		}
	}
	if d.Stuck {
		// goroutines are parked on the socket mutex: Close would park this one too
		return d.Coq(), "", "STUCK: " + d.Bad
	}
	// release everything
	_ = p.Close()
	for _, pp := range d.Pipes {
		_ = pp.Close()
	}
	seq.Quiesce(500 * time.Millisecond)
	if d.Stuck {
		return d.Coq(), "", "STUCK: " + d.Bad
	}
	if d.Bad != "" {
		return "", d.Bad, ""
	}
	if timed && d.MaxGap > maxGapMs*time.Millisecond {
		return "", fmt.Sprintf("a step took %v", d.MaxGap), ""
	}
	return d.Coq(), "", ""
}

func (g *sgen) ctxs() []int {
	var cs []int
	for c := 0; c <= g.nextCtx; c++ {
		if _, ok := g.d.Ctxs[c]; ok {
			cs = append(cs, c)
		}
	}
	return cs
}

func (g *sgen) pickCtx() int { cs := g.ctxs(); return cs[g.r.Intn(len(cs))] }

// blockedOn counts the Recv calls still blocked on context c.
func (g *sgen) blockedOn(c int) int {
	n := 0
	if k := len(g.d.Steps); k > 0 {
		for _, t := range g.d.Steps[k-1].Blocked {
			if cc, ok := g.recvCtx[t]; ok && cc == c {
				n++
			}
		}
	}
	return n
}

func (g *sgen) alivePipes() []int {
	var ps []int
	for p := 1; p <= g.nextPipe; p++ {
		if g.alive[p] {
			ps = append(ps, p)
		}
	}
	return ps
}

// random choice of the next operation (false: not applicable now)
func (g *sgen) choose() (op, bool) {
	r := g.r
	w := r.Intn(100)
	if g.timed && g.passes < 4 && r.Intn(9) == 0 {
		w = 99
	}
	switch {
	case w < 10:
		return op{k: "addpipe"}, g.nextPipe < 3
	case w < 14:
		ps := g.alivePipes()
		if len(ps) == 0 {
			return op{}, false
		}
		return op{k: "drop", a: ps[r.Intn(len(ps))]}, true
	case w < 32:
		return op{k: "send", a: g.pickCtx()}, true
	case w < 47:
		// several Recv calls blocked on one queue: which of them gets the next message is the Go runtime's choice, so mostly avoided
		c := g.pickCtx()
		if g.raw {
			return op{k: "recv", a: c}, g.blockedOn(c) == 0 || r.Intn(15) == 0
		}
		return op{k: "recv", a: c}, g.blockedOn(c) == 0 || r.Intn(6) == 0
	case w < 71:
		ps := g.alivePipes()
		if len(g.dropped) > 0 && r.Intn(12) == 0 {
			ps = g.dropped
		}
		if len(ps) == 0 {
			return op{}, false
		}
		if g.raw && g.sockClosed && r.Intn(4) != 0 {
			// XSURVEYOR's RecvMsg after Close chooses at random between a queued message and ErrClosed
			return op{}, false
		}
		n := ps[r.Intn(len(ps))]
		if g.alive[n] && !g.d.Pipes[n].Receiving() && (g.timed || r.Intn(4) != 0) {
			// the receiver goroutine is blocked with the previous message: an injection waits 100 ms in vain
			return op{}, false
		}
		return op{k: "resp", a: n, b: r.Intn(20), c: g.pickCtx()}, true
	case w < 76:
		ps := g.alivePipes()
		if len(ps) == 0 {
			return op{}, false
		}
		n := ps[r.Intn(len(ps))]
		h := 0
		if !g.hold[n] {
			h = 1
		}
		return op{k: "hold", a: n, b: h}, true
	case w < 83:
		var cand []int
		for _, n := range g.alivePipes() {
			if g.d.Pipes[n].Pending() > 0 {
				cand = append(cand, n)
			}
		}
		if len(cand) == 0 {
			return op{}, false
		}
		ok := 1
		if r.Intn(5) == 0 {
			ok = 0
		}
		return op{k: "release", a: cand[r.Intn(len(cand))], b: ok}, true
	case w < 87:
		if g.raw {
			return op{k: "openctx"}, r.Intn(4) == 0
		}
		return op{k: "openctx"}, g.nextCtx < 2 && (!g.sockClosed || r.Intn(3) == 0)
	case w < 89:
		c := g.pickCtx()
		return op{k: "closectx", a: c}, c != 0
	case w < 90:
		return op{k: "closesock"}, true
	case w < 97:
		o := []int{0, 1, 1, 2, 2, 3, 3, 3, 4}[r.Intn(9)]
		if g.raw && o == 0 {
			o = 1 + r.Intn(3)
		}
		v := 0
		switch o {
		case 0:
			if g.timed {
				v = []int{shortSurvey, shortSurvey, shortSurvey, longMs, 1000, 0}[r.Intn(6)]
			} else {
				v = []int{longMs, longMs, longMs, longMs, longMs, 0, 0, -5}[r.Intn(8)]
			}
		case 1:
			if g.timed {
				v = []int{shortRecv, shortRecv, shortRecv, 0, longMs}[r.Intn(5)]
			} else {
				v = []int{0, longMs}[r.Intn(2)]
			}
		case 2:
			v = []int{0, 1, 1, 2, 2, 128, -1}[r.Intn(7)]
			if g.raw && g.timed {
				v = []int{128, 64}[r.Intn(2)]
			}
		case 3:
			v = []int{0, 1, 1, 2, 128, -1}[r.Intn(6)]
		}
		c := g.pickCtx()
		if o == 3 && r.Intn(4) != 0 {
			c = 0
		}
		return op{k: "opt", a: c, b: o, c: v}, true
	default:
		if !g.timed || g.passes >= 4 {
			return op{}, false
		}
		return op{k: "pass", a: []int{passMs, passMs, 40, 60}[r.Intn(4)]}, true
	}
}

func (g *sgen) stepOnce() {
	for {
		if o, ok := g.choose(); ok {
			g.apply(o)
			return
		}
	}
}

var optNames = []string{mangos.OptionSurveyTime, mangos.OptionRecvDeadline, mangos.OptionReadQLen, mangos.OptionWriteQLen, mangos.OptionRetryTime}
var optCoq = []string{"OSurveyTime", "ORecvDeadline", "OReadQLen", "OWriteQLen", "ORetryTime"}

func zlit(v int) string {
	if v < 0 {
		return fmt.Sprintf("(%d)%%Z", v)
	}
	return fmt.Sprintf("%d%%Z", v)
}

// sync runs a stimulus that the driver performs on its own goroutine (AddPipe, RemovePipe and OpenContext take the socket
// lock): if it does not return, the socket is wedged and the history ends as STUCK instead of hanging the worker.
func (g *sgen) sync(f func()) {
	done := make(chan struct{})
	go func() { f(); close(done) }()
	select {
	case <-done:
	case <-time.After(3 * time.Second):
		g.d.Stuck = true
		g.d.Bad = "a stimulus made on the driver's goroutine did not return within 3s (socket lock never released)"
	}
}

// apply executes one operation and records the step.
func (g *sgen) apply(o op) {
	r, d := g.r, g.d
	if g.timed && o.k != "pass" {
		d.Tick()
	}
	t0 := time.Now()
	switch o.k {
	case "addpipe":
		g.nextPipe++
		n := g.nextPipe
		pp := mp.NewPipe(uint32(1000+n), n, d.Proto, d.Rec)
		d.Pipes[n] = pp
		g.sync(func() {
			if err := pp.Attach(); err == nil {
				g.alive[n] = true
			}
		})
		d.Finish(fmt.Sprintf("SAddPipe %d", n), nil, false, t0)
	case "drop":
		n := o.a
		g.alive[n] = false
		g.dropped = append(g.dropped, n)
		g.sync(func() { d.DropPipe(d.Pipes[n]) })
		d.Finish(fmt.Sprintf("SDropPipe %d", n), nil, false, t0)
	case "send":
		c := o.a
		g.nextCall++
		g.nsend++
		t, n := g.nextCall, g.nsend
		body := make([]byte, 3+r.Intn(3))
		r.Read(body)
		binary.BigEndian.PutUint16(body, uint16(n))
		var hdr []byte
		if g.raw {
			switch r.Intn(6) {
			case 0:
			case 1:
				hdr = make([]byte, 1+r.Intn(8))
				r.Read(hdr)
			default:
				hdr = be32(0x80000000 | uint32(n))
			}
		}
		if p, ok := g.lastID[c]; ok {
			g.prevID[c] = p
		}
		g.lastID[c] = n
		g.ids = append(g.ids, n)
		ctx := d.Ctxs[c]
		d.Call(t, func() (*seq.Msg, error) {
			m := mangos.NewMessage(len(body))
			m.Body = append(m.Body, body...)
			m.Header = append(m.Header, hdr...)
			err := ctx.SendMsg(m)
			if err != nil {
				m.Free()
			}
			return nil, err
		})
		d.Finish(fmt.Sprintf("SCall %d (CSend %d %s %s)", t, c, seq.B(hdr), seq.B(body)), nil, false, t0)
	case "recv":
		c := o.a
		g.nextCall++
		t := g.nextCall
		g.recvCtx[t] = c
		ctx := d.Ctxs[c]
		d.Call(t, func() (*seq.Msg, error) {
			m, err := ctx.RecvMsg()
			if err != nil {
				return nil, err
			}
			r := &seq.Msg{Header: append([]byte{}, m.Header...), Body: append([]byte{}, m.Body...)}
			m.Free()
			return r, nil
		})
		d.Finish(fmt.Sprintf("SCall %d (CRecv %d)", t, c), nil, false, t0)
	case "resp":
		// o.b: kind (0 short body, 1 duplicate of the last response, 2 never-issued id, 3 id without the survey bit, 4 an id not issued yet,
		//      5 the context's previous survey, 6-7 any issued id, else the current survey of context o.c; 100+k: exactly id k;
		//      200+k: id k without the survey bit; 300+n: n arbitrary bytes)
		n := o.a
		var realb []byte
		payload := make([]byte, 3+r.Intn(2))
		r.Read(payload)
		kind := o.b
		mk := func(k int, bit uint32) {
			binary.BigEndian.PutUint16(payload, uint16(k))
			if g.raw {
				realb = append(be32(bit|uint32(k)), payload...)
			} else {
				realb = append(be32((g.real(k)&0x7fffffff)|bit), payload...)
			}
		}
		anyID := func() int {
			if len(g.ids) == 0 {
				return g.nsend + 900
			}
			return g.ids[r.Intn(len(g.ids))]
		}
		switch {
		case kind >= 300:
			realb = make([]byte, kind-300)
			r.Read(realb)
		case kind >= 200:
			mk(kind-200, 0)
		case kind >= 100:
			mk(kind-100, 0x80000000)
		case !g.haveB && !g.raw, kind == 0:
			realb = make([]byte, r.Intn(4))
			r.Read(realb)
		case kind == 1 && g.lastResp != nil:
			realb = g.lastResp
		case kind == 2:
			mk(g.nsend+500+r.Intn(100), 0x80000000)
		case kind == 3:
			mk(anyID(), 0)
		case kind == 4:
			mk(g.nsend+1+r.Intn(2), 0x80000000)
		case kind == 5:
			k, ok := g.prevID[o.c]
			if !ok {
				k = anyID()
			}
			mk(k, 0x80000000)
		case kind < 8:
			mk(anyID(), 0x80000000)
		default:
			k, ok := g.lastID[o.c]
			if !ok {
				k = g.nsend + 700
			}
			mk(k, 0x80000000)
		}
		g.lastResp = realb
		canon := g.canonOf(realb)
		var extra []string
		if !d.Pipes[n].Inject(realb, 100*time.Millisecond) {
			extra = append(extra, fmt.Sprintf("ONotTaken %d", n))
		}
		d.Finish(fmt.Sprintf("SDeliver %d %s", n, seq.B(canon)), extra, false, t0)
	case "hold":
		g.hold[o.a] = o.b == 1
		d.Pipes[o.a].SetHold(o.b == 1)
		d.Finish(fmt.Sprintf("SHold %d %v", o.a, o.b == 1), nil, false, t0)
	case "release":
		n, ok := o.a, o.b == 1
		if !ok {
			g.alive[n] = false
			g.dropped = append(g.dropped, n)
			d.MarkHarnessClose(d.Pipes[n])
		}
		d.Pipes[n].Release(ok)
		d.Finish(fmt.Sprintf("SRelease %d %v", n, ok), nil, false, t0)
	case "openctx":
		g.nextCall++
		t := g.nextCall
		var ctx mangos.ProtocolContext
		var err error = mangos.ErrClosed
		g.sync(func() { ctx, err = d.Proto.OpenContext() })
		c := g.nextCtx + 1
		if err == nil {
			g.nextCtx = c
			d.Ctxs[c] = ctx
		}
		d.Call(t, func() (*seq.Msg, error) { return nil, err })
		d.Finish(fmt.Sprintf("SCall %d (COpenCtx %d)", t, c), nil, false, t0)
	case "closectx":
		g.nextCall++
		t := g.nextCall
		ctx := d.Ctxs[o.a]
		d.Call(t, func() (*seq.Msg, error) { return nil, ctx.Close() })
		d.Finish(fmt.Sprintf("SCall %d (CCloseCtx %d)", t, o.a), nil, false, t0)
	case "closesock":
		g.nextCall++
		t := g.nextCall
		g.sockClosed = true
		d.Call(t, func() (*seq.Msg, error) { return nil, d.Proto.Close() })
		d.Finish(fmt.Sprintf("SCall %d CCloseSock", t), nil, false, t0)
	case "opt":
		c := o.a
		g.nextCall++
		t := g.nextCall
		ctx := d.Ctxs[c]
		var val interface{}
		if o.b == 2 || o.b == 3 {
			val = o.c
		} else {
			val = time.Duration(o.c) * time.Millisecond
		}
		name := optNames[o.b]
		d.Call(t, func() (*seq.Msg, error) { return nil, ctx.SetOption(name, val) })
		d.Finish(fmt.Sprintf("SCall %d (CSetOpt %d %s %s [])", t, c, optCoq[o.b], zlit(o.c)), nil, false, t0)
	case "pass":
		g.passes++
		d.NowMs()
		ms := passMs
		if o.a > 0 {
			ms = o.a
		}
		time.Sleep(time.Duration(ms) * time.Millisecond)
		d.Finish("SPass", nil, true, t0)
	}
}

func long0() op { return op{k: "opt", a: 0, b: 0, c: longMs} }

// directed histories that run before the generated ones (minimal schedules for each behaviour C07 names)
var cookedScripts = [][]op{
	// two respondents answer the current survey; a new survey abandons the old one (blocked Recv is cancelled), its late response is dropped
	{long0(), {k: "addpipe"}, {k: "addpipe"}, {k: "send", a: 0}, {k: "recv", a: 0}, {k: "resp", a: 1, b: 101}, {k: "resp", a: 2, b: 101},
		{k: "recv", a: 0}, {k: "recv", a: 0}, {k: "send", a: 0}, {k: "resp", a: 1, b: 101}, {k: "recv", a: 0}, {k: "resp", a: 2, b: 102}, {k: "recv", a: 0},
		{k: "resp", a: 1, b: 1}, {k: "resp", a: 1, b: 102}},
	// three contexts, responses crossed and duplicated: each goes to the context that asked
	{long0(), {k: "addpipe"}, {k: "openctx"}, {k: "openctx"}, {k: "send", a: 0}, {k: "send", a: 1}, {k: "send", a: 2}, {k: "resp", a: 1, b: 102},
		{k: "recv", a: 0}, {k: "recv", a: 2}, {k: "recv", a: 1}, {k: "resp", a: 1, b: 101}, {k: "resp", a: 1, b: 103}, {k: "resp", a: 1, b: 101},
		{k: "recv", a: 1}, {k: "recv", a: 0}, {k: "send", a: 1}, {k: "resp", a: 1, b: 102}, {k: "resp", a: 1, b: 104}, {k: "recv", a: 1}},
	// malformed headers: 0..3 bytes, id without the survey bit, never-issued and not-yet-issued ids
	{long0(), {k: "addpipe"}, {k: "send", a: 0}, {k: "recv", a: 0}, {k: "resp", a: 1, b: 300}, {k: "resp", a: 1, b: 301}, {k: "resp", a: 1, b: 302},
		{k: "resp", a: 1, b: 303}, {k: "resp", a: 1, b: 201}, {k: "resp", a: 1, b: 2}, {k: "resp", a: 1, b: 102}, {k: "send", a: 0}, {k: "recv", a: 0},
		{k: "resp", a: 1, b: 202}, {k: "resp", a: 1, b: 101}, {k: "resp", a: 1, b: 102}},
	// Recv with no survey; context close and socket close while blocked
	{long0(), {k: "addpipe"}, {k: "recv", a: 0}, {k: "openctx"}, {k: "recv", a: 1}, {k: "send", a: 1}, {k: "recv", a: 1}, {k: "recv", a: 0},
		{k: "closectx", a: 1}, {k: "recv", a: 1}, {k: "send", a: 1}, {k: "resp", a: 1, b: 101}, {k: "send", a: 0}, {k: "recv", a: 0}, {k: "recv", a: 0},
		{k: "closesock"}, {k: "recv", a: 0}, {k: "send", a: 0}, {k: "resp", a: 1, b: 102}, {k: "openctx"}},
	// per-pipe send queues: one message in the held send, WRITEQ-LEN more queued, the rest dropped; each pipe gets each survey at most once
	{long0(), {k: "opt", a: 0, b: 3, c: 1}, {k: "addpipe"}, {k: "addpipe"}, {k: "hold", a: 1, b: 1}, {k: "send", a: 0}, {k: "send", a: 0}, {k: "send", a: 0},
		{k: "release", a: 1, b: 1}, {k: "hold", a: 1, b: 0}, {k: "release", a: 1, b: 1}, {k: "send", a: 0}, {k: "opt", a: 0, b: 3, c: 0}, {k: "addpipe"},
		{k: "hold", a: 3, b: 1}, {k: "send", a: 0}, {k: "send", a: 0}, {k: "release", a: 3, b: 0}, {k: "send", a: 0}, {k: "drop", a: 2}, {k: "send", a: 0}},
	// READQ-LEN 1 and 0: the survey's queue is bounded
	{long0(), {k: "opt", a: 0, b: 2, c: 1}, {k: "addpipe"}, {k: "send", a: 0}, {k: "resp", a: 1, b: 101}, {k: "resp", a: 1, b: 101}, {k: "recv", a: 0},
		{k: "recv", a: 0}, {k: "resp", a: 1, b: 101}, {k: "opt", a: 0, b: 2, c: 0}, {k: "send", a: 0}, {k: "resp", a: 1, b: 102}, {k: "recv", a: 0},
		{k: "resp", a: 1, b: 102}, {k: "recv", a: 0}},
	// SURVEY-TIME 0 is documented as "infinite"
	{long0(), {k: "addpipe"}, {k: "opt", a: 0, b: 0, c: 0}, {k: "send", a: 0}, {k: "recv", a: 0}, {k: "resp", a: 1, b: 101}, {k: "recv", a: 0}},
	// two Recv calls on one context; a new survey while both are blocked
	{long0(), {k: "addpipe"}, {k: "send", a: 0}, {k: "recv", a: 0}, {k: "recv", a: 0}, {k: "send", a: 0}, {k: "recv", a: 0}, {k: "recv", a: 0}, {k: "closesock"}},
}

var cookedTimedScripts = [][]op{
	// a Recv blocked at expiry returns; Recv after expiry fails at once; late responses are dropped; queued ones are discarded at expiry
	{{k: "opt", a: 0, b: 0, c: shortSurvey}, {k: "addpipe"}, {k: "send", a: 0}, {k: "recv", a: 0}, {k: "pass"}, {k: "recv", a: 0}, {k: "resp", a: 1, b: 101},
		{k: "send", a: 0}, {k: "resp", a: 1, b: 102}, {k: "pass"}, {k: "recv", a: 0}},
	// receive deadline before the survey time
	{{k: "opt", a: 0, b: 0, c: shortSurvey}, {k: "opt", a: 0, b: 1, c: shortRecv}, {k: "addpipe"}, {k: "send", a: 0}, {k: "recv", a: 0}, {k: "pass"},
		{k: "recv", a: 0}, {k: "send", a: 0}, {k: "pass", a: 55}, {k: "recv", a: 0}, {k: "pass"}},
	// answered within the survey time, then expiry
	{{k: "opt", a: 0, b: 0, c: shortSurvey}, {k: "addpipe"}, {k: "send", a: 0}, {k: "pass", a: 40}, {k: "resp", a: 1, b: 101}, {k: "recv", a: 0}, {k: "recv", a: 0},
		{k: "pass"}, {k: "recv", a: 0}},
	// a new survey has its own time: the abandoned survey's timer must not end it
	{{k: "opt", a: 0, b: 0, c: shortSurvey}, {k: "addpipe"}, {k: "send", a: 0}, {k: "pass", a: 55}, {k: "send", a: 0}, {k: "pass", a: 50}, {k: "recv", a: 0},
		{k: "resp", a: 1, b: 102}, {k: "pass"}, {k: "recv", a: 0}},
	// contexts with different survey times
	{{k: "opt", a: 0, b: 0, c: longMs}, {k: "addpipe"}, {k: "openctx"}, {k: "opt", a: 1, b: 0, c: shortSurvey}, {k: "send", a: 0}, {k: "send", a: 1}, {k: "recv", a: 0},
		{k: "recv", a: 1}, {k: "pass"}, {k: "resp", a: 1, b: 102}, {k: "resp", a: 1, b: 101}, {k: "recv", a: 1}},
	// the default survey time (one second)
	{{k: "addpipe"}, {k: "send", a: 0}, {k: "pass"}, {k: "resp", a: 1, b: 101}, {k: "recv", a: 0}, {k: "recv", a: 0}, {k: "pass", a: 940}, {k: "recv", a: 0}},
}

var rawScripts = [][]op{
	{{k: "addpipe"}, {k: "addpipe"}, {k: "send", a: 0}, {k: "recv", a: 0}, {k: "resp", a: 1, b: 101}, {k: "resp", a: 2, b: 300}, {k: "resp", a: 2, b: 303},
		{k: "resp", a: 2, b: 105}, {k: "resp", a: 1, b: 201}, {k: "recv", a: 0}, {k: "recv", a: 0}, {k: "recv", a: 0}, {k: "closesock"}, {k: "recv", a: 0}, {k: "send", a: 0}},
	{{k: "opt", a: 0, b: 2, c: 1}, {k: "addpipe"}, {k: "addpipe"}, {k: "resp", a: 1, b: 101}, {k: "resp", a: 1, b: 102}, {k: "resp", a: 1, b: 103}, {k: "recv", a: 0},
		{k: "recv", a: 0}, {k: "resp", a: 1, b: 104}, {k: "resp", a: 2, b: 105}, {k: "drop", a: 2}, {k: "recv", a: 0}, {k: "recv", a: 0}},
	{{k: "opt", a: 0, b: 3, c: 1}, {k: "addpipe"}, {k: "addpipe"}, {k: "hold", a: 1, b: 1}, {k: "send", a: 0}, {k: "send", a: 0}, {k: "send", a: 0}, {k: "release", a: 1, b: 1},
		{k: "hold", a: 1, b: 0}, {k: "release", a: 1, b: 1}, {k: "send", a: 0}, {k: "openctx"}, {k: "opt", a: 0, b: 0, c: 80}},
	{{k: "opt", a: 0, b: 2, c: 0}, {k: "addpipe"}, {k: "resp", a: 1, b: 101}, {k: "recv", a: 0}, {k: "recv", a: 0}, {k: "resp", a: 1, b: 102}, {k: "opt", a: 0, b: 2, c: 2},
		{k: "resp", a: 1, b: 103}, {k: "opt", a: 0, b: 2, c: 3}, {k: "recv", a: 0}},
}

var rawTimedScripts = [][]op{
	{{k: "opt", a: 0, b: 1, c: shortRecv}, {k: "addpipe"}, {k: "recv", a: 0}, {k: "pass"}, {k: "recv", a: 0}, {k: "pass", a: 22}, {k: "opt", a: 0, b: 2, c: 64}, {k: "pass", a: 24},
		{k: "pass"}},
}

// ---- RESPONDENT: surveys arrive on 1..3 pipes (surveyors), 1..3 contexts receive and answer them ----

func genResp(r *rand.Rand) (string, string, string) {
	p := respondent.NewProtocol()
	g := &sgen{r: r, raw: true, lastID: map[int]int{}, prevID: map[int]int{}, alive: map[int]bool{}, hold: map[int]bool{},
		closedCtx: map[int]bool{}, recvCtx: map[int]int{}, lastRecv: map[int]int{}}
	d := seq.NewDriver(p)
	g.d = d
	d.CanonRet = func(hdr, body []byte) ([]byte, []byte) { return nil, body }
	var script []op
	if i := scriptIdx[false]; i < len(respScripts) && l1run.ScriptsEnabled {
		script = respScripts[i]
		scriptIdx[false] = i + 1
	}
	if script != nil {
		for _, o := range script {
			if d.Bad == "" {
				g.applyResp(o)
			}
		}
	} else {
		nsteps := 12 + r.Intn(25)
		for i := 0; i < nsteps && d.Bad == ""; i++ {
			for {
				if o, ok := g.chooseResp(); ok {
					g.applyResp(o)
					break
				}
			}
		}
	}
	if d.Stuck {
		return d.Coq(), "", "STUCK: " + d.Bad
	}
	_ = p.Close()
	for _, pp := range d.Pipes {
		_ = pp.Close()
	}
	seq.Quiesce(500 * time.Millisecond)
	if d.Bad != "" {
		return "", d.Bad, ""
	}
	return d.Coq(), "", ""
}

func (g *sgen) chooseResp() (op, bool) {
	r := g.r
	w := r.Intn(100)
	switch {
	case w < 12:
		return op{k: "addpipe"}, g.nextPipe < 3
	case w < 16:
		ps := g.alivePipes()
		if len(ps) == 0 {
			return op{}, false
		}
		return op{k: "drop", a: ps[r.Intn(len(ps))]}, true
	case w < 42:
		ps := g.alivePipes()
		if len(ps) == 0 {
			return op{}, false
		}
		n := ps[r.Intn(len(ps))]
		if !g.d.Pipes[n].Receiving() {
			return op{}, false
		}
		return op{k: "survey", a: n, b: []int{0, 0, 0, 1, 2}[r.Intn(5)], c: []int{0, 0, 0, 0, 0, 0, 1, 2}[r.Intn(8)]}, true
	case w < 64:
		c := g.pickCtx()
		return op{k: "recv", a: c}, g.blockedOn(c) == 0
	case w < 90:
		return op{k: "answer", a: g.pickCtx()}, true
	case w < 95:
		return op{k: "openctx"}, g.nextCtx < 2 && !g.sockClosed
	case w < 98:
		c := g.pickCtx()
		return op{k: "closectx", a: c}, c != 0
	default:
		return op{k: "closesock"}, r.Intn(3) == 0
	}
}

func (g *sgen) applyResp(o op) {
	r, d := g.r, g.d
	t0 := time.Now()
	switch o.k {
	case "survey":
		// o.b extra hops (words without the top bit, as devices add them); o.c: 0 well-formed, 1 truncated, 2 no final word
		g.nsurv++
		n := g.nsurv
		var body []byte
		for i := 0; i < o.b; i++ {
			body = append(body, be32(uint32(r.Intn(1<<30))+1)...)
		}
		if o.c != 2 {
			body = append(body, be32(0x80000000|uint32(r.Intn(1<<30)))...)
		}
		payload := make([]byte, 3+r.Intn(2))
		r.Read(payload)
		binary.BigEndian.PutUint16(payload, uint16(n))
		payload[0] &= 0x7f // a payload never looks like a final backtrace word
		body = append(body, payload...)
		if o.c == 1 {
			body = body[:r.Intn(4)]
		}
		if o.c == 2 && len(body)%4 == 0 {
			body = append(body, 0)
		}
		var extra []string
		if !d.Pipes[o.a].Inject(body, 100*time.Millisecond) {
			extra = append(extra, fmt.Sprintf("ONotTaken %d", o.a))
		}
		d.Finish(fmt.Sprintf("SDeliver %d %s", o.a, seq.B(body)), extra, false, t0)
	case "recv":
		c := o.a
		g.nextCall++
		t := g.nextCall
		g.recvCtx[t] = c
		ctx := d.Ctxs[c]
		d.Call(t, func() (*seq.Msg, error) {
			m, err := ctx.RecvMsg()
			if err != nil {
				return nil, err
			}
			res := &seq.Msg{Header: append([]byte{}, m.Header...), Body: append([]byte{}, m.Body...)}
			if len(m.Body) >= 2 {
				g.mu.Lock()
				g.lastRecv[c] = int(binary.BigEndian.Uint16(m.Body))
				g.mu.Unlock()
			}
			m.Free()
			return res, nil
		})
		d.Finish(fmt.Sprintf("SCall %d (CRecv %d)", t, c), nil, false, t0)
	case "answer":
		c := o.a
		g.nextCall++
		t := g.nextCall
		g.mu.Lock()
		n := g.lastRecv[c]
		g.mu.Unlock()
		body := make([]byte, 3+r.Intn(3))
		r.Read(body)
		binary.BigEndian.PutUint16(body, uint16(n))
		ctx := d.Ctxs[c]
		d.Call(t, func() (*seq.Msg, error) {
			m := mangos.NewMessage(len(body))
			m.Body = append(m.Body, body...)
			err := ctx.SendMsg(m)
			if err != nil {
				m.Free()
			}
			return nil, err
		})
		d.Finish(fmt.Sprintf("SCall %d (CSend %d [] %s)", t, c, seq.B(body)), nil, false, t0)
	default:
		g.apply(o)
	}
}

var respScripts = [][]op{
	// two surveyors ask, one context answers each in turn: every answer goes back on the pipe its survey came from
	{{k: "addpipe"}, {k: "addpipe"}, {k: "survey", a: 1}, {k: "survey", a: 2}, {k: "recv", a: 0}, {k: "answer", a: 0}, {k: "answer", a: 0},
		{k: "recv", a: 0}, {k: "answer", a: 0}, {k: "recv", a: 0}, {k: "survey", a: 2, b: 2}, {k: "answer", a: 0}},
	// three contexts answer in another order than they received; a survey from a surveyor that left is not answered to anybody else
	{{k: "addpipe"}, {k: "addpipe"}, {k: "addpipe"}, {k: "openctx"}, {k: "openctx"}, {k: "survey", a: 1}, {k: "survey", a: 2, b: 1}, {k: "survey", a: 3},
		{k: "recv", a: 2}, {k: "recv", a: 0}, {k: "recv", a: 1}, {k: "drop", a: 3}, {k: "answer", a: 1}, {k: "answer", a: 0}, {k: "answer", a: 2},
		{k: "answer", a: 1}, {k: "recv", a: 1}, {k: "recv", a: 1}, {k: "survey", a: 1, c: 1}, {k: "survey", a: 1, c: 2}, {k: "survey", a: 2}, {k: "closectx", a: 1},
		{k: "answer", a: 1}},
}

func main() { l1run.Main(gen) }
