// go2race is translator T1b: like go2cfg it turns every function of /repo into a control-flow skeleton,
// but keeps what the lock-discipline (C11) check needs: lock operations by mutex CLASS (declaring type +
// field), struct field reads/writes by field class, static calls, goroutine starts.
// Output: Gallina `rprogram : list rfunc` (Model/RaceCfg.v) + name tables.
package main

import (
	"fmt"
	"go/ast"
	"go/token"
	"go/types"
	"os"
	"path/filepath"
	"sort"
	"strings"

	"mangosverif/coqgen"

	"golang.org/x/tools/go/cfg"
	"golang.org/x/tools/go/packages"
)

const mod = "go.nanomsg.org/mangos/v3"

type instr struct {
	op string // RLock RUnlock RDeferUnlock RAccess RCall RGo
	a  int    // class / field / function id
	w  bool
}

type blk struct {
	body    []instr
	succs   []int
	returns bool
}

type fn struct {
	id     int
	name   string
	pos    string
	root   bool
	ctor   bool
	body   *ast.BlockStmt
	pkg    *packages.Package
	blocks []blk
	fresh  map[types.Object]bool  // locals holding an object created in this function (not yet shared)
	fvars  map[types.Object][]*fn // local function-typed variables and the functions they may hold
}

type tr struct {
	fieldID  map[*types.Var]int
	fieldNm  []string
	classID  map[string]int
	classNm  []string
	fnByObj  map[*types.Func]*fn
	fnByLit  map[*ast.FuncLit]*fn
	fns      []*fn
	notes    []string
	fieldOf  map[*types.Var]string
	closedOf map[*types.Var]*types.Var // map/slice field of a struct that has a `closed bool` field -> that field
	insID    map[*types.Var]int
	chanID   map[*types.Var]int  // pseudo field "+chan" of channel fields that are both closed and sent to
	chClosed map[*types.Var]bool
	chSent   map[*types.Var]bool
}

func short(path string) string {
	s := strings.TrimPrefix(strings.TrimPrefix(path, mod), "/")
	if s == "" {
		return "mangos"
	}
	return s
}

func (t *tr) class(name string) int {
	if id, ok := t.classID[name]; ok {
		return id
	}
	id := len(t.classNm)
	t.classID[name] = id
	t.classNm = append(t.classNm, name)
	return id
}

// insField is the pseudo field "<struct>.<field>+insert": written whenever an element is added to the map or
// slice held in that field (x.f[k] = v, x.f = append(x.f, ...)).  Only fields of structs that also have a
// `closed bool` field get one (registries that Close drains).
func (t *tr) insField(v *types.Var) (int, bool) {
	nm, ok := t.fieldOf[v]
	if !ok || t.closedOf[v] == nil {
		return 0, false
	}
	if id, ok := t.insID[v]; ok {
		return id, true
	}
	id := len(t.fieldNm)
	t.insID[v] = id
	t.fieldNm = append(t.fieldNm, nm+"+insert")
	return id, true
}

// chanField is the pseudo field "<struct>.<field>+send" of a channel-typed field that some function closes and some
// function sends to.  A send on a closed channel panics, so every send must be ordered with the close; the idiom in
// this code base is "unpublish the channel's owner under the mutex, then close": it needs every send to happen under
// that mutex.  Each x.f <- v is a write access to the pseudo field (so all sends must hold a common mutex); the
// close itself is not an access (it happens after the critical section that unpublished the owner).
func (t *tr) chanField(v *types.Var) (int, bool) {
	nm, ok := t.fieldOf[v]
	if !ok || !t.chClosed[v] || !t.chSent[v] {
		return 0, false
	}
	if id, ok := t.chanID[v]; ok {
		return id, true
	}
	id := len(t.fieldNm)
	t.chanID[v] = id
	t.fieldNm = append(t.fieldNm, nm+"+send")
	return id, true
}

// collectChanOps records which channel fields are closed and which are sent to, anywhere in the loaded packages.
func (t *tr) collectChanOps(pkgs []*packages.Package) {
	for _, pkg := range pkgs {
		fieldVar := func(e ast.Expr) *types.Var {
			for {
				if p, ok := e.(*ast.ParenExpr); ok {
					e = p.X
					continue
				}
				break
			}
			sel, ok := e.(*ast.SelectorExpr)
			if !ok {
				return nil
			}
			if s := pkg.TypesInfo.Selections[sel]; s != nil && s.Kind() == types.FieldVal {
				if v, ok := s.Obj().(*types.Var); ok {
					return v
				}
			}
			return nil
		}
		for _, file := range pkg.Syntax {
			if strings.HasSuffix(pkg.Fset.Position(file.Pos()).Filename, "_test.go") {
				continue
			}
			ast.Inspect(file, func(n ast.Node) bool {
				switch x := n.(type) {
				case *ast.SendStmt:
					if v := fieldVar(x.Chan); v != nil {
						t.chSent[v] = true
					}
				case *ast.CallExpr:
					if id, ok := x.Fun.(*ast.Ident); ok && id.Name == "close" && len(x.Args) == 1 {
						if v := fieldVar(x.Args[0]); v != nil {
							t.chClosed[v] = true
						}
					}
				}
				return true
			})
		}
	}
}

func (t *tr) field(v *types.Var) (int, bool) {
	nm, ok := t.fieldOf[v]
	if !ok {
		return 0, false
	}
	if id, ok := t.fieldID[v]; ok {
		return id, true
	}
	id := len(t.fieldNm)
	t.fieldID[v] = id
	t.fieldNm = append(t.fieldNm, nm)
	return id, true
}

func isSyncType(t types.Type) bool {
	if p, ok := t.(*types.Pointer); ok {
		t = p.Elem()
	}
	if n, ok := t.(*types.Named); ok && n.Obj().Pkg() != nil && n.Obj().Pkg().Path() == "sync" {
		return true
	}
	return false
}

// collectFields names every field of every struct type (named, or the type of a package-level var) of the module.
func (t *tr) collectFields(pkgs []*packages.Package) {
	var walk func(prefix string, st *types.Struct)
	walk = func(prefix string, st *types.Struct) {
		var closed *types.Var
		for i := 0; i < st.NumFields(); i++ {
			f := st.Field(i)
			if b, ok := f.Type().Underlying().(*types.Basic); ok && b.Kind() == types.Bool && f.Name() == "closed" {
				closed = f
			}
		}
		for i := 0; i < st.NumFields(); i++ {
			f := st.Field(i)
			if isSyncType(f.Type()) {
				continue
			}
			t.fieldOf[f] = prefix + "." + f.Name()
			if closed != nil {
				switch f.Type().Underlying().(type) {
				case *types.Map, *types.Slice:
					t.closedOf[f] = closed
				}
			}
		}
	}
	for _, p := range pkgs {
		sc := p.Types.Scope()
		for _, nm := range sc.Names() {
			obj := sc.Lookup(nm)
			switch o := obj.(type) {
			case *types.TypeName:
				if st, ok := o.Type().Underlying().(*types.Struct); ok {
					walk(short(p.PkgPath)+"."+o.Name(), st)
				}
			case *types.Var:
				if st, ok := o.Type().Underlying().(*types.Struct); ok {
					if _, named := o.Type().(*types.Named); !named {
						walk(short(p.PkgPath)+"."+o.Name(), st)
					}
				}
			}
		}
	}
}

// lockClass names the mutex a Lock/Unlock call operates on: declaring struct type + field (or Mutex if embedded).
func lockClass(pkg *packages.Package, recv ast.Expr) string {
	// recv is the expression the method is selected on: x (embedded mutex) or x.lock
	tv := pkg.TypesInfo.TypeOf(recv)
	if tv == nil {
		return "?"
	}
	base := tv
	if p, ok := base.(*types.Pointer); ok {
		base = p.Elem()
	}
	if n, ok := base.(*types.Named); ok {
		if n.Obj().Pkg() != nil && n.Obj().Pkg().Path() == "sync" {
			// x.lock : the field `lock` of the type of x
			if sel, ok := recv.(*ast.SelectorExpr); ok {
				if s := pkg.TypesInfo.Selections[sel]; s != nil {
					if v, ok := s.Obj().(*types.Var); ok {
						owner := s.Recv()
						if p, ok := owner.(*types.Pointer); ok {
							owner = p.Elem()
						}
						if on, ok := owner.(*types.Named); ok {
							return short(on.Obj().Pkg().Path()) + "." + on.Obj().Name() + "." + v.Name()
						}
						// field of an anonymous struct variable
						if id, ok := sel.X.(*ast.Ident); ok {
							return short(pkg.PkgPath) + "." + id.Name + "." + v.Name()
						}
					}
				}
				// package-level mutex variable selected through a package? not used
			}
			if id, ok := recv.(*ast.Ident); ok {
				return short(pkg.PkgPath) + "." + id.Name // package-level or local mutex variable
			}
			return "?sync"
		}
		// embedded mutex in a named struct
		return short(n.Obj().Pkg().Path()) + "." + n.Obj().Name() + ".Mutex"
	}
	return "?"
}

func calleeFunc(pkg *packages.Package, call *ast.CallExpr) *types.Func {
	switch f := call.Fun.(type) {
	case *ast.Ident:
		if o, ok := pkg.TypesInfo.Uses[f].(*types.Func); ok {
			return o
		}
	case *ast.SelectorExpr:
		if s := pkg.TypesInfo.Selections[f]; s != nil {
			if o, ok := s.Obj().(*types.Func); ok {
				return o
			}
		} else if o, ok := pkg.TypesInfo.Uses[f.Sel].(*types.Func); ok {
			return o
		}
	}
	return nil
}

func (t *tr) nodeInstrs(f *fn, n ast.Node, out *[]instr) {
	pkg := f.pkg
	// selectors written by this node
	writes := map[*ast.SelectorExpr]bool{}
	inserts := map[*ast.SelectorExpr]bool{}
	atomics := map[*ast.SelectorExpr]bool{}
	chanOps := map[*ast.SelectorExpr]bool{}
	baseSel := func(e ast.Expr) *ast.SelectorExpr {
		for {
			switch x := e.(type) {
			case *ast.ParenExpr:
				e = x.X
			case *ast.IndexExpr:
				e = x.X
			case *ast.StarExpr:
				e = x.X
			case *ast.SliceExpr:
				e = x.X
			case *ast.SelectorExpr:
				return x
			default:
				return nil
			}
		}
	}
	var deferCall *ast.CallExpr
	var goCall *ast.CallExpr
	ast.Inspect(n, func(x ast.Node) bool {
		switch s := x.(type) {
		case *ast.FuncLit:
			return false
		case *ast.AssignStmt:
			for li, l := range s.Lhs {
				if b := baseSel(l); b != nil {
					writes[b] = true
					// an element is added: x.f[k] = v   or   x.f = append(x.f, ...)
					if ix, ok := l.(*ast.IndexExpr); ok {
						if sel, ok := ix.X.(*ast.SelectorExpr); ok && sel == b {
							inserts[b] = true
						}
					}
					if sel, ok := l.(*ast.SelectorExpr); ok && sel == b && li < len(s.Rhs) {
						if call, ok := s.Rhs[li].(*ast.CallExpr); ok {
							if id, ok := call.Fun.(*ast.Ident); ok && id.Name == "append" && len(call.Args) > 0 {
								if _, bare := call.Args[0].(*ast.SelectorExpr); bare { // append(x.f[:i], x.f[i+1:]...) removes
									inserts[b] = true
								}
							}
						}
					}
				}
			}
		case *ast.IncDecStmt:
			if b := baseSel(s.X); b != nil {
				writes[b] = true
			}
		case *ast.SendStmt:
			if b, ok := s.Chan.(*ast.SelectorExpr); ok {
				chanOps[b] = true
			}
		case *ast.DeferStmt:
			deferCall = s.Call
		case *ast.GoStmt:
			goCall = s.Call
		case *ast.CallExpr:
			if id, ok := s.Fun.(*ast.Ident); ok && id.Name == "close" && len(s.Args) == 1 {
				// close(x.f) of a channel that is also sent to: the idiom is "unpublish the owner under the mutex, THEN close";
				// a close that no Unlock precedes in the function body comes before the unpublishing critical section (or
				// inside one): it counts as an access of the pseudo field, to be covered by the senders' mutex
				if b, ok := s.Args[0].(*ast.SelectorExpr); ok && !f.unlockBefore(s.Pos()) {
					chanOps[b] = true
				}
			}
			if id, ok := s.Fun.(*ast.Ident); ok && id.Name == "delete" && len(s.Args) > 0 {
				if b := baseSel(s.Args[0]); b != nil {
					writes[b] = true
				}
			}
			if cf := calleeFunc(pkg, s); cf != nil && cf.Pkg() != nil && cf.Pkg().Path() == "sync/atomic" {
				for _, a := range s.Args {
					if u, ok := a.(*ast.UnaryExpr); ok && u.Op == token.AND {
						if b := baseSel(u.X); b != nil {
							atomics[b] = true
						}
					}
				}
			}
		case *ast.SliceExpr:
			// x.f[a:b] of an ARRAY-typed field hands out the field's own storage (to io.ReadFull, PutUint64, ...): whoever
			// gets the slice writes the field
			if sel, ok := s.X.(*ast.SelectorExpr); ok {
				if tv := pkg.TypesInfo.TypeOf(sel); tv != nil {
					if _, isArr := tv.Underlying().(*types.Array); isArr {
						writes[sel] = true
					}
				}
			}
		case *ast.UnaryExpr:
			if s.Op == token.AND {
				if b := baseSel(s.X); b != nil && !atomics[b] {
					// address taken: conservatively a write (atomic.* calls are marked before this node is visited
					// only if the call encloses it; handled by the atomics map being filled first for CallExpr parents)
					_ = b
				}
			}
		}
		return true
	})
	ast.Inspect(n, func(x ast.Node) bool {
		switch e := x.(type) {
		case *ast.FuncLit:
			return false
		case *ast.SelectorExpr:
			if s := pkg.TypesInfo.Selections[e]; s != nil && s.Kind() == types.FieldVal {
				if v, ok := s.Obj().(*types.Var); ok && !atomics[e] && !f.rootedAtFresh(e) {
					if id, ok := t.field(v); ok {
						*out = append(*out, instr{op: "RAccess", a: id, w: writes[e]})
					}
					if inserts[e] {
						if id, ok := t.insField(v); ok {
							*out = append(*out, instr{op: "RAccess", a: id, w: true})
						}
					}
					if chanOps[e] {
						if id, ok := t.chanField(v); ok {
							*out = append(*out, instr{op: "RAccess", a: id, w: true})
						}
					}
				}
			}
		case *ast.CallExpr:
			cf := calleeFunc(pkg, e)
			full := ""
			if cf != nil {
				full = cf.FullName()
			}
			sel, _ := e.Fun.(*ast.SelectorExpr)
			switch full {
			case "(*sync.Mutex).Lock", "(*sync.RWMutex).Lock", "(*sync.RWMutex).RLock":
				c := lockClass(pkg, sel.X)
				if strings.HasSuffix(full, "RLock") {
					c += "#R"
				}
				*out = append(*out, instr{op: "RLock", a: t.class(c)})
			case "(*sync.Mutex).Unlock", "(*sync.RWMutex).Unlock", "(*sync.RWMutex).RUnlock":
				c := lockClass(pkg, sel.X)
				if strings.HasSuffix(full, "RUnlock") {
					c += "#R"
				}
				if e == deferCall {
					*out = append(*out, instr{op: "RDeferUnlock", a: t.class(c)})
				} else {
					*out = append(*out, instr{op: "RUnlock", a: t.class(c)})
				}
			case "(*sync.Once).Do":
				if len(e.Args) == 1 {
					if g := t.target(pkg, e.Args[0]); g != nil {
						*out = append(*out, instr{op: "RCall", a: g.id})
					}
				}
			case "time.AfterFunc":
				if len(e.Args) == 2 {
					if g := t.target(pkg, e.Args[1]); g != nil {
						*out = append(*out, instr{op: "RGo", a: g.id})
					}
				}
			default:
				var g *fn
				if cf != nil {
					g = t.fnByObj[cf]
				}
				if g == nil {
					if lit, ok := e.Fun.(*ast.FuncLit); ok {
						g = t.fnByLit[lit]
					}
				}
				if g != nil {
					if e == goCall {
						*out = append(*out, instr{op: "RGo", a: g.id})
					} else {
						*out = append(*out, instr{op: "RCall", a: g.id})
					}
				} else if id, ok := e.Fun.(*ast.Ident); ok {
					// call through a local function variable: any of the functions assigned to it
					if obj := pkg.TypesInfo.Uses[id]; obj != nil {
						for _, cand := range f.fvars[obj] {
							*out = append(*out, instr{op: "RCall", a: cand.id})
						}
					}
				}
			}
		}
		return true
	})
}

// target resolves a function-valued expression (func literal, function or method value) to a translated function.
func (t *tr) target(pkg *packages.Package, e ast.Expr) *fn {
	switch x := e.(type) {
	case *ast.FuncLit:
		return t.fnByLit[x]
	case *ast.Ident:
		if o, ok := pkg.TypesInfo.Uses[x].(*types.Func); ok {
			return t.fnByObj[o]
		}
	case *ast.SelectorExpr:
		if s := pkg.TypesInfo.Selections[x]; s != nil {
			if o, ok := s.Obj().(*types.Func); ok {
				return t.fnByObj[o]
			}
		}
	}
	return nil
}

// unlockBefore: does the function body contain an Unlock() call at a position before p?
func (f *fn) unlockBefore(p token.Pos) bool {
	found := false
	ast.Inspect(f.body, func(n ast.Node) bool {
		if _, ok := n.(*ast.FuncLit); ok && n.Pos() != f.body.Pos() {
			// nested literals are functions of their own
		}
		if call, ok := n.(*ast.CallExpr); ok && call.Pos() < p {
			if se, ok := call.Fun.(*ast.SelectorExpr); ok && (se.Sel.Name == "Unlock" || se.Sel.Name == "RUnlock") {
				found = true
			}
		}
		return true
	})
	return found
}

func (f *fn) rootedAtFresh(e ast.Expr) bool {
	for {
		switch x := e.(type) {
		case *ast.SelectorExpr:
			e = x.X
		case *ast.ParenExpr:
			e = x.X
		case *ast.StarExpr:
			e = x.X
		case *ast.IndexExpr:
			e = x.X
		case *ast.Ident:
			if obj := f.pkg.TypesInfo.Uses[x]; obj != nil && f.fresh[obj] {
				return true
			}
			return false
		default:
			return false
		}
	}
}

// collectLocals finds locals that hold a freshly created object (x := &T{..} / T{..} / new(T)) and local function
// variables with the functions assigned to them.
func (t *tr) collectLocals(f *fn) {
	f.fresh = map[types.Object]bool{}
	f.fvars = map[types.Object][]*fn{}
	isFresh := func(e ast.Expr) bool {
		switch x := e.(type) {
		case *ast.UnaryExpr:
			if x.Op == token.AND {
				_, ok := x.X.(*ast.CompositeLit)
				return ok
			}
		case *ast.CompositeLit:
			return true
		case *ast.CallExpr:
			if id, ok := x.Fun.(*ast.Ident); ok && id.Name == "new" {
				return true
			}
		}
		return false
	}
	// a local is fresh when every assignment to it in this function (x := ..., or `var x *T` followed by x = ...)
	// stores a newly created object; parameters and results are never fresh
	assigned, freshAssigned := map[types.Object]int{}, map[types.Object]int{}
	defer func() {
		// assignments made by nested function literals count as not fresh
		ast.Inspect(f.body, func(n ast.Node) bool {
			fl, ok := n.(*ast.FuncLit)
			if !ok {
				return true
			}
			ast.Inspect(fl.Body, func(m ast.Node) bool {
				if as, ok := m.(*ast.AssignStmt); ok {
					for _, l := range as.Lhs {
						if id, ok := l.(*ast.Ident); ok {
							if obj := f.pkg.TypesInfo.Uses[id]; obj != nil {
								assigned[obj]++
							}
						}
					}
				}
				return true
			})
			return false
		})
		for obj, n := range assigned {
			if n > 0 && freshAssigned[obj] == n && !f.isParam(obj) {
				f.fresh[obj] = true
			}
		}
	}()
	ast.Inspect(f.body, func(n ast.Node) bool {
		if _, ok := n.(*ast.FuncLit); ok {
			return false
		}
		as, ok := n.(*ast.AssignStmt)
		if !ok {
			return true
		}
		if len(as.Lhs) != len(as.Rhs) {
			// x, err = f(): not a fresh object
			for _, l := range as.Lhs {
				if id, ok := l.(*ast.Ident); ok {
					obj := f.pkg.TypesInfo.Defs[id]
					if obj == nil {
						obj = f.pkg.TypesInfo.Uses[id]
					}
					if obj != nil {
						assigned[obj]++
					}
				}
			}
			return true
		}
		for i, l := range as.Lhs {
			id, ok := l.(*ast.Ident)
			if !ok {
				continue
			}
			obj := f.pkg.TypesInfo.Defs[id]
			if obj == nil {
				obj = f.pkg.TypesInfo.Uses[id]
			}
			if obj == nil {
				continue
			}
			if _, isVar := obj.(*types.Var); isVar && obj.Parent() != nil && obj.Parent() != f.pkg.Types.Scope() {
				assigned[obj]++
				if isFresh(as.Rhs[i]) {
					freshAssigned[obj]++
				}
			}
			if g := t.target(f.pkg, as.Rhs[i]); g != nil {
				f.fvars[obj] = append(f.fvars[obj], g)
			}
		}
		return true
	})
}

// isParam: obj is a parameter, result or receiver of the enclosing declaration (its value comes from the caller)
func (f *fn) isParam(obj types.Object) bool {
	return obj.Pos() < f.body.Pos() || obj.Pos() > f.body.End()
}

func (t *tr) translate(f *fn) {
	t.collectLocals(f)
	mayReturn := func(call *ast.CallExpr) bool {
		if id, ok := call.Fun.(*ast.Ident); ok && id.Name == "panic" {
			return false
		}
		return true
	}
	g := cfg.New(f.body, mayReturn)
	idx := map[*cfg.Block]int{}
	var live []*cfg.Block
	for _, b := range g.Blocks {
		if b.Live {
			idx[b] = len(live)
			live = append(live, b)
		}
	}
	for _, b := range live {
		var bl blk
		for _, n := range b.Nodes {
			if _, ok := n.(*ast.ReturnStmt); ok {
				bl.returns = true
			}
			t.nodeInstrs(f, n, &bl.body)
		}
		for _, s := range b.Succs {
			if j, ok := idx[s]; ok {
				bl.succs = append(bl.succs, j)
			}
		}
		f.blocks = append(f.blocks, bl)
	}
}

var ctorPrefixes = []string{"init"}

func main() {
	if len(os.Args) < 2 {
		fmt.Fprintln(os.Stderr, "usage: go2race <out.v> [repo]")
		os.Exit(2)
	}
	repo := "/repo"
	if len(os.Args) > 2 {
		repo = os.Args[2]
	}
	cfgp := &packages.Config{
		Mode: packages.NeedName | packages.NeedFiles | packages.NeedSyntax | packages.NeedTypes | packages.NeedTypesInfo | packages.NeedImports | packages.NeedDeps,
		Dir:  repo,
		Env:  append(os.Environ(), "GOFLAGS=-mod=mod", "GOPROXY=off", "GOSUMDB=off"),
	}
	pkgs, err := packages.Load(cfgp, mod, mod+"/errors", mod+"/internal/core", mod+"/protocol/...", mod+"/transport/...")
	if err != nil {
		fmt.Fprintln(os.Stderr, "go2race: load:", err)
		os.Exit(1)
	}
	sort.Slice(pkgs, func(i, j int) bool { return pkgs[i].PkgPath < pkgs[j].PkgPath })
	t := &tr{fieldID: map[*types.Var]int{}, classID: map[string]int{}, fnByObj: map[*types.Func]*fn{}, fnByLit: map[*ast.FuncLit]*fn{}, fieldOf: map[*types.Var]string{}, closedOf: map[*types.Var]*types.Var{}, insID: map[*types.Var]int{}, chanID: map[*types.Var]int{}, chClosed: map[*types.Var]bool{}, chSent: map[*types.Var]bool{}}
	t.collectFields(pkgs)
	t.collectChanOps(pkgs)
	// pass 1: enumerate functions
	for _, pkg := range pkgs {
		if len(pkg.Errors) > 0 {
			fmt.Fprintln(os.Stderr, "go2race: package errors in", pkg.PkgPath, pkg.Errors[0])
			os.Exit(1)
		}
		for _, file := range pkg.Syntax {
			fname := pkg.Fset.Position(file.Pos()).Filename
			if strings.HasSuffix(fname, "_test.go") {
				continue
			}
			for _, d := range file.Decls {
				fd, ok := d.(*ast.FuncDecl)
				if !ok || fd.Body == nil {
					continue
				}
				name := short(pkg.PkgPath) + "." + fd.Name.Name
				if fd.Recv != nil && len(fd.Recv.List) == 1 {
					ty := fd.Recv.List[0].Type
					if st, ok := ty.(*ast.StarExpr); ok {
						ty = st.X
					}
					if id, ok := ty.(*ast.Ident); ok {
						name = short(pkg.PkgPath) + "." + id.Name + "." + fd.Name.Name
					}
				}
				pos := pkg.Fset.Position(fd.Pos())
				f := &fn{id: len(t.fns), name: name, pos: fmt.Sprintf("%s:%d", filepath.Base(pos.Filename), pos.Line), body: fd.Body, pkg: pkg,
					root: ast.IsExported(fd.Name.Name) || fd.Name.Name == "init" || fd.Name.Name == "main"}
				for _, p := range ctorPrefixes {
					if strings.HasPrefix(fd.Name.Name, p) {
						f.ctor = true
					}
				}
				if o, ok := pkg.TypesInfo.Defs[fd.Name].(*types.Func); ok {
					t.fnByObj[o] = f
				}
				t.fns = append(t.fns, f)
				li := 0
				parent := f
				ast.Inspect(fd.Body, func(n ast.Node) bool {
					if fl, ok := n.(*ast.FuncLit); ok {
						li++
						p := pkg.Fset.Position(fl.Pos())
						lf := &fn{id: len(t.fns), name: fmt.Sprintf("%s$%d", name, li), pos: fmt.Sprintf("%s:%d", filepath.Base(p.Filename), p.Line),
							body: fl.Body, pkg: pkg, root: true, ctor: parent.ctor}
						t.fnByLit[fl] = lf
						t.fns = append(t.fns, lf)
					}
					return true
				})
			}
		}
	}
	// function literals invoked synchronously (Once.Do argument, or called on the spot) are not roots
	for _, pkg := range pkgs {
		for _, file := range pkg.Syntax {
			ast.Inspect(file, func(n ast.Node) bool {
				switch x := n.(type) {
				case *ast.GoStmt:
					return true
				case *ast.CallExpr:
					if lit, ok := x.Fun.(*ast.FuncLit); ok {
						if lf := t.fnByLit[lit]; lf != nil {
							lf.root = false
						}
					}
					if cf := calleeFunc(pkg, x); cf != nil && cf.FullName() == "(*sync.Once).Do" && len(x.Args) == 1 {
						if lit, ok := x.Args[0].(*ast.FuncLit); ok {
							if lf := t.fnByLit[lit]; lf != nil {
								lf.root = false
							}
						}
					}
				}
				return true
			})
			// `go func(){...}()` : the literal is called on the spot syntactically, but it is a goroutine entry
			ast.Inspect(file, func(n ast.Node) bool {
				if g, ok := n.(*ast.GoStmt); ok {
					if lit, ok := g.Call.Fun.(*ast.FuncLit); ok {
						if lf := t.fnByLit[lit]; lf != nil {
							lf.root = true
						}
					}
				}
				return true
			})
			// functions used as values (method values, callbacks) are roots
			ast.Inspect(file, func(n ast.Node) bool {
				call, ok := n.(*ast.CallExpr)
				if !ok {
					return true
				}
				for _, a := range call.Args {
					switch x := a.(type) {
					case *ast.Ident:
						if o, ok := pkg.TypesInfo.Uses[x].(*types.Func); ok {
							if g := t.fnByObj[o]; g != nil {
								g.root = true
							}
						}
					case *ast.SelectorExpr:
						if s := pkg.TypesInfo.Selections[x]; s != nil && s.Kind() == types.MethodVal {
							if o, ok := s.Obj().(*types.Func); ok {
								if g := t.fnByObj[o]; g != nil {
									g.root = true
								}
							}
						}
					}
				}
				return true
			})
		}
	}
	for _, f := range t.fns {
		t.translate(f)
	}
	w := coqgen.Create(os.Args[1])
	defer w.Close()
	w.P("(* GENERATED by harness/cmd/go2race from %s -- do not edit *)", repo)
	w.P("From MV Require Import Model.RaceCfg.")
	w.P("Open Scope string_scope. Open Scope N_scope.")
	w.P("Definition rprogram : list rfunc := [")
	naccess := 0
	for i, f := range t.fns {
		w.P("  (* %d %s %s *)", f.id, f.name, f.pos)
		w.P("  {| rname := %q; rroot := %s; rctor := %s; rblocks := [", f.name, coqgen.Bool(f.root), coqgen.Bool(f.ctor))
		for bi, b := range f.blocks {
			var is []string
			for _, in := range b.body {
				switch in.op {
				case "RAccess":
					naccess++
					is = append(is, fmt.Sprintf("RAccess %s %d", coqgen.Bool(in.w), in.a))
				default:
					is = append(is, fmt.Sprintf("%s %d", in.op, in.a))
				}
			}
			var ss []string
			for _, s := range b.succs {
				ss = append(ss, fmt.Sprintf("%d%%nat", s))
			}
			sep := ";"
			if bi == len(f.blocks)-1 {
				sep = ""
			}
			w.P("    {| rbody := %s; rsuccs := %s; rreturns := %s |}%s", coqgen.List(is), coqgen.List(ss), coqgen.Bool(b.returns), sep)
		}
		if i == len(t.fns)-1 {
			w.P("  ] |}")
		} else {
			w.P("  ] |};")
		}
	}
	w.P("].")
	q := func(xs []string) []string {
		var o []string
		for _, x := range xs {
			o = append(o, fmt.Sprintf("%q", x))
		}
		return o
	}
	// registration rules: (insert pseudo field, the `closed` field of the same struct), for the registries that the
	// struct's own Close method walks (the members Close shuts down: listeners, dialers, pipes, contexts ...)
	closeTouches := map[int]bool{} // field ids accessed by a method named Close of the field's own struct
	for _, f := range t.fns {
		if !strings.HasSuffix(f.name, ".Close") {
			continue
		}
		owner := strings.TrimSuffix(f.name, ".Close") + "."
		for _, b := range f.blocks {
			for _, in := range b.body {
				if in.op == "RAccess" && strings.HasPrefix(t.fieldNm[in.a], owner) {
					closeTouches[in.a] = true
				}
			}
		}
	}
	var rules []string
	type rl struct{ ins, cl int }
	var rls []rl
	for v, id := range t.insID {
		fid, ok := t.fieldID[v]
		if !ok || !closeTouches[fid] {
			continue
		}
		if cid, ok := t.field(t.closedOf[v]); ok {
			rls = append(rls, rl{id, cid})
		}
	}
	sort.Slice(rls, func(i, j int) bool { return rls[i].ins < rls[j].ins })
	for _, r := range rls {
		rules = append(rules, fmt.Sprintf("(%d, %d)", r.ins, r.cl))
	}
	w.Def("atom_rules", "list (N * N)", rules)
	w.Def("field_names", "list string", q(t.fieldNm))
	w.Def("class_names", "list string", q(t.classNm))
	var fnn []string
	for _, f := range t.fns {
		fnn = append(fnn, fmt.Sprintf("%q", f.name+" "+f.pos))
	}
	w.Def("fn_names", "list string", fnn)
	w.P("Definition n_accesses : N := %d.", naccess)
	for _, n := range t.notes {
		w.P("(* note: %s *)", n)
	}
}
