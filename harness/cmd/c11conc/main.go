// c11conc: concurrent callers on one socket.  K goroutines are released at the same instant (spin barrier) and each
// makes one blocking Send (or one request/reply on its own context); all K messages must come out at the peer: every
// interleaving of concurrent calls must behave like some order of them -- none lost, none duplicated, none stuck while
// the peer is connected and receiving.  Then a bulk phase: K senders x M numbered messages, per-sender order at the peer.
// What was delivered is written as Gallina terms; the oracle is evaluated by coqc.
package main

import (
	"encoding/binary"
	"fmt"
	"os"
	"strings"
	"sync"
	"sync/atomic"
	"time"

	"mangosverif/coqgen"
	"mangosverif/wire"

	"go.nanomsg.org/mangos/v3"
)

type pr struct{ a, b, tr string }

func body(i, r int) []byte {
	b := make([]byte, 8)
	binary.BigEndian.PutUint32(b, uint32(i))
	binary.BigEndian.PutUint32(b[4:], uint32(r))
	return b
}

func pairList(xs [][2]int) string {
	var s []string
	for _, x := range xs {
		s = append(s, fmt.Sprintf("(%d, %d)", x[0], x[1]))
	}
	return coqgen.List(s)
}

func connect(p pr) (mangos.Socket, mangos.Socket, string) {
	a, b := wire.New(p.a), wire.New(p.b)
	ea, eb := wire.Track(a), wire.Track(b)
	if _, err := wire.Connect(p.tr, b, a, eb, ea); err != nil {
		return a, b, "connect: " + err.Error()
	}
	return a, b, ""
}

// one-way patterns: barrier rounds then bulk
func oneWay(p pr, k, rounds, m int) string {
	a, b, note := connect(p)
	defer a.Close()
	defer b.Close()
	if note != "" {
		return fmt.Sprintf("(%q, %d, %d, [], []) (* %s *)", p.a+"/"+p.tr, k, m, note)
	}
	_ = a.SetOption(mangos.OptionSendDeadline, 2*time.Second)
	_ = b.SetOption(mangos.OptionRecvDeadline, 2*time.Second)
	var rs []string
	for r := 0; r < rounds; r++ {
		var gate int32
		var wg sync.WaitGroup
		for i := 0; i < k; i++ {
			wg.Add(1)
			go func(i int) {
				defer wg.Done()
				for atomic.LoadInt32(&gate) == 0 {
				}
				_ = a.Send(body(i, r))
			}(i)
		}
		time.Sleep(200 * time.Microsecond) // the socket's own goroutines go idle
		atomic.StoreInt32(&gate, 1)
		var got [][2]int
		for len(got) < k {
			d, err := b.Recv()
			if err != nil {
				break
			}
			if len(d) == 8 {
				got = append(got, [2]int{int(binary.BigEndian.Uint32(d)), int(binary.BigEndian.Uint32(d[4:]))})
			}
		}
		wg.Wait()
		rs = append(rs, pairList(got))
		if len(got) < k {
			break // stalled: later rounds would only repeat it
		}
	}
	// bulk
	var wg sync.WaitGroup
	for i := 0; i < k; i++ {
		wg.Add(1)
		go func(i int) {
			defer wg.Done()
			for j := 0; j < m; j++ {
				if a.Send(body(i, 1000000+j)) != nil {
					return
				}
			}
		}(i)
	}
	var bulk [][2]int
	for len(bulk) < k*m {
		d, err := b.Recv()
		if err != nil {
			break
		}
		if len(d) == 8 {
			bulk = append(bulk, [2]int{int(binary.BigEndian.Uint32(d)), int(binary.BigEndian.Uint32(d[4:])) - 1000000})
		}
	}
	wg.Wait()
	return fmt.Sprintf("(%q, %d, %d, %s, %s)", p.a+"/"+p.tr, k, m, coqgen.List(rs), pairList(bulk))
}

// fastRounds: K persistent goroutines spin on a round counter and send at the same instant, on an idle socket, many
// thousands of times (a wake-up lost once in ten thousand coincidences shows here); the harness judges every round and
// hands the first bad one (with what arrived) to the evaluation.  Result: (name, K, rounds asked, rounds done, first bad round's arrivals).
func fastRounds(p pr, k, rounds int) string {
	a, b, note := connect(p)
	defer a.Close()
	defer b.Close()
	if note != "" {
		return fmt.Sprintf("(%q, %d, %d, 0, []) (* %s *)", p.a+"/"+p.tr, k, rounds, note)
	}
	_ = a.SetOption(mangos.OptionSendDeadline, 2*time.Second)
	_ = b.SetOption(mangos.OptionRecvDeadline, 2*time.Second)
	var round, stop int32
	round = -1
	var wg sync.WaitGroup
	for i := 0; i < k; i++ {
		wg.Add(1)
		go func(i int) {
			defer wg.Done()
			for r := int32(0); r < int32(rounds); r++ {
				for atomic.LoadInt32(&round) < r && atomic.LoadInt32(&stop) == 0 {
				}
				if atomic.LoadInt32(&stop) != 0 {
					return
				}
				_ = a.Send(body(i, int(r)))
			}
		}(i)
	}
	done := 0
	var bad [][2]int
	t0 := time.Now()
	for r := 0; r < rounds; r++ {
		if r%256 == 255 && done >= 2000 && time.Since(t0) > 8*time.Second {
			rounds = done // a slow or loaded machine: what was completed in the time budget is what was asked
			break
		}
		if r%64 == 0 {
			time.Sleep(50 * time.Microsecond) // now and then the socket's own goroutines really go to sleep
		}
		atomic.StoreInt32(&round, int32(r))
		seen := make([]bool, k)
		var got [][2]int
		ok := true
		for len(got) < k {
			d, err := b.Recv()
			if err != nil {
				ok = false
				break
			}
			if len(d) != 8 {
				ok = false
				continue
			}
			i, rr := int(binary.BigEndian.Uint32(d)), int(binary.BigEndian.Uint32(d[4:]))
			got = append(got, [2]int{i, rr})
			if i >= k || rr != r || seen[i] {
				ok = false
			} else {
				seen[i] = true
			}
		}
		if !ok {
			bad = got
			if bad == nil {
				bad = [][2]int{}
			}
			break
		}
		done++
	}
	atomic.StoreInt32(&stop, 1)
	wg.Wait()
	return fmt.Sprintf("(%q, %d, %d, %d, %s)", p.a+"/"+p.tr, k, rounds, done, pairList(bad))
}

// request/reply: every goroutine has its own context; the reply it gets must be the echo of its own request
func reqRep(p pr, k, rounds int) string {
	a, b, note := connect(p)
	defer a.Close()
	defer b.Close()
	if note != "" {
		return fmt.Sprintf("(%q, %d, 0, [], []) (* %s *)", p.a+"/"+p.tr, k, note)
	}
	stop := make(chan struct{})
	go func() { // echo server
		_ = b.SetOption(mangos.OptionRecvDeadline, 50*time.Millisecond)
		for {
			select {
			case <-stop:
				return
			default:
			}
			mm, err := b.RecvMsg()
			if err == nil {
				_ = b.SendMsg(mm)
			}
		}
	}()
	ctxs := make([]mangos.Context, k)
	for i := range ctxs {
		c, err := a.OpenContext()
		if err != nil {
			close(stop)
			return fmt.Sprintf("(%q, %d, 0, [], []) (* OpenContext: %v *)", p.a+"/"+p.tr, k, err)
		}
		_ = c.SetOption(mangos.OptionSendDeadline, 2*time.Second)
		_ = c.SetOption(mangos.OptionRecvDeadline, 2*time.Second)
		ctxs[i] = c
	}
	var rs []string
	for r := 0; r < rounds; r++ {
		var gate int32
		var wg sync.WaitGroup
		got := make([][2]int, k)
		okAll := true
		var mu sync.Mutex
		for i := 0; i < k; i++ {
			wg.Add(1)
			go func(i int) {
				defer wg.Done()
				for atomic.LoadInt32(&gate) == 0 {
				}
				res := [2]int{i, -1}
				if ctxs[i].Send(body(i, r)) == nil {
					if d, err := ctxs[i].Recv(); err == nil && len(d) == 8 && int(binary.BigEndian.Uint32(d[4:])) == r {
						res[1] = int(binary.BigEndian.Uint32(d))
					}
				}
				mu.Lock()
				got[i] = res
				if res[1] != i {
					okAll = false
				}
				mu.Unlock()
			}(i)
		}
		time.Sleep(200 * time.Microsecond)
		atomic.StoreInt32(&gate, 1)
		wg.Wait()
		var s []string
		for _, g := range got {
			if g[1] < 0 {
				s = append(s, fmt.Sprintf("(%d, 999999)", g[0]))
			} else {
				s = append(s, fmt.Sprintf("(%d, %d)", g[0], g[1]))
			}
		}
		rs = append(rs, coqgen.List(s))
		if !okAll {
			break
		}
	}
	close(stop)
	return fmt.Sprintf("(%q, %d, 0, %s, [])", p.a+"/"+p.tr, k, coqgen.List(rs))
}

func main() {
	if len(os.Args) < 2 {
		fmt.Fprintln(os.Stderr, "usage: c11conc <out.v>")
		os.Exit(2)
	}
	coqgen.Watchdog(10 * time.Minute)
	defer wire.Cleanup()
	rounds, m := 200, 300
	if coqgen.Thorough() {
		rounds, m = 3000, 2000
	}
	w := coqgen.Create(os.Args[1])
	defer w.Close()
	var one, rr, fast []string
	frounds := 25000
	if coqgen.Thorough() {
		frounds = 250000
	}
	for _, p := range []pr{{"push", "pull", "inproc"}, {"xpush", "xpull", "inproc"}, {"pair", "pair", "inproc"}, {"xpair", "xpair", "inproc"}} {
		fast = append(fast, fastRounds(p, 8, frounds))
	}
	w.Def("fast_cases", "list (string * N * N * N * list (N * N))", fast)
	if os.Getenv("C11CONC_ONLY") == "pushpair" {
		// C02: PUSH and PAIR only
		for _, p := range []pr{{"push", "pull", "inproc"}, {"xpush", "xpull", "inproc"}, {"push", "pull", "tcp"}, {"pair", "pair", "inproc"}, {"xpair", "xpair", "inproc"}} {
			one = append(one, oneWay(p, 8, rounds, m))
		}
		w.Def("oneway_cases", "list (string * N * N * list (list (N * N)) * list (N * N))", one)
		w.Def("reqrep_cases", "list (string * N * N * list (list (N * N)) * list (N * N))", rr)
		return
	}
	for _, p := range []pr{{"push", "pull", "inproc"}, {"xpush", "xpull", "inproc"}, {"push", "pull", "tcp"}, {"pair", "pair", "inproc"}, {"xpair", "xpair", "inproc"},
		{"pair1", "pair1", "inproc"}, {"pair", "pair", "ipc"}} {
		s := oneWay(p, 8, rounds, m)
		if strings.Contains(s, "(*") {
			fmt.Fprintln(os.Stderr, "c11conc:", s)
		}
		one = append(one, s)
	}
	for _, p := range []pr{{"req", "rep", "inproc"}, {"req", "rep", "tcp"}, {"surveyor", "respondent", "inproc"}} {
		rr = append(rr, reqRep(p, 6, rounds/2))
	}
	w.Def("oneway_cases", "list (string * N * N * list (list (N * N)) * list (N * N))", one)
	w.Def("reqrep_cases", "list (string * N * N * list (list (N * N)) * list (N * N))", rr)
}
