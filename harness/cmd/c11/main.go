// c11 (built with -race): for every pattern, connected sockets are hammered from several goroutines
// with every public API call at once; the race detector's reports go to stderr (parsed by the check),
// deadlocks are caught by a watchdog, panics are reported.
package main

import (
	"fmt"
	"math/rand"
	"net"
	"os"
	"runtime"
	"sync"
	"sync/atomic"
	"time"

	"mangosverif/coqgen"
	"mangosverif/wire"

	"go.nanomsg.org/mangos/v3"
	"go.nanomsg.org/mangos/v3/transport"
)

type pair struct{ a, b string }

var pairs = []pair{
	{"pair", "pair"}, {"xpair", "xpair"}, {"pair1", "pair1"}, {"xpair1", "xpair1"},
	{"pub", "sub"}, {"xpub", "xsub"}, {"req", "rep"}, {"xreq", "xrep"}, {"push", "pull"}, {"xpush", "xpull"},
	{"surveyor", "respondent"}, {"xsurveyor", "xrespondent"}, {"bus", "bus"}, {"xbus", "xbus"}, {"star", "star"}, {"xstar", "xstar"},
}

var optVals = map[string][]interface{}{
	mangos.OptionRecvDeadline:     {20 * time.Millisecond, 35 * time.Millisecond},
	mangos.OptionSendDeadline:     {25 * time.Millisecond, 30 * time.Millisecond},
	mangos.OptionReadQLen:         {2, 8, 64},
	mangos.OptionWriteQLen:        {3, 9, 64},
	mangos.OptionTTL:              {3, 8},
	mangos.OptionRetryTime:        {40 * time.Millisecond, time.Second},
	mangos.OptionSurveyTime:       {45 * time.Millisecond, 50 * time.Millisecond},
	mangos.OptionBestEffort:       {true, false},
	mangos.OptionFailNoPeers:      {true, false},
	mangos.OptionMaxRecvSize:      {1 << 16, 1 << 20},
	mangos.OptionReconnectTime:    {10 * time.Millisecond, 20 * time.Millisecond},
	mangos.OptionMaxReconnectTime: {40 * time.Millisecond, 0 * time.Millisecond},
	mangos.OptionDialAsynch:       {true, false},
	mangos.OptionSubscribe:        {[]byte("a"), []byte("")},
	mangos.OptionUnsubscribe:      {[]byte("a")},
}

var optNames []string

func init() {
	for n := range optVals {
		optNames = append(optNames, n)
	}
	// deterministic order
	for i := 1; i < len(optNames); i++ {
		for j := i; j > 0 && optNames[j-1] > optNames[j]; j-- {
			optNames[j-1], optNames[j] = optNames[j], optNames[j-1]
		}
	}
}

var panics int32

func guard(what string, f func()) {
	defer func() {
		if r := recover(); r != nil {
			atomic.AddInt32(&panics, 1)
			fmt.Fprintf(os.Stderr, "C11-PANIC in %s: %v\n", what, r)
		}
	}()
	f()
}

func hammer(name string, s mangos.Socket, seed int64, stop <-chan struct{}, wg *sync.WaitGroup) {
	worker := func(id int, body func(r *rand.Rand)) {
		wg.Add(1)
		go func() {
			defer wg.Done()
			r := rand.New(rand.NewSource(seed + int64(id)))
			for {
				select {
				case <-stop:
					return
				default:
				}
				guard(fmt.Sprintf("%s worker %d", name, id), func() { body(r) })
			}
		}()
	}
	raw, _ := s.GetOption(mangos.OptionRaw)
	isRaw, _ := raw.(bool)
	worker(1, func(r *rand.Rand) { // send
		m := mangos.NewMessage(16)
		m.Body = append(m.Body, byte(r.Intn(256)), 'x', 'y')
		if isRaw {
			m.Header = append(m.Header, 0x80, 0, 0, 1)
		}
		if err := s.SendMsg(m); err != nil {
			m.Free()
			time.Sleep(200 * time.Microsecond)
		}
	})
	worker(2, func(r *rand.Rand) { // recv
		m, err := s.RecvMsg()
		if err == nil {
			if isRaw && r.Intn(2) == 0 {
				// bounce it back (devices do this)
				if e := s.SendMsg(m); e != nil {
					m.Free()
				}
			} else {
				m.Free()
			}
		} else {
			time.Sleep(200 * time.Microsecond)
		}
	})
	worker(3, func(r *rand.Rand) { // set options
		n := optNames[r.Intn(len(optNames))]
		vs := optVals[n]
		_ = s.SetOption(n, vs[r.Intn(len(vs))])
		time.Sleep(100 * time.Microsecond)
	})
	worker(4, func(r *rand.Rand) { // get options
		_, _ = s.GetOption(optNames[r.Intn(len(optNames))])
		time.Sleep(50 * time.Microsecond)
	})
	worker(5, func(r *rand.Rand) { // contexts
		c, err := s.OpenContext()
		if err != nil {
			time.Sleep(2 * time.Millisecond)
			return
		}
		_ = c.SetOption(mangos.OptionRecvDeadline, 5*time.Millisecond)
		_ = c.SetOption(mangos.OptionSendDeadline, 5*time.Millisecond)
		done := make(chan struct{})
		go func() {
			defer close(done)
			guard(name+" ctx", func() {
				_ = c.Send([]byte("ctx"))
				if m, e := c.RecvMsg(); e == nil {
					_ = c.SendMsg(m)
				}
			})
		}()
		if r.Intn(2) == 0 {
			time.Sleep(time.Duration(r.Intn(3)) * time.Millisecond)
		}
		_ = c.Close()
		<-done
	})
}

func scenario(p pair, seed int64) string {
	a, b := wire.New(p.a), wire.New(p.b)
	ea, eb := wire.Track(a), wire.Track(b)
	// the hook also closes a pipe now and then (pipe close from the application side)
	var closes int32
	for _, x := range []struct {
		s mangos.Socket
		e *wire.Events
	}{{a, ea}, {b, eb}} {
		_ = x
	}
	for _, s := range []mangos.Socket{a, b} {
		_ = s.SetOption(mangos.OptionRecvDeadline, 20*time.Millisecond)
		_ = s.SetOption(mangos.OptionSendDeadline, 20*time.Millisecond)
		_ = s.SetOption(mangos.OptionReconnectTime, 5*time.Millisecond)
	}
	if p.b == "sub" {
		_ = b.SetOption(mangos.OptionSubscribe, []byte{})
	}
	addr := wire.Addr("inproc")
	if err := b.Listen(addr); err != nil {
		return "listen: " + err.Error()
	}
	if err := a.Dial(addr); err != nil {
		return "dial: " + err.Error()
	}
	stop := make(chan struct{})
	var wg sync.WaitGroup
	hammer(p.a, a, seed, stop, &wg)
	hammer(p.b, b, seed+100, stop, &wg)
	// extra endpoints and pipe closes while traffic flows
	wg.Add(1)
	go func() {
		defer wg.Done()
		r := rand.New(rand.NewSource(seed + 7))
		for {
			select {
			case <-stop:
				return
			default:
			}
			guard(p.a+" endpoints", func() {
				ad := wire.Addr("inproc")
				l, err := b.NewListener(ad, nil)
				if err == nil {
					_ = l.Listen()
					d, err2 := a.NewDialer(ad, map[string]interface{}{mangos.OptionDialAsynch: r.Intn(2) == 0})
					if err2 == nil {
						_ = d.Dial()
						time.Sleep(time.Duration(1+r.Intn(3)) * time.Millisecond)
						_ = d.Close()
					}
					_ = l.Close()
				}
				ea.Wait(time.Millisecond, func(e *wire.Events) bool { return false })
				// close one of the pipes the hook has seen
				ps := snapshotPipes(ea)
				if len(ps) > 0 && r.Intn(3) == 0 {
					atomic.AddInt32(&closes, 1)
					_ = ps[r.Intn(len(ps))].Close()
				}
			})
			time.Sleep(2 * time.Millisecond)
		}
	}()
	dur := 250 * time.Millisecond
	if coqgen.Thorough() {
		dur = 1500 * time.Millisecond
	}
	time.Sleep(dur)
	// Close while everything is still running
	done := make(chan struct{})
	go func() {
		guard("close", func() { _ = a.Close(); _ = b.Close() })
		close(done)
	}()
	select {
	case <-done:
	case <-time.After(5 * time.Second):
		buf := make([]byte, 1<<20)
		n := runtime.Stack(buf, true)
		fmt.Fprintf(os.Stderr, "C11-DEADLOCK Close did not return within 5s for %s/%s\n%s\n", p.a, p.b, buf[:n])
		close(stop)
		return "deadlock"
	}
	close(stop)
	fin := make(chan struct{})
	go func() { wg.Wait(); close(fin) }()
	select {
	case <-fin:
	case <-time.After(5 * time.Second):
		buf := make([]byte, 1<<20)
		n := runtime.Stack(buf, true)
		fmt.Fprintf(os.Stderr, "C11-DEADLOCK workers did not finish within 5s after Close for %s/%s\n%s\n", p.a, p.b, buf[:n])
		return "deadlock"
	}
	return ""
}

// endpointRaces: the endpoint objects themselves are used from several goroutines at once -- Listen / Address / GetOption /
// SetOption / Close on one listener, Dial / Address / GetOption / SetOption / Close on one dialer -- on every transport.
func endpointRaces(tr string, seed int64) string {
	r := rand.New(rand.NewSource(seed))
	for round := 0; round < 6; round++ {
		a, b := wire.New("pair"), wire.New("pair")
		ad := wire.Addr(tr)
		l, err := b.NewListener(ad, wire.Opts(tr, true))
		if err != nil {
			a.Close()
			b.Close()
			return "NewListener: " + err.Error()
		}
		var wg sync.WaitGroup
		run := func(f func()) {
			wg.Add(1)
			go func() {
				defer wg.Done()
				guard(tr+" endpoint", f)
			}()
		}
		d1 := time.Duration(r.Intn(300)) * time.Microsecond
		run(func() { _ = l.Listen() })
		run(func() { _ = l.Address(); _, _ = l.GetOption(mangos.OptionMaxRecvSize) })
		run(func() { _ = l.SetOption(mangos.OptionMaxRecvSize, 4096) })
		run(func() { time.Sleep(d1); _ = l.Close() })
		wg.Wait()
		l2, err := b.NewListener(wire.Addr(tr), wire.Opts(tr, true))
		if err == nil {
			if l2.Listen() == nil {
				d, err := a.NewDialer(l2.Address(), wire.Opts(tr, false))
				if err == nil {
					_ = d.SetOption(mangos.OptionDialAsynch, round%2 == 0)
					run(func() { _ = d.Dial() })
					run(func() { _ = d.Address(); _, _ = d.GetOption(mangos.OptionMaxRecvSize) })
					run(func() { _ = d.SetOption(mangos.OptionMaxRecvSize, 8192) })
					run(func() { time.Sleep(d1); _ = d.Close() })
					wg.Wait()
				}
			}
			_ = l2.Close()
		}
		done := make(chan struct{})
		go func() { guard("close", func() { _ = a.Close(); _ = b.Close() }); close(done) }()
		select {
		case <-done:
		case <-time.After(5 * time.Second):
			buf := make([]byte, 1<<20)
			n := runtime.Stack(buf, true)
			fmt.Fprintf(os.Stderr, "C11-DEADLOCK Close did not return within 5s after endpoint races on %s\n%s\n", tr, buf[:n])
			return "deadlock"
		}
	}
	return ""
}

// duplexTraffic: both ends of one PAIR connection send and receive at the same time (different sizes in the two
// directions) over a real transport, under the race detector: the two directions of a pipe share nothing unsynchronised.
func duplexTraffic(tr string, seed int64) string {
	a, b := wire.New("pair"), wire.New("pair")
	ea, eb := wire.Track(a), wire.Track(b)
	if _, err := wire.Connect(tr, b, a, eb, ea); err != nil {
		a.Close()
		b.Close()
		return "connect: " + err.Error()
	}
	for _, s := range []mangos.Socket{a, b} {
		_ = s.SetOption(mangos.OptionRecvDeadline, 50*time.Millisecond)
		_ = s.SetOption(mangos.OptionSendDeadline, 50*time.Millisecond)
	}
	stop := make(chan struct{})
	var wg sync.WaitGroup
	run := func(name string, f func()) {
		wg.Add(1)
		go func() {
			defer wg.Done()
			for {
				select {
				case <-stop:
					return
				default:
				}
				guard(name, f)
			}
		}()
	}
	small, large := make([]byte, 40), make([]byte, 2500)
	run(tr+" duplex send a", func() { _ = a.Send(small) })
	run(tr+" duplex send b", func() { _ = b.Send(large) })
	run(tr+" duplex recv a", func() { _, _ = a.Recv() })
	run(tr+" duplex recv b", func() { _, _ = b.Recv() })
	time.Sleep(150 * time.Millisecond)
	close(stop)
	wg.Wait()
	done := make(chan struct{})
	go func() { guard("close", func() { _ = a.Close(); _ = b.Close() }); close(done) }()
	select {
	case <-done:
	case <-time.After(5 * time.Second):
		return "deadlock"
	}
	return ""
}

// handshakeRaces: a handshaker (what every stream listener and dialer uses) is closed while handshakes are completing:
// Close walks the connections still in the work queue while their workers finish.
func handshakeRaces(seed int64) string {
	r := rand.New(rand.NewSource(seed))
	pi := transport.ProtocolInfo{Self: 16, Peer: 16, SelfName: "pair", PeerName: "pair"}
	for round := 0; round < 12; round++ {
		hs := transport.NewConnHandshaker()
		var wg sync.WaitGroup
		fire := make(chan struct{})
		for i := 0; i < 48; i++ {
			a, b := net.Pipe()
			hs.Start(transport.NewConnPipe(a, pi))
			wg.Add(1)
			d := time.Duration(r.Intn(200)) * time.Microsecond
			go func(c net.Conn, d time.Duration) {
				defer wg.Done()
				buf := make([]byte, 8)
				go func() { _, _ = c.Read(buf) }()
				<-fire
				time.Sleep(d)
				_, _ = c.Write([]byte{0, 'S', 'P', 0, 0, 16, 0, 0})
				time.Sleep(2 * time.Millisecond)
				_ = c.Close()
			}(b, d)
		}
		time.Sleep(3 * time.Millisecond)
		close(fire)
		time.Sleep(time.Duration(r.Intn(200)) * time.Microsecond)
		done := make(chan struct{})
		go func() { guard("handshaker close", func() { hs.Close() }); close(done) }()
		select {
		case <-done:
		case <-time.After(5 * time.Second):
			buf := make([]byte, 1<<20)
			n := runtime.Stack(buf, true)
			fmt.Fprintf(os.Stderr, "C11-DEADLOCK handshaker Close did not return within 5s\n%s\n", buf[:n])
			return "deadlock"
		}
		wg.Wait()
	}
	return ""
}

func snapshotPipes(e *wire.Events) []mangos.Pipe {
	var ps []mangos.Pipe
	e.Wait(0, func(ev *wire.Events) bool { ps = append(ps, ev.Pipes...); return true })
	return ps
}

func main() {
	seed := coqgen.Seed()
	defer wire.Cleanup()
	only := ""
	if len(os.Args) > 1 {
		only = os.Args[1]
	}
	for i, p := range pairs {
		if only != "" && only != p.a {
			continue
		}
		res := scenario(p, seed*1000+int64(i))
		fmt.Printf("scenario %s/%s %s\n", p.a, p.b, map[bool]string{true: "ok", false: res}[res == ""])
	}
	if only == "" || only == "endpoints" {
		for i, tr := range wire.Transports {
			res := endpointRaces(tr, seed*77+int64(i))
			fmt.Printf("scenario endpoints/%s %s\n", tr, map[bool]string{true: "ok", false: res}[res == ""])
		}
	}
	if only == "" || only == "endpoints" {
		for i, tr := range wire.Transports {
			res := duplexTraffic(tr, seed*53+int64(i))
			fmt.Printf("scenario duplex/%s %s\n", tr, map[bool]string{true: "ok", false: res}[res == ""])
		}
		res := handshakeRaces(seed*91 + 5)
		fmt.Printf("scenario endpoints/handshaker %s\n", map[bool]string{true: "ok", false: res}[res == ""])
	}
	fmt.Printf("panics %d\n", atomic.LoadInt32(&panics))
}
