// c01 sends position-dependent payloads of boundary sizes through real sockets over every
// transport and pattern (cooked and raw) and records what the peer's Recv returned.
package main

import (
	"fmt"
	"math/rand"
	"os"
	"path/filepath"
	"sync"
	"time"

	"mangosverif/coqgen"
	"mangosverif/wire"

	"go.nanomsg.org/mangos/v3"
)

type pat struct {
	coq      string // model pattern
	snd, rcv string // cooked socket names
	hdrLen   int    // bytes the pattern puts in front of the body on the wire
	twoWay   bool   // request/reply style
	rawHdr   []byte // header a raw sender must supply
}

var pats = []pat{
	{"PPair", "pair", "pair", 0, false, nil},
	{"PPair1", "pair1", "pair1", 4, false, []byte{0, 0, 0, 0}},
	{"PPubSub", "pub", "sub", 0, false, nil},
	{"PReqRep", "req", "rep", 4, true, []byte{0x80, 0, 0, 0}},
	{"PPushPull", "push", "pull", 0, false, nil},
	{"PSurvey", "surveyor", "respondent", 4, true, []byte{0x80, 0, 0, 0}},
	{"PBus", "bus", "bus", 0, false, nil},
	{"PStar", "star", "star", 4, false, []byte{0, 0, 0, 0}},
}

type mspec struct {
	seed uint64
	n    int
}

type obs struct {
	pid  uint32
	hdr  []byte
	body []byte
}

type flow struct {
	tr    string
	p     pat
	raw   bool
	fwd   bool
	maxrx int
	msgs  []mspec
	got   []obs
	note  string
}

func (f *flow) coq() string {
	var ms, gs []string
	for _, m := range f.msgs {
		ms = append(ms, fmt.Sprintf("(%d, %d)", m.seed, m.n))
	}
	for _, g := range f.got {
		gs = append(gs, fmt.Sprintf("(%d, %s, %s)", g.pid, coqgen.Hex(g.hdr), coqgen.Digest(g.body)))
	}
	n := ""
	if f.note != "" {
		n = " (* " + f.note + " *)"
	}
	return fmt.Sprintf("(%s, %s, %s, %s, %d, %s, %s)%s", wire.CoqTransport[f.tr], f.p.coq, coqgen.Bool(f.raw), coqgen.Bool(f.fwd),
		f.maxrx, coqgen.List(ms), coqgen.List(gs), n)
}

func dedupe(xs []int) []int {
	seen := map[int]bool{}
	var out []int
	for _, x := range xs {
		if x >= 0 && !seen[x] {
			seen[x] = true
			out = append(out, x)
		}
	}
	return out
}

// sizes: body lengths to send; the last one (if over >= 0) exceeds the limit.
func sizes(r *rand.Rand, big bool, hdr, limit int) (in []int, over int) {
	base := []int{0, 1, 63, 64, 65, 127, 128, 129, 255, 256, 257, 511, 512, 513, 1023, 1024, 1025}
	if big {
		base = []int{0, 1, 64, 4095, 4096, 4097, 8191, 8192, 8193, 65535, 65536, 65537}
	}
	var xs []int
	for _, b := range base {
		xs = append(xs, b, b-hdr)
	}
	xs = append(xs, limit-hdr-1, limit-hdr)
	xs = dedupe(xs)
	var ok []int
	for _, x := range xs {
		if x+hdr <= limit {
			ok = append(ok, x)
		}
	}
	r.Shuffle(len(ok), func(i, j int) { ok[i], ok[j] = ok[j], ok[i] })
	return ok, limit - hdr + 1
}

// both mangos.Socket and mangos.Context
type endpoint interface {
	Send([]byte) error
	Recv() ([]byte, error)
	SendMsg(*mangos.Message) error
	RecvMsg() (*mangos.Message, error)
	SetOption(string, interface{}) error
}

// held mode: the []byte convenience calls; the slices Recv returned stay in the application's hands, untouched and
// uncopied, until the whole flow is over (they are digested only when the flow is written out) -- what the
// application received must stay what was sent while the library goes on allocating and releasing messages
func recvN(s endpoint, want int, tmo time.Duration, held bool) ([]obs, error) {
	var out []obs
	_ = s.SetOption(mangos.OptionRecvDeadline, tmo)
	for held && len(out) < want {
		b, err := s.Recv()
		if err != nil {
			return out, err
		}
		out = append(out, obs{0, nil, b})
	}
	for len(out) < want {
		m, err := s.RecvMsg()
		if err != nil {
			return out, err
		}
		var pid uint32
		if m.Pipe != nil {
			pid = m.Pipe.ID()
		}
		out = append(out, obs{pid, append([]byte{}, m.Header...), append([]byte{}, m.Body...)})
		m.Free()
	}
	return out, nil
}

func sendOne(s endpoint, raw bool, hdr []byte, body []byte, held bool) error {
	if held {
		_ = s.SetOption(mangos.OptionSendDeadline, 3*time.Second)
		return s.Send(body)
	}
	// a raw application builds its message in place: it may ask for less room than it ends up using (the body then outgrows
	// its size class by append) and it appends its header to the message's own header room
	n := len(body)
	if raw && hdr != nil && n <= 300 {
		n = 0
	}
	m := mangos.NewMessage(n)
	m.Body = append(m.Body, body...)
	if raw && hdr != nil {
		m.Header = append(m.Header, hdr...)
	}
	_ = s.SetOption(mangos.OptionSendDeadline, 3*time.Second)
	err := s.SendMsg(m)
	if err != nil {
		m.Free()
	}
	return err
}

// held: 0 = message API; 1 = Send/Recv of byte slices on the sockets; 2 = the same on contexts where the protocol has them
func runFlow(tr string, p pat, raw, big bool, limit int, r *rand.Rand, heldMode int) []*flow {
	sn, rn := p.snd, p.rcv
	if raw {
		sn, rn = "x"+sn, "x"+rn
	}
	sndS, rcvS := wire.New(sn), wire.New(rn)
	defer sndS.Close()
	defer rcvS.Close()
	held := heldMode > 0
	var snd, rcv endpoint = sndS, rcvS
	if heldMode == 2 {
		if c, err := sndS.OpenContext(); err == nil {
			snd = c
		}
		if c, err := rcvS.OpenContext(); err == nil {
			rcv = c
		}
	}
	fw := &flow{tr: tr, p: p, raw: raw, fwd: true, maxrx: limit}
	if held {
		fw.note = fmt.Sprintf("held slices, mode %d", heldMode)
	}
	var back *flow
	if p.twoWay {
		back = &flow{tr: tr, p: p, raw: raw, fwd: false, maxrx: limit}
	}
	ret := func() []*flow {
		if back != nil {
			return []*flow{fw, back}
		}
		return []*flow{fw}
	}
	_ = rcvS.SetOption(mangos.OptionMaxRecvSize, limit)
	_ = sndS.SetOption(mangos.OptionMaxRecvSize, limit)
	if rn == "sub" {
		_ = rcv.SetOption(mangos.OptionSubscribe, []byte{})
	}
	if sn == "surveyor" {
		_ = sndS.SetOption(mangos.OptionSurveyTime, 10*time.Second)
		_ = snd.SetOption(mangos.OptionSurveyTime, 10*time.Second)
	}
	if sn == "req" {
		_ = sndS.SetOption(mangos.OptionRetryTime, time.Duration(0))
		_ = snd.SetOption(mangos.OptionRetryTime, time.Duration(0))
	}
	se, re := wire.Track(sndS), wire.Track(rcvS)
	if _, err := wire.Connect(tr, rcvS, sndS, re, se); err != nil {
		fw.note = "connect failed: " + err.Error()
		return ret()
	}
	in, over := sizes(r, big, p.hdrLen, limit)
	if !p.twoWay {
		for _, n := range in {
			fw.msgs = append(fw.msgs, mspec{uint64(r.Intn(256)), n})
		}
		fw.msgs = append(fw.msgs, mspec{uint64(r.Intn(256)), over})
		var wg sync.WaitGroup
		wg.Add(1)
		go func() {
			defer wg.Done()
			for _, m := range fw.msgs {
				if err := sendOne(snd, raw, p.rawHdr, coqgen.GenBody(m.seed, m.n), held); err != nil {
					fw.note = "send failed: " + err.Error()
					return
				}
				if sn == "pub" || sn == "bus" || sn == "star" || sn == "xpub" || sn == "xbus" || sn == "xstar" {
					time.Sleep(200 * time.Microsecond) // these drop on a full per-pipe queue; do not outrun the link
				}
			}
		}()
		got, _ := recvN(rcv, len(in), 4*time.Second, held)
		wg.Wait()
		// the over-limit message must not arrive (on inproc there is no limit: it does)
		extra, _ := recvN(rcv, 1, 400*time.Millisecond, held)
		fw.got = append(got, extra...)
		return ret()
	}
	// request/reply style: every request is answered, both directions are recorded
	for i, n := range in {
		m := mspec{uint64(r.Intn(256)), n}
		fw.msgs = append(fw.msgs, m)
		if err := sendOne(snd, raw, p.rawHdr, coqgen.GenBody(m.seed, m.n), held); err != nil {
			fw.note = fmt.Sprintf("send %d failed: %v", i, err)
			return ret()
		}
		got, err := recvN(rcv, 1, 4*time.Second, held)
		fw.got = append(fw.got, got...)
		if err != nil {
			fw.note = fmt.Sprintf("request %d not received: %v", i, err)
			return ret()
		}
		// reply of a different size class, same rules
		rm := mspec{uint64(r.Intn(256)), in[(i+len(in)/2)%len(in)]}
		back.msgs = append(back.msgs, rm)
		var rh []byte
		if raw {
			rh = got[0].hdr
		}
		if err := sendOne(rcv, raw, rh, coqgen.GenBody(rm.seed, rm.n), held); err != nil {
			back.note = fmt.Sprintf("reply %d failed: %v", i, err)
			return ret()
		}
		bg, err := recvN(snd, 1, 4*time.Second, held)
		back.got = append(back.got, bg...)
		if err != nil {
			back.note = fmt.Sprintf("reply %d not received: %v", i, err)
			return ret()
		}
	}
	// finally the over-limit request
	m := mspec{uint64(r.Intn(256)), over}
	fw.msgs = append(fw.msgs, m)
	_ = sendOne(snd, raw, p.rawHdr, coqgen.GenBody(m.seed, m.n), held)
	extra, _ := recvN(rcv, 1, 400*time.Millisecond, held)
	fw.got = append(fw.got, extra...)
	return ret()
}

// duplex: both ends of one PAIR connection send at the same time, with different lengths in the two directions, while
// both receive: what arrives in each direction is exactly what was sent in that direction, in order (a buffer shared
// by the two directions of a connection shows here).  Returns the two flows (both "forward").
func runDuplex(tr string, limit int, r *rand.Rand) []*flow {
	a, b := wire.New("pair"), wire.New("pair")
	defer a.Close()
	defer b.Close()
	p := pats[0]
	fa := &flow{tr: tr, p: p, fwd: true, maxrx: limit, note: "duplex, small"}
	fb := &flow{tr: tr, p: p, fwd: true, maxrx: limit, note: "duplex, large"}
	_ = a.SetOption(mangos.OptionMaxRecvSize, limit)
	_ = b.SetOption(mangos.OptionMaxRecvSize, limit)
	ea, eb := wire.Track(a), wire.Track(b)
	if _, err := wire.Connect(tr, b, a, eb, ea); err != nil {
		fa.note = "connect failed: " + err.Error()
		return []*flow{fa, fb}
	}
	const n = 400
	for i := 0; i < n; i++ {
		fa.msgs = append(fa.msgs, mspec{uint64(r.Intn(256)), 1 + r.Intn(90)})
		fb.msgs = append(fb.msgs, mspec{uint64(r.Intn(256)), 900 + r.Intn(2000)})
	}
	var wg sync.WaitGroup
	send := func(s mangos.Socket, f *flow) {
		defer wg.Done()
		for _, m := range f.msgs {
			if err := sendOne(s, false, nil, coqgen.GenBody(m.seed, m.n), false); err != nil {
				f.note = "send failed: " + err.Error()
				return
			}
		}
	}
	recv := func(s mangos.Socket, f *flow) {
		defer wg.Done()
		f.got, _ = recvN(s, n, 4*time.Second, false)
	}
	wg.Add(4)
	go recv(b, fa) // what a sends arrives at b
	go recv(a, fb)
	go send(a, fa)
	go send(b, fb)
	wg.Wait()
	return []*flow{fa, fb}
}

func main() {
	if len(os.Args) < 2 {
		fmt.Fprintln(os.Stderr, "usage: c01 <outdir>")
		os.Exit(2)
	}
	outdir := os.Args[1]
	r := coqgen.Rand()
	thorough := coqgen.Thorough()
	defer wire.Cleanup()

	type job struct {
		tr    string
		p     pat
		raw   bool
		big   bool
		limit int
		seed  int64
		held  int
	}
	var jobs []job
	for _, tr := range wire.Transports {
		for pi, p := range pats {
			for _, raw := range []bool{false, true} {
				jobs = append(jobs, job{tr, p, raw, false, 3000, r.Int63(), 0})
				if !raw {
					// byte-slice API, slices held to the end: on the sockets, and on contexts where there are any
					jobs = append(jobs, job{tr, p, false, false, 3000, r.Int63(), 1})
					if p.snd == "req" || p.snd == "surveyor" || p.rcv == "sub" {
						jobs = append(jobs, job{tr, p, false, false, 3000, r.Int63(), 2})
					}
				}
				// large sizes: one pattern per transport, and every pattern on tcp (quick); everything (thorough)
				if thorough || (pi == 0 && !raw) || (tr == "tcp" && !raw) || (tr == "ipc" && raw && pi == 3) {
					jobs = append(jobs, job{tr, p, raw, true, 70000, r.Int63(), 0})
				}
			}
		}
	}
	if thorough {
		// the 1 MiB default limit, left untouched (limit value passed only to size selection)
		for _, tr := range wire.Transports {
			jobs = append(jobs, job{tr, pats[0], false, true, 1 << 20, r.Int63(), 0})
			jobs = append(jobs, job{tr, pats[3], false, true, 1 << 20, r.Int63(), 0})
		}
	}
	// both directions of one connection at once, on every transport
	for _, tr := range wire.Transports {
		jobs = append(jobs, job{tr, pats[0], false, true, 70000, r.Int63(), 3})
	}
	results := make([][]*flow, len(jobs))
	var wg sync.WaitGroup
	sem := make(chan struct{}, 12)
	for i, j := range jobs {
		wg.Add(1)
		go func(i int, j job) {
			defer wg.Done()
			sem <- struct{}{}
			defer func() { <-sem }()
			if j.held == 3 {
				results[i] = runDuplex(j.tr, j.limit, rand.New(rand.NewSource(j.seed)))
				return
			}
			results[i] = runFlow(j.tr, j.p, j.raw, j.big, j.limit, rand.New(rand.NewSource(j.seed)), j.held)
		}(i, j)
	}
	wg.Wait()

	// shard: big flows one per file, small flows grouped
	shard := 0
	var small []string
	flush := func(items []string) {
		w := coqgen.Create(filepath.Join(outdir, fmt.Sprintf("defs_%03d.v", shard)))
		w.Def("flows", "list flow_case", items)
		w.Close()
		shard++
	}
	for i, fs := range results {
		var items []string
		for _, f := range fs {
			items = append(items, f.coq())
			if f.note != "" {
				fmt.Fprintf(os.Stderr, "c01: %s %s raw=%v fwd=%v: %s\n", f.tr, f.p.coq, f.raw, f.fwd, f.note)
			}
		}
		if jobs[i].big {
			flush(items)
		} else {
			small = append(small, items...)
			if len(small) >= 12 {
				flush(small)
				small = nil
			}
		}
	}
	if len(small) > 0 {
		flush(small)
	}
}
