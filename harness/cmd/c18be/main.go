// c18be: best effort never blocks -- whatever deadline is set as well.  For every protocol that has BEST-EFFORT:
// a peer that takes nothing (its transport send is held), the smallest send queue, BEST-EFFORT on and a long
// SEND-DEADLINE; every Send must return at once (well below the deadline) and without error.  The durations are
// written as Gallina terms; the oracle (Model/Deadline.v: a best-effort send is Done or Dropped, never Blocked or
// TimedOut) is evaluated by coqc.
package main

import (
	"fmt"
	"os"
	"time"

	"mangosverif/coqgen"
	"mangosverif/mp"
	"mangosverif/wire"

	"go.nanomsg.org/mangos/v3"
)

var hdrs = map[string][]byte{
	"xreq": {0x80, 0, 0, 1}, "xpair1": {0, 0, 0, 0},
	"xrep": {0, 0, 0, 100, 0x80, 0, 0, 1}, "xrespondent": {0, 0, 0, 100, 0x80, 0, 0, 1},
}

func one(name string, deadline time.Duration, wq int) string {
	p := wire.Protocols[name]()
	defer p.Close()
	if err := p.SetOption(mangos.OptionBestEffort, true); err != nil {
		return ""
	}
	_ = p.SetOption(mangos.OptionWriteQLen, wq)
	_ = p.SetOption(mangos.OptionSendDeadline, deadline)
	_ = p.SetOption(mangos.OptionRecvDeadline, 200*time.Millisecond)
	rec := &mp.Recorder{}
	pipe := mp.NewPipe(100, 0, p, rec)
	if err := pipe.Attach(); err != nil {
		return fmt.Sprintf("(%q, %d, %d, [], 9) (* attach: %v *)", name, deadline.Milliseconds(), wq, err)
	}
	defer pipe.Close()
	pipe.SetHold(true)
	cooked := name == "rep" || name == "respondent"
	var durs []string
	errs := 0
	for i := 0; i < 6; i++ {
		if cooked { // a reply needs a request first
			req := append([]byte{0, 0, 0, 7, 0x80, 0, 0, byte(i + 1)}, "q"...)
			if !pipe.Inject(req, 100*time.Millisecond) {
				break
			}
			m, err := p.RecvMsg()
			if err != nil {
				break
			}
			m.Free()
		}
		m := mangos.NewMessage(16)
		m.Body = append(m.Body, "be"...)
		if h, ok := hdrs[name]; ok {
			m.Header = append(m.Header, h...)
		}
		t0 := time.Now()
		err := p.SendMsg(m)
		d := time.Since(t0)
		if err != nil {
			errs++
			m.Free()
		}
		durs = append(durs, fmt.Sprint(d.Milliseconds()))
	}
	return fmt.Sprintf("(%q, %d, %d, %s, %d)", name, deadline.Milliseconds(), wq, coqgen.List(durs), errs)
}

func main() {
	if len(os.Args) < 2 {
		fmt.Fprintln(os.Stderr, "usage: c18be <out.v>")
		os.Exit(2)
	}
	coqgen.Watchdog(5 * time.Minute)
	w := coqgen.Create(os.Args[1])
	defer w.Close()
	var items []string
	for _, n := range wire.AllNames {
		for _, dl := range []time.Duration{400 * time.Millisecond, 0} {
			for _, wq := range []int{0, 1} {
				if s := one(n, dl, wq); s != "" {
					items = append(items, s)
				}
			}
		}
	}
	w.Def("be_cases", "list (string * N * N * list N * N)", items)
}
