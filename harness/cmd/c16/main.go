// c16 plays a hostile or broken peer: malformed streams after a correct handshake, broken and
// stalled handshakes, and arbitrary bodies into every pattern's receive path; a well-behaved
// control peer on the same socket must keep working throughout.
package main

import (
	"encoding/binary"
	"fmt"
	"io"
	"math/rand"
	"net"
	"os"
	"runtime"
	"strings"
	"sync"
	"time"

	"mangosverif/coqgen"
	"mangosverif/mp"
	"mangosverif/wire"

	"go.nanomsg.org/mangos/v3"
)

func hdr(p uint16) []byte { return []byte{0, 'S', 'P', 0, byte(p >> 8), byte(p), 0, 0} }

func be64(v uint64) []byte {
	b := make([]byte, 8)
	binary.BigEndian.PutUint64(b, v)
	return b
}

func frame(ipc bool, body []byte) []byte {
	var b []byte
	if ipc {
		b = append(b, 1)
	}
	return append(append(b, be64(uint64(len(body)))...), body...)
}

func rawDial(scheme, addr string) (net.Conn, error) {
	u := strings.SplitN(addr, "://", 2)[1]
	if scheme == "ipc" {
		return net.DialTimeout("unix", u, 2*time.Second)
	}
	return net.DialTimeout("tcp", u, 2*time.Second)
}

// genStream: a valid prefix then one mutation; all hostile bodies start with 'H'.
func genStream(r *rand.Rand, ipc bool, maxrx int, idx int) []byte {
	var s []byte
	k := r.Intn(4)
	body := func() []byte {
		n := 1 + r.Intn(40)
		if r.Intn(6) == 0 {
			n = maxrx - r.Intn(3) // at or just below the limit
		}
		b := make([]byte, n)
		r.Read(b)
		b[0] = 'H'
		return b
	}
	for i := 0; i < k; i++ {
		s = append(s, frame(ipc, body())...)
	}
	pre := func() {
		if ipc {
			s = append(s, byte([]int{1, 1, 0, 2, 255}[r.Intn(5)]))
		}
	}
	switch idx % 12 {
	case 0: // clean
	case 1: // truncated length
		pre()
		s = append(s, be64(5)[:r.Intn(8)]...)
	case 2: // truncated body
		pre()
		b := body()
		s = append(s, be64(uint64(len(b)))...)
		s = append(s, b[:r.Intn(len(b))]...)
	case 3: // exactly the limit, then one more
		b := make([]byte, maxrx)
		r.Read(b)
		b[0] = 'H'
		s = append(s, frame(ipc, b)...)
		s = append(s, frame(ipc, body())...)
	case 4: // limit + 1 : dropped, and nothing after it is delivered
		b := make([]byte, maxrx+1)
		b[0] = 'H'
		s = append(s, frame(ipc, b)...)
		s = append(s, frame(ipc, body())...)
	case 5: // huge announced length, few bytes follow
		pre()
		s = append(s, be64([]uint64{1 << 30, 1 << 31, 1 << 40, 1 << 62, 1<<63 - 1}[r.Intn(5)])...)
		s = append(s, body()...)
	case 6: // negative length
		pre()
		s = append(s, be64([]uint64{1 << 63, 1<<64 - 1, 1<<63 + 5}[r.Intn(3)])...)
		s = append(s, body()...)
	case 7: // garbage
		g := make([]byte, 1+r.Intn(30))
		r.Read(g)
		if !ipc {
			g[0] |= 0x40 // make sure the length is enormous rather than a long wait for more bytes
		} else if len(g) > 1 {
			g[1] |= 0x40
		}
		s = append(s, g...)
	case 8: // empty messages
		s = append(s, frame(ipc, nil)...)
		s = append(s, frame(ipc, []byte{'H'})...)
		s = append(s, frame(ipc, nil)...)
	case 9: // many small
		for i := 0; i < 10; i++ {
			s = append(s, frame(ipc, body())...)
		}
	case 10: // limit+1 announced but nothing follows
		pre()
		s = append(s, be64(uint64(maxrx+1))...)
	default: // wrong ipc prefix on a good frame (the code does not check it), or just clean for tcp
		b := body()
		if ipc {
			s = append(s, byte(r.Intn(256)))
			s = append(s, be64(uint64(len(b)))...)
			s = append(s, b...)
		} else {
			s = append(s, frame(false, b)...)
		}
	}
	return s
}

type streamObs struct {
	ipc     bool
	maxrx   int
	stream  []byte
	got     [][]byte
	closed  bool // mangos closed the connection while ours was still open
	control int  // control messages received
	wantCtl int
	note    string
}

// late: the receive limit is set on the socket after Listen (it still governs every connection accepted afterwards)
func runStream(scheme string, maxrx int, stream []byte, late bool) *streamObs {
	o := &streamObs{ipc: scheme == "ipc", maxrx: maxrx, stream: stream}
	s := wire.New("pull")
	defer s.Close()
	if !late {
		_ = s.SetOption(mangos.OptionMaxRecvSize, maxrx)
	}
	ev := wire.Track(s)
	a := wire.Addr(scheme)
	if err := s.Listen(a); err != nil {
		o.note = "listen: " + err.Error()
		return o
	}
	if late {
		_ = s.SetOption(mangos.OptionMaxRecvSize, maxrx)
	}
	ctl := wire.New("push")
	defer ctl.Close()
	_ = ctl.SetOption(mangos.OptionSendDeadline, 2*time.Second)
	if err := ctl.Dial(a); err != nil {
		o.note = "control dial: " + err.Error()
		return o
	}
	c, err := rawDial(scheme, a)
	if err != nil {
		o.note = "raw dial: " + err.Error()
		return o
	}
	defer c.Close()
	_, _ = c.Write(hdr(0x50))
	hb := make([]byte, 8)
	_ = c.SetReadDeadline(time.Now().Add(2 * time.Second))
	if _, err := io.ReadFull(c, hb); err != nil {
		o.note = "handshake read: " + err.Error()
		return o
	}
	if !ev.Wait(3*time.Second, func(e *wire.Events) bool { return e.Attached >= 2 }) {
		o.note = "pipes not attached"
		return o
	}
	// control traffic before, during and after
	o.wantCtl = 6
	var wg sync.WaitGroup
	wg.Add(1)
	go func() {
		defer wg.Done()
		for i := 0; i < o.wantCtl; i++ {
			_ = ctl.Send([]byte(fmt.Sprintf("C%d", i)))
			time.Sleep(3 * time.Millisecond)
		}
	}()
	_, _ = c.Write(stream)
	_ = s.SetOption(mangos.OptionRecvDeadline, 150*time.Millisecond)
	for {
		m, err := s.RecvMsg()
		if err != nil {
			break
		}
		if len(m.Body) > 0 && m.Body[0] == 'C' {
			o.control++
		} else {
			o.got = append(o.got, append([]byte{}, m.Body...))
		}
		m.Free()
	}
	wg.Wait()
	// did mangos hang up on us?
	_ = c.SetReadDeadline(time.Now().Add(100 * time.Millisecond))
	one := make([]byte, 1)
	_, rerr := c.Read(one)
	if rerr != nil {
		if ne, ok := rerr.(net.Error); !ok || !ne.Timeout() {
			o.closed = true
		}
	}
	// the socket must still serve the control peer
	_ = ctl.Send([]byte("Cfinal"))
	_ = s.SetOption(mangos.OptionRecvDeadline, time.Second)
	for {
		m, err := s.RecvMsg()
		if err != nil {
			o.note = "control peer no longer served: " + err.Error()
			break
		}
		isFinal := string(m.Body) == "Cfinal"
		if len(m.Body) > 0 && m.Body[0] == 'C' {
			o.control++
		} else {
			o.got = append(o.got, append([]byte{}, m.Body...))
		}
		m.Free()
		if isFinal {
			break
		}
	}
	o.wantCtl++
	return o
}

func main() {
	if len(os.Args) < 2 {
		fmt.Fprintln(os.Stderr, "usage: c16 <out.v>")
		os.Exit(2)
	}
	r := coqgen.Rand()
	thorough := coqgen.Thorough()
	if thorough {
		coqgen.Watchdog(25 * time.Minute)
	} else {
		coqgen.Watchdog(5 * time.Minute)
	}
	defer wire.Cleanup()
	w := coqgen.Create(os.Args[1])
	defer w.Close()

	var ms0 runtime.MemStats
	runtime.ReadMemStats(&ms0)
	// what counts is the largest amount of heap in use at any moment while the hostile streams are fed (a frame announcing
	// 2^30 bytes that got its buffer shows as a gigabyte here), not the total of short-lived garbage: sampled every 2 ms
	var peak uint64
	stopSample := make(chan struct{})
	sampled := make(chan struct{})
	go func() {
		defer close(sampled)
		var ms runtime.MemStats
		for {
			select {
			case <-stopSample:
				return
			case <-time.After(2 * time.Millisecond):
			}
			runtime.ReadMemStats(&ms)
			if ms.HeapAlloc > peak {
				peak = ms.HeapAlloc
			}
		}
	}()

	// ---- 1. malformed streams -----------------------------------------------------------------
	nstream := 72
	if thorough {
		nstream = 720
	}
	obs := make([]*streamObs, nstream)
	var wg sync.WaitGroup
	sem := make(chan struct{}, 16)
	for i := 0; i < nstream; i++ {
		scheme := []string{"tcp", "ipc"}[i%2]
		maxrx := []int{100, 1000, 4096}[(i/2)%3]
		st := genStream(rand.New(rand.NewSource(r.Int63())), scheme == "ipc", maxrx, i/2)
		wg.Add(1)
		go func(i int) {
			defer wg.Done()
			sem <- struct{}{}
			defer func() { <-sem }()
			obs[i] = runStream(scheme, maxrx, st, (i/24)%2 == 1)
		}(i)
	}
	wg.Wait()
	var items []string
	for _, o := range obs {
		var gs []string
		for _, g := range o.got {
			gs = append(gs, coqgen.Hex(g))
		}
		note := ""
		if o.note != "" {
			note = " (* " + strings.ReplaceAll(o.note, "*)", "") + " *)"
			fmt.Fprintln(os.Stderr, "c16:", o.note)
		}
		items = append(items, fmt.Sprintf("(%s, %d, %s, %s, %s, %s)%s", coqgen.Bool(o.ipc), o.maxrx, coqgen.Hex(o.stream), coqgen.List(gs),
			coqgen.Bool(o.closed), coqgen.Bool(o.control == o.wantCtl && o.note == ""), note))
	}
	w.Def("stream_cases", "list (bool * N * string * list string * bool * bool)", items)

	var ms1 runtime.MemStats
	runtime.ReadMemStats(&ms1)
	close(stopSample)
	<-sampled
	w.P("Definition alloc_mb : N := %d.", peak>>20)
	w.P("Definition total_alloc_mb : N := %d.", (ms1.TotalAlloc-ms0.TotalAlloc)>>20)

	// ---- 2. broken and stalled handshakes do not delay other peers -------------------------------
	var hitems []string
	for _, scheme := range []string{"tcp", "ipc"} {
		s := wire.New("pull")
		a := wire.Addr(scheme)
		_ = s.Listen(a)
		var conns []net.Conn
		for i := 0; i < 24; i++ {
			c, err := rawDial(scheme, a)
			if err != nil {
				continue
			}
			conns = append(conns, c)
			switch i % 4 {
			case 0: // say nothing at all
			case 1:
				_, _ = c.Write(hdr(0x50)[:1+r.Intn(7)]) // partial header, then stall
			case 2:
				g := make([]byte, 8)
				r.Read(g)
				_, _ = c.Write(g) // garbage header
			case 3:
				_, _ = c.Write(hdr(0x31)) // wrong protocol
			}
		}
		t0 := time.Now()
		ctl := wire.New("push")
		_ = ctl.SetOption(mangos.OptionSendDeadline, 3*time.Second)
		_ = s.SetOption(mangos.OptionRecvDeadline, 3*time.Second)
		err := ctl.Dial(a)
		ok := err == nil
		if ok {
			ok = ctl.Send([]byte("hello")) == nil
		}
		if ok {
			b, e := s.Recv()
			ok = e == nil && string(b) == "hello"
		}
		dt := time.Since(t0)
		hitems = append(hitems, fmt.Sprintf("(%q, %d, %s, %d)", scheme, len(conns), coqgen.Bool(ok), dt.Milliseconds()))
		for _, c := range conns {
			c.Close()
		}
		ctl.Close()
		s.Close()
	}
	w.Def("stall_cases", "list (string * N * bool * N)", hitems)

	// ---- 3. arbitrary bodies into every pattern's receive path (mock pipes) ---------------------
	var pitems []string
	names := wire.AllNames
	nb := 300
	if thorough {
		nb = 3000
	}
	for _, name := range names {
		p := wire.Protocols[name]()
		if name == "sub" || name == "xsub" {
			_ = p.SetOption(mangos.OptionSubscribe, []byte{})
		}
		if name == "req" {
			m := mangos.NewMessage(4)
			m.Body = append(m.Body, 'q')
			_ = p.SetOption(mangos.OptionBestEffort, true)
			_ = p.SendMsg(m)
		}
		if name == "surveyor" {
			m := mangos.NewMessage(4)
			m.Body = append(m.Body, 'q')
			_ = p.SendMsg(m)
		}
		rec := &mp.Recorder{}
		pipe := mp.NewPipe(uint32(1+r.Intn(1<<30)), 0, p, rec)
		pipe2 := mp.NewPipe(uint32(1+r.Intn(1<<30)), 1, p, rec)
		if err := pipe.Attach(); err != nil {
			pitems = append(pitems, fmt.Sprintf("(%q, 0, 0, false) (* attach: %v *)", name, err))
			continue
		}
		_ = pipe2.Attach()
		stop := make(chan struct{})
		var drained int
		var dwg sync.WaitGroup
		dwg.Add(1)
		go func() { // the application keeps receiving
			defer dwg.Done()
			_ = p.SetOption(mangos.OptionRecvDeadline, 20*time.Millisecond)
			for {
				select {
				case <-stop:
					return
				default:
				}
				m, err := p.RecvMsg()
				if err == nil {
					drained++
					m.Free()
				} else if err == mangos.ErrProtoOp || err == mangos.ErrProtoState {
					time.Sleep(2 * time.Millisecond)
				}
			}
		}()
		taken := 0
		for i := 0; i < nb; i++ {
			var b []byte
			switch r.Intn(6) {
			case 0:
				b = make([]byte, r.Intn(4))
			case 1:
				b = make([]byte, 4+r.Intn(3))
			case 2:
				b = make([]byte, r.Intn(40))
			case 3:
				b = append([]byte{0, 0, 0, byte(r.Intn(12))}, make([]byte, r.Intn(5))...)
				goto have
			case 4:
				b = append(be64(r.Uint64())[4:], byte(r.Intn(256)))
				b[0] |= 0x80
				goto have
			default:
				b = make([]byte, 8+r.Intn(8))
			}
			r.Read(b)
		have:
			if pipe.Closed() {
				break
			}
			if pipe.Inject(b, 500*time.Millisecond) {
				taken++
			}
		}
		close(stop)
		dwg.Wait()
		alive := !pipe.Closed()
		pitems = append(pitems, fmt.Sprintf("(%q, %d, %d, %s)", name, taken, drained, coqgen.Bool(alive && taken == nb)))
		_ = p.Close()
		_ = pipe.Close()
		_ = pipe2.Close()
	}
	w.Def("proto_cases", "list (string * N * N * bool)", pitems)
}
