// Package wire has what the real-transport (L3) harnesses share: the transport list, fresh
// addresses, a TLS configuration, socket constructors by pattern, connection set-up with pipe
// event tracking.
package wire

import (
	"crypto/ecdsa"
	"crypto/elliptic"
	"crypto/rand"
	"crypto/tls"
	"crypto/x509"
	"crypto/x509/pkix"
	"fmt"
	"math/big"
	"net"
	"os"
	"path/filepath"
	"sync"
	"sync/atomic"
	"time"

	"go.nanomsg.org/mangos/v3"
	"go.nanomsg.org/mangos/v3/protocol/bus"
	"go.nanomsg.org/mangos/v3/protocol/pair"
	"go.nanomsg.org/mangos/v3/protocol/pair1"
	"go.nanomsg.org/mangos/v3/protocol/pub"
	"go.nanomsg.org/mangos/v3/protocol/pull"
	"go.nanomsg.org/mangos/v3/protocol/push"
	"go.nanomsg.org/mangos/v3/protocol/rep"
	"go.nanomsg.org/mangos/v3/protocol/req"
	"go.nanomsg.org/mangos/v3/protocol/respondent"
	"go.nanomsg.org/mangos/v3/protocol/star"
	"go.nanomsg.org/mangos/v3/protocol/sub"
	"go.nanomsg.org/mangos/v3/protocol/surveyor"
	"go.nanomsg.org/mangos/v3/protocol/xbus"
	"go.nanomsg.org/mangos/v3/protocol/xpair"
	"go.nanomsg.org/mangos/v3/protocol/xpair1"
	"go.nanomsg.org/mangos/v3/protocol/xpub"
	"go.nanomsg.org/mangos/v3/protocol/xpull"
	"go.nanomsg.org/mangos/v3/protocol/xpush"
	"go.nanomsg.org/mangos/v3/protocol/xrep"
	"go.nanomsg.org/mangos/v3/protocol/xreq"
	"go.nanomsg.org/mangos/v3/protocol/xrespondent"
	"go.nanomsg.org/mangos/v3/protocol/xstar"
	"go.nanomsg.org/mangos/v3/protocol/xsub"
	"go.nanomsg.org/mangos/v3/protocol/xsurveyor"
	_ "go.nanomsg.org/mangos/v3/transport/all"
)

// Transports in the order of Model/Wire.v's `transport`.
var Transports = []string{"inproc", "tcp", "ipc", "tls+tcp", "ws", "wss"}

// CoqTransport maps a scheme to the model's constructor.
var CoqTransport = map[string]string{"inproc": "TInproc", "tcp": "TTcp", "ipc": "TIpc", "tls+tcp": "TTls", "ws": "TWs", "wss": "TWss"}

var seq int64
var tmpDir string
var tmpOnce sync.Once

// TmpDir returns a scratch directory (removed by Cleanup).
func TmpDir() string {
	tmpOnce.Do(func() { tmpDir, _ = os.MkdirTemp("", "mvwire") })
	return tmpDir
}

// Cleanup removes the scratch directory.
func Cleanup() {
	if tmpDir != "" {
		os.RemoveAll(tmpDir)
	}
}

// FreePort returns a TCP port that was free a moment ago.
func FreePort() int {
	l, err := net.Listen("tcp", "127.0.0.1:0")
	if err != nil {
		panic(err)
	}
	p := l.Addr().(*net.TCPAddr).Port
	l.Close()
	return p
}

// Addr returns a fresh address for the scheme.
func Addr(scheme string) string {
	n := atomic.AddInt64(&seq, 1)
	switch scheme {
	case "inproc":
		return fmt.Sprintf("inproc://mv-%d-%d", os.Getpid(), n)
	case "ipc":
		return "ipc://" + filepath.Join(TmpDir(), fmt.Sprintf("s%d", n))
	case "tcp", "tls+tcp":
		return fmt.Sprintf("%s://127.0.0.1:%d", scheme, FreePort())
	case "ws", "wss":
		return fmt.Sprintf("%s://127.0.0.1:%d/mv%d", scheme, FreePort(), n)
	}
	panic("scheme " + scheme)
}

var tlsOnce sync.Once
var srvCfg, cliCfg *tls.Config

// TLS returns (server config, client config) around one self-signed certificate for 127.0.0.1.
func TLS() (*tls.Config, *tls.Config) {
	tlsOnce.Do(func() {
		key, err := ecdsa.GenerateKey(elliptic.P256(), rand.Reader)
		if err != nil {
			panic(err)
		}
		tmpl := &x509.Certificate{
			SerialNumber: big.NewInt(1), Subject: pkix.Name{CommonName: "127.0.0.1"},
			NotBefore: time.Now().Add(-time.Hour), NotAfter: time.Now().Add(24 * time.Hour),
			KeyUsage: x509.KeyUsageDigitalSignature | x509.KeyUsageCertSign, IsCA: true,
			ExtKeyUsage:           []x509.ExtKeyUsage{x509.ExtKeyUsageServerAuth},
			BasicConstraintsValid: true, IPAddresses: []net.IP{net.ParseIP("127.0.0.1")},
		}
		der, err := x509.CreateCertificate(rand.Reader, tmpl, tmpl, &key.PublicKey, key)
		if err != nil {
			panic(err)
		}
		cert, _ := x509.ParseCertificate(der)
		pool := x509.NewCertPool()
		pool.AddCert(cert)
		srvCfg = &tls.Config{Certificates: []tls.Certificate{{Certificate: [][]byte{der}, PrivateKey: key}}, MinVersion: tls.VersionTLS12}
		cliCfg = &tls.Config{RootCAs: pool, ServerName: "127.0.0.1", MinVersion: tls.VersionTLS12}
	})
	return srvCfg, cliCfg
}

// Opts returns the listener/dialer options a scheme needs.
func Opts(scheme string, server bool) map[string]interface{} {
	o := map[string]interface{}{}
	if scheme == "tls+tcp" || scheme == "wss" {
		s, c := TLS()
		if server {
			o[mangos.OptionTLSConfig] = s
		} else {
			o[mangos.OptionTLSConfig] = c
		}
	}
	return o
}

// Ctor makes a socket.
type Ctor func() (mangos.Socket, error)

// Sockets by name.
var Sockets = map[string]Ctor{
	"pair": pair.NewSocket, "xpair": xpair.NewSocket, "pair1": pair1.NewSocket, "xpair1": xpair1.NewSocket,
	"pub": pub.NewSocket, "xpub": xpub.NewSocket, "sub": sub.NewSocket, "xsub": xsub.NewSocket,
	"req": req.NewSocket, "xreq": xreq.NewSocket, "rep": rep.NewSocket, "xrep": xrep.NewSocket,
	"push": push.NewSocket, "xpush": xpush.NewSocket, "pull": pull.NewSocket, "xpull": xpull.NewSocket,
	"surveyor": surveyor.NewSocket, "xsurveyor": xsurveyor.NewSocket,
	"respondent": respondent.NewSocket, "xrespondent": xrespondent.NewSocket,
	"bus": bus.NewSocket, "xbus": xbus.NewSocket, "star": star.NewSocket, "xstar": xstar.NewSocket,
}

// Protocols: protocol-level constructors (for mock pipes).
var Protocols = map[string]func() mangos.ProtocolBase{
	"pair": pair.NewProtocol, "xpair": xpair.NewProtocol, "pair1": pair1.NewProtocol, "xpair1": xpair1.NewProtocol,
	"pub": pub.NewProtocol, "xpub": xpub.NewProtocol, "sub": sub.NewProtocol, "xsub": xsub.NewProtocol,
	"req": req.NewProtocol, "xreq": xreq.NewProtocol, "rep": rep.NewProtocol, "xrep": xrep.NewProtocol,
	"push": push.NewProtocol, "xpush": xpush.NewProtocol, "pull": pull.NewProtocol, "xpull": xpull.NewProtocol,
	"surveyor": surveyor.NewProtocol, "xsurveyor": xsurveyor.NewProtocol,
	"respondent": respondent.NewProtocol, "xrespondent": xrespondent.NewProtocol,
	"bus": bus.NewProtocol, "xbus": xbus.NewProtocol, "star": star.NewProtocol, "xstar": xstar.NewProtocol,
}

// AllNames lists the 24 protocol implementations.
var AllNames = []string{"pair", "xpair", "pair1", "xpair1", "pub", "xpub", "sub", "xsub", "req", "xreq", "rep", "xrep", "push", "xpush",
	"pull", "xpull", "surveyor", "xsurveyor", "respondent", "xrespondent", "bus", "xbus", "star", "xstar"}

// New makes a socket by name or panics.
func New(name string) mangos.Socket {
	s, err := Sockets[name]()
	if err != nil {
		panic(err)
	}
	return s
}

// Events tracks pipe events of one socket.
type Events struct {
	mu       sync.Mutex
	cv       *sync.Cond
	Attached int
	Detached int
	Log      []string
	Pipes    []mangos.Pipe
}

// Track installs a pipe event hook on s.
func Track(s mangos.Socket) *Events {
	e := &Events{}
	e.cv = sync.NewCond(&e.mu)
	s.SetPipeEventHook(func(ev mangos.PipeEvent, p mangos.Pipe) {
		e.mu.Lock()
		switch ev {
		case mangos.PipeEventAttaching:
			e.Log = append(e.Log, fmt.Sprintf("attaching %d", p.ID()))
		case mangos.PipeEventAttached:
			e.Attached++
			e.Pipes = append(e.Pipes, p)
			e.Log = append(e.Log, fmt.Sprintf("attached %d", p.ID()))
		case mangos.PipeEventDetached:
			e.Detached++
			e.Log = append(e.Log, fmt.Sprintf("detached %d", p.ID()))
		}
		e.cv.Broadcast()
		e.mu.Unlock()
	})
	return e
}

// Wait blocks until cond holds or the timeout passes; returns whether it held.
func (e *Events) Wait(d time.Duration, cond func(*Events) bool) bool {
	deadline := time.Now().Add(d)
	done := make(chan struct{})
	go func() {
		select {
		case <-time.After(d):
			e.mu.Lock()
			e.cv.Broadcast()
			e.mu.Unlock()
		case <-done:
		}
	}()
	defer close(done)
	e.mu.Lock()
	defer e.mu.Unlock()
	for !cond(e) {
		if time.Now().After(deadline) {
			return false
		}
		e.cv.Wait()
	}
	return true
}

// Snapshot returns the counters.
func (e *Events) Snapshot() (att, det int) {
	e.mu.Lock()
	defer e.mu.Unlock()
	return e.Attached, e.Detached
}

// Connect makes `l` listen and `d` dial on a fresh address of the scheme and waits until both
// report one more attached pipe. Returns the address.
func Connect(scheme string, l, d mangos.Socket, le, de *Events) (string, error) {
	a := Addr(scheme)
	la, _ := le.Snapshot()
	da, _ := de.Snapshot()
	if err := l.ListenOptions(a, Opts(scheme, true)); err != nil {
		return a, fmt.Errorf("listen %s: %v", a, err)
	}
	if err := d.DialOptions(a, Opts(scheme, false)); err != nil {
		return a, fmt.Errorf("dial %s: %v", a, err)
	}
	if !le.Wait(5*time.Second, func(e *Events) bool { return e.Attached > la }) ||
		!de.Wait(5*time.Second, func(e *Events) bool { return e.Attached > da }) {
		return a, fmt.Errorf("no connection on %s within 5s", a)
	}
	return a, nil
}
