"""Shared machinery for the mangos verification checks (see DESIGN.md section 2.1)."""
import fcntl
import hashlib
import json
import os
import re
import shutil
import subprocess
import sys
import time

VERIF = os.path.dirname(os.path.dirname(os.path.abspath(__file__)))
REPO = os.environ.get("VERIF_REPO", "/repo")
COQ = os.path.join(VERIF, "coq")
HARNESS = os.path.join(VERIF, "harness")
WORK = os.path.join(VERIF, "work")
EVID = os.path.join(VERIF, "evidence")
REPLAYS = os.path.join(VERIF, "replays")

GOENV = dict(os.environ)
GOENV.update({
    "GOFLAGS": "-mod=mod", "GOPROXY": "off", "GOSUMDB": "off",
    "GOTOOLCHAIN": "local", "CGO_ENABLED": os.environ.get("CGO_ENABLED", "1"),
})

COQ_TRUSTED = [
    "Coq 8.16.1 kernel as run by coqc (vm_compute used; native_compute not used)",
    "axioms: none -- every property theorem prints 'Closed under the global context' (parsed from Print Assumptions on this run)",
]


class Broken(Exception):
    """The machinery itself failed (not a statement about /repo)."""


def log(*a):
    print(*a, file=sys.stderr, flush=True)


def run(cmd, cwd=None, env=None, timeout=900, input=None, check=False):
    t0 = time.time()
    try:
        p = subprocess.run(cmd, cwd=cwd, env=env, input=input, timeout=timeout,
                           stdout=subprocess.PIPE, stderr=subprocess.PIPE,
                           universal_newlines=True, errors="replace")
    except subprocess.TimeoutExpired as e:
        out = e.stdout if isinstance(e.stdout, str) else (e.stdout or b"").decode("utf8", "replace")
        err = e.stderr if isinstance(e.stderr, str) else (e.stderr or b"").decode("utf8", "replace")
        return 124, out, err + "\n[timeout after %ss]" % timeout, time.time() - t0
    if check and p.returncode != 0:
        raise Broken("command failed (%d): %s\n%s\n%s" % (p.returncode, cmd, p.stdout[-3000:], p.stderr[-3000:]))
    return p.returncode, p.stdout, p.stderr, time.time() - t0


# ---------------------------------------------------------------- Coq ----

def coq_flags():
    return ["-Q", os.path.join(COQ, "theories"), "MV", "-Q", os.path.join(COQ, "gen"), "MVgen"]


def coq_build():
    """Full .vo build of the hand-written theories (no-op when up to date).
    These files do not depend on /repo: failure = broken machinery."""
    os.makedirs(WORK, exist_ok=True)
    os.makedirs(os.path.join(COQ, "gen"), exist_ok=True)
    with open(os.path.join(WORK, ".coq.lock"), "w") as lk:
        fcntl.flock(lk, fcntl.LOCK_EX)
        mk = os.path.join(COQ, "Makefile")
        proj = os.path.join(COQ, "_CoqProject")
        files = sorted(
            os.path.relpath(os.path.join(d, f), COQ)
            for d, _, fs in os.walk(os.path.join(COQ, "theories")) for f in fs if f.endswith(".v"))
        want = "-Q theories MV\n-arg -w -arg -notation-overridden,-deprecated-hint-without-locality,-deprecated-instance-without-locality,-ambiguous-paths\n" + "\n".join(files) + "\n"
        old = open(proj).read() if os.path.exists(proj) else ""
        if old != want or not os.path.exists(mk):
            with open(proj, "w") as f:
                f.write(want)
            run(["coq_makefile", "-f", "_CoqProject", "-o", "Makefile"], cwd=COQ, check=True)
        rc, out, err, dt = run(["timeout", "3000", "make", "-j16"], cwd=COQ, timeout=3100)
        if rc != 0:
            raise Broken("coq theories do not build:\n" + out[-4000:] + err[-4000:])
        return dt


def coqc_file(path, timeout=600, extra=None):
    """Compile one .v file (outside the make tree) and return (rc, stdout, stderr, seconds)."""
    cmd = ["timeout", str(timeout), "coqc", "-w", "-notation-overridden,-deprecated-hint-without-locality,-ambiguous-paths"] + coq_flags() + (extra or []) + [path]
    # long string literals (hex of 64 KiB bodies) are deeply nested terms: lift the stack limit
    sh = "ulimit -s unlimited 2>/dev/null || ulimit -s 1000000 2>/dev/null; exec " + " ".join("'%s'" % c for c in cmd)
    return run(["bash", "-c", sh], cwd=os.path.dirname(path), timeout=timeout + 20)


FORBIDDEN = re.compile(r"\b(Admitted|admit|Axiom|Axioms|Parameter|Parameters|Conjecture|Hypothesis|Variable)\b|Unset\s+Guard|bypass_check|Admit Obligations|type-in-type|impredicative-set|Unset Positivity|Unset Universe")


def scan_forbidden():
    """grep the development for forbidden vernacular. `Variable`/`Hypothesis` are allowed only
    inside a Section (we simply do not use them at all outside `Section`; checked textually)."""
    bad = []
    for d, _, fs in os.walk(COQ):
        for f in fs:
            if not f.endswith(".v"):
                continue
            p = os.path.join(d, f)
            depth = 0
            in_comment = 0
            for n, line in enumerate(open(p, errors="replace"), 1):
                # strip comments (nesting aware, line-wise approximation)
                s = ""
                i = 0
                while i < len(line):
                    if line.startswith("(*", i):
                        in_comment += 1
                        i += 2
                    elif line.startswith("*)", i) and in_comment:
                        in_comment -= 1
                        i += 2
                    else:
                        if not in_comment:
                            s += line[i]
                        i += 1
                if re.match(r"\s*Section\b", s):
                    depth += 1
                if re.match(r"\s*End\b", s) and depth:
                    depth -= 1
                m = FORBIDDEN.search(s)
                if m:
                    w = m.group(0)
                    if w in ("Variable", "Hypothesis") and depth > 0:
                        continue
                    bad.append("%s:%d: %s" % (os.path.relpath(p, VERIF), n, w))
    return bad


def props_obligations(pid):
    """Re-check Props/<pid>.v on this run: returns dict(theorems=[..], closed=[..], axioms={thm:[..]}, secs)."""
    src = os.path.join(COQ, "theories", "Props", pid + ".v")
    if not os.path.exists(src):
        raise Broken("no Props file for " + pid)
    wd = os.path.join(WORK, pid, "props")
    shutil.rmtree(wd, ignore_errors=True)
    os.makedirs(wd)
    dst = os.path.join(wd, pid + "_recheck.v")
    shutil.copy(src, dst)
    rc, out, err, dt = coqc_file(dst, timeout=900)
    if rc != 0:
        raise Broken("Props/%s.v does not compile:\n%s\n%s" % (pid, out[-3000:], err[-3000:]))
    text = open(src).read()
    thms = re.findall(r"^\s*(?:Theorem|Corollary)\s+(\w+)", text, re.M)
    printed = re.findall(r"^\s*Print Assumptions\s+(\w+)", text, re.M)
    # Each Print Assumptions prints either "Closed under the global context" or "Axioms:\n ..."
    chunks = re.split(r"(?=Closed under the global context|Axioms:)", out)
    results = [c for c in chunks if c.startswith("Closed under") or c.startswith("Axioms:")]
    closed, axioms = [], {}
    for name, c in zip(printed, results):
        if c.startswith("Closed under"):
            closed.append(name)
        else:
            axioms[name] = [l.split(":")[0].strip() for l in c.splitlines()[1:] if l and not l.startswith(" ") and ":" in l]
    missing = [t for t in thms if t not in printed]
    if missing:
        raise Broken("theorems without Print Assumptions in Props/%s.v: %s" % (pid, missing))
    if len(results) != len(printed):
        raise Broken("could not match Print Assumptions output in Props/%s.v" % pid)
    return {"theorems": thms, "closed": closed, "axioms": axioms, "secs": dt}


def coq_eval(pid, name, body, timeout=900):
    """Write work/<pid>/<name>.v with `body`, compile, return stdout. Lines of the form
    `@@key value` are produced by the body with `Eval vm_compute`/idtac; we return raw stdout."""
    wd = os.path.join(WORK, pid)
    os.makedirs(wd, exist_ok=True)
    p = os.path.join(wd, name + ".v")
    with open(p, "w") as f:
        f.write(body)
    rc, out, err, dt = coqc_file(p, timeout=timeout)
    return rc, out, err, dt


def coq_string(b):
    """Coq string literal holding the lower-case hex of bytes b."""
    return '"' + b.hex() + '"'


# ----------------------------------------------------------------- Go ----

def go_prepare():
    gs = os.path.join(HARNESS, "go.sum")
    if not os.path.exists(gs):
        shutil.copy(os.path.join(REPO, "go.sum"), gs)


def go_build(cmdname, tags="verif", race=False, out=None):
    """Build harness/cmd/<cmdname> against the current /repo working tree."""
    go_prepare()
    bindir = os.path.join(WORK, "bin")
    os.makedirs(bindir, exist_ok=True)
    out = out or os.path.join(bindir, cmdname + ("-race" if race else ""))
    cmd = ["go", "build", "-tags", tags, "-o", out]
    if race:
        cmd.append("-race")
    cmd.append("./cmd/" + cmdname)
    rc, so, se, dt = run(cmd, cwd=HARNESS, env=GOENV, timeout=900)
    if rc != 0:
        # /repo (or the harness) does not compile: not a property verdict.
        raise Broken("go build %s failed:\n%s%s" % (cmdname, so[-3000:], se[-3000:]))
    return out


# ------------------------------------------------------------ verdicts ----

def load_known():
    p = os.path.join(VERIF, "known_findings.json")
    if not os.path.exists(p):
        return []
    return json.load(open(p)).get("findings", [])


class Result:
    def __init__(self, pid, tier, seed):
        self.pid, self.tier, self.seed = pid, tier, seed
        self.t0 = time.time()
        self.violations = []      # (signature, text, replay_obj)
        self.coverage = {}
        self.assumptions = []
        self.notes = []

    def violation(self, signature, text, replay, found_input=True):
        self.violations.append((signature, text, replay, found_input))

    def finish(self, level="proof"):
        known = [k for k in load_known() if k.get("property") == self.pid and k.get("status") == "known"]
        os.makedirs(REPLAYS, exist_ok=True)
        os.makedirs(EVID, exist_ok=True)
        nviol = 0
        lines = []
        seen_known = set()
        per_sig = {}
        for sig, text, replay, found in self.violations:
            per_sig[sig] = per_sig.get(sig, 0) + 1
            if per_sig[sig] > 3 and not any(k["signature"] == sig for k in known):
                nviol += 1      # counted, but only the first three of a kind get a replay file and a line
                continue
            k = next((k for k in known if k["signature"] == sig), None)
            if k is not None:
                if sig not in seen_known:
                    lines.append("KNOWN-FINDING: property=%s %s" % (self.pid, k["text"]))
                    seen_known.add(sig)
                continue
            nviol += 1
            h = hashlib.sha1((sig + json.dumps(replay, sort_keys=True, default=str)).encode()).hexdigest()[:12]
            rp = os.path.join(REPLAYS, "%s-%s.json" % (self.pid, h))
            with open(rp, "w") as f:
                json.dump({"property": self.pid, "signature": sig, "what": text, "replay": replay,
                           "seed": self.seed, "tier": self.tier}, f, indent=1, default=str)
            lines.append("VIOLATION property=%s replay=%s%s" % (self.pid, rp, "" if found else " no-failing-input-found"))
            log("  violation: " + text)
        cov = dict(self.coverage)
        cov.setdefault("trusted_base", COQ_TRUSTED)
        ev = {"property_id": self.pid, "tier": self.tier, "seed": self.seed, "level": level,
              "coverage": cov, "assumptions": self.assumptions,
              "wall_s": round(time.time() - self.t0, 2), "violations": nviol,
              "known_findings_seen": sorted(seen_known), "notes": self.notes}
        with open(os.path.join(EVID, self.pid + ".json"), "w") as f:
            json.dump(ev, f, indent=1, default=str)
        for l in lines:
            print(l, flush=True)
        return 1 if nviol else 0


def std_proof_coverage(res, pid, extra_obligations=0, extra_discharged=0, extra_names=None):
    """Re-check Props/<pid>.v, fill the proof-level coverage keys."""
    po = props_obligations(pid)
    bad = scan_forbidden()
    if bad:
        raise Broken("forbidden vernacular in development: %s" % bad[:5])
    n = len(po["theorems"])
    res.coverage.update({
        "obligations": n + extra_obligations,
        "discharged": len(po["closed"]) + len(po["axioms"]) + extra_discharged,
        "checker_cmd": "coqc (full .vo build via coq_makefile+make of coq/theories, then coqc of Props/%s.v and of the per-run generated obligations)" % pid,
        "theorems": po["theorems"] + (extra_names or []),
        "axioms_per_theorem": po["axioms"] or "none (all Closed under the global context)",
        "props_recheck_s": round(po["secs"], 2),
    })
    if os.environ.get("VERIF_TIER", "quick") == "thorough":
        res.coverage["coqchk"] = coqchk_props(pid)
    return po


def coqchk_props(pid):
    """Thorough tier: re-check the compiled Props/<pid>.vo and everything it depends on with the independent checker."""
    rc, so, se, dt = run(["coqchk", "-silent", "-o", "-Q", os.path.join(COQ, "theories"), "MV", "MV.Props." + pid], cwd=COQ, timeout=3000)
    txt = so + se
    if rc != 0:
        raise Broken("coqchk rejected MV.Props.%s: %s" % (pid, txt[-1500:]))
    out = {"seconds": round(dt, 1)}
    for key, label in (("axioms", "Axioms"), ("type_in_type", "Constants/Inductives relying on type-in-type"),
                       ("unsafe_fixpoints", "Constants/Inductives relying on unsafe (co)fixpoints"), ("assumed_positivity", "Inductives whose positivity is assumed")):
        m = re.search(r"\* " + re.escape(label) + r":\s*(.*?)(?:\n\s*\n|\Z)", txt, re.S)
        out[key] = re.sub(r"\s+", " ", m.group(1)).strip() if m else "?"
    if out["axioms"] != "<none>":
        raise Broken("coqchk reports axioms under MV.Props.%s: %s" % (pid, out["axioms"]))
    return out


def parse_printed(out, name):
    """Value printed by `Print name.` for a definition made with Eval vm_compute (text between
    `name = ` and the type annotation)."""
    m = re.search(r"(?:^|\n)" + re.escape(name) + r"\s*=\s*(.*?)\n\s*:\s", out, re.S)
    if not m:
        return None
    return re.sub(r"\s+", " ", m.group(1)).strip()


def parse_nlist(s):
    """'[1; 2; 3]' (with optional %N) -> [1,2,3]."""
    if s is None:
        return None
    s = s.replace("%N", "").replace("%nat", "").replace("%Z", "").strip()
    if s == "[]":
        return []
    return [int(x) for x in re.findall(r"-?\d+", s)]


def gen_and_eval(pid, gocmd, header, footer, goargs=None, timeout=1200, env=None):
    """Build harness/cmd/<gocmd> against /repo, run it to produce the observed cases as Gallina
    definitions, wrap them with header/footer and evaluate with coqc. Returns (stdout, defs_path)."""
    binp = go_build(gocmd)
    wd = os.path.join(WORK, pid)
    os.makedirs(wd, exist_ok=True)
    defs = os.path.join(wd, "defs.v")
    e = dict(GOENV)
    e.update({"VERIF_TIER": os.environ.get("VERIF_TIER", "quick"), "VERIF_SEED": os.environ.get("VERIF_SEED", "1")})
    e.update(env or {})
    rc, so, se, dt = run([binp, defs] + (goargs or []), cwd=wd, env=e, timeout=timeout)
    if rc != 0:
        return None, defs, (rc, so, se)
    body = header + "\n" + open(defs).read() + "\n" + footer
    rc2, out, err, dt2 = coq_eval(pid, "cases", body, timeout=timeout)
    if rc2 != 0:
        raise Broken("cases.v for %s does not compile:\n%s\n%s" % (pid, out[-2000:], err[-3000:]))
    return out, defs, (0, so, se)


# ------------------------------------------------- translator-generated obligations ----

def gen_consts(pid):
    """Run translator T2 on the current /repo -> work/<pid>/gen/Consts.v, compile it."""
    binp = go_build("consts")
    gd = os.path.join(WORK, pid, "gen")
    shutil.rmtree(gd, ignore_errors=True)
    os.makedirs(gd)
    out = os.path.join(gd, "Consts.v")
    rc, so, se, dt = run([binp, out, REPO], cwd=gd, env=GOENV, timeout=300)
    if rc != 0:
        raise Broken("consts translator failed: %s %s" % (so[-1000:], se[-2000:]))
    rc, so, se, dt = coqc_file(out, timeout=300, extra=["-Q", gd, "MVgen"])
    if rc != 0:
        raise Broken("generated Consts.v does not compile: %s %s" % (so[-1000:], se[-2000:]))
    return gd


def check_gen_obligations(pid, gd, imports, obligations, timeout=300):
    """obligations: list of (name, statement, proof_script). Each is compiled on its own against the
    regenerated definitions; returns list of (name, ok, stderr_tail)."""
    from concurrent.futures import ThreadPoolExecutor
    od = os.path.join(WORK, pid, "obl")
    shutil.rmtree(od, ignore_errors=True)
    os.makedirs(od)

    def one(ob):
        name, stmt, proof = ob
        p = os.path.join(od, name + ".v")
        with open(p, "w") as f:
            f.write(imports + "\nTheorem %s : %s.\nProof. %s Qed.\nPrint Assumptions %s.\n" % (name, stmt, proof, name))
        rc, so, se, dt = coqc_file(p, timeout=timeout, extra=["-Q", gd, "MVgen"])
        ok = rc == 0 and "Closed under the global context" in so
        return (name, ok, (se or so)[-600:])
    with ThreadPoolExecutor(8) as ex:
        return list(ex.map(one, obligations))


def gen_and_eval_sharded(pid, gocmd, header, footer, goargs=None, timeout=1500, env=None, workers=16, sub="", pre_args=None):
    """Like gen_and_eval, but the harness writes defs_*.v shards into a directory; each shard is wrapped with
    header/footer and evaluated by its own coqc, in parallel. Returns ([(shard_name, defs_text, coqc_stdout)], harness_result)."""
    from concurrent.futures import ThreadPoolExecutor
    binp = go_build(gocmd)
    wd = os.path.join(WORK, pid, "shards" + sub)
    shutil.rmtree(wd, ignore_errors=True)
    os.makedirs(wd)
    e = dict(GOENV)
    e.update({"VERIF_TIER": os.environ.get("VERIF_TIER", "quick"), "VERIF_SEED": os.environ.get("VERIF_SEED", "1")})
    e.update(env or {})
    rc, so, se, dt = run([binp] + (pre_args or []) + [wd] + (goargs or []), cwd=wd, env=e, timeout=timeout)
    if rc != 0:
        return None, (rc, so, se)
    shards = sorted(f for f in os.listdir(wd) if f.startswith("defs_") and f.endswith(".v"))

    def one(f):
        text = open(os.path.join(wd, f)).read()
        p = os.path.join(wd, "cases_" + f[5:])
        with open(p, "w") as fh:
            fh.write(header + "\n" + text + "\n" + footer)
        rc2, out, err, dt2 = coqc_file(p, timeout=timeout)
        if rc2 != 0:
            raise Broken("%s for %s does not compile:\n%s\n%s" % (p, pid, out[-1500:], err[-2500:]))
        return (f, text, out)
    with ThreadPoolExecutor(workers) as ex:
        res = list(ex.map(one, shards))
    return res, (0, so, se)


def gen_lockprog(pid):
    """Run translator T1 (go2cfg) on the current /repo -> work/<pid>/gen/LockProg.v, compile it."""
    binp = go_build("go2cfg")
    gd = os.path.join(WORK, pid, "gen")
    os.makedirs(gd, exist_ok=True)
    out = os.path.join(gd, "LockProg.v")
    rc, so, se, dt = run([binp, out, REPO], cwd=HARNESS, env=GOENV, timeout=600)
    if rc != 0:
        raise Broken("go2cfg translator failed: %s %s" % (so[-1000:], se[-2000:]))
    rc, so, se, dt = coqc_file(out, timeout=600, extra=["-Q", gd, "MVgen"])
    if rc != 0:
        raise Broken("generated LockProg.v does not compile: %s %s" % (so[-1000:], se[-2000:]))
    return gd, out


def lockprog_functions(path):
    """Parse the generated LockProg.v back (for reports only): name -> (pos, locks, [ (body, succs, returns) ])."""
    fns = {}
    cur = None
    for line in open(path):
        m = re.match(r"\s*\(\* (\S+)  (\S+)  locks: (.*) \*\)", line)
        if m:
            cur = {"pos": m.group(2), "locks": m.group(3), "blocks": []}
            fns[m.group(1)] = cur
            continue
        m = re.match(r"\s*\{\| body := \[(.*?)\]; succs := \[(.*?)\]; returns := (\w+) \|\}", line)
        if m and cur is not None:
            succs = [int(x) for x in re.findall(r"(\d+)%nat", m.group(2))]
            cur["blocks"].append((m.group(1), succs, m.group(3) == "true"))
    return fns


def shortest_path(blocks, target):
    """BFS from block 0 to `target`; returns the list of block indices."""
    prev = {0: None}
    q = [0]
    while q:
        b = q.pop(0)
        if b == target:
            break
        for s in blocks[b][1]:
            if s not in prev:
                prev[s] = b
                q.append(s)
    if target not in prev:
        return []
    p = []
    b = target
    while b is not None:
        p.append(b)
        b = prev[b]
    return p[::-1]
