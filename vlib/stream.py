"""Unit-level correspondence for the stream transports' building blocks (transport/conn.go, connipc_posix.go):
the library's handshake, Recv loop and Send over an in-memory connection that delivers the peer's bytes in
arbitrary pieces (harness/cmd/stream) against Model/Wire.v (hs_header, hs_check, parse_stream, frame).
Used by C01 (framing is independent of how the stream is cut), C16 (hostile bytes, stalled handshakes) and
C12 (an aborted handshake reports a connection error, never 'closed'; Close returns)."""
from . import core
from .props.c20 import items

HEADER = """From MV Require Import Lib.Bytes Lib.Check Model.Hops Model.Wire.
Open Scope string_scope.
Open Scope N_scope.
Open Scope list_scope.
Definition pcase : Type := (bool * N * N * N * string * list N * bool * (bool * string * list string * N))%type.
Definition scenario : Type := (list pcase * list N * bool * bool)%type.
"""

FOOTER = """
Fixpoint lists_eqb (a b : list bytes) : bool :=
  match a, b with [], [] => true | x :: a', y :: b' => bytes_eqb x y && lists_eqb a' b' | _, _ => false end.
Fixpoint nlist_eqb (a b : list N) : bool :=
  match a, b with [], [] => true | x :: a', y :: b' => (x =? y) && nlist_eqb a' b' | _, _ => false end.
Fixpoint ins (x : N) (l : list N) : list N := match l with [] => [x] | y :: r => if x <=? y then x :: l else y :: ins x r end.
Definition sortN (l : list N) : list N := fold_right ins [] l.
Definition hs_kind (r : hs_result) : N :=
  match r with HsOk => 0 | HsShort => 5 | HsBadHeader => 2 | HsBadVersion => 3 | HsBadProto => 4 end.
Definition hs_of (c : pcase) : hs_result := let '(_, _, peer, _, inc, _, _, _) := c in hs_check peer (firstn 8 (unhex inc)).
Definition is_stalled (c : pcase) : bool := let '(_, _, _, _, _, _, st, _) := c in st.
(* one connection: the header written is hs_header self; the handshake succeeds iff the peer's first 8 bytes are
   hs_header peer; then exactly the well-formed in-limit prefix of the rest is delivered, however it was cut *)
Definition case_ok (c : pcase) : bool :=
  let '(ipc, self, peer, maxrx, inc, _, stalled, (hsok, wrote, got, en)) := c in
  let b := unhex inc in
  bytes_eqb (unhex wrote) (hs_header self) &&
  (if stalled then negb hsok
   else match hs_check peer (firstn 8 b) with
        | HsOk => hsok && (let r := parse_stream std_pool ipc maxrx (skipn 8 b) in
                    lists_eqb (delivered r) (map unhex got)
                    && match status r with TooLong => en =? 2 | AtBoundary | Truncated => en =? 0 | _ => false end)
        | _ => negb hsok && (en =? 3)
        end).
(* one handshaker: the failures reported are exactly those of the connections whose own bytes are wrong (never
   "closed": nobody closed the handshaker), no Wait blocks although other peers stall, and Close returns after having closed the connections whose handshake was still in flight *)
Definition expected_fails (cs : list pcase) : list N :=
  sortN (flat_map (fun c => if is_stalled c then [] else match hs_of c with HsOk => [] | k => [hs_kind k] end) cs).
Definition scenario_ok (s : scenario) : bool :=
  let '(cs, fails, blocked, closeok) := s in
  forallb case_ok cs && negb blocked && closeok && nlist_eqb fails (expected_fails cs).
Definition send_ok (c : bool * list (string * string) * string) : bool :=
  let '(ipc, specs, wrote) := c in
  bytes_eqb (unhex wrote) (concat (map (fun hb => frame ipc (unhex (fst hb)) (unhex (snd hb))) specs)).
(* a connection registered just after Close is shut down, and the registering call returns *)
Definition late_ok (c : string * bool * bool) : bool := let '(_, a, b) := c in a && b.
Definition bad_late := Eval vm_compute in bad_idx late_ok late_cases.
(* a Send whose write fails returns the error and leaves the message with the caller: no release by the pipe *)
Definition sendfail_ok (c : bool * N * bool * N) : bool := let '(_, _, e, fr) := c in e && (fr =? 0).
Definition bad_sendfail := Eval vm_compute in bad_idx sendfail_ok sendfail_cases.
Definition bad_scen := Eval vm_compute in bad_idx scenario_ok hs_scenarios.
Definition bad_send := Eval vm_compute in bad_idx send_ok send_cases.
Definition kinds := Eval vm_compute in
  map (fun k => count_true (fun c => hs_kind (hs_of c) =? k) (flat_map (fun s => fst (fst (fst s))) hs_scenarios)) [0; 2; 3; 4; 5].
Definition nstalled := Eval vm_compute in count_true is_stalled (flat_map (fun s => fst (fst (fst s))) hs_scenarios).
Definition ncases := Eval vm_compute in N.of_nat (length (flat_map (fun s => fst (fst (fst s))) hs_scenarios)).
Print bad_late. Print bad_sendfail. Print bad_scen. Print bad_send. Print kinds. Print nstalled. Print ncases.
"""


def run(res, pid):
    """Returns a coverage dict; reports violations into res under signatures stream:*."""
    shards, (rc, so, se) = core.gen_and_eval_sharded(pid, "stream", HEADER, FOOTER, timeout=600, sub="_stream")
    if shards is None:
        res.violation("stream:harness-abort", "the stream-transport harness did not complete on the current tree (rc=%d): %s" % (rc, se[-800:]),
                      {"stderr": se[-4000:], "correspondence": "cmd/stream vs Model/Wire.v"}, found_input=("panic:" in se))
        return {"stream_scenarios": 0}
    nscen = nsend = ncases = nstalled = nlate = 0
    kinds = [0] * 5
    for fname, text, out in shards:
        scen = items(text, "hs_scenarios")
        sends = items(text, "send_cases")
        nscen += len(scen)
        nsend += len(sends)
        nlate += len(items(text, "late_cases"))
        ncases += int((core.parse_printed(out, "ncases") or "0").strip() or 0)
        nstalled += int((core.parse_printed(out, "nstalled") or "0").strip() or 0)
        ks = core.parse_nlist(core.parse_printed(out, "kinds")) or []
        kinds = [a + b for a, b in zip(kinds, ks + [0] * 5)]
        for name, its, bname, what in (
                ("hs_scenarios", scen, "bad_scen",
                 "over a connection that delivers the peer's bytes in pieces, the handshake outcome, the messages delivered, how the connection ended, "
                 "or the handshaker's behaviour next to stalled peers differs from Model/Wire.v (hs_check / parse_stream)"),
                ("send_cases", sends, "bad_send", "the bytes Send wrote differ from Model/Wire.v frame"),
                ("sendfail_cases", items(text, "sendfail_cases"), "bad_sendfail",
                 "a stream pipe's Send whose write failed did not return the error, or released the message although it reported failure (the sender "
                 "protocols release or re-queue it themselves: the buffer returns to the pool while still in use): (ipc, body length, error returned, releases by the pipe)"),
                ("late_cases", items(text, "late_cases"), "bad_late",
                 "a connection handed to a closed handshaker / websocket listener (Close ran between the caller's check and the registration) was left open, or closing a second listener of an address unregistered the first one, or connections that stayed silent before their handshake (raw connections to the listener's address: no TLS hello, no HTTP request, no SP header) kept the next peer from connecting, or a connection whose handshake completed while Socket.Close was running stayed open, or a pipe accepted on a wildcard port reported another address than its listener's bound one, or an inproc Dial parked for an accepter stayed parked after its listener was closed, or a listener whose Listen had failed to bind panicked or hung on a later call, or a socket closed while its pipe's transport write was stalled (the peer not reading, 32 MB queued) did not release the pipe, "
                 "or the registering call never returned: (what, first flag, second flag) = for Start: (connection closed, -); for the websocket upgrade: (ServeHTTP returned, connection closed)")):
            bad = core.parse_nlist(core.parse_printed(out, bname))
            if bad is None:
                raise core.Broken("could not parse " + bname)
            for i in bad[:3]:
                case = its[i] if i < len(its) else "?"
                res.violation("stream:%s" % name, what, {"group": name, "shard": fname, "index": i, "case": case[:6000], "model": "Model/Wire.v",
                              "format": "scenario = ([(ipc, self, peer, maxrx, incoming hex, read sizes, stalled, (handshake ok, bytes written hex, delivered hex list, "
                                        "end: 0 eof/2 too long/3 none/4 other/5 blocked/6 panic))], sorted failure kinds 1 closed/2 header/3 version/4 proto/5 io, a Wait blocked?, Close returned and closed the stalled connections?)"})
    return {"stream_scenarios": nscen, "stream_connections": ncases,
            "stream_handshake_kinds[ok,header,version,proto,short]": kinds,
            "stream_stalled_connections": nstalled, "stream_send_cases": nsend, "registration_after_close_scenarios": nlate}
