import importlib
import json
import os
import sys
import traceback

from . import core


def main(argv):
    if not argv:
        print("usage: check <Cxx> [--tier quick|thorough] | check replay <path>", file=sys.stderr)
        return 2
    if argv[0] == "replay":
        rp = json.load(open(argv[1]))
        pid = rp["property"]
        os.environ["VERIF_SEED"] = str(rp.get("seed", 1))
        os.environ["VERIF_TIER"] = rp.get("tier", "quick")
        print("replaying %s (%s): %s" % (pid, rp.get("signature"), rp.get("what")))
        print(json.dumps(rp.get("replay"), indent=1)[:4000])
        argv = [pid, "--tier", rp.get("tier", "quick")]
    pid = argv[0].upper()
    tier = os.environ.get("VERIF_TIER", "quick")
    if "--tier" in argv:
        tier = argv[argv.index("--tier") + 1]
    if tier not in ("quick", "thorough"):
        tier = "quick"
    os.environ["VERIF_TIER"] = tier
    try:
        seed = int(os.environ.get("VERIF_SEED", "1"))
    except ValueError:
        seed = 1
    os.environ["VERIF_SEED"] = str(seed)
    try:
        mod = importlib.import_module("vlib.props." + pid.lower())
    except ImportError:
        print("no check for " + pid, file=sys.stderr)
        return 2
    res = core.Result(pid, tier, seed)
    try:
        core.coq_build()
        mod.run(res)
        return res.finish(level=getattr(mod, "LEVEL", "proof"))
    except core.Broken as e:
        core.log("BROKEN MACHINERY (%s): %s" % (pid, e))
        return 2
    except Exception:
        traceback.print_exc()
        return 2
