"""Parse Go race detector output: one signature per report = the sorted pair of top library frames."""
import re


def parse(text):
    out = []
    for rep in text.split("=================="):
        if "DATA RACE" not in rep:
            continue
        tops = []
        for m in re.finditer(r"(?m)^(Previous )?(Read|Write|read|write) at [^\n]*\n((?:  .*\n|      .*\n)+)", rep):
            kind = m.group(2).lower()
            fm = re.search(r"  (go\.nanomsg\.org/mangos/v3\S*)\(\)\n\s+(\S+):(\d+)", m.group(3))
            if fm:
                path = fm.group(2)
                path = path.split("/repo/")[-1] if "/repo/" in path else path.split("/mangos/v3/")[-1]
                tops.append((kind, fm.group(1).split("/v3/")[-1], "%s:%s" % (path, fm.group(3))))
        if len(tops) >= 2:
            out.append({"accesses": tops[:2], "sig": " <-> ".join(sorted("%s %s" % (t[1], t[0]) for t in tops[:2])), "text": rep.strip()[:3000]})
        elif tops:
            out.append({"accesses": tops, "sig": "%s %s <-> ?" % (tops[0][1], tops[0][0]), "text": rep.strip()[:3000]})
    return out
