"""History-level correspondence for the stream transports' handshaker (transport/conn.go connHandshaker) against
Model/Handshaker.v: harness/cmd/hsm drives the real handshaker through random sequences of Start / handshake
completions / Wait / Close over connections whose peer it plays; coqc replays the operations on the model (htrace) and
compares, after every operation, what the call returned and which connections are still open.
Used by C10 (Close releases), C12 (a failed handshake leaves the handshaker usable) and C16 (stalled peers delay nobody)."""
from . import core
from .props.c20 import items

HEADER = """From Coq Require Import List NArith Bool.
Import ListNotations.
From MV Require Import Lib.Check Model.Handshaker.
Open Scope N_scope. Open Scope list_scope.
"""

FOOTER = """
Fixpoint ins (x : N) (l : list N) : list N := match l with [] => [x] | y :: r => if x <=? y then x :: l else y :: ins x r end.
Definition sortN (l : list N) : list N := fold_right ins [] l.
Fixpoint nl_eqb (a b : list N) : bool := match a, b with [], [] => true | x :: a', y :: b' => (x =? y) && nl_eqb a' b' | _, _ => false end.
Definition wres_eqb (a b : wres) : bool :=
  match a, b with
  | WPipe x, WPipe y => x =? y | WLate x, WLate y => x =? y | WFail, WFail => true | WClosed, WClosed => true | WBlock, WBlock => true | _, _ => false end.
Fixpoint tr_eqb (a b : list (wres * list N)) : bool :=
  match a, b with
  | [], [] => true
  | (w1, o1) :: a', (w2, o2) :: b' => wres_eqb w1 w2 && nl_eqb (sortN o1) (sortN o2) && tr_eqb a' b'
  | _, _ => false
  end.
Definition hs_ok (c : list hop * list (wres * list N)) : bool := tr_eqb (htrace h0 (fst c)) (snd c).
Definition bad_hs := Eval vm_compute in bad_idx hs_ok hs_histories.
Print bad_hs.
Definition nops := Eval vm_compute in N.of_nat (length (flat_map fst hs_histories)).
Definition nclose := Eval vm_compute in N.of_nat (length (filter (fun c => existsb (fun o => match o with HClose => true | _ => false end) (fst c)) hs_histories)).
Definition npipe := Eval vm_compute in N.of_nat (length (filter (fun x => match fst x with WPipe _ => true | _ => false end) (flat_map snd hs_histories))).
Definition nfail := Eval vm_compute in N.of_nat (length (filter (fun x => match fst x with WFail => true | _ => false end) (flat_map snd hs_histories))).
Print nops. Print nclose. Print npipe. Print nfail.
"""


def run(res, pid):
    """Returns a coverage dict; reports violations into res under signatures hsm:*."""
    out, defs, (rc, so, se) = core.gen_and_eval(pid + "_hsm", "hsm", HEADER, FOOTER, timeout=600)
    if out is None:
        res.violation("hsm:harness-abort", "the handshaker history harness did not complete on the current tree (rc=%d): %s" % (rc, se[-600:]),
                      {"stderr": se[-3000:]}, found_input=("panic:" in se or "WATCHDOG" in se))
        return {"handshaker_histories": 0}
    its = items(open(defs).read(), "hs_histories")
    bad = core.parse_nlist(core.parse_printed(out, "bad_hs"))
    if bad is None:
        raise core.Broken("could not parse bad_hs")
    for i in bad[:3]:
        case = its[i] if i < len(its) else "?"
        res.violation("hsm:history", "the handshaker (transport/conn.go) behaves differently from Model/Handshaker.v on this sequence of Start / handshake completions / Wait / Close: "
                      "what a call returned, or which connections were still open after it (a connection left open by Close or by a Start after Close, a pipe handed out twice, "
                      "a Wait that blocked although a handshake had finished, a failed handshake's connection left open)",
                      {"index": i, "case": case[:6000], "model": "Model/Handshaker.v htrace",
                       "format": "([operations], [(what the call returned, connections still open) after each operation])"})
    g = lambda n: int((core.parse_printed(out, n) or "0").strip() or 0)
    return {"handshaker_histories": len(its), "handshaker_operations": g("nops"), "histories_with_close": g("nclose"),
            "pipes_handed_out": g("npipe"), "failures_reported": g("nfail")}
