"""C12 -- a failed operation leaves the object usable; nothing stays locked."""
import re

from .. import core

IMPORTS = """From Coq Require Import String.
From MV Require Import Model.LockCfg Model.BlockSpec Proofs.LockCfgSound.
From MVgen Require Import LockProg.
Open Scope N_scope.
"""

OBLIGATIONS = [
    # every function of the current source passes the checker => by balanced_sound, every path of every function
    ("C12_gen_all_balanced",
     "forall f, In f program -> forall p, valid_from f 0 p = true -> exists s, run_path permissive f p = Ok s",
     "intros f Hf p Hp. apply balanced_sound; [|exact Hp]. "
     "assert (H : forallb (balanced_fn permissive) program = true) by (vm_compute; reflexivity). "
     "rewrite forallb_forall in H. apply H. exact Hf."),
    # no blocking instruction (channel operation, sleep, network / transport I/O) on any path of any function while a mutex is held
    ("C12_gen_no_blocking_under_lock",
     "forall f, In f program -> existsb (String.eqb (fname f)) blocking_exempt = false -> "
     "forall p, valid_from f 0 p = true -> exists s, run_path strict_blocking f p = Ok s",
     "intros f Hf He p Hp. apply balanced_sound; [|exact Hp]. "
     "assert (H : forallb (fun g => existsb (String.eqb (fname g)) blocking_exempt || balanced_fn strict_blocking g) program = true) by (vm_compute; reflexivity). "
     "rewrite forallb_forall in H. specialize (H f Hf). rewrite He in H. exact H."),
    # translator self-check: every Lock/Unlock token of the sources was emitted; nothing was abstracted away with a note
    ("C12_gen_translator_complete",
     "n_lock_ops_emitted = n_lock_tokens_in_source /\\ n_notes = 0 /\\ (50 <=? n_functions_emitted) = true /\\ (40 <=? n_files) = true",
     "repeat split; vm_compute; reflexivity."),
]

REPORT = """From MV Require Import Model.LockCfg Model.BlockSpec.
From MVgen Require Import LockProg.
Open Scope string_scope.
Definition failing := Eval vm_compute in
  map (fun f => (fname f, first_error permissive f)) (filter (fun f => negb (balanced_fn permissive f)) program) ++
  map (fun f => (fname f, first_error strict_blocking f))
      (filter (fun f => balanced_fn permissive f && negb (balanced_fn strict_blocking f) && negb (existsb (String.eqb (fname f)) blocking_exempt)) program).
Print failing.
"""


def describe(e):
    m = re.match(r"(\w+) (\d+)", e)
    return e


def run_static(res, pid, gd, lp):
    """Returns number of concrete findings."""
    obl = core.check_gen_obligations(pid, gd, IMPORTS, OBLIGATIONS)
    failed = [(n, e) for n, ok, e in obl if not ok]
    res.coverage["discharged"] += len(obl) - len(failed)
    res.coverage["theorems"] += [n for n, _, _ in obl]
    res.coverage.setdefault("generated_obligations", {}).update({n: ok for n, ok, _ in obl})
    found = 0
    if failed:
        # SEARCH: which functions, which path
        import os
        p = os.path.join(core.WORK, pid, "report.v")
        open(p, "w").write(REPORT)
        rc, out, err, dt = core.coqc_file(p, extra=["-Q", gd, "MVgen"])
        fns = core.lockprog_functions(lp)
        txt = re.sub(r"\s+", " ", out)
        for m in re.finditer(r'\("([^"]+)", Some \((\d+)%nat, (\w+) (?:(\d+) )?(\d+)\)\)', txt):
            name, blk, kind, a, b = m.group(1), int(m.group(2)), m.group(3), m.group(4), m.group(5)
            fn = fns.get(name, {"pos": "?", "locks": "", "blocks": []})
            locks = dict(x.split("=", 1) for x in fn["locks"].split() if "=" in x)
            lockname = locks.get(b, b)
            path = core.shortest_path(fn["blocks"], blk) if fn["blocks"] else []
            steps = [{"block": i, "instrs": fn["blocks"][i][0], "returns": fn["blocks"][i][2]} for i in path]
            what = {"SelfDeadlock": "locks %s again while already holding it (Go mutexes are not reentrant: the goroutine blocks forever)",
                    "ReturnHolding": "returns while still holding %s (every later call that needs it blocks forever)",
                    "UnlockUnheld": "unlocks %s which it does not hold (runtime panic: unlock of unlocked mutex)",
                    "WaitUnheld": "waits on a condition variable without holding %s",
                    "BlockingHeld": "reaches a blocking operation (kind " + str(a) + ": 1 channel send, 2 channel receive, 3 select, 4 sleep, 5 WaitGroup.Wait, 6 network / transport I/O, 7 range over a channel) "
                                    "while holding %s: every other user of that mutex, Close included, waits for as long as the peer pleases"}.get(kind, kind + " %s") % lockname
            found += 1
            res.violation("static:%s:%s:%s" % (name, kind, lockname),
                          "%s (%s): a path through the function %s" % (name, fn["pos"], what),
                          {"function": name, "position": fn["pos"], "error": kind, "lock": lockname, "offending_block": blk,
                           "path_blocks": path, "path": steps, "theorem": "C12_gen_all_balanced (forallb balanced_fn program = true)",
                           "how": "bin/check C12 regenerates the CFG skeleton with harness/cmd/go2cfg and re-evaluates balanced_fn"})
    for n, e in failed:
        if n in ("C12_gen_all_balanced", "C12_gen_no_blocking_under_lock") and found:
            continue
        res.violation("obligation:" + n, "generated obligation %s no longer checks against the CFG skeletons regenerated from /repo" % n,
                      {"theorem": n, "coqc": e, "translator": "harness/cmd/go2cfg"}, found_input=False)
    return found, obl


def run(res):
    from .. import l1
    core.std_proof_coverage(res, "C12", extra_obligations=len(OBLIGATIONS) + 1)
    gd, lp = core.gen_lockprog("C12")
    found, obl = run_static(res, "C12", gd, lp)
    # nothing stays locked for ever: no cycle in the order in which mutex classes are nested (Model/LockOrder.v on the go2race skeleton)
    from .c11 import gen_raceprog, IMPORTS as RC_IMPORTS, OBLIGATIONS as RC_OBL, ORDER_REPORT
    import os as _os
    gd2, _rp = gen_raceprog("C12")
    lo = core.check_gen_obligations("C12_order", gd2, RC_IMPORTS, [(n.replace("C11_", "C12_"), st, pr) for n, st, pr in RC_OBL if n == "C11_gen_lock_order"], timeout=900)
    for n, ok, e in lo:
        res.coverage["theorems"].append(n)
        res.coverage["generated_obligations"][n] = ok
        if ok:
            res.coverage["discharged"] += 1
        else:
            p = _os.path.join(core.WORK, "C12", "report_order.v")
            open(p, "w").write(ORDER_REPORT)
            rc, out, err, dt = core.coqc_file(p, extra=["-Q", gd2, "MVgen"], timeout=900)
            txt = re.sub(r"\s+", " ", out)
            m = re.search(r"cyc = \[(.*?)\]", txt)
            cyc = re.findall(r'"([^"]+)"', m.group(1)) if m else []
            res.violation("static:lock-order:" + "+".join(sorted(cyc))[:200],
                          "lock-order cycle: the mutex classes %s are acquired in both orders (nested acquisitions, directly or through calls); two goroutines taking them in opposite "
                          "orders block each other -- and every later call on these objects -- for ever" % ", ".join(cyc),
                          {"classes_on_a_cycle": cyc, "theorem": n + " (order_ok = true); Props/C11.v C11_lock_order_no_cycle", "coqc": e[-300:]}, found_input=False)
    # dynamic part: error outcomes followed by further calls on the same objects, against the real core over the
    # virtual transport; the watchdog (quiescence detector) reports goroutines parked on a mutex
    cov = dict(res.coverage)
    l1.run(res, "C12", "core", "Model.Core Model.CoreOracle", "", "",
           [("c12", "c12_oracle", "a Dial (or Listen) that had failed for a network reason could not be retried: address in use")],
           "the socket core behaves differently from the model (Model/Core.v) after an error outcome",
           gocmd="l2core", prelude="Definition step_rec := kstep_rec.\n",
           check_fn="(fun h => kcheck_from true true kinit 0 h)", ambig_fn="(fun h => kambiguous_from true true kinit 0 h)")
    dyn = {k: res.coverage.get(k) for k in ("evaluations", "distinct_nontrivial", "steps", "stimulus_distribution", "histories_truncated_as_ambiguous")}
    res.coverage.update(cov)
    res.coverage["dynamic_core_histories"] = dyn
    # the stream transports' handshake and receive loop: an aborted or malformed handshake is reported as that
    # connection's error (never as "closed", which core takes as "endpoint shut down"), others are not held up, Close returns
    from .. import stream
    res.coverage["stream_transport_fault_scenarios"] = stream.run(res, "C12")
    # the handshaker as a state machine: random Start / completion / Wait / Close histories against Model/Handshaker.v
    from .. import hsm
    res.coverage["handshaker_state_machine"] = hsm.run(res, "C12")
    text = open(lp).read()
    nf = int(re.search(r"n_functions_emitted : N := (\d+)", text).group(1))
    nt = int(re.search(r"n_functions_total : N := (\d+)", text).group(1))
    nops = int(re.search(r"n_lock_ops_emitted : N := (\d+)", text).group(1))
    fns = core.lockprog_functions(lp)
    sample = next(iter(fns.items()))
    res.coverage.update({
        "evaluations": nt, "distinct_nontrivial": nf,
        "functions_translated": nt, "functions_with_lock_operations": nf, "lock_unlock_sites": nops,
        "rule": "static part: every function and function literal of the non-test packages is translated to a CFG skeleton; non-trivial = contains a lock operation. "
                "The theorem covers every path (any length) of each of them",
        "samples": [{"function": sample[0], "skeleton": sample[1]["blocks"][:6]}],
        "exhaustive": True,
    })
    res.coverage["trusted_base"] = core.COQ_TRUSTED + [
        "translator harness/cmd/go2cfg (go/packages, go/types, x/tools/go/cfg): lock paths are canonical access paths with single-assignment aliases resolved; "
        "RLock/RUnlock are tracked as a separate lock; Cond.Wait is mapped to its lock through a table of the 5 condition variables in the source; "
        "self-check: emitted Lock/Unlock sites == token count of the sources",
        "the CFG abstraction itself (x/tools/go/cfg) and the assumption that different access paths in one function denote different mutexes",
    ]
