"""C14 -- see DESIGN.md section 6 (core over the virtual transport with a recording mock protocol)."""
from .. import core, l1

IDFIX, DIALFIX = "true", "true"
ORACLES = {
    "C13": [("c13", "c13_oracle", "a pipe's hook events / protocol notifications do not follow the lifecycle (Attaching once and first, Attached at most once, "
             "Detached iff the protocol accepted it, arrival and departure told once), or its id was zero / not 31-bit / shared with a live pipe")],
    "C14": [("c14", "c14_oracle", "a connection attempt was started after the dialer or its socket was closed")],
    "C10": [("c10", "c10_oracle", "after the socket was closed a pipe id is still in use or a pipe is still listed"),
            ("c14", "c14_oracle", "a connection attempt was started after the dialer or its socket was closed")],
}["C14"]
EXTRA = []


def run(res):
    from .c10 import run_static, ATOM_OBLIGATIONS
    core.std_proof_coverage(res, "C14", extra_obligations=len(ATOM_OBLIGATIONS))
    # "after the dialer or its socket is closed no new connection attempt is started", with Close running between NewDialer's
    # closed-check and the registration of the dialer (any interleaving): the static check-then-register obligation (see C10)
    run_static(res, "C14")
    cov0 = dict(res.coverage)
    l1.run(res, "C14", "core", "Model.Core Model.CoreOracle", "", "", ORACLES + EXTRA,
           "the socket core behaves differently from the model (Model/Core.v): hook events, protocol notifications, transport closes, dial attempts, "
           "return values, ids in use or pipes listed",
           gocmd="l2core", prelude="Definition step_rec := kstep_rec.\n",
           check_fn="(fun h => kcheck_from %s %s kinit 0 h)" % (IDFIX, DIALFIX),
           ambig_fn="(fun h => kambiguous_from %s %s kinit 0 h)" % (IDFIX, DIALFIX))
    for k in ("discharged", "theorems", "generated_obligations", "register_after_check_rules"):
        if k in cov0:
            res.coverage[k] = cov0[k]
    res.coverage["trusted_base"] = core.COQ_TRUSTED + [
        "translator harness/cmd/go2race for the check-then-register obligation (as in C10)",
        "hand-written model Model/Core.v tied by correspondence at quiescence granularity against the real core.socket/dialer/listener/pipe over a virtual transport "
        "(harness/vt, registered through the public transport.RegisterTransport) and a recording mock protocol (harness/mproto)",
        "verif hooks internal/core/verif_hooks.go + protocol/verif_hooks.go (read-only: pipe ids in use, pipes listed)",
        "redial delays are modelled as intervals (random factor in [1.1,1.5]); a timer that may or may not have fired in a step makes the rest of the history ambiguous (not compared)",
    ]
