"""C20 -- macat prints and sends exactly what crossed the socket (DESIGN.md section 6, C20)."""
import re

from .. import core

HEADER = """From MV Require Import Lib.Bytes Lib.Check Model.Macat.
Open Scope string_scope.
Open Scope N_scope.
Open Scope list_scope.
"""

FOOTER = """
Definition ok_fmt (c : format * string * string) : bool :=
  let '(f, b, o) := c in bytes_eqb (fmt f (unhex b)) (unhex o).
Definition ok_big (c : format * N * N * (N * N * string * string)) : bool :=
  let '(f, seed, n, d) := c in digest_eqb (digest (fmt f (gen_body seed n))) d.
Definition ok_stream (c : format * list string * string) : bool :=
  let '(f, ms, o) := c in bytes_eqb (concat (map (fun m => fmt f (unhex m)) ms)) (unhex o).
Fixpoint lists_eqb (a b : list bytes) : bool :=
  match a, b with [], [] => true | x :: a', y :: b' => bytes_eqb x y && lists_eqb a' b' | _, _ => false end.
Definition ok_send (c : nat * string * list string) : bool :=
  let '(n, d, got) := c in lists_eqb (send_loop n (unhex d)) (map unhex got).
Definition ok_dur (c : string * bool * Z) : bool :=
  let '(s, ok, ns) := c in
  match unmarshal_duration (unhex s) with
  | DurNanos v => ok && (v =? ns)%Z
  | DurNotBare => true
  end.
Definition is_bare (c : string * bool * Z) : bool :=
  let '(s, _, _) := c in match unmarshal_duration (unhex s) with DurNanos _ => true | _ => false end.
Definition ok_val (c : list optev * N) : bool :=
  let '(evs, code) := c in verdict_code (decide evs) =? code.
Definition is_run (c : list optev * N) : bool := let '(evs, _) := c in verdict_code (decide evs) =? 100.

(* the macat command: an option list the model rejects (or a usage error) ends with a non-zero exit status and a message on stderr *)
Definition ok_exit (c : bool * list optev * N * N) : bool :=
  let '(usage, evs, code, errlen) := c in
  (usage || negb (verdict_code (decide evs) =? 100)) && negb (code =? 0) && (code <? 900) && (0 <? errlen).
Definition bad_exit := Eval vm_compute in bad_idx ok_exit exit_cases.
Print bad_exit.
Definition bad_fmt := Eval vm_compute in bad_idx ok_fmt fmt_cases.
Definition bad_big := Eval vm_compute in bad_idx ok_big big_cases.
Definition bad_stream := Eval vm_compute in bad_idx ok_stream stream_cases.
Definition bad_send := Eval vm_compute in bad_idx ok_send send_cases.
Definition bad_dur := Eval vm_compute in bad_idx ok_dur dur_cases.
Definition bad_val := Eval vm_compute in bad_idx ok_val val_cases.
Definition n_bare := Eval vm_compute in count_true is_bare dur_cases.
Definition n_run := Eval vm_compute in count_true is_run val_cases.
Definition verdicts_seen := Eval vm_compute in nodup N.eq_dec (map (fun c => verdict_code (decide (fst c))) val_cases).
Print bad_fmt. Print bad_big. Print bad_stream. Print bad_send. Print bad_dur. Print bad_val. Print n_bare. Print n_run. Print verdicts_seen.
"""


def items(defs_text, name):
    m = re.search(r"Definition %s : [^\n]*:= \[\n(.*?)\]\.(?:\n|$)" % name, defs_text, re.S)
    if not m:
        return []
    return [l.strip().rstrip(";") for l in m.group(1).split("\n") if l.strip()]


def run(res):
    core.std_proof_coverage(res, "C20")
    # the command itself, built from /repo's macat/macat
    core.go_prepare()
    import os
    macat_bin = os.path.join(core.WORK, "bin", "macat")
    os.makedirs(os.path.dirname(macat_bin), exist_ok=True)
    rcb, sob, seb, _ = core.run(["go", "build", "-o", macat_bin, "go.nanomsg.org/mangos/v3/macat/macat"], cwd=core.HARNESS, env=core.GOENV, timeout=600)
    if rcb != 0:
        raise core.Broken("go build macat/macat failed:\n%s%s" % (sob[-2000:], seb[-2000:]))
    out, defs, (rc, so, se) = core.gen_and_eval("C20", "c20", HEADER, FOOTER, env={"MACAT_BIN": macat_bin})
    if out is None:
        res.violation("harness-abort", "the macat harness did not complete on the current tree (rc=%d)" % rc,
                      {"stderr": se[-3000:], "panic": "panic:" in se, "correspondence": "cmd/c20 vs Model/Macat.v"}, found_input=("panic:" in se))
        res.coverage.update({"evaluations": 0, "distinct_nontrivial": 0, "rule": "harness aborted", "samples": []})
        return
    text = open(defs).read()
    groups = [("fmt_cases", "bad_fmt", "printMsg output differs from the model's fmt"),
              ("big_cases", "bad_big", "printMsg output on a large generated body differs from the model (length/Adler-32/head/tail digest)"),
              ("stream_cases", "bad_stream", "App.Run receive loop output differs from the concatenation of the model's records"),
              ("send_cases", "bad_send", "messages put on the socket differ from send_loop count data"),
              ("dur_cases", "bad_dur", "Duration.UnmarshalText differs from the model on a bare integer"),
              ("val_cases", "bad_val", "App.Run's accept/reject verdict differs from the model's decide"),
              ("exit_cases", "bad_exit", "the built macat command did not end a rejected command line with a non-zero exit status and a message on stderr "
                                         "(997/998: it ran or was killed instead): (usage error?, option events, exit status, bytes on stderr)")]
    total = 0
    samples = []
    dist = {}
    for cname, bname, what in groups:
        its = items(text, cname)
        total += len(its)
        dist[cname] = len(its)
        bad = core.parse_nlist(core.parse_printed(out, bname))
        if bad is None:
            raise core.Broken("could not parse %s from coqc output" % bname)
        if its:
            samples.append({cname: its[len(its) // 2][:300]})
        for i in bad[:5]:
            case = its[i] if i < len(its) else "?"
            res.violation("%s:%s" % (cname, case[:80]), what, {"group": cname, "index": i, "case": case[:4000],
                          "model": "Model/Macat.v", "how": "bin/check C20 re-runs the whole group"})
    distinct = len(set(sum((items(text, c) for c, _, _ in groups), [])))
    res.coverage.update({
        "evaluations": total, "distinct_nontrivial": distinct,
        "traces_validated_against_impl": total,
        "rule": "cases = (a) every single-byte body x 4 formats, (b) lengths around 255/256 and 65535/65536 (+1 MiB in thorough), "
                "(c) random bodies in three content modes, (d) end-to-end App.Run over inproc for pull/sub/pair receivers and push senders, "
                "(e) duration spellings, (f) random option lists; a case is distinct if its Gallina rendering (input and observation) is distinct; "
                "all are non-trivial (each evaluates the model on a real observation)",
        "samples": samples, "distribution": dist,
        "bare_int_durations": core.parse_printed(out, "n_bare"),
        "option_lists_that_ran": core.parse_printed(out, "n_run"),
        "verdict_codes_seen": core.parse_printed(out, "verdicts_seen"),
        "exhaustive_over_byte_values": True,
    })
    res.coverage["trusted_base"] = core.COQ_TRUSTED + [
        "hand-written model Model/Macat.v tied by correspondence (cmd/c20 + cases.v evaluated with vm_compute); agreement outside the generated cases is not proved",
        "verif hook macat/verif_hooks.go (VerifFormat calls the real printMsg)",
        "time.ParseDuration (unit spellings) is not modelled; optopia's argument parsing is exercised but not modelled",
    ]
    res.assumptions += ["strict 7-bit reading of --ascii is refuted in Props/C20.v (C20_ascii_7bit_refuted) and not treated as a violation: "
                        "strconv.IsPrint's Latin-1 letters are 'printable' (DESIGN.md section 9 item 15)"]
