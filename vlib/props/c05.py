"""C05 -- REP/RESPONDENT replies go back along the path of their request."""
from .. import core, l1

ORACLES = [
    ("c05", "c05_oracle", "a reply was written to a pipe other than the one its request arrived on, or with a header other than the request's routing "
                          "header, or twice, or to a pipe that had gone, or a Recv returned a request no pipe delivered / with a wrong raw header, "
                          "or a Send was refused / accepted against the context's pending request"),
]


def run(res):
    core.std_proof_coverage(res, "C05")
    l1.run(res, "C05", "rep", "Model.Hops Model.Rep Model.RepOracle", "rr_model", "init", ORACLES,
           "REP/RESPONDENT/XREP/XRESPONDENT behaviour differs from the model (Model/Rep.v): which pipe a reply is written to, its header bytes, "
           "what Recv returns, which calls block",
           check_fn="check_tagged", ambig_fn="ambiguous_tagged")
    res.coverage["rule"] += ("; every history picks one of rep/respondent/xrep/xrespondent (item = (protocol number, history)); mock pipes act as REQ/SURVEYOR peers "
                             "behind 0..ttl+1 devices (random routing-header depth and content, malformed headers), 1..3 pipes, 1..3 contexts, pipe loss before Recv, "
                             "between Recv and Send, and while a reply is held by the transport or blocked behind it; TTL / WRITEQ-LEN / READQ-LEN changes")
    res.coverage["trusted_base"] = core.COQ_TRUSTED + [
        "hand-written model Model/Rep.v tied by correspondence at quiescence granularity: each stimulus is atomic in the model, so interleavings finer than "
        "one API call / one peer message between quiescent points are covered neither by the theorems nor by the harness",
        "where Go's runtime chooses (several goroutines blocked on one channel, several ready select arms, best-effort sends) the model stops comparing "
        "(counted as histories_truncated_as_ambiguous); the oracle c05_oracle still runs on the whole implementation trace",
        "mock protocol pipes (harness/mp) stand in for core + transports (pipe ids 1000+n); quiescence is detected from runtime.Stack; no timed histories "
        "(send/recv deadlines are set but never expire)",
    ]
