"""C11 -- sockets are safe for concurrent use (lock discipline proved on the regenerated skeleton + race-detector matrix)."""
import os
import re

from .. import core, racelog

IMPORTS = """From MV Require Import Model.RaceCfg Model.GuardSpec Proofs.RaceSound.
From MVgen Require Import RaceProg.
Open Scope N_scope.
"""

OBLIGATIONS = [
    ("C11_gen_guarded",
     "guarded_ok (N.of_nat (length class_names)) (N.of_nat (length field_names)) rprogram (exempt_of field_names) = true",
     "vm_compute. reflexivity."),
    ("C11_gen_translator_sane",
     "(200 <=? N.of_nat (length rprogram)) = true /\\ (1000 <=? n_accesses) = true /\\ (20 <=? N.of_nat (length class_names)) = true "
     "/\\ forallb (fun e => existsb (String.eqb e) field_names) exempt_fields = true",
     "repeat split; vm_compute; reflexivity."),
]

REPORT = """From MV Require Import Model.RaceCfg Model.GuardSpec.
From MVgen Require Import RaceProg.
Open Scope string_scope.
Definition ncl := N.of_nat (length class_names).
Definition nfl := N.of_nat (length field_names).
Definition pok := Eval vm_compute in program_ok (all_classes ncl) rprogram (infer_entries (all_classes ncl) rprogram).
Print pok.
Definition ff := Eval vm_compute in
  map (fun x => let '(f, g, accs) := x in
       (nth (N.to_nat f) field_names "?", match g with Some c => nth (N.to_nat c) class_names "?" | None => "-" end,
        map (fun a => (nth (N.to_nat (fst a)) fn_names "?", snd a)) accs))
      (failing_fields ncl nfl rprogram (exempt_of field_names)).
Print ff.
"""


def gen_raceprog(pid):
    binp = core.go_build("go2race")
    gd = os.path.join(core.WORK, pid, "gen")
    os.makedirs(gd, exist_ok=True)
    out = os.path.join(gd, "RaceProg.v")
    rc, so, se, dt = core.run([binp, out, core.REPO], cwd=core.HARNESS, env=core.GOENV, timeout=600)
    if rc != 0:
        raise core.Broken("go2race translator failed: %s %s" % (so[-1000:], se[-2000:]))
    rc, so, se, dt = core.coqc_file(out, timeout=600, extra=["-Q", gd, "MVgen"])
    if rc != 0:
        raise core.Broken("generated RaceProg.v does not compile: %s %s" % (so[-1000:], se[-2000:]))
    return gd, out


def run(res):
    core.std_proof_coverage(res, "C11", extra_obligations=len(OBLIGATIONS))
    gd, rp = gen_raceprog("C11")
    obl = core.check_gen_obligations("C11", gd, IMPORTS, OBLIGATIONS, timeout=900)
    failed = [(n, e) for n, ok, e in obl if not ok]
    res.coverage["discharged"] += len(obl) - len(failed)
    res.coverage["theorems"] += [n for n, _, _ in obl]
    res.coverage["generated_obligations"] = {n: ok for n, ok, _ in obl}
    found = 0
    static_fields = []
    if any(n == "C11_gen_guarded" for n, _ in failed):
        p = os.path.join(core.WORK, "C11", "report.v")
        open(p, "w").write(REPORT)
        rc, out, err, dt = core.coqc_file(p, extra=["-Q", gd, "MVgen"], timeout=900)
        txt = re.sub(r"\s+", " ", out)
        if "pok = false" in txt:
            res.violation("static:program_ok", "the interprocedural lock assumptions of the regenerated skeleton do not verify (a helper is called without a lock its other callers hold)",
                          {"theorem": "C11_gen_guarded"}, found_input=False)
        for m in re.finditer(r'\("([^"]+)", "([^"]+)", \[(.*?)\]\)', txt):
            fld, guard, accs = m.group(1), m.group(2), re.findall(r'\("([^"]+)", (true|false)\)', m.group(3))
            static_fields.append(fld)
            sites = sorted(set("%s%s" % (a, " (write)" if w == "true" else " (read)") for a, w in accs))
            found += 1
            res.violation("static:field:%s" % fld,
                          "field %s is written after construction but not every access holds a common mutex; its other accesses hold %s, these do not: %s"
                          % (fld, guard, "; ".join(sites)[:600]),
                          {"field": fld, "guard_held_by_the_other_accesses": guard, "unguarded_accesses": sites, "theorem": "C11_gen_guarded (guarded_ok = true)",
                           "how": "bin/check C11 regenerates the skeleton with harness/cmd/go2race and re-evaluates guarded_ok"})
    # ---- dynamic: race detector matrix ----
    raceout = os.path.join(core.WORK, "bin", "c11-race")
    core.go_build("c11", race=True, out=raceout)
    env = dict(core.GOENV)
    env["GORACE"] = "halt_on_error=0 exitcode=0 history_size=3"
    env["VERIF_SEED"] = str(res.seed)
    env["VERIF_TIER"] = res.tier
    rc, so, se, dt = core.run([raceout], cwd=os.path.join(core.WORK, "C11"), env=env, timeout=900)
    races = racelog.parse(se)
    scen = re.findall(r"scenario (\S+) (\S+)", so)
    panics = re.findall(r"C11-PANIC in ([^\n]*)", se)
    deadlocks = re.findall(r"C11-DEADLOCK ([^\n]*)", se)
    seen = set()
    for r in races:
        if r["sig"] in seen:
            continue
        seen.add(r["sig"])
        found += 1
        res.violation("race:" + r["sig"], "data race inside the library: " + r["sig"],
                      {"accesses": r["accesses"], "report": r["text"], "how": "go build -race harness/cmd/c11; every pattern hammered by concurrent API calls"})
    for p in panics[:3]:
        found += 1
        res.violation("panic:" + p[:80], "panic inside the library under concurrent API use: " + p, {"panic": p})
    for d in deadlocks[:3]:
        found += 1
        res.violation("deadlock:" + d[:80], "deadlock under concurrent API use: " + d, {"stderr": se[-6000:]})
    if rc != 0 and not (races or panics or deadlocks):
        found += 1 if "panic:" in se else 0
        res.violation("harness-abort", "the concurrency harness did not complete (rc=%d): %s" % (rc, se[-600:]), {"stderr": se[-4000:]},
                      found_input=("panic:" in se or "fatal error" in se))
    bad_scen = [s for s in scen if s[1] != "ok"]
    for s in bad_scen:
        if s[1] != "deadlock":
            res.violation("scenario:" + s[0], "scenario %s could not be set up: %s" % s, {"scenario": s}, found_input=False)
    for n, e in failed:
        if n == "C11_gen_guarded" and static_fields:
            continue
        res.violation("obligation:" + n, "generated obligation %s no longer checks against the skeleton regenerated from /repo" % n,
                      {"theorem": n, "coqc": e, "translator": "harness/cmd/go2race"}, found_input=(found > 0))
    text = open(rp).read()
    nfun = len(re.findall(r"rname :=", text))
    nacc = int(re.search(r"n_accesses : N := (\d+)", text).group(1))
    res.coverage.update({
        "evaluations": nfun + len(scen), "distinct_nontrivial": nfun,
        "functions_translated": nfun, "field_accesses_checked": nacc,
        "race_matrix_scenarios": len(scen), "race_reports": len(races), "distinct_races": len(seen),
        "rule": "static: every function/function literal of the core, protocols and transports is translated (non-trivial: all of them carry accesses or calls); "
                "the discipline is asserted for fields of internal/core and protocol/* (transports: dynamic only). dynamic: 16 connected socket pairs (every pattern, cooked+raw) "
                "hammered for 250 ms (1.5 s thorough) by concurrent Send/Recv/SetOption(15 options)/GetOption/OpenContext+ctx ops/NewDialer+Dial/NewListener+Listen/pipe.Close, then Close, under the race detector",
        "samples": [{"scenario": list(s)} for s in scen[:3]],
    })
    res.coverage["trusted_base"] = core.COQ_TRUSTED + [
        "translator harness/cmd/go2race (go/packages, go/types, x/tools/go/cfg): mutexes and fields abstracted by class (declaring type + field); accesses through a local that holds an "
        "object created in the same function are not counted (not yet shared); calls resolved statically (interface calls are not followed; functions without static callers are roots)",
        "instance abstraction: two accesses holding the same mutex CLASS are assumed to hold the same mutex (a context's / pipe's `s` is its owning socket, by construction)",
        "reviewed exemptions in coq/theories/Model/GuardSpec.v (3 fields, each with its happens-before argument); transports' fields are outside the static discipline",
        "Go race detector and the harness for the dynamic part; the Go memory model itself is not modelled",
    ]
