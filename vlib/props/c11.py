"""C11 -- sockets are safe for concurrent use (lock discipline proved on the regenerated skeleton + race-detector matrix)."""
import os
import re

from .. import core, racelog

IMPORTS = """From MV Require Import Model.RaceCfg Model.GuardSpec Model.LockOrder Model.SplitCs Proofs.RaceSound.
From MVgen Require Import RaceProg.
Open Scope N_scope.
"""

OBLIGATIONS = [
    ("C11_gen_guarded",
     "guarded_ok (N.of_nat (length class_names)) (N.of_nat (length field_names)) rprogram (exempt_of field_names) = true",
     "vm_compute. reflexivity."),
    ("C11_gen_lock_order",
     "acq_closed rprogram (acq_sets rprogram) = true /\\ "
     "order_ok (length class_names) (order_edges (all_classes (N.of_nat (length class_names))) rprogram "
     "(infer_entries (all_classes (N.of_nat (length class_names))) rprogram)) = true",
     "split; vm_compute; reflexivity."),
    # by Proofs/SplitCsSound.sp_all_sound: on every path of every non-constructor function no field is written on a stale reading
    ("C11_gen_check_then_act",
     "sp_all_ok (all_classes (N.of_nat (length class_names))) rprogram (infer_entries (all_classes (N.of_nat (length class_names))) rprogram) = true",
     "vm_compute. reflexivity."),
    ("C11_gen_translator_sane",
     "(200 <=? N.of_nat (length rprogram)) = true /\\ (1000 <=? n_accesses) = true /\\ (20 <=? N.of_nat (length class_names)) = true "
     "/\\ forallb (fun e => existsb (String.eqb e) field_names) exempt_fields = true",
     "repeat split; vm_compute; reflexivity."),
]

ORDER_REPORT = """From MV Require Import Model.RaceCfg Model.LockOrder.
From MVgen Require Import RaceProg.
Open Scope string_scope.
Definition ncl := N.of_nat (length class_names).
Definition E := Eval vm_compute in infer_entries (all_classes ncl) rprogram.
Definition edges := Eval vm_compute in strict_edges (order_edges (all_classes ncl) rprogram E).
Definition named := Eval vm_compute in map (fun e => (nth (N.to_nat (fst e)) class_names "?", nth (N.to_nat (snd e)) class_names "?")) edges.
Print named.
Definition cyc := Eval vm_compute in map (fun e => nth (N.to_nat (fst e)) class_names "?") (cycles (length class_names) edges).
Print cyc.
"""

REPORT = """From MV Require Import Model.RaceCfg Model.GuardSpec.
From MVgen Require Import RaceProg.
Open Scope string_scope.
Definition ncl := N.of_nat (length class_names).
Definition nfl := N.of_nat (length field_names).
Definition pok := Eval vm_compute in program_ok (all_classes ncl) rprogram (infer_entries (all_classes ncl) rprogram).
Print pok.
Definition ff := Eval vm_compute in
  map (fun x => let '(f, g, accs) := x in
       (nth (N.to_nat f) field_names "?", match g with Some c => nth (N.to_nat c) class_names "?" | None => "-" end,
        map (fun a => (nth (N.to_nat (fst a)) fn_names "?", snd a)) accs))
      (failing_fields ncl nfl rprogram (exempt_of field_names)).
Print ff.
"""


def gen_raceprog(pid):
    binp = core.go_build("go2race")
    gd = os.path.join(core.WORK, pid, "gen")
    os.makedirs(gd, exist_ok=True)
    out = os.path.join(gd, "RaceProg.v")
    rc, so, se, dt = core.run([binp, out, core.REPO], cwd=core.HARNESS, env=core.GOENV, timeout=600)
    if rc != 0:
        raise core.Broken("go2race translator failed: %s %s" % (so[-1000:], se[-2000:]))
    rc, so, se, dt = core.coqc_file(out, timeout=600, extra=["-Q", gd, "MVgen"])
    if rc != 0:
        raise core.Broken("generated RaceProg.v does not compile: %s %s" % (so[-1000:], se[-2000:]))
    return gd, out


CONC_HEADER = """From Coq Require Import String.
From Coq Require Import List NArith Bool.
Import ListNotations.
From MV Require Import Lib.Check.
Open Scope string_scope. Open Scope N_scope. Open Scope list_scope.
"""
CONC_FOOTER = """
Definition ids (k : N) : list N := map N.of_nat (seq 0 (N.to_nat k)).
(* one barrier round: exactly the k messages (i, r), each once, in any order *)
Definition round_ok (k r : N) (l : list (N * N)) : bool :=
  (N.of_nat (length l) =? k) && forallb (fun i => existsb (fun x => (fst x =? i) && (snd x =? r)) l) (ids k).
Fixpoint rounds_ok (k r : N) (ls : list (list (N * N))) : bool :=
  match ls with [] => true | l :: rest => round_ok k r l && rounds_ok k (N.succ r) rest end.
(* bulk: every sender's messages arrive exactly once and in its own order *)
Fixpoint counts_up (from : N) (l : list N) : bool := match l with [] => true | x :: r => (x =? from) && counts_up (N.succ from) r end.
Definition bulk_ok (k m : N) (l : list (N * N)) : bool :=
  (N.of_nat (length l) =? k * m) &&
  forallb (fun i => let mine := map snd (filter (fun x => fst x =? i) l) in (N.of_nat (length mine) =? m) && counts_up 0 mine) (ids k).
Definition oneway_ok (c : string * N * N * list (list (N * N)) * list (N * N)) : bool :=
  let '(_, k, m, rs, b) := c in negb (match rs with [] => true | _ => false end) && rounds_ok k 0 rs && bulk_ok k m b.
(* request/reply on k contexts at once: goroutine i gets the echo of its own request *)
Definition reqrep_ok (c : string * N * N * list (list (N * N)) * list (N * N)) : bool :=
  let '(_, k, _, rs, _) := c in
  negb (match rs with [] => true | _ => false end) &&
  forallb (fun l => (N.of_nat (length l) =? k) && forallb (fun x => fst x =? snd x) l) rs.
(* many thousands of simultaneous sends on an idle socket: every round completed (the harness stops at the first round in which
   a message is missing, duplicated or foreign and hands over what arrived in it) *)
Definition fast_ok (c : string * N * N * N * list (N * N)) : bool :=
  let '(_, k, asked, done, bad) := c in (0 <? asked) && (done =? asked) && match bad with [] => true | _ => false end.
Definition bad_fast := Eval vm_compute in bad_idx fast_ok fast_cases.
Print bad_fast.
Definition bad_oneway := Eval vm_compute in bad_idx oneway_ok oneway_cases.
Definition bad_reqrep := Eval vm_compute in bad_idx reqrep_ok reqrep_cases.
Definition nrounds := Eval vm_compute in map (fun c => N.of_nat (length (snd (fst c)))) (oneway_cases ++ reqrep_cases).
Print bad_oneway. Print bad_reqrep. Print nrounds.
"""


def run_concurrent(res, pid="C11", env=None):
    """Concurrent callers on one socket (harness/cmd/c11conc): every interleaving must behave like some order of the calls."""
    from .c20 import items
    out, defs, (rc, so, se) = core.gen_and_eval(pid + "_conc", "c11conc", CONC_HEADER, CONC_FOOTER, timeout=900, env=env)
    if out is None:
        res.violation("conc:harness-abort", "the concurrent-callers harness did not complete on the current tree (rc=%d): %s" % (rc, (se[se.find("WATCHDOG"):][:300] if "WATCHDOG" in se else se[-600:])),
                      {"stderr": se[-4000:]}, found_input=("panic:" in se or "WATCHDOG" in se))
        return {}
    text = open(defs).read()
    n = 0
    for cname, bname, what in (("fast_cases", "bad_fast", "K goroutines sending at the same instant on an idle socket, round after round: in one round a message accepted by Send did not "
                                "arrive at the connected, receiving peer within 2 s (lost wake-up / stalled sender), or arrived twice, or was not of that round: "
                                "(pattern, K, rounds asked, rounds completed, arrivals of the failing round as (sender, round))"),
                               ("oneway_cases", "bad_oneway", "K goroutines sending at the same instant on one socket (then K x M in bulk): at the connected, receiving peer a message was lost, "
                                "duplicated, out of its sender's order, or the senders stalled (round list stops at the first incomplete round)"),
                               ("reqrep_cases", "bad_reqrep", "K contexts making a request at the same instant: a goroutine did not get the echo of its own request (999999 = error / timeout)")):
        its = items(text, cname)
        n += len(its)
        for i in core.parse_nlist(core.parse_printed(out, bname)) or []:
            case = its[i] if i < len(its) else "?"
            name = re.match(r'\("([^"]+)"', case)
            res.violation("conc:%s:%s" % (cname, name.group(1) if name else "?"), what,
                          {"group": cname, "index": i, "case": case[-3000:], "format": "(pattern/transport, K, M, per-round delivered [(sender, round)], bulk delivered [(sender, seq)])"})
    return {"concurrent_scenarios": n, "rounds_per_scenario": core.parse_printed(out, "nrounds")}


SPLIT_REPORT = """From MV Require Import Model.RaceCfg Model.GuardSpec Model.SplitCs.
From MVgen Require Import RaceProg.
Open Scope string_scope.
Definition ncl := N.of_nat (length class_names).
Definition sv := Eval vm_compute in
  map (fun x => (nth (N.to_nat (fst x)) fn_names "?", map (fun v => nth (N.to_nat v) field_names "?") (snd x)))
      (sp_program (all_classes ncl) rprogram (infer_entries (all_classes ncl) rprogram) (fun f => true)).
Print sv.
"""


def report_split(res, pid, gd, must_contain):
    """Names the functions that write a field on a reading made in an earlier critical section (Model/SplitCs.v)."""
    p = os.path.join(core.WORK, pid, "report_split.v")
    open(p, "w").write(SPLIT_REPORT)
    rc, out, err, dt = core.coqc_file(p, extra=["-Q", gd, "MVgen"], timeout=900)
    txt = re.sub(r"\s+", " ", out)
    n = 0
    for m in re.finditer(r'\("([^"]+)", \[(.*?)\]\)', txt):
        fn, flds = m.group(1), sorted(set(re.findall(r'"([^"]+)"', m.group(2))))
        if not any(k in fn or any(k in x for x in flds) for k in must_contain):
            continue
        n += 1
        res.violation("static:check-then-act:%s" % fn,
                      "%s reads %s under a mutex, releases the mutex, takes it again and writes the field without reading it again: what it decided on the first "
                      "reading may no longer hold (two goroutines can both pass the check and both act)" % (fn, ", ".join(flds)),
                      {"function": fn, "fields": flds, "analysis": "Model/SplitCs.v sp_program over the regenerated lock skeleton (sound for every path: Proofs/SplitCsSound.v sp_all_sound); an empty field list = the function's lock sets differ between paths (certificate failed)",
                       "how": "bin/check %s regenerates the skeleton with harness/cmd/go2race and re-evaluates sp_program" % pid}, found_input=False)
    return n


def run_split_subset(res, pid, must_contain, obligation):
    """Check-then-act rule restricted to functions / fields whose name contains one of must_contain (used by C02)."""
    gd, rp = gen_raceprog(pid)
    sub = " || ".join('has_sub "%s" (nth (N.to_nat (fst x)) fn_names EmptyString)' % m for m in must_contain)
    stmt = ("filter (fun x => %s) (sp_program (all_classes (N.of_nat (length class_names))) rprogram (infer_entries (all_classes (N.of_nat (length class_names))) rprogram) "
            "(fun f => in_scope (nth (N.to_nat f) field_names EmptyString))) = []" % sub)
    obl = core.check_gen_obligations(pid + "_split", gd, IMPORTS + "Open Scope string_scope.\n", [(obligation, stmt, "vm_compute. reflexivity.")], timeout=900)
    failed = [(n, e) for n, ok, e in obl if not ok]
    res.coverage["discharged"] += len(obl) - len(failed)
    res.coverage["theorems"] += [n for n, _, _ in obl]
    res.coverage.setdefault("generated_obligations", {}).update({n: ok for n, ok, _ in obl})
    if failed and not report_split(res, pid, gd, must_contain):
        for n, e in failed:
            res.violation("obligation:" + n, "generated obligation %s no longer checks against the skeleton regenerated from /repo" % n,
                          {"theorem": n, "coqc": e, "translator": "harness/cmd/go2race"}, found_input=False)


def run_static_subset(res, pid, must_contain, obligation, why):
    """The lock discipline (guarded_ok) on the skeleton regenerated from /repo, restricted to the fields whose name contains one of
    `must_contain` (e.g. the sends to a channel that is closed elsewhere: "<field>+send").  Used by properties other than C11."""
    gd, rp = gen_raceprog(pid)
    sub = " || ".join('has_sub "%s" (snd x)' % m for m in must_contain)
    stmt = ("guarded_ok (N.of_nat (length class_names)) (N.of_nat (length field_names)) rprogram "
            "(map (fun x => N.of_nat (fst x)) (filter (fun x => negb (%s) || negb (in_scope (snd x)) || existsb (String.eqb (snd x)) exempt_fields) "
            "(combine (seq 0 (length field_names)) field_names))) = true /\\ "
            "existsb (fun x => %s) (combine (seq 0 (length field_names)) field_names) = true" % (sub, sub))
    obl = core.check_gen_obligations(pid + "_static", gd, IMPORTS + "Open Scope string_scope.\n", [(obligation, stmt, "split; vm_compute; reflexivity.")], timeout=900)
    failed = [(n, e) for n, ok, e in obl if not ok]
    res.coverage["discharged"] += len(obl) - len(failed)
    res.coverage["theorems"] += [n for n, _, _ in obl]
    res.coverage.setdefault("generated_obligations", {}).update({n: ok for n, ok, _ in obl})
    if not failed:
        return 0
    p = os.path.join(core.WORK, pid, "report_static.v")
    open(p, "w").write(REPORT)
    rc, out, err, dt = core.coqc_file(p, extra=["-Q", gd, "MVgen"], timeout=900)
    txt = re.sub(r"\s+", " ", out)
    found = 0
    for m in re.finditer(r'\("([^"]+)", "([^"]+)", \[(.*?)\]\)', txt):
        fld, guard, accs = m.group(1), m.group(2), re.findall(r'\("([^"]+)", (true|false)\)', m.group(3))
        if not any(k in fld for k in must_contain):
            continue
        sites = sorted(set(a for a, w in accs))
        found += 1
        res.violation("static:field:%s" % fld, "%s: %s -- these do not hold the mutex the others hold (%s): %s" % (fld, why, guard, "; ".join(sites)[:500]),
                      {"field": fld, "guard_held_by_the_other_accesses": guard, "unguarded_accesses": sites, "theorem": obligation,
                       "how": "bin/check %s regenerates the skeleton with harness/cmd/go2race and re-evaluates guarded_ok on these fields" % pid}, found_input=False)
    if not found:
        for n, e in failed:
            res.violation("obligation:" + n, "generated obligation %s no longer checks against the skeleton regenerated from /repo" % n,
                          {"theorem": n, "coqc": e, "translator": "harness/cmd/go2race"}, found_input=False)
    return found


def run(res):
    core.std_proof_coverage(res, "C11", extra_obligations=len(OBLIGATIONS))
    gd, rp = gen_raceprog("C11")
    obl = core.check_gen_obligations("C11", gd, IMPORTS, OBLIGATIONS, timeout=900)
    failed = [(n, e) for n, ok, e in obl if not ok]
    res.coverage["discharged"] += len(obl) - len(failed)
    res.coverage["theorems"] += [n for n, _, _ in obl]
    res.coverage["generated_obligations"] = {n: ok for n, ok, _ in obl}
    found = 0
    static_fields = []
    if any(n == "C11_gen_guarded" for n, _ in failed):
        p = os.path.join(core.WORK, "C11", "report.v")
        open(p, "w").write(REPORT)
        rc, out, err, dt = core.coqc_file(p, extra=["-Q", gd, "MVgen"], timeout=900)
        txt = re.sub(r"\s+", " ", out)
        if "pok = false" in txt:
            res.violation("static:program_ok", "the interprocedural lock assumptions of the regenerated skeleton do not verify (a helper is called without a lock its other callers hold)",
                          {"theorem": "C11_gen_guarded"}, found_input=False)
        for m in re.finditer(r'\("([^"]+)", "([^"]+)", \[(.*?)\]\)', txt):
            fld, guard, accs = m.group(1), m.group(2), re.findall(r'\("([^"]+)", (true|false)\)', m.group(3))
            static_fields.append(fld)
            sites = sorted(set("%s%s" % (a, " (write)" if w == "true" else " (read)") for a, w in accs))
            found += 1
            res.violation("static:field:%s" % fld,
                          "field %s is written after construction but not every access holds a common mutex; its other accesses hold %s, these do not: %s"
                          % (fld, guard, "; ".join(sites)[:600]),
                          {"field": fld, "guard_held_by_the_other_accesses": guard, "unguarded_accesses": sites, "theorem": "C11_gen_guarded (guarded_ok = true)",
                           "how": "bin/check C11 regenerates the skeleton with harness/cmd/go2race and re-evaluates guarded_ok"})
    if any(n == "C11_gen_lock_order" for n, _ in failed):
        p = os.path.join(core.WORK, "C11", "report_order.v")
        open(p, "w").write(ORDER_REPORT)
        rc, out, err, dt = core.coqc_file(p, extra=["-Q", gd, "MVgen"], timeout=900)
        txt = re.sub(r"\s+", " ", out)
        m = re.search(r"cyc = \[(.*?)\]", txt)
        cyc = re.findall(r'"([^"]+)"', m.group(1)) if m else []
        m = re.search(r"named = \[(.*?)\] :", txt)
        edges = re.findall(r'\("([^"]+)", "([^"]+)"\)', m.group(1)) if m else []
        rel = [e for e in edges if e[0] in cyc and e[1] in cyc]
        found += 1
        res.violation("static:lock-order:" + "+".join(sorted(cyc))[:200],
                      "lock-order cycle: the mutex classes %s are acquired in both orders (nested acquisitions, directly or through calls: %s); two goroutines taking "
                      "them in opposite orders at the same time block each other for ever" % (", ".join(cyc), "; ".join("%s held while taking %s" % e for e in rel)[:600]),
                      {"classes_on_a_cycle": cyc, "nested_acquisitions": rel, "theorem": "C11_gen_lock_order (order_ok = true); Props/C11.v C11_lock_order_no_cycle",
                       "how": "bin/check C11 regenerates the skeleton with harness/cmd/go2race and re-evaluates Model/LockOrder.order_ok"}, found_input=False)
    if any(n == "C11_gen_check_then_act" for n, _ in failed):
        found += report_split(res, "C11", gd, [""])
    # ---- dynamic: race detector matrix ----
    raceout = os.path.join(core.WORK, "bin", "c11-race")
    core.go_build("c11", race=True, out=raceout)
    env = dict(core.GOENV)
    env["GORACE"] = "halt_on_error=0 exitcode=0 history_size=3"
    env["VERIF_SEED"] = str(res.seed)
    env["VERIF_TIER"] = res.tier
    rc, so, se, dt = core.run([raceout], cwd=os.path.join(core.WORK, "C11"), env=env, timeout=900)
    races = racelog.parse(se)
    scen = re.findall(r"scenario (\S+) (\S+)", so)
    panics = re.findall(r"C11-PANIC in ([^\n]*)", se)
    deadlocks = re.findall(r"C11-DEADLOCK ([^\n]*)", se)
    seen = set()
    for r in races:
        if r["sig"] in seen:
            continue
        seen.add(r["sig"])
        found += 1
        res.violation("race:" + r["sig"], "data race inside the library: " + r["sig"],
                      {"accesses": r["accesses"], "report": r["text"], "how": "go build -race harness/cmd/c11; every pattern hammered by concurrent API calls"})
    for p in panics[:3]:
        found += 1
        res.violation("panic:" + p[:80], "panic inside the library under concurrent API use: " + p, {"panic": p})
    for d in deadlocks[:3]:
        found += 1
        res.violation("deadlock:" + d[:80], "deadlock under concurrent API use: " + d, {"stderr": se[-6000:]})
    if rc != 0 and not (races or panics or deadlocks):
        found += 1 if "panic:" in se else 0
        res.violation("harness-abort", "the concurrency harness did not complete (rc=%d): %s" % (rc, se[-600:]), {"stderr": se[-4000:]},
                      found_input=("panic:" in se or "fatal error" in se))
    bad_scen = [s for s in scen if s[1] != "ok"]
    for s in bad_scen:
        if s[1] != "deadlock":
            res.violation("scenario:" + s[0], "scenario %s could not be set up: %s" % s, {"scenario": s}, found_input=False)
    for n, e in failed:
        if n == "C11_gen_guarded" and static_fields:
            continue
        if n == "C11_gen_check_then_act" and any(sig.startswith("static:check-then-act") for sig, _, _, _ in res.violations):
            continue
        if n == "C11_gen_lock_order" and any(sig.startswith("static:lock-order") for sig, _, _, _ in res.violations):
            continue
        res.violation("obligation:" + n, "generated obligation %s no longer checks against the skeleton regenerated from /repo" % n,
                      {"theorem": n, "coqc": e, "translator": "harness/cmd/go2race"}, found_input=(found > 0))
    conc = run_concurrent(res)
    text = open(rp).read()
    nfun = len(re.findall(r"rname :=", text))
    nacc = int(re.search(r"n_accesses : N := (\d+)", text).group(1))
    res.coverage.update({
        "evaluations": nfun + len(scen), "distinct_nontrivial": nfun,
        "functions_translated": nfun, "field_accesses_checked": nacc,
        "race_matrix_scenarios": len(scen), "race_reports": len(races), "distinct_races": len(seen),
        "rule": "static: every function/function literal of the core, protocols and transports is translated (non-trivial: all of them carry accesses or calls); "
                "the discipline is asserted for fields of internal/core and protocol/* (transports: dynamic only). dynamic: 16 connected socket pairs (every pattern, cooked+raw) "
                "hammered for 250 ms (1.5 s thorough) by concurrent Send/Recv/SetOption(15 options)/GetOption/OpenContext+ctx ops/NewDialer+Dial/NewListener+Listen/pipe.Close, then Close, under the race detector",
        "samples": [{"scenario": list(s)} for s in scen[:3]],
        "concurrent_callers": conc,
    })
    res.coverage["trusted_base"] = core.COQ_TRUSTED + [
        "translator harness/cmd/go2race (go/packages, go/types, x/tools/go/cfg): mutexes and fields abstracted by class (declaring type + field); accesses through a local that holds an "
        "object created in the same function are not counted (not yet shared); calls resolved statically (interface calls are not followed; functions without static callers are roots)",
        "instance abstraction: two accesses holding the same mutex CLASS are assumed to hold the same mutex (a context's / pipe's `s` is its owning socket, by construction)",
        "reviewed exemptions in coq/theories/Model/GuardSpec.v (3 fields, each with its happens-before argument); transports' fields are outside the static discipline",
        "Go race detector and the harness for the dynamic part; the Go memory model itself is not modelled",
    ]
