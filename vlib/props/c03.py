"""C03 -- REQ returns only the reply to its current request."""
from .. import core, l1

ORACLES = [
    ("c03", "c03_oracle", "Recv returned a reply that does not answer the context's most recent request (or returned one request's reply twice)"),
]


def run(res):
    core.std_proof_coverage(res, "C03")
    l1.run(res, "C03", "req", "Model.Req Model.ReqOracle", "(req_model true)", "init", ORACLES,
           "REQ behaviour differs from the model (Model/Req.v, repaired RecvMsg semantics)")
    res.coverage["trusted_base"] = core.COQ_TRUSTED + [
        "hand-written model Model/Req.v tied by correspondence at quiescence granularity: each stimulus is atomic in the model, so interleavings "
        "finer than one API call / one peer message / one timer expiry between quiescent points are covered neither by the theorems nor by the harness",
        "mock protocol pipes (harness/mp) stand in for core + transports; quiescence is detected from runtime.Stack",
        "request ids are renamed to the index of the SendMsg call (the 2^31 wrap of ids is not exercised)",
    ]
