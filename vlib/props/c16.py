"""C16 -- a hostile or broken peer cannot crash, stall or pollute a socket."""
from .. import core
from .c20 import items

HEADER = """From MV Require Import Lib.Bytes Lib.Check Model.Hops Model.Wire.
Open Scope string_scope.
Open Scope N_scope.
Open Scope list_scope.
"""

FOOTER = """
Fixpoint lists_eqb (a b : list bytes) : bool :=
  match a, b with [], [] => true | x :: a', y :: b' => bytes_eqb x y && lists_eqb a' b' | _, _ => false end.
Definition too_long (s : pstatus) : bool := match s with TooLong => true | _ => false end.
Definition ok_stream (c : bool * N * string * list string * bool * bool) : bool :=
  let '(ipc, maxrx, s, got, closed, ctl) := c in
  let r := parse_stream std_pool ipc maxrx (unhex s) in
  lists_eqb (delivered r) (map unhex got)            (* exactly the well-formed in-limit prefix, nothing else *)
  && Bool.eqb (too_long (status r)) closed           (* over-limit / negative length: dropped at once; otherwise kept *)
  && forallb (fun a => a <=? N.max maxrx 65536) (allocs r)
  && ctl.                                            (* the control peer's traffic all arrived *)
Definition st_code (c : bool * N * string * list string * bool * bool) : N :=
  let '(ipc, maxrx, s, _, _, _) := c in
  match status (parse_stream std_pool ipc maxrx (unhex s)) with
  | AtBoundary => 0 | Truncated => 1 | TooLong => 2 | Crash => 3 | OutOfFuel => 4 end.
Definition ok_stall (c : string * N * bool * N) : bool := let '(_, _, ok, ms) := c in ok && (ms <? 2500).
Definition ok_proto (c : string * N * N * bool) : bool := let '(_, _, _, ok) := c in ok.
Definition bad_stream := Eval vm_compute in bad_idx ok_stream stream_cases.
Definition bad_stall := Eval vm_compute in bad_idx ok_stall stall_cases.
Definition bad_proto := Eval vm_compute in bad_idx ok_proto proto_cases.
Definition statuses := Eval vm_compute in map (fun k => count_true (fun c => st_code c =? k) stream_cases) [0; 1; 2; 3; 4].
Definition alloc_ok := Eval vm_compute in (alloc_mb <? 600).
Print bad_stream. Print bad_stall. Print bad_proto. Print statuses. Print alloc_ok. Print alloc_mb.
"""

GROUPS = [
    ("stream_cases", "bad_stream", "after this byte stream the socket delivered something other than the well-formed in-limit prefix, or kept/dropped the connection contrary to the model, or starved the control peer"),
    ("stall_cases", "bad_stall", "a well-behaved peer was delayed or refused while other peers stalled in their handshake"),
    ("proto_cases", "bad_proto", "a pattern's receive path stopped consuming (or closed the pipe) after arbitrary bodies"),
]


def run(res):
    core.std_proof_coverage(res, "C16")
    from .. import stream
    scov = stream.run(res, "C16")
    # the handshaker as a state machine: random Start / completion / Wait / Close histories against Model/Handshaker.v
    from .. import hsm
    res.coverage["handshaker_state_machine"] = hsm.run(res, "C16")
    out, defs, (rc, so, se) = core.gen_and_eval("C16", "c16", HEADER, FOOTER, env={"GOMEMLIMIT": "6GiB"})
    if out is None:
        res.violation("harness-abort", "the hostile-peer harness did not complete on the current tree (rc=%d): %s" % (rc, (se[se.find("WATCHDOG"):][:300] if "WATCHDOG" in se else se[-800:])),
                      {"stderr": se[-4000:], "panic": "panic:" in se, "correspondence": "cmd/c16 vs Model/Wire.v"},
                      found_input=("panic:" in se or "out of memory" in se or "WATCHDOG" in se))
        res.coverage.update({"evaluations": 0, "distinct_nontrivial": 0, "rule": "harness aborted", "samples": [], "chunked_stream_scenarios": scov})
        return
    text = open(defs).read()
    total, samples, dist = 0, [], {}
    for cname, bname, what in GROUPS:
        its = items(text, cname)
        total += len(its)
        dist[cname] = len(its)
        bad = core.parse_nlist(core.parse_printed(out, bname))
        if bad is None:
            raise core.Broken("could not parse " + bname)
        if its:
            samples.append({cname: its[len(its) // 2][:300]})
        for i in bad[:6]:
            case = its[i] if i < len(its) else "?"
            res.violation("%s:%s" % (cname, case[:50]), what, {"group": cname, "index": i, "case": case[:4000], "model": "Model/Wire.v parse_stream",
                          "format": "(ipc?, maxrx, stream hex after the handshake, delivered hex list, closed by mangos?, control traffic complete?)"})
    if "true" not in (core.parse_printed(out, "alloc_ok") or ""):
        res.violation("alloc", "the heap in use peaked at %s MiB while the socket was being fed frames that announce huge lengths under a small limit (a frame announcing 2^30 bytes got its buffer)" % core.parse_printed(out, "alloc_mb"),
                      {"alloc_mb": core.parse_printed(out, "alloc_mb")})
    res.coverage.update({
        "evaluations": total, "distinct_nontrivial": len(set(sum((items(text, c) for c, _, _ in GROUPS), []))),
        "traces_validated_against_impl": total, "distribution": dist, "samples": samples,
        "stream_status_counts[AtBoundary,Truncated,TooLong,Crash,OutOfFuel]": core.parse_printed(out, "statuses"),
        "peak_heap_mib_during_streams": core.parse_printed(out, "alloc_mb"),
        "rule": "streams: valid prefix + one mutation (12 kinds: truncation, limit, limit+1, huge, negative, garbage, empty, ...) over tcp and ipc with MAX-RCV-SIZE in {100,1000,4096}, "
                "each with a control PUSH peer on the same PULL socket; stall: 24 silent/partial/garbage/wrong-protocol handshakes then a timed well-behaved connect; "
                "proto: random and structured bodies injected through mock pipes into all 24 protocol implementations while the application keeps receiving",
    })
    res.coverage["chunked_stream_scenarios"] = scov
    res.coverage["trusted_base"] = core.COQ_TRUSTED + [
        "hand-written model Model/Wire.v tied by correspondence over real tcp/ipc connections; MAX-RCV-SIZE = 0 ('no limit, trusted peers') is outside the limit theorems",
        "Go runtime memory statistics for the allocation bound",
    ]
