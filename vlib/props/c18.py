"""C18 -- Deadlines, best-effort and fail-no-peers modes never block or fire early."""
from .. import core, l1

ORACLES = [
    ("c18_early", "c18_early_oracle", "a Send/Recv returned a timeout error without having that deadline, or before the deadline had elapsed "
                                      "(measured: the step's end time is earlier than the time stamp taken before the call + the deadline)"),
    ("c18_besteffort", "c18_besteffort_oracle", "a best-effort Send was left blocked (or failed with a timeout)"),
    ("c18_late", "c18_late_oracle", "a call with a deadline is still blocked after a sleep that ended more than 10 ms past its deadline"),
    ("c18_late_resize", "c18_late_resize_oracle", "a call with a deadline, during which a queue length was changed, is still blocked after a sleep that ended more "
                                                 "than 10 ms past its deadline (the resize restarted the deadline)"),
    ("c18_nopeers", "c18_nopeers_oracle", "fail-no-peers: with no pipe attached a Send/Recv did not fail at once with the no-peers error, or a call stayed "
                                          "blocked after the last pipe had left"),
]


def run(res):
    core.std_proof_coverage(res, "C18")
    l1.run(res, "C18", "deadline", "Model.DeadlineOracle", "-", "-", ORACLES,
           "Send/Recv blocking, deadline, best-effort or fail-no-peers behaviour differs from the model (Model/Deadline.v; DeadlineCtx.v for rep/respondent; Req.v for req): "
           "which call returns what in which step, what is transmitted, which calls stay blocked",
           env={"L1_BIAS": "resend", "L1_PER_WORKER": "60", "L1_PER_TIMED_WORKER": "30"},
           check_fn="c18_check", ambig_fn="c18_ambiguous")
    res.coverage["protocols"] = ["xpair", "xpush", "xpull", "xpub", "xreq", "xbus", "req", "rep", "respondent"]
    # best effort on EVERY protocol that has the option (the history machines above drive nine of them): a stalled peer,
    # the smallest queues, BEST-EFFORT together with a long SEND-DEADLINE -- every Send returns at once
    out, defs, (rc, so, se) = core.gen_and_eval("C18_be", "c18be",
        "From Coq Require Import String.\nFrom Coq Require Import List NArith Bool.\nImport ListNotations.\nFrom MV Require Import Lib.Check.\n"
        "Open Scope string_scope. Open Scope N_scope. Open Scope list_scope.\n",
        "Definition be_ok (c : string * N * N * list N * N) : bool := let '(_, _, _, ds, errs) := c in\n"
        "  negb (match ds with [] => true | _ => false end) && forallb (fun d => d <? 100) ds && (errs =? 0).\n"
        "Definition bad_be := Eval vm_compute in bad_idx be_ok be_cases.\nPrint bad_be.\n")
    if out is None:
        res.violation("be:harness-abort", "the best-effort harness did not complete on the current tree (rc=%d): %s" % (rc, se[-600:]),
                      {"stderr": se[-3000:]}, found_input=("panic:" in se or "WATCHDOG" in se))
    else:
        from .c20 import items
        its = items(open(defs).read(), "be_cases")
        res.coverage["best_effort_cases"] = len(its)
        for i in (core.parse_nlist(core.parse_printed(out, "bad_be")) or [])[:4]:
            res.violation("be:%s" % (its[i].split(",")[0].strip('("') if i < len(its) else "?"),
                          "a best-effort Send to a stalled peer blocked (>= 100 ms) or failed: (protocol, SEND-DEADLINE ms, WRITEQ-LEN, duration of each of 6 sends in ms, errors) = %s; "
                          "Model/Deadline.v best_effort_never_blocks: the only outcomes are Done and Dropped" % (its[i] if i < len(its) else "?"),
                          {"case": its[i] if i < len(its) else "?", "how": "harness/cmd/c18be: mock pipe with held transport send, BEST-EFFORT true"})
    res.coverage["trusted_base"] = core.COQ_TRUSTED + [
        "hand-written models Model/Deadline.v (select idiom; queue sockets xpair, xpush, xpull, xpub, xreq, xbus), Model/DeadlineCtx.v (rep, respondent with contexts) and Model/Req.v tied by correspondence at "
        "quiescence granularity; where Go's select may take either of two ready arms (best-effort Send with room: queue or drop) the checker keeps both candidates",
        "time: every stimulus is preceded by a measured time stamp; a call's timer was created between two stamps; a deadline within 10 ms of a step boundary "
        "makes the rest of the history ambiguous (not compared); the oracles use measured stamps only (no tolerance for 'early', 10 ms for 'late')",
        "mock protocol pipes (harness/mp): the harness decides when a pipe send completes, fails, or the peer disappears; quiescence from runtime.Stack",
        "the other 15 protocol implementations use the same select idiom (table in Model/Deadline.v, read off the source by hand) but are not driven here",
    ]
    res.assumptions += [
        "queue resizes (WRITEQ-LEN / READQ-LEN) while calls are parked re-create the timer in several protocols (the deadline restarts); resizes are only "
        "driven on idle sockets",
        "rep / respondent SetOption rejects deadlines <= 0, so a deadline cannot be removed once set (modelled and driven as is)",
        "KNOWN-FINDING c18_late_resize: a READQ-LEN / WRITEQ-LEN change while a Recv with a deadline is parked restarts the deadline (timer created inside "
        "the sizeQ retry loop); the model follows the code, the oracle reports it, Props/C18.v has the refutation witness",
    ]
