"""C08 -- BUS and STAR reach every other member once and never echo to the sender."""
from .. import core, l1

ORACLES = [
    ("c08_noecho", "c08_noecho", "a message was written to the pipe that must not get it: the pipe named in a raw BUS header, or the pipe a STAR message came from"),
    ("c08_once", "c08_once", "a message was written that nobody sent, or changed (header / hop byte / body), or twice to one pipe, or to a pipe that is not connected"),
    ("c08_all", "c08_all", "a connected pipe that was able to take the message did not get its copy"),
    ("c08_nofwd", "c08_nofwd", "a BUS socket passed a received message on (or a STAR socket one the hop limit forbids)"),
    ("c08_up", "c08_up", "receive side: Recv returned a message no pipe delivered, or with the wrong header/body, or twice, or out of order, or a Recv stays blocked while a delivered message is waiting"),
]


def run(res):
    core.std_proof_coverage(res, "C08")
    l1.run(res, "C08", "busstar", "Model.BusStar Model.BusStarOracle", "bs_model", "BS0", ORACLES,
           "BUS/STAR behaviour differs from the model (Model/BusStar.v)")
    # raw BUS tells "no origin" from a forwarded message by the value 0 in the header word and skips the pipe whose ID equals that
    # word: the never-echo / reach-everyone rules lean on pipe IDs never being 0 (and being distinct) -- the allocator against Model/PipeId.v
    cov = dict(res.coverage)
    from .c13 import run_allocator
    run_allocator(res, "C08")
    extra = {k: res.coverage.get(k) for k in ("pipe_id_allocator_cases", "pipe_ids_allocated_and_compared", "pipe_id_lifetime_cases")}
    res.coverage.update(cov)
    res.coverage["pipe_id_premise"] = extra
    res.coverage["trusted_base"] = core.COQ_TRUSTED + [
        "hand-written model Model/BusStar.v (+ Model/Chan.v, receive filters of Model/Hops.v) tied by correspondence at quiescence granularity: each stimulus is atomic in the model",
        "Go runtime facts the model assumes: goroutines blocked on one channel are served in blocking order; a select with several ready arms may take any (flagged ambiguous, not compared)",
        "mock protocol pipes (harness/mp) stand in for core + transports; quiescence is detected from runtime.Stack",
        "the STAR network theorem composes the per-socket rule over an inductive tree in Coq; multi-socket topologies are not run by the harness (single socket + mock pipes)",
    ]
