"""C15 -- bytes on the wire follow the SP stream and WebSocket mappings."""
import re

from .. import core
from .c20 import items

IMPORTS = """From MV Require Import Lib.Bytes Model.Wire.
From MVgen Require Import Consts.
Open Scope N_scope.
"""

# SP registry values (RFC drafts sp-*-mapping / nanomsg): protocol numbers and peer pairing
REGISTRY = "[(\"pair\", 16, 16); (\"pair1\", 17, 17); (\"pub\", 32, 33); (\"sub\", 33, 32); (\"req\", 48, 49); (\"rep\", 49, 48); " \
           "(\"push\", 80, 81); (\"pull\", 81, 80); (\"surveyor\", 98, 99); (\"respondent\", 99, 98); (\"bus\", 112, 112); (\"star\", 1600, 1600)]"

OBLIGATIONS = [
    ("C15_gen_protocol_numbers",
     "let reg := %s in forallb (fun p => match p with (name, self, peer, sname, pname, _, _, _, _, _) => "
     "existsb (fun e => match e with (n, s, q) => (String.eqb n sname && (s =? self) && (q =? peer))%%bool end) reg "
     "&& existsb (fun e => match e with (n, s, q) => (String.eqb n pname && (s =? peer))%%bool end) reg end) gen_protocols = true "
     "/\\ length gen_protocols = 24%%nat" % REGISTRY,
     "cbv zeta. split; vm_compute; reflexivity."),
]

HEADER = """From MV Require Import Lib.Bytes Lib.Check Model.Hops Model.Wire Proofs.PatternProofs.
Open Scope string_scope.
Open Scope N_scope.
Open Scope list_scope.
"""

FOOTER = """
Fixpoint lists_eqb (a b : list bytes) : bool :=
  match a, b with [], [] => true | x :: a', y :: b' => bytes_eqb x y && lists_eqb a' b' | _, _ => false end.
Definition body_of (p : pattern) (w : bytes) : bytes :=
  match rx_peer p 8 0 w with Some (Deliver _ b) => b | _ => [xde; xad] ++ w end.
Definition at_boundary (s : pstatus) : bool := match s with AtBoundary => true | _ => false end.

Definition ok_hs (c : N * string) : bool := let '(p, h) := c in bytes_eqb (unhex h) (hs_header p).
Definition ok_sent (c : transport * pattern * string * string * list string) : bool :=
  let '(t, p, h, cap, bodies) := c in
  let r := parse_stream std_pool (is_ipc t) 0 (unhex cap) in
  at_boundary (status r)
  && bytes_eqb (concat (map (frame (is_ipc t) []) (delivered r))) (unhex cap)
  && lists_eqb (map (body_of p) (delivered r)) (map unhex bodies)
  && forallb (is_prefix (unhex h)) (delivered r).
Definition ok_rcvd (c : transport * pattern * string * string * list string * list string) : bool :=
  let '(t, p, wh, written, intended, got) := c in
  bytes_eqb (unhex written) (concat (map (fun b => frame (is_ipc t) (unhex wh) (unhex b)) intended))
  && lists_eqb (map unhex got) (map unhex intended)
  && lists_eqb (delivered (parse_stream std_pool (is_ipc t) 1048576 (unhex written))) (map (fun b => unhex wh ++ unhex b) intended).
Definition ok_dev (c : N * string * bool) : bool :=
  let '(e, h, acc) := c in Bool.eqb (match hs_check e (unhex h) with HsOk => true | _ => false end) acc.
Definition ok_wsub (c : string * string) : bool := let '(n, o) := c in bytes_eqb (unhex o) (ws_subprotocol (unhex n)).
Definition ok_wsmsg (c : pattern * string * list (N * string) * list string) : bool :=
  let '(p, wh, frames, bodies) := c in
  forallb (fun f => fst f =? 2) frames
  && lists_eqb (map (fun f => body_of p (unhex (snd f))) frames) (map unhex bodies)
  && forallb (fun f => is_prefix (unhex wh) (unhex (snd f))) frames.
Definition is_acc (c : N * string * bool) : bool := let '(_, _, a) := c in a.

Definition bad_hs := Eval vm_compute in bad_idx ok_hs hs_cases.
Definition bad_sent := Eval vm_compute in bad_idx ok_sent sent_cases.
Definition bad_rcvd := Eval vm_compute in bad_idx ok_rcvd rcvd_cases.
Definition bad_dev := Eval vm_compute in bad_idx ok_dev dev_cases.
Definition bad_wsub := Eval vm_compute in bad_idx ok_wsub wsub_cases.
Definition bad_wsmsg := Eval vm_compute in bad_idx ok_wsmsg wsmsg_cases.
Definition n_accepted := Eval vm_compute in count_true is_acc dev_cases.
Print bad_hs. Print bad_sent. Print bad_rcvd. Print bad_dev. Print bad_wsub. Print bad_wsmsg. Print n_accepted. Print n_notes.
"""

GROUPS = [
    ("hs_cases", "bad_hs", "the 8-byte header mangos wrote is not 00 'S' 'P' 00 <its protocol> 00 00"),
    ("sent_cases", "bad_sent", "bytes mangos wrote are not the model's framing (8-byte big-endian length, IPC prefix 01, pattern header, body) of the messages sent"),
    ("rcvd_cases", "bad_rcvd", "frames written by the independent encoder were not delivered as the messages they encode (or the encoder disagrees with the model)"),
    ("dev_cases", "bad_dev", "handshake accept/refuse differs from hs_check (accepted iff exactly the expected header)"),
    ("wsub_cases", "bad_wsub", "WebSocket subprotocol offered/accepted is not <peer-name>.sp.nanomsg.org"),
    ("wsmsg_cases", "bad_wsmsg", "WebSocket messages are not one binary message per send with header ++ body"),
]


def run(res):
    core.std_proof_coverage(res, "C15", extra_obligations=len(OBLIGATIONS))
    gd = core.gen_consts("C15")
    obl = core.check_gen_obligations("C15", gd, IMPORTS, OBLIGATIONS)
    failed = [(n, e) for n, ok, e in obl if not ok]
    res.coverage["discharged"] += len(obl) - len(failed)
    res.coverage["theorems"] += [n for n, _, _ in obl]
    res.coverage["generated_obligations"] = {n: ok for n, ok, _ in obl}
    out, defs, (rc, so, se) = core.gen_and_eval("C15", "c15", HEADER, FOOTER)
    found = 0
    if out is None:
        found += 1 if "panic:" in se else 0
        res.violation("harness-abort", "the raw-peer harness did not complete on the current tree (rc=%d): %s" % (rc, se[-600:]),
                      {"stderr": se[-3000:], "panic": "panic:" in se, "correspondence": "cmd/c15 vs Model/Wire.v"}, found_input=("panic:" in se))
        res.coverage.update({"evaluations": 0, "distinct_nontrivial": 0, "rule": "harness aborted", "samples": []})
    else:
        text = open(defs).read()
        total, samples, dist = 0, [], {}
        for cname, bname, what in GROUPS:
            its = items(text, cname)
            total += len(its)
            dist[cname] = len(its)
            bad = core.parse_nlist(core.parse_printed(out, bname))
            if bad is None:
                raise core.Broken("could not parse " + bname)
            if its:
                samples.append({cname: its[len(its) // 2][:300]})
            for i in bad[:6]:
                case = its[i] if i < len(its) else "?"
                found += 1
                res.violation("%s:%s" % (cname, case[:60]), what, {"group": cname, "index": i, "case": case[:4000], "model": "Model/Wire.v"})
        notes = re.findall(r"\(\* note: (.*?) \*\)", text)
        if notes:
            # a scenario that could not be set up is an observation too: report, do not ignore
            for n in notes[:4]:
                found += 1
                res.violation("setup:" + n[:60], "a raw-peer scenario did not proceed as the mapping requires: " + n, {"note": n})
        res.coverage.update({
            "evaluations": total, "distinct_nontrivial": len(set(sum((items(text, c) for c, _, _ in GROUPS), []))),
            "traces_validated_against_impl": total, "distribution": dist, "samples": samples,
            "handshakes_accepted_among_deviations": core.parse_printed(out, "n_accepted"),
            "rule": "12 protocols x {tcp, ipc, tls+tcp} x {mangos listens, mangos dials}: header capture, mangos->raw byte capture, raw->mangos frames; "
                    "handshake deviations (each position x boundary values; all 255 in thorough; multi-byte; other protocols' headers); ws/wss subprotocol and one-binary-message checks. "
                    "distinct = distinct rendering; all evaluate the model on real bytes",
        })
    for n, e in failed:
        res.violation("obligation:" + n, "generated obligation %s no longer checks (protocol numbers / peers re-extracted from /repo)" % n,
                      {"theorem": n, "coqc": e}, found_input=(found > 0))
    # the stream mapping read side: frames cut anywhere by the network must decode the same (conn / connipc over chunked reads)
    from .. import stream
    res.coverage["chunked_stream_scenarios"] = stream.run(res, "C15")
    res.coverage["trusted_base"] = core.COQ_TRUSTED + [
        "translator harness/cmd/consts (Info() of all 24 protocol constructors)",
        "the harness's own raw peer (Go net/tls/gorilla websocket) and its independent encoder, itself cross-checked against the model's frame/hs_header inside Coq",
        "RFC 6455 framing inside gorilla/websocket and the TLS record layer are not modelled",
    ]
