"""C19 -- options and unsupported operations follow one uniform contract (DESIGN.md section 6, C19)."""
import re

from .. import core
from .c20 import items

HEADER = """From MV Require Import Lib.Check Model.Options.
From Coq Require Import List NArith ZArith Bool String Ascii.
Import ListNotations.
Open Scope string_scope.
Open Scope list_scope.
"""

FOOTER = """
(* the grid comes compact (one entry per object, observation strings shared): expand to one row per (object, name) *)
Fixpoint chars (s : string) : list string :=
  match s with EmptyString => [] | String c r => String c EmptyString :: chars r end.
Definition rows_of (ob : objkind * phase * string * list N) : list (objkind * phase * string * string * string) :=
  let '(k, ph, g0s, idxs) := ob in
  map (fun x : string * (string * N) => let '(name, (g0, ix)) := x in (k, ph, name, g0, nth (N.to_nat ix) grid_obs "!"))
      (combine grid_names (combine (chars g0s) idxs)).
Definition grid_rows := flat_map rows_of grid_objs.
Definition rows_complete := Eval vm_compute in
  forallb (fun ob : objkind * phase * string * list N => let '(_, _, g0s, idxs) := ob in
     Nat.eqb (String.length g0s) (List.length grid_names) && Nat.eqb (List.length idxs) (List.length grid_names)) grid_objs.
(* flat list of quadruples: row index, value index (999 = the first Get), half (0 Set, 1 Get, 2 malformed),
   expected Set result as a character code *)
Fixpoint flat_bad (i : N) (rows : list (objkind * phase * string * string * string)) : list N :=
  match rows with
  | [] => []
  | r :: rest =>
    let '(k, _, name, _, _) := r in
    flat_map (fun b : N * N =>
       [i; fst b; snd b;
        N_of_ascii (match nth_error grid_values (N.to_nat (fst b)) with
                    | Some v => expected_char k name v | None => "-"%char end)])
      (check_row grid_values r) ++ flat_bad (N.succ i) rest
  end.
Definition bad_grid := Eval vm_compute in flat_bad 0%N grid_rows.
Definition bad_pipe := Eval vm_compute in bad_idx check_pipe pipe_rows.
Definition pipe_exp := Eval vm_compute in
  map (fun r : objkind * string * string * string => let '(k, name, _, _) := r in
         match k with KPipe t s => N_of_ascii (pipe_expected t s name) | _ => 0%N end) pipe_rows.
Definition bad_inherit := Eval vm_compute in bad_idx check_inherit inherit_cases.
Definition inherit_exp := Eval vm_compute in
  map (fun c : inh_src * string * value * string => let '(s, name, _, _) := c in N_of_ascii (inherit_expected s name)) inherit_cases.
Definition bad_unsup := Eval vm_compute in bad_idx check_unsup unsup_cases.
Definition bad_effect := Eval vm_compute in bad_idx check_effect effect_cases.
Definition n_ok_sets := Eval vm_compute in
  N.of_nat (List.length (filter (fun r : objkind * phase * string * string * string =>
     let '(k, _, name, _, _) := r in let o := lookup name in existsb (fun v => match expected_exc_o k o v with Some ROk => true | _ => false end) grid_values) grid_rows)).
Print rows_complete. Print bad_grid. Print bad_pipe. Print pipe_exp. Print bad_inherit. Print inherit_exp. Print bad_unsup. Print bad_effect. Print n_ok_sets.
"""

CLS = {"o": "ok (nil)", "b": "ErrBadOption", "v": "ErrBadValue", "p": "PANIC", "x": "another error", "r": "ErrBadProperty",
       "?": "ok or ErrBadValue", "-": "-"}
GET = {"s": "the value just set", "e": "the value set (= the value before)", "u": "unchanged (the value before, not the value set)",
       "n": "a value that is neither the one set nor the one before", "b": "ErrBadOption", "v": "ErrBadValue",
       "r": "ErrBadProperty", "p": "PANIC", "x": "another error", "o": "ok"}

ROW = re.compile(r'^\((K\w+ \w+), (P\w+), "((?:[^"]|"")*)", "(.)", "(.*)"\)$')


def short_kind(k):
    m = re.match(r"K(Sock|Proto|Ctx|Dialer|Listener) (?:P|OT)(\w+)", k)
    return (m.group(2).lower(), {"Sock": "S", "Proto": "P", "Ctx": "C", "Dialer": "D", "Listener": "L"}[m.group(1)]) if m else (k, "")


def kinds_sig(kinds):
    d = {}
    for k in kinds:
        n, l = short_kind(k)
        d.setdefault(n, set()).add(l)
    return ",".join("%s[%s]" % (n, "".join(sorted(d[n]))) for n in sorted(d))


def pretty_value(v):
    v = v.replace("%Z", "").replace("%N", "")
    v = v.replace("9223372036854775807", "MaxInt64").replace("(-9223372036854775808)", "MinInt64")
    return v


def run(res):
    core.std_proof_coverage(res, "C19")
    out, defs, (rc, so, se) = core.gen_and_eval("C19", "c19", HEADER, FOOTER, timeout=600)
    if out is None:
        res.violation("harness-abort", "the option-grid harness did not complete on the current tree (rc=%d): %s" % (rc, se[-400:]),
                      {"stderr": se[-3000:], "panic": "panic:" in se, "correspondence": "cmd/c19 vs Model/Options.v"}, found_input=("panic:" in se))
        res.coverage.update({"evaluations": 0, "distinct_nontrivial": 0, "rule": "harness aborted", "samples": []})
        return
    text = open(defs).read()
    values = items(text, "grid_values")
    names = [n[1:-1].replace('""', '"') for n in items(text, "grid_names")]
    obs_tab = [o[1:-1] for o in items(text, "grid_obs")]
    rows = []
    for ob in items(text, "grid_objs"):
        m = re.match(r'^\((K\w+ \w+), (P\w+), "(.*)", \[(.*)\]%N\)$', ob)
        if not m or len(m.group(3)) != len(names):
            raise core.Broken("unparsable grid object: %s" % ob[:200])
        ix = [int(x) for x in m.group(4).split(";")]
        for n, g0, i in zip(names, m.group(3), ix):
            rows.append('(%s, %s, "%s", "%s", "%s")' % (m.group(1), m.group(2), n.replace('"', '""'), g0, obs_tab[i]))
    if core.parse_printed(out, "rows_complete") != "true":
        raise core.Broken("grid objects and names do not line up")
    prow = items(text, "pipe_rows")
    inh = items(text, "inherit_cases")
    uns = items(text, "unsup_cases")
    eff = items(text, "effect_cases")
    panics = dict(re.findall(r"^\(\* panic (.*?) : (.*?) \*\)$", text, re.M))

    def plist(name):
        v = core.parse_nlist(core.parse_printed(out, name))
        if v is None:
            raise core.Broken("could not parse %s from coqc output" % name)
        return v

    # ---- the grid: group equal deviations over the objects that show them
    bad = plist("bad_grid")
    groups = {}
    for j in range(0, len(bad), 4):
        ri, vi, half, exp = bad[j:j + 4]
        m = ROW.match(rows[ri])
        if not m:
            raise core.Broken("unparsable grid row %d: %s" % (ri, rows[ri][:200]))
        kind, phase, name, g0, obs = m.groups()
        name = name.replace('""', '"')
        if vi == 999:
            key = (name, "<first Get>", "get0", "o/b", g0)
            val = "<first Get>"
        else:
            val = pretty_value(values[vi])
            sc, gc = obs[2 * vi], obs[2 * vi + 1]
            if half == 0:
                key = (name, val, "set", chr(exp), sc)
            elif half == 1:
                key = (name, val, "get-after-set-" + sc, "-", gc)
            else:
                key = (name, val, "malformed", "-", "-")
        groups.setdefault(key, []).append((kind, phase, ri, vi))
    for key, occ in sorted(groups.items()):
        name, val, what, exp, obs = key
        kinds = sorted(set(k for k, _, _, _ in occ))
        ks = kinds_sig(kinds)
        if what == "set":
            desc = "SetOption(%s, %s): the contract says %s, observed %s on %s" % (name, val, CLS.get(exp, exp), CLS.get(obs, obs), ks)
        elif what.startswith("get-after-set"):
            desc = "after SetOption(%s, %s) returned %s, GetOption(%s) gave %s on %s" % (name, val, CLS.get(what[-1], what[-1]), name, GET.get(obs, obs), ks)
        elif what == "get0":
            desc = "GetOption(%s) on a fresh object: observed %s, the table says otherwise, on %s" % (name, CLS.get(obs, obs), ks)
        else:
            desc = "malformed row for %s" % name
        k0, ph0, _, _ = occ[0]
        pk = "%s|%s|%s|%s" % (k0, ph0, name, values[occ[0][3]] if occ[0][3] != 999 else "")
        res.violation("grid:%s=%s:%s:%s->%s:%s" % (name, val, what, exp, obs, ks), desc,
                      {"object": kinds, "phases": sorted(set(p for _, p, _, _ in occ)), "option": name, "value": val,
                       "expected": CLS.get(exp, exp), "observed": CLS.get(obs, obs) if what == "set" else GET.get(obs, obs),
                       "panic_text": panics.get(pk, ""), "model": "Model/Options.v expected_exc / get_ok",
                       "how": "harness/cmd/c19 grid: fresh object of that kind; GetOption(name); SetOption(name, value); GetOption(name)"})

    # ---- pipes
    pexp = plist("pipe_exp")
    for i in plist("bad_pipe"):
        m = re.match(r'^\((KPipe \w+ \w+), "((?:[^"]|"")*)", "(.)", "(.*)"\)$', prow[i])
        kind, name, c, ty = m.groups() if m else (prow[i], "?", "?", "")
        e = chr(pexp[i]) if i < len(pexp) else "?"
        res.violation("pipe:%s:%s:%s->%s" % (kind, name, e, c),
                      "Pipe.GetOption(%s) on a %s pipe: the table says %s, observed %s" % (name, kind, CLS.get(e, e), CLS.get(c, c)),
                      {"object": kind, "option": name, "value": None, "expected": CLS.get(e, e), "observed": CLS.get(c, c), "type": ty})

    # ---- inheritance
    iexp = plist("inherit_exp")
    IN = {"s": "the value set on the socket", "n": "its own default (not inherited)", "b": "ErrBadOption"}
    for i in plist("bad_inherit"):
        m = re.match(r'^\((I\w+ \w+), "((?:[^"]|"")*)", (.*), "(.)"\)$', inh[i])
        src, name, val, c = m.groups() if m else (inh[i], "?", "?", "?")
        e = chr(iexp[i]) if i < len(iexp) else "?"
        res.violation("inherit:%s:%s:%s->%s" % (src, name, e, c),
                      "socket.SetOption(%s, %s) then a new %s: GetOption there should show %s, observed %s"
                      % (name, pretty_value(val), src, IN.get(e, e), IN.get(c, CLS.get(c, c))),
                      {"object": src, "option": name, "value": pretty_value(val), "expected": IN.get(e, e), "observed": IN.get(c, CLS.get(c, c))})

    # ---- unsupported operations
    for i in plist("bad_unsup"):
        m = re.match(r'^\((U.*), "(.*)"\)$', uns[i])
        op, r = m.groups() if m else (uns[i], "?")
        res.violation("unsup:%s:%s" % (op, r.split(":")[0]),
                      "operation %s returned %s, not the designated result (Model/Options.v unsup_expected)" % (op, r),
                      {"object": op, "option": None, "value": None, "expected": "see unsup_expected", "observed": r})

    # ---- behavioural effects: group by scenario family and outcome
    eg = {}
    for i in plist("bad_effect"):
        m = re.match(r'^\((E\w+)(.*), "(.*)"\)$', eff[i])
        ctor, args, r = m.groups() if m else ("?", eff[i], "?")
        a = args.replace("%N", "").split()
        cls = re.split(r"[:+]", r)[0]
        a = [{"OReadQLen": "READQ-LEN", "OWriteQLen": "WRITEQ-LEN"}.get(x, x) for x in a]
        if ctor == "EResize":
            key = ("resize", a[1], "full" if a[2] == "true" else "empty", cls)
            who = a[0][1:]
        elif ctor == "EZeroQ":
            key = ("zeroq", a[1], "", cls)
            who = a[0][1:]
        elif ctor in ("ERecvBlock", "ESendBlock"):
            key = (ctor[1:].lower(), a[1], "", cls)
            who = a[0][1:]
        else:
            key = (ctor[1:].lower(), " ".join(a), "", cls)
            who = ""
        eg.setdefault(key, []).append((who, eff[i]))
    for key, occ in sorted(eg.items()):
        fam, p1, p2, cls = key
        who = ",".join(sorted(set(w for w, _ in occ if w)))
        sig = "effect:%s:%s" % (":".join(x for x in (fam, p1, p2) if x), cls) + (":" + who if who else "")
        res.violation(sig, "behavioural effect scenario %s %s %s on [%s]: observed %s (cases: %s)" % (fam, p1, p2, who, cls, "; ".join(c for _, c in occ)[:600]),
                      {"object": who, "option": p1, "value": p2, "expected": "Model/Options.v effect_expected", "observed": cls,
                       "cases": [c for _, c in occ], "how": "harness/cmd/c19 -scenario '<spec>' (see behav.go)"})

    ncalls = re.search(r"\(\* calls (\d+)", text)
    total = len(rows) * len(values) + len(prow) + len(inh) + len(uns) + len(eff)
    res.coverage.update({
        "evaluations": total, "distinct_nontrivial": len(set(rows)) + len(set(prow)) + len(set(inh)) + len(set(uns)) + len(set(eff)),
        "traces_validated_against_impl": total,
        "option_calls": int(ncalls.group(1)) if ncalls else None,
        "rule": "grid: one evaluation per (object kind, phase, option name, value) = Set result class + Get-after-Set relation, rows = (kind, phase, name); "
                "pipes: one per (transport, side, name); inheritance: one per (new object, option accepted by the socket); unsupported: one per operation x pattern and "
                "every ordered Device pair; effects: one sub-process scenario each. Distinct = distinct rendering of the row/case; every one evaluates the model on a real observation",
        "samples": [{"grid_row": rows[len(rows) // 3][:300]}, {"pipe": prow[len(prow) // 2][:200]}, {"inherit": inh[len(inh) // 2][:200]},
                    {"unsupported": uns[len(uns) // 2][:200]}, {"effect": eff[len(eff) // 2][:200]}],
        "distribution": {"grid_rows": len(rows), "values_per_row": len(values), "pipe_rows": len(prow), "inherit_cases": len(inh),
                         "unsupported_cases": len(uns), "effect_scenarios": len(eff)},
        "rows_with_an_accepted_value": core.parse_printed(out, "n_ok_sets"),
        "exhaustive": True,
        "exhaustive_note": "every option constant of options.go + transport-specific names + hook + random strings x %d value classes x every object kind "
                           "(24 sockets before/after connecting, 24 protocols, 5 context kinds, dialers/listeners/pipes of 6 transports)" % len(values),
    })
    res.coverage["trusted_base"] = core.COQ_TRUSTED + [
        "hand-written tables Model/Options.v (domain per option name, can_set/can_get per object kind, exceptions X1-X4) tied by the exhaustive grid (cmd/c19)",
        "Go harness: recover() around every call, reflect/== comparison of Get results, sub-process watchdogs for behavioural scenarios, pipe event hook for Detached",
        "timing scenarios use wide margins (deadline 50 vs 300 ms observation, survey 600/100 and 50/250 ms, retry 60/400 ms)",
    ]
    res.assumptions += [
        "exceptions modelled, not reported as violations: X1 REP/RESPONDENT reject deadlines <= 0; X2 core socket accepts negative (MAX-)RECONNECT-TIME; "
        "X3 transport dialers/listeners accept negative MAX-RCV-SIZE; X4 UNSUBSCRIBE of an unknown topic is ErrBadValue; NO-DELAY always reads true; "
        "ws option maps answer ErrBadOption until an option was set; pipes answer ErrBadProperty (ws/wss pipes ErrBadOption after falling through to dialer/listener/socket)",
        "a new REP context inherits nothing from the socket (rep.go:418) -- modelled as the pattern not providing inheritance",
    ]
