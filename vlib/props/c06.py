"""C06 -- SUB delivers exactly the matching messages; PUB reaches every subscriber."""
import os

from .. import core, l1

ORACLES = [
    ("c06_sub", "c06_sub_oracle",
     "Recv on a SUB context/XSUB socket returned a message that did not arrive for that context with a matching subscription, no longer matches "
     "after a completed Unsubscribe, is not byte-identical to the delivered one, was returned before, or overtook an earlier message of the same publisher"),
    ("c06_live", "c06_live_oracle",
     "a message matching a context's subscription arrived while a Recv was parked on that context, and no parked Recv of the context returned"),
    ("c06_pub", "c06_pub_oracle",
     "PUB: a Send accepted by the open socket did not reach an attached pipe with an idle sender, or a transmission is not a copy of a sent "
     "message / repeats or reorders messages on a pipe / goes to a pipe that is not attached"),
    ("c06_panic", "c06_panic_oracle", "an API call panicked (recovered by the harness)"),
]


def run(res):
    core.std_proof_coverage(res, "C06")
    # core.GOENV is captured before main() stores the tier/seed given on the command line: pass them on explicitly
    env = {"VERIF_TIER": os.environ.get("VERIF_TIER", "quick"), "VERIF_SEED": os.environ.get("VERIF_SEED", "1")}
    if env["VERIF_TIER"] != "thorough":
        # the histories are short and need no waiting: twice the default number still fits the quick budget
        env.update({"L1_PER_WORKER": os.environ.get("L1_PER_WORKER", "120"), "L1_PER_TIMED_WORKER": os.environ.get("L1_PER_TIMED_WORKER", "24")})
    l1.run(res, "C06", "pubsub", "Model.PubSub Model.PubSubOracle", "(pubsub_model true)", "pubsub_init", ORACLES,
           "SUB/XSUB/PUB behaviour differs from the model (Model/PubSub.v, repaired READQ-LEN semantics): which context gets an arriving message, what Unsubscribe/READQ-LEN "
           "leave in the queue, what overflow drops, which pipes a published message is written to", env=env)
    res.coverage["trusted_base"] = core.COQ_TRUSTED + [
        "hand-written model Model/PubSub.v tied by correspondence at quiescence granularity: each stimulus (one API call, one arriving message, one pipe "
        "event, one released transport send, one sleep) is atomic in the model; finer interleavings are covered neither by the theorems nor by the harness",
        "mock protocol pipes (harness/mp) stand in for core + transports: SUB/XSUB are fed by injecting bodies into mock publisher pipes, PUB/XPUB write to "
        "mock subscriber pipes whose sends the harness can hold, release or fail; quiescence is detected from runtime.Stack",
        "situations where Go itself chooses (two Recv calls parked on one context, Recv on a closed context/socket with messages still queued, a deadline "
        "within 15 ms of a step boundary) are marked ambiguous by the model and not compared from there on (counted in histories_truncated_as_ambiguous)",
        "a history that ends with goroutines parked on a mutex is reported (STUCK) and ends its worker process, whose remaining histories are not generated; "
        "API calls run under recover(), a panic is reported as error class 98 and flagged by the c06_panic oracle; histories with timing gaps over 12 ms are "
        "discarded and counted",
    ]
    res.assumptions += [
        "READQ-LEN 0 makes a SUB context/XSUB socket a rendezvous: a message that no parked Recv takes at the moment of arrival is dropped (by design of the "
        "repaired code; C06_readqlen_zero_drops), which the property's 'losing some only when a queue overflows' is read to include",
        "changing READQ-LEN abandons the messages queued on that context/socket (sub.go and xsub.go replace the channel): treated as a reconfiguration, "
        "not as a loss covered by 'losing some only when a queue overflows'; the model follows the code",
        "the sequential oracles judge each publisher pipe's order and at-most-once on the bodies the harness tags with (pipe, sequence number); "
        "untagged bodies (empty, equal to a topic) may repeat and are matched leniently (first equal candidate)",
    ]
