"""C06 -- SUB delivers exactly the matching messages; PUB reaches every subscriber."""
import os

from .. import core, l1

ORACLES = [
    ("c06_sub", "c06_sub_oracle",
     "Recv on a SUB context/XSUB socket returned a message that did not arrive for that context with a matching subscription, no longer matches "
     "after a completed Unsubscribe, is not byte-identical to the delivered one, was returned before, or overtook an earlier message of the same publisher"),
    ("c06_live", "c06_live_oracle",
     "a message matching a context's subscription arrived while a Recv was parked on that context, and no parked Recv of the context returned"),
    ("c06_pub", "c06_pub_oracle",
     "PUB: a Send accepted by the open socket did not reach an attached pipe with an idle sender, or a transmission is not a copy of a sent "
     "message / repeats or reorders messages on a pipe / goes to a pipe that is not attached"),
    ("c06_panic", "c06_panic_oracle", "an API call panicked (recovered by the harness)"),
]


def run(res):
    core.std_proof_coverage(res, "C06")
    # core.GOENV is captured before main() stores the tier/seed given on the command line: pass them on explicitly
    env = {"VERIF_TIER": os.environ.get("VERIF_TIER", "quick"), "VERIF_SEED": os.environ.get("VERIF_SEED", "1")}
    if env["VERIF_TIER"] != "thorough":
        # the histories are short and need no waiting: twice the default number still fits the quick budget
        env.update({"L1_PER_WORKER": os.environ.get("L1_PER_WORKER", "120"), "L1_PER_TIMED_WORKER": os.environ.get("L1_PER_TIMED_WORKER", "24")})
    l1.run(res, "C06", "pubsub", "Model.PubSub Model.PubSubOracle", "pubsub_model", "pubsub_init", ORACLES,
           "SUB/XSUB/PUB behaviour differs from the model (Model/PubSub.v): which context gets an arriving message, what Unsubscribe/READQ-LEN "
           "leave in the queue, what overflow drops, which pipes a published message is written to", env=env)
    # finer signatures for the two defects of the code as found, so that known_findings.json can name exactly them
    out = []
    for sig, text, replay, found in res.violations:
        h = replay.get("history", "") if isinstance(replay, dict) else ""
        if sig == "stuck:pubsub" and "OReadQLen 0%Z" in h and "OTtl 1%Z" in h:
            sig = "stuck:sub:readqlen0"
            text = ("SUB READQ-LEN 0: a matching message arriving with no Recv parked blocks the receiver goroutine in `c.recvQ <- m` while it holds the "
                    "socket lock; the message is never delivered and every later call parks on the mutex. " + text)
        if sig == "oracle:c06_panic:pubsub" and "OTtl 1%Z" in h and "OReadQLen (-" in replay.get("failing_step", ""):
            sig = "panic:sub:readqlen-negative"
            text = "SUB SetOption(READQ-LEN, v<0) is accepted and panics in make(chan) (xsub rejects it with ErrBadValue). " + text
        out.append((sig, text, replay, found))
    res.violations[:] = out
    res.coverage["trusted_base"] = core.COQ_TRUSTED + [
        "hand-written model Model/PubSub.v tied by correspondence at quiescence granularity: each stimulus (one API call, one arriving message, one pipe "
        "event, one released transport send, one sleep) is atomic in the model; finer interleavings are covered neither by the theorems nor by the harness",
        "mock protocol pipes (harness/mp) stand in for core + transports: SUB/XSUB are fed by injecting bodies into mock publisher pipes, PUB/XPUB write to "
        "mock subscriber pipes whose sends the harness can hold, release or fail; quiescence is detected from runtime.Stack",
        "situations where Go itself chooses (two Recv calls parked on one context, Recv on a closed context/socket with messages still queued, a deadline "
        "within 15 ms of a step boundary) are marked ambiguous by the model and not compared from there on (counted in histories_truncated_as_ambiguous)",
        "READQ-LEN 0 on SUB is exercised only as a rendezvous (Recv parked first) and by one directed probe that runs last in its worker process, because it "
        "wedges the socket (reported as known finding); histories with timing gaps over 12 ms are discarded and counted",
    ]
    res.assumptions += [
        "changing READQ-LEN abandons the messages queued on that context/socket (sub.go and xsub.go replace the channel): treated as a reconfiguration, "
        "not as a loss covered by 'losing some only when a queue overflows'; the model follows the code",
        "the sequential oracles judge each publisher pipe's order and at-most-once on the bodies the harness tags with (pipe, sequence number); "
        "untagged bodies (empty, equal to a topic) may repeat and are matched leniently (first equal candidate)",
    ]
