"""C10 -- see DESIGN.md section 6 (core over the virtual transport with a recording mock protocol)."""
from .. import core, l1

IDFIX, DIALFIX = "true", "true"
ORACLES = {
    "C13": [("c13", "c13_oracle", "a pipe's hook events / protocol notifications do not follow the lifecycle (Attaching once and first, Attached at most once, "
             "Detached iff the protocol accepted it, arrival and departure told once), or its id was zero / not 31-bit / shared with a live pipe")],
    "C14": [("c14", "c14_oracle", "a connection attempt was started after the dialer or its socket was closed")],
    "C10": [("c10", "c10_oracle", "after the socket was closed a pipe id is still in use or a pipe is still listed"),
            ("c14", "c14_oracle", "a connection attempt was started after the dialer or its socket was closed")],
}["C10"]
EXTRA = []


ATOM_IMPORTS = """From MV Require Import Model.RaceCfg Model.AtomCfg Model.GuardSpec Proofs.AtomSound.
From MVgen Require Import RaceProg.
Open Scope N_scope.
"""
ATOM_OBLIGATIONS = [
    # every insertion into a registry that Close walks happens in the critical section that checked `closed`
    ("C10_gen_register_after_check", "atom_ok (atom_rules_checked field_names atom_rules) rprogram = true", "vm_compute. reflexivity."),
    # the rule set has not silently shrunk (the core's listener and dialer lists are among the checked registries)
    ("C10_gen_rules_present",
     "forallb (fun n => existsb (fun r => String.eqb (nth (N.to_nat (fst r)) field_names \"\"%string) n) (atom_rules_checked field_names atom_rules)) "
     "[\"internal/core.socket.listeners+insert\"%string; \"internal/core.socket.dialers+insert\"%string] = true", "vm_compute. reflexivity."),
]
ATOM_REPORT = ATOM_IMPORTS + """
Definition bad := Eval vm_compute in
  map (fun x => (nth (N.to_nat (fst x)) field_names ""%string, snd x)) (atom_bad (atom_rules_checked field_names atom_rules) rprogram).
Print bad.
Definition nrules := Eval vm_compute in length (atom_rules_checked field_names atom_rules).
Print nrules.
"""


def run_static(res, pid="C10"):
    """Close-vs-register atomicity on the lock skeletons regenerated from /repo (translator go2race)."""
    import os, re
    from .c11 import gen_raceprog
    gd, _rp = gen_raceprog(pid)
    obl = core.check_gen_obligations(pid, gd, ATOM_IMPORTS, ATOM_OBLIGATIONS, timeout=600)
    failed = [(n, e) for n, ok, e in obl if not ok]
    res.coverage["discharged"] += len(obl) - len(failed)
    res.coverage["theorems"] += [n for n, _, _ in obl]
    res.coverage["generated_obligations"] = {n: ok for n, ok, _ in obl}
    p = os.path.join(core.WORK, pid, "atom_report.v")
    open(p, "w").write(ATOM_REPORT)
    rc, out, err, dt = core.coqc_file(p, extra=["-Q", gd, "MVgen"])
    found = 0
    if rc == 0:
        txt = re.sub(r"\s+", " ", out)
        for m in re.finditer(r'\("([^"]+)", "([^"]+)"\)', txt.split("nrules")[0]):
            fld, fn = m.group(1), m.group(2)
            found += 1
            res.violation("static:register:%s:%s" % (fld, fn),
                          "%s adds an element to %s without having read the object's `closed` flag in the same critical section on every path: "
                          "Close can run between the check and the registration, and the element is registered into a closed object "
                          "(nobody will shut it down)" % (fn, fld.replace("+insert", "")),
                          {"function": fn, "registry": fld, "theorem": "C10_gen_register_after_check (atom_ok ... = true)",
                           "how": "bin/check C10 regenerates the skeletons with harness/cmd/go2race and re-evaluates Model/AtomCfg.atom_ok; "
                                  "schedule: the function's caller passes the closed-check, Close runs to completion, the function registers"},
                          found_input=False)
        m = re.search(r"nrules = (\d+)", txt)
        res.coverage["register_after_check_rules"] = int(m.group(1)) if m else None
    for n, e in failed:
        if n == "C10_gen_register_after_check" and found:
            continue
        res.violation("obligation:" + n, "generated obligation %s no longer checks against the skeletons regenerated from /repo" % n,
                      {"theorem": n, "coqc": e, "translator": "harness/cmd/go2race"}, found_input=False)


def run(res):
    core.std_proof_coverage(res, "C10", extra_obligations=len(ATOM_OBLIGATIONS))
    run_static(res)
    cov0 = dict(res.coverage)
    l1.run(res, "C10", "core", "Model.Core Model.CoreOracle", "", "", ORACLES + EXTRA,
           "the socket core behaves differently from the model (Model/Core.v): hook events, protocol notifications, transport closes, dial attempts, "
           "return values, ids in use or pipes listed",
           gocmd="l2core", prelude="Definition step_rec := kstep_rec.\n",
           check_fn="(fun h => kcheck_from %s %s kinit 0 h)" % (IDFIX, DIALFIX),
           ambig_fn="(fun h => kambiguous_from %s %s kinit 0 h)" % (IDFIX, DIALFIX))
    # the transports' side of "Close affects only that object and leaves nothing behind": stalled handshakes end at Close,
    # registration racing Close, a second listener's Close leaves the first reachable (harness/cmd/stream)
    from .. import stream
    res.coverage["transport_close_scenarios"] = stream.run(res, "C10")
    # the handshaker as a state machine: random Start / completion / Wait / Close histories against Model/Handshaker.v
    from .. import hsm
    res.coverage["handshaker_state_machine"] = hsm.run(res, "C10")
    for k in ("discharged", "theorems", "generated_obligations", "register_after_check_rules"):
        if k in cov0:
            res.coverage[k] = cov0[k]
    res.coverage["trusted_base"] = core.COQ_TRUSTED + [
        "translator harness/cmd/go2race for the check-then-register rules: insertions are `x.f[k] = v` and `x.f = append(x.f, ...)`; calls through interfaces and "
        "function values are assumed not to release the caller's mutex; rules are proposed for the map/slice fields that the struct's own Close method touches "
        "(exemptions reviewed in Model/GuardSpec.v atom_exempt)",
        "hand-written model Model/Core.v tied by correspondence at quiescence granularity against the real core.socket/dialer/listener/pipe over a virtual transport "
        "(harness/vt, registered through the public transport.RegisterTransport) and a recording mock protocol (harness/mproto)",
        "verif hooks internal/core/verif_hooks.go + protocol/verif_hooks.go (read-only: pipe ids in use, pipes listed)",
        "redial delays are modelled as intervals (random factor in [1.1,1.5]); a timer that may or may not have fired in a step makes the rest of the history ambiguous (not compared)",
    ]
