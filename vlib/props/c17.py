"""C17 -- a message belongs to exactly one owner at a time."""
import re

from .. import core
from .c20 import items

IMPORTS = """From MV Require Import Lib.Bytes Model.Wire Model.Refcnt Proofs.WireProofs Proofs.RefcntProofs.
From MVgen Require Import Consts.
Open Scope N_scope.
"""

OBLIGATIONS = [
    # the pool table of the current source passes pool_ok, is the table the recorded allocations are compared with,
    # and so every NewMessage of it is fresh (empty, room for the size, one reference, nothing else touched)
    ("C17_gen_pool_fresh",
     "let p := {| p_classes := combine gen_pool_maxbody gen_pool_newmsg; p_strict := String.eqb gen_pool_cmp \"<\" |} in "
     "p = std_pool /\\ forall sz h m, live (hget h m) = false -> sz <= new_message_cap p sz /\\ "
     "exists h', step h (MNew m sz (new_message_cap p sz) 0 0) = Some h' /\\ hget h' m = owned 1 /\\ (forall x, x <> m -> hget h' x = hget h x)",
     "cbv zeta. split; [vm_compute; reflexivity|]. intros sz h m Hd. apply new_message_fresh_thm; [vm_compute; reflexivity|exact Hd]."),
]

HEADER = """From MV Require Import Lib.Bytes Lib.Check Model.Wire Model.Refcnt.
Open Scope string_scope.
Open Scope N_scope.
Open Scope list_scope.
"""

FOOTER = """
Definition opkind (o : memop) : N :=
  match o with MNew _ _ _ _ _ => 1 | MClone _ => 2 | MFree _ => 3 | MRelease _ => 4 | MUnique _ => 5
             | MHandOut _ => 6 | MAppFree _ => 7 | MSendErr _ => 8 | MMark _ => 9 end.
Definition cap_ok (o : memop) : bool :=
  match o with MNew _ sz cap _ _ => cap =? new_message_cap std_pool sz | _ => true end.
Definition ok_all := Eval vm_compute in ledger_ok trace.
Definition bad_ops := Eval vm_compute in ledger_bad trace.
Definition bad_caps := Eval vm_compute in bad_idx cap_ok trace.
Definition bad_scen := Eval vm_compute in bad_idx (fun c : string * bool * bool => let '(_, a, b) := c in a && b) scen_results.
Definition kinds := Eval vm_compute in map (fun k => count_true (fun o => opkind o =? k) trace) [1; 2; 3; 4; 5; 6; 7; 8; 9].
Print ok_all. Print bad_ops. Print bad_caps. Print bad_scen. Print kinds.
"""

KIND_NAMES = ["new", "clone", "free", "release", "unique_copy", "hand_out", "app_give_up", "failed_send", "scenario_marks"]


def op_id(line):
    m = re.match(r"M(\w+) (\d+)", line)
    if not m or m.group(1) == "Mark":
        return None
    return int(m.group(2))


def kind_of(sc):
    """scenario name without the repetition suffix and the transport: the signature of a finding"""
    sc = re.sub(r"#\d+$", "", sc)
    return re.sub(r"/(inproc|tcp|ipc|tls\+tcp|ws|wss)$", "", sc)


def scenario_at(trace, names, i):
    for j in range(min(i, len(trace) - 1), -1, -1):
        m = re.match(r"MMark (\d+)", trace[j])
        if m:
            return names.get(int(m.group(1)), "?")
    return "?"


def history(trace, i, n=14):
    """the last n events on the same object up to and including event i"""
    if i >= len(trace):
        return []
    k = op_id(trace[i])
    out = []
    for j in range(i, -1, -1):
        if op_id(trace[j]) == k:
            out.append("%d: %s" % (j, trace[j]))
            if len(out) >= n:
                break
    return out[::-1]


def explain(op, hist):
    kind = op.split()[0] if op else "?"
    prev = hist[-2].split(": ")[1].split()[0] if len(hist) > 1 else ""
    if kind == "MNew":
        return "NewMessage returned an object that is still owned, or not empty, or too small for the requested size"
    if kind == "MHandOut":
        return "Recv handed the application a message that is shared (reference count not 1), already released, or already in the application's hands"
    if kind == "MSendErr":
        return "Send returned an error but the caller's message had been released / given away"
    if kind == "MRelease":
        return "a message was released although references were left, or twice"
    if prev == "MRelease":
        return "a message was used (%s) after its release -- double free / use after free" % kind
    if prev == "MHandOut":
        return "the library touched (%s) a message that Recv had handed to the application" % kind
    return "event %s is not allowed in the object's state (count exhausted, released, or owned by the application)" % kind


def run(res):
    core.std_proof_coverage(res, "C17", extra_obligations=len(OBLIGATIONS))
    gd = core.gen_consts("C17")
    obl = core.check_gen_obligations("C17", gd, IMPORTS, OBLIGATIONS)
    failed = [(n, e) for n, ok, e in obl if not ok]
    res.coverage["discharged"] += len(obl) - len(failed)
    res.coverage["theorems"] += [n for n, _, _ in obl]
    res.coverage["generated_obligations"] = {n: ok for n, ok, _ in obl}

    shards, (rc, so, se) = core.gen_and_eval_sharded("C17", "c17", HEADER, FOOTER, timeout=600,
                                                         env={"VERIF_TIER": res.tier, "VERIF_SEED": str(res.seed)})
    found = 0
    if shards is None:
        small = [l for l in se.splitlines() if "returned an object whose buffer holds" in l][:3]
        res.violation("harness-abort", "the ownership harness did not complete on the current tree (rc=%d): %s" % (rc, (" | ".join(small) + " ") if small else "" + se[-600:]),
                      {"stderr": se[-4000:], "panic": "panic:" in se, "undersized_allocations": small, "correspondence": "cmd/c17 vs Model/Refcnt.v"},
                      found_input=("panic:" in se or bool(small) or "watchdog" in se))
        res.coverage.update({"evaluations": 0, "distinct_nontrivial": 0, "rule": "harness aborted", "samples": []})
    else:
        nscen = nops = 0
        kinds = [0] * 9
        names_seen, active, samples = set(), set(), []
        for name, text, out in shards:
            trace = items(text, "trace")
            names = {}
            for it in items(text, "scen_names"):
                m = re.match(r'\((\d+), "(.*)"\)', it)
                if m:
                    names[int(m.group(1))] = m.group(2)
            results = items(text, "scen_results")
            nscen += len(results)
            nops += len(trace)
            ok_all = core.parse_printed(out, "ok_all")
            bad_ops = core.parse_nlist(core.parse_printed(out, "bad_ops"))
            bad_caps = core.parse_nlist(core.parse_printed(out, "bad_caps"))
            bad_scen = core.parse_nlist(core.parse_printed(out, "bad_scen"))
            ks = core.parse_nlist(core.parse_printed(out, "kinds"))
            if bad_ops is None or bad_caps is None or bad_scen is None or ks is None or ok_all not in ("true", "false"):
                raise core.Broken("could not parse the verdicts of shard " + name)
            if (ok_all == "true") != (not bad_ops):
                raise core.Broken("ledger_ok and ledger_bad disagree on shard " + name)
            kinds = [a + b for a, b in zip(kinds, ks)]
            for r in results:
                m = re.match(r'\("(.*?)", (\w+), (\w+)\) \(\* recv (\d+) sent (\d+) failed (\d+)', r)
                if m:
                    names_seen.add(m.group(1))
                    if int(m.group(4)) + int(m.group(5)) + int(m.group(6)) > 0:
                        active.add(m.group(1))
            if trace and len(samples) < 2:
                k = next((j for j, l in enumerate(trace) if l.startswith("MHandOut")), 0)
                samples.append({"scenario": scenario_at(trace, names, k), "events on the first message handed to the application": history(trace, k) + [
                    "%d: %s" % (j, trace[j]) for j in range(k + 1, len(trace)) if op_id(trace[j]) == op_id(trace[k])][:6]})
            for i in bad_ops[:8]:
                op = trace[i] if i < len(trace) else "?"
                sc = scenario_at(trace, names, i)
                hist = history(trace, i)
                found += 1
                res.violation("ledger:" + kind_of(sc), "scenario %s, event %d (%s): %s" % (sc, i, op, explain(op, hist)),
                              {"scenario": sc, "shard": name, "op_index": i, "op": op, "events_on_this_object": hist,
                               "monitor": "Model/Refcnt.v ledger_bad (= ledger_ok, Props/C17.v ledger_bad_iff)",
                               "rerun": "VERIF_SEED=%d bin/check C17 (scenario order and sizes derive from the seed)" % res.seed})
            for i in bad_caps[:4]:
                op = trace[i] if i < len(trace) else "?"
                sc = scenario_at(trace, names, i)
                found += 1
                res.violation("cap:" + kind_of(sc), "scenario %s, event %d: %s -- the capacity differs from the pool model's new_message_cap (a buffer came back from the wrong size class)" % (sc, i, op),
                              {"scenario": sc, "shard": name, "op_index": i, "op": op, "events_on_this_object": history(trace, i), "model": "Model/Wire.v new_message_cap std_pool"})
            for i in bad_scen:
                r = results[i] if i < len(results) else "?"
                m = re.match(r'\("(.*?)", (\w+), (\w+)\)', r)
                sc = m.group(1) if m else "?"
                what = []
                if m and m.group(2) != "true":
                    what.append("a message held by the application changed after Recv returned it (snapshot mismatch; 0xdd = released and poisoned)")
                if m and m.group(3) != "true":
                    what.append("after a failed Send (or for a reference the application kept) the caller's message (header or body) was no longer intact, or a retried send took another route")
                found += 1
                res.violation("scenario:" + kind_of(sc), "scenario %s: %s" % (sc, "; ".join(what)),
                              {"scenario": sc, "shard": name, "result": r[:1500], "format": "(scenario, snapshots intact?, failed-send / kept-reference bodies intact?) (* counts; notes *)"})
        res.coverage.update({
            "evaluations": nscen, "distinct_nontrivial": len(active), "traces_validated_against_impl": len(shards),
            "ledger_events_checked": nops, "events_by_kind": dict(zip(KIND_NAMES, kinds)), "scenario_kinds": len(names_seen),
            "samples": samples,
            "rule": "one case = one scenario run in a worker process whose whole ledger (every NewMessage/Clone/Free/release/MakeUnique copy reported by the verif hook, "
                    "plus the application's hand-out / give-up / failed-send events) is judged by ledger_ok under vm_compute: fan-out topologies over inproc and tcp "
                    "(PUB->3 SUB with overlapping contexts and a raw XSUB, BUS mesh and XBUS bouncer, STAR/XSTAR, SURVEYOR->3 RESPONDENT with a second context, REQ retry / "
                    "crossing contexts / peer drop, PUSH/PULL, PAIR, PAIR1, raw pairs, 64 KiB+ fan-out, full queues, peers dropped mid-bulk), every Send outcome without peers "
                    "(deadline, closed, closed while blocked, fail-no-peers, best-effort; also with a reference kept by the caller) for all 24 socket types, and all 24 protocol "
                    "instances over mock pipes (failed, held and orphaned transport sends; arbitrary bodies in). Sizes walk the pool-class boundaries; every received message is "
                    "snapshotted, held across more traffic and same-class reallocation with scribbling, and re-compared (poison on release). distinct_nontrivial = distinct scenarios "
                    "that moved at least one message",
        })
    for n, e in failed:
        res.violation("obligation:" + n, "generated obligation %s no longer checks against the pool table re-extracted from /repo" % n,
                      {"theorem": n, "coqc": e, "translator": "harness/cmd/consts"}, found_input=(found > 0))
    res.coverage["trusted_base"] = core.COQ_TRUSTED + [
        "verif hook message_verif.go (reports each ledger operation; the hook's own position relative to the atomic counter update is part of the trusted base: "
        "Free and Clone are reported before, release after the update)",
        "harness cmd/c17: object identity = *Message address (every object is pinned, so an address is never reused), one mutex orders the events of a process; "
        "only the per-object order is relied upon",
        "translator harness/cmd/consts (pool table) and Model/Wire.v new_message_cap for the capacity comparison",
        "runtime monitoring: the theorems on the monitor hold for all traces, the traces judged are those of this run; all-schedule claims are the model theorems "
        "(fanout_balanced, fanout_interleaved, req_retained_request_balanced, send_error_keeps_message)",
    ]
