"""C09 -- devices forward transparently and the hop limit is exact."""
import re

from .. import core
from .c20 import items

IMPORTS = """From MV Require Import Lib.Bytes Model.Hops Proofs.HopsProofs.
From MVgen Require Import Consts.
Open Scope N_scope.
"""

OBLIGATIONS = [
    ("C09_gen_rep_params", "gen_rep_params = rep_params /\\ params_ok gen_rep_params = true", "split; vm_compute; reflexivity."),
    ("C09_gen_xrep_params", "gen_xrep_params = xrep_params /\\ params_ok gen_xrep_params = true", "split; vm_compute; reflexivity."),
    ("C09_gen_respondent_params", "gen_respondent_params = respondent_params /\\ params_ok gen_respondent_params = true", "split; vm_compute; reflexivity."),
    ("C09_gen_xrespondent_params", "gen_xrespondent_params = xrespondent_params /\\ params_ok gen_xrespondent_params = true", "split; vm_compute; reflexivity."),
    ("C09_gen_ttl_default",
     "forallb (fun p => match p with (_, _, _, _, _, ttl, _, _, _, _) => match ttl with Some v => (v =? Z.of_N ttl_default)%Z | None => true end end) gen_protocols = true"
     " /\\ (6 <=? length (filter (fun p => match p with (_, _, _, _, _, Some _, _, _, _, _) => true | _ => false end) gen_protocols))%nat = true",
     "split; vm_compute; reflexivity."),
]

HEADER = """From MV Require Import Lib.Bytes Lib.Check Model.Hops.
Open Scope string_scope.
Open Scope N_scope.
Open Scope list_scope.
"""

FOOTER = """
Definition canon_low : bytes := [x00; x00; x00; x01].
Definition canon_high : bytes := [x80; x00; x00; x01].
Definition canon_payload : bytes := [x54; x54].
Definition is_bt (r : receiver) : bool := match r with RRep | RXRep | RRespondent | RXRespondent => true | _ => false end.
(* message with hop parameter k for receiver r (k connections for backtrace receivers, hop value k otherwise) *)
Definition mk (r : receiver) (k : nat) : bytes :=
  match r with
  | RXPair1 => be_enc 4 (N.of_nat k) ++ canon_payload
  | RXStar => [x00; x00; x00; n2b (N.of_nat k)] ++ canon_payload
  | _ => concat (repeat canon_low (k - 1)) ++ canon_high ++ canon_payload
  end.
Definition delivered (r : receiver) (ttl : N) (k : nat) : bool :=
  match rx_model r ttl 1 (mk r k) with Some (Deliver _ _) => true | _ => false end.
Definition bitmap (r : receiver) (ttl : N) : bytes :=
  let lo := if is_bt r then 1%nat else 0%nat in
  map (fun k => if delivered r ttl k then x31 else x30) (seq lo (N.to_nat ttl + 3 - lo)).
Definition ok_grid (c : receiver * N * string) : bool :=
  let '(r, ttl, bm) := c in bytes_eqb (bitmap r ttl) (list_byte_of_string bm).
Definition ok_obs (c : receiver * bool * N * N * string * option (string * string)) : bool :=
  let '(r, cooked, ttl, pid, body, o) := c in
  match rx_model r ttl pid (unhex body), o with
  | Some Drop, None => true
  | Some (Deliver h b), Some (h', b') =>
    bytes_eqb (if cooked then [] else h) (unhex h') && bytes_eqb b (unhex b')
  | _, _ => false
  end.
Definition is_deliver (c : receiver * bool * N * N * string * option (string * string)) : bool :=
  match c with (_, _, _, _, _, Some _) => true | _ => false end.
Definition ok_ttl (c : string * option Z * bool * Z) : bool :=
  let '(_, v, accepted, after) := c in
  match v with
  | None => (after =? Z.of_N ttl_default)%Z
  | Some z => Bool.eqb (ttl_accepts z) accepted && (if accepted then (after =? z)%Z else (0 <=? after)%Z)
  end.
Definition bad_grid := Eval vm_compute in bad_idx ok_grid grid_cases.
Definition bad_obs := Eval vm_compute in bad_idx ok_obs obs_cases.
Definition bad_ttl := Eval vm_compute in bad_idx ok_ttl ttl_cases.
Definition n_deliver := Eval vm_compute in count_true is_deliver obs_cases.
Print bad_grid. Print bad_obs. Print bad_ttl. Print n_deliver.
"""


def run(res):
    core.std_proof_coverage(res, "C09", extra_obligations=len(OBLIGATIONS))
    gd = core.gen_consts("C09")
    obl = core.check_gen_obligations("C09", gd, IMPORTS, OBLIGATIONS)
    failed = [(n, e) for n, ok, e in obl if not ok]
    res.coverage["discharged"] += len(obl) - len(failed)
    res.coverage["theorems"] += [n for n, _, _ in obl]
    res.coverage["generated_obligations"] = {n: ok for n, ok, _ in obl}

    out, defs, (rc, so, se) = core.gen_and_eval("C09", "c09", HEADER, FOOTER)
    found = 0
    if out is None:
        res.violation("harness-abort", "the hop-grid harness did not complete on the current tree (rc=%d): %s" % (rc, se[-400:]),
                      {"stderr": se[-3000:], "panic": "panic:" in se, "correspondence": "cmd/c09 vs Model/Hops.v"}, found_input=("panic:" in se))
        res.coverage.update({"evaluations": 0, "distinct_nontrivial": 0, "rule": "harness aborted", "samples": []})
    else:
        text = open(defs).read()
        groups = [("grid_cases", "bad_grid", "delivered/dropped pattern over hop counts differs from the model (rx_model)"),
                  ("obs_cases", "bad_obs", "receiver output (header/body or drop) differs from rx_model on this body"),
                  ("ttl_cases", "bad_ttl", "TTL option accept/reject/default differs from ttl_accepts / ttl_default")]
        total, samples, dist = 0, [], {}
        ninj = 0
        for cname, bname, what in groups:
            its = items(text, cname)
            total += len(its)
            dist[cname] = len(its)
            bad = core.parse_nlist(core.parse_printed(out, bname))
            if bad is None:
                raise core.Broken("could not parse %s" % bname)
            if its:
                samples.append({cname: its[len(its) // 3][:300]})
            if cname == "grid_cases":
                ninj = sum(len(re.findall(r'"([^"]*)"', it)[-1]) for it in its)
            for i in bad[:6]:
                case = its[i] if i < len(its) else "?"
                m = re.match(r"\((\w+),", case)
                sig = "%s:%s" % (cname, m.group(1) if m else case[:40])
                found += 1
                res.violation(sig, what, {"group": cname, "index": i, "case": case[:3000], "model": "Model/Hops.v rx_model"})
        res.coverage.update({
            "evaluations": total, "distinct_nontrivial": len(set(sum((items(text, c) for c, _, _ in groups), []))),
            "traces_validated_against_impl": total, "hop_grid_injections": ninj,
            "rule": "grid: one case per (receiver, ttl) = delivered/dropped bitmap over every hop count up to ttl+2 (each message injected through a mock pipe, "
                    "received through the public protocol API); obs: one case per generated body (structured + malformed) with the full header/body observed; "
                    "ttl: one case per (protocol, value). Distinct = distinct rendering; all evaluate the model on a real observation",
            "samples": samples, "distribution": dist,
            "delivered_observations": core.parse_printed(out, "n_deliver"),
            "exhaustive": res.tier == "thorough",
            "exhaustive_note": "thorough tier enumerates every ttl 1..255 x every hop count on all 8 hop-counting receivers",
        })
    # the STAR relay at the hop limit: what a member accepts it also passes on (hop byte + 1), whatever its own TTL --
    # the histories of harness/cmd/l1busstar restricted to star / xstar, against Model/BusStar.v
    from .. import l1
    from .c08 import ORACLES as STAR_ORACLES
    keep = dict(res.coverage)
    l1.run(res, "C09", "busstar", "Model.BusStar Model.BusStarOracle", "bs_model", "BS0", STAR_ORACLES,
           "STAR behaviour differs from the model (Model/BusStar.v): which pipes get the relayed copy with which hop byte, what is delivered up",
           env={"L1_KINDS": "star,xstar", "L1_PER_WORKER": "25", "L1_PER_TIMED_WORKER": "3"}, sub="star")
    star = {k: res.coverage.get(k) for k in ("evaluations", "distinct_nontrivial", "distribution", "rule") if k in res.coverage}
    res.coverage.update(keep)
    res.coverage["star_relay_histories"] = star
    if isinstance(res.coverage.get("evaluations"), int) and isinstance(star.get("evaluations"), int):
        res.coverage["evaluations"] += star["evaluations"]
    for n, e in failed:
        res.violation("obligation:" + n, "generated obligation %s no longer checks against the constants re-extracted from /repo" % n,
                      {"theorem": n, "coqc": e, "translator": "harness/cmd/consts"}, found_input=(found > 0))
    res.coverage["trusted_base"] = core.COQ_TRUSTED + [
        "translator harness/cmd/consts (go/ast): extracts `hops := N` and the `if hops OP ttl` operator of each backtrace receiver, TTL defaults via GetOption",
        "hand-written model Model/Hops.v tied by correspondence (cmd/c09 through mock pipes + public protocol API)",
        "device behaviour (device.go copying between two raw sockets) is modelled by rx_model/tx_raw_*; Device() itself is exercised in C01/C05 harnesses, not here",
    ]
