"""C02 -- PAIR and PUSH/PULL deliver each message exactly once, in order."""
from .. import core, l1

ORACLES = [
    ("c02_once", "c02_once", "a message was written to a pipe that no Send call produced, or changed, or for the second time, or to a pipe that is not connected"),
    ("c02_order", "c02_order", "messages were written out of order: one whose Send had completed before another Send even started was written after it (PAIR: on the connection; PUSH: on the same pipe)"),
    ("c02_progress", "c02_progress", "a connected peer is able to take a message but an accepted message stays unsent or a Send call stays blocked"),
    ("c02_progress_q0", "c02_progress_q0", "PUSH with WRITEQ-LEN 0: a connected peer is able to take a message but the Send call stays blocked"),
    ("c02_single", "c02_single", "PAIR peer admission: a second peer was admitted while one is connected, or a peer was refused although none is connected"),
    ("c02_rx", "c02_rx", "receive side: Recv returned a message no pipe delivered, or changed, or twice, or out of its pipe's order, or a Recv stays blocked while a delivered message is waiting"),
]


def run(res):
    core.std_proof_coverage(res, "C02", extra_obligations=2)
    l1.run(res, "C02", "pairpush", "Model.PairPush Model.PairPushOracle", "pp_model", "PP0", ORACLES,
           "PAIR/PUSH/PULL behaviour differs from the model (Model/PairPush.v)")
    # the shape Model/Wakeup.v assumes (cond = false), re-read from protocol/xpush/xpush.go on every run
    gd = core.gen_consts("C02")
    obl = core.check_gen_obligations("C02", gd, "From MV Require Import Lib.Bytes Model.Hops.\nFrom MVgen Require Import Consts.\n",
                                     [("C02_gen_push_signal_unconditional", "fst gen_push_signal = true", "vm_compute. reflexivity.")])
    failed = [(n, e) for n, ok, e in obl if not ok]
    res.coverage["discharged"] += len(obl) - len(failed)
    res.coverage["theorems"] += [n for n, _, _ in obl]
    res.coverage["generated_obligations"] = {n: ok for n, ok, _ in obl}
    nviol = len(res.violations) if hasattr(res, "violations") else 0
    # PAIR has one peer at a time also when two connections arrive at the same instant: the check "already have a peer?" and the
    # store of the peer happen in one critical section (check-then-act rule on the regenerated lock skeleton, Model/SplitCs.v)
    from .c11 import run_split_subset
    run_split_subset(res, "C02", ["protocol/xpair.", "protocol/xpair1.", "protocol/xpush.", "protocol/xpull."], "C02_gen_attach_check_and_store_atomic")
    # below the granularity of the histories: several goroutines sending on one PUSH / PAIR socket at the same instant, through real
    # sockets (harness/cmd/c11conc): exactly once, per-sender order, and no sender or queued message left behind
    from .c11 import run_concurrent
    res.coverage["concurrent_senders"] = run_concurrent(res, "C02", env={"C11CONC_ONLY": "pushpair"})
    for n, e in failed:
        found = (len(res.violations) if hasattr(res, "violations") else 0) > nviol
        res.violation("obligation:" + n, "xpush SendMsg no longer signals the forwarding goroutine unconditionally after putting the message on the send queue (the shape "
                      "Model/Wakeup.v's theorems C02_push_no_lost_wakeup / C02_push_queued_message_moves are about; the conditional variant is refuted by "
                      "C02_push_conditional_signal_refuted): " + e[-300:],
                      {"theorem": n, "coqc": e, "translator": "harness/cmd/consts pushSignal", "search": "harness/cmd/c11conc fastRounds (reported separately when it finds the stall)"},
                      found_input=found)
    res.coverage["trusted_base"] = core.COQ_TRUSTED + [
        "hand-written models Model/PairPush.v (+ Model/Chan.v) tied by correspondence at quiescence granularity: each stimulus is atomic in the model, so interleavings "
        "finer than one API call / one peer message / one completed transport send between quiescent points are covered neither by the theorems nor by the harness",
        "Go runtime facts the models assume: goroutines blocked on one channel are served in blocking order; a select with several ready arms may take any (flagged ambiguous, not compared)",
        "mock protocol pipes (harness/mp) stand in for core + transports; quiescence is detected from runtime.Stack; a refused attach is observed as ORet (1000000+pipe) (RErr e)",
        "what the PULL peer application finally reads is not observed: 'delivered' = written to the peer's pipe (OTx); in-flight messages of a failed connection count as written",
    ]
