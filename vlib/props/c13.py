"""C13 -- see DESIGN.md section 6 (core over the virtual transport with a recording mock protocol)."""
from .. import core, l1

IDFIX, DIALFIX = "true", "true"
ORACLES = {
    "C13": [("c13", "c13_oracle", "a pipe's hook events / protocol notifications do not follow the lifecycle (Attaching once and first, Attached at most once, "
             "Detached iff the protocol accepted it, arrival and departure told once), or its id was zero / not 31-bit / shared with a live pipe")],
    "C14": [("c14", "c14_oracle", "a connection attempt was started after the dialer or its socket was closed")],
    "C10": [("c10", "c10_oracle", "after the socket was closed a pipe id is still in use or a pipe is still listed"),
            ("c14", "c14_oracle", "a connection attempt was started after the dialer or its socket was closed")],
}["C13"]
EXTRA = []


def run_allocator(res, pid):
    """The process-wide pipe ID allocator against Model/PipeId.v (harness/cmd/c13ids): exact IDs around every counter boundary, and the
    lifetime of an ID (held until the Detached callback has returned).  Also run by C08: raw BUS uses ID 0 as "no origin"."""
    # the pipe ID allocator itself, around every boundary of its counter (verif hooks position the counter)
    out, defs, (rc, so, se) = core.gen_and_eval(pid + "_ids", "c13ids",
        "From MV Require Import Lib.Check Model.PipeId.\nOpen Scope N_scope.\nOpen Scope list_scope.\n",
        "Fixpoint nl_eqb (a b : list N) : bool := match a, b with [], [] => true | x :: a', y :: b' => (x =? y) && nl_eqb a' b' | _, _ => false end.\n"
        "Definition id_ok (c : list idop * list N) : bool := nl_eqb (id_run {| a_used := []; a_next := 0 |} (fst c)) (snd c).\n"
        "Definition bad_ids := Eval vm_compute in bad_idx id_ok id_cases.\nPrint bad_ids.\n"
        "Definition nget := Eval vm_compute in N.of_nat (length (flat_map snd id_cases)).\nPrint nget.\n"
        "(* the ID of a pipe whose Detached callback is still running is given to no new pipe, although the counter stands on it (at least\n"
        "   four new pipes: both ends of two connections); once the callback has returned it is free again and the positioned counter hands it out *)\n"
        "Definition life_ok (c : N * list N * list N) : bool := let '(x, during, after) := c in\n"
        "  (0 <? x) && (4 <=? N.of_nat (length during)) && negb (existsb (N.eqb x) during) && existsb (N.eqb x) after.\n"
        "Definition bad_life := Eval vm_compute in bad_idx life_ok life_cases.\nPrint bad_life.\n")
    if out is None:
        res.violation("ids:harness-abort", "the pipe ID allocator harness did not complete on the current tree (rc=%d): %s" % (rc, se[-600:]),
                      {"stderr": se[-3000:]}, found_input=("panic:" in se))
    else:
        from .c20 import items
        its = items(open(defs).read(), "id_cases")
        res.coverage["pipe_id_allocator_cases"] = len(its)
        res.coverage["pipe_ids_allocated_and_compared"] = core.parse_printed(out, "nget")
        lits = items(open(defs).read(), "life_cases")
        res.coverage["pipe_id_lifetime_cases"] = len(lits)
        for i in (core.parse_nlist(core.parse_printed(out, "bad_life")) or [])[:3]:
            res.violation("ids:lifetime", "a pipe's ID was given to a new pipe while that pipe's Detached callback was still running (or the scenario could not be driven): "
                          "(the ID, IDs handed to new pipes during the callback with the counter positioned on it, IDs handed out after the callback returned) = %s"
                          % (lits[i][:600] if i < len(lits) else "?"),
                          {"case": lits[i][:3000] if i < len(lits) else "?", "how": "harness/cmd/c13ids lifeCase: PULL listener (inproc/tcp/ipc) with a pipe event hook blocking in Detached; "
                           "protocol.VerifPipeIDSetNext(id); two PUSH peers dial; release; VerifPipeIDSetNext(id); one more peer",
                           "theorem": "Props/C13.v (ids of live pipes are distinct; a pipe is live until its Detached callback has returned)"})
        for i in (core.parse_nlist(core.parse_printed(out, "bad_ids")) or [])[:3]:
            res.violation("ids:allocator", "the pipe IDs handed out by the allocator for this sequence of counter positions / allocations / releases differ from Model/PipeId.v "
                          "(zero, a 32-bit value, an ID still in use, or simply another ID)",
                          {"case": its[i][:3000] if i < len(its) else "?", "format": "([operations], [IDs returned by Get in order])", "model": "Model/PipeId.v id_run"})


def run(res):
    core.std_proof_coverage(res, "C13")
    l1.run(res, "C13", "core", "Model.Core Model.CoreOracle", "", "", ORACLES + EXTRA,
           "the socket core behaves differently from the model (Model/Core.v): hook events, protocol notifications, transport closes, dial attempts, "
           "return values, ids in use or pipes listed",
           gocmd="l2core", prelude="Definition step_rec := kstep_rec.\n",
           check_fn="(fun h => kcheck_from %s %s kinit 0 h)" % (IDFIX, DIALFIX),
           ambig_fn="(fun h => kambiguous_from %s %s kinit 0 h)" % (IDFIX, DIALFIX))
    # "the socket, its listener and its dialer carry on accepting and redialling" on the real stream transports: a peer that
    # hangs up or stalls at any point of the handshake is that connection's failure only (harness/cmd/stream)
    from .. import stream
    res.coverage["transport_handshake_scenarios"] = stream.run(res, "C13")
    run_allocator(res, "C13")
    res.coverage["trusted_base"] = core.COQ_TRUSTED + [
        "hand-written model Model/Core.v tied by correspondence at quiescence granularity against the real core.socket/dialer/listener/pipe over a virtual transport "
        "(harness/vt, registered through the public transport.RegisterTransport) and a recording mock protocol (harness/mproto)",
        "verif hooks internal/core/verif_hooks.go + protocol/verif_hooks.go (read-only: pipe ids in use, pipes listed; for the allocator check: set the counter, Get, Free)",
        "redial delays are modelled as intervals (random factor in [1.1,1.5]); a timer that may or may not have fired in a step makes the rest of the history ambiguous (not compared)",
    ]
