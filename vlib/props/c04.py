"""C04 -- REQ re-sends an unanswered request until a peer answers."""
from .. import core, l1

ORACLES = [
    ("c04", "c04_oracle", "a (re)transmission is not byte-identical to the request's first transmission, carries a wrong header, "
                          "or happens after the request's reply was returned"),
    ("c03", "c03_oracle", "Recv returned a reply that does not answer the context's most recent request"),
]


def run(res):
    core.std_proof_coverage(res, "C04")
    l1.run(res, "C04", "req", "Model.Req Model.ReqOracle", "(req_model true)", "init", ORACLES,
           "REQ (re)transmission behaviour differs from the model (which pipe, when, what bytes, after which event)",
           env={"L1_BIAS": "resend"})
    res.coverage["trusted_base"] = core.COQ_TRUSTED + [
        "hand-written model Model/Req.v tied by correspondence at quiescence granularity; timers: short durations (60/80/100 ms) fired by explicit 140 ms passes, "
        "lower bounds are exact in the model's clock, histories whose real gaps exceed 25 ms are discarded and counted",
        "mock protocol pipes (harness/mp): the harness decides when a pipe send completes, fails, or the peer disappears",
    ]
    res.assumptions += ["the code arms a new retry timer at every transmission without stopping the previous one: after a pipe-loss retransmission the earlier timer "
                        "still fires, so a request can be re-sent less than RETRY-TIME after its latest transmission (but never less than RETRY-TIME after the "
                        "transmission that armed the timer); the model follows the code, see DESIGN.md"]
