"""C07 -- SURVEYOR delivers only responses to its current, unexpired survey."""
from .. import core, l1

COOKED = [
    ("c07_resp", "c07_resp", "Recv returned a response that does not answer the context's current survey, did not arrive while that survey was in "
                             "progress, was returned twice for one arrival, or was returned after the survey time had elapsed"),
    ("c07_state", "c07_state", "Recv with no survey in progress (none started, closed, or survey time elapsed) did not fail at once with the protocol-state "
                               "error, or a Recv stayed blocked after its survey was abandoned, closed or had expired"),
    ("c07_early", "c07_early", "a survey was ended (Recv: protocol-state error) before its positive SURVEY-TIME had elapsed"),
    ("c07_zero", "c07_zero", "a survey started with SURVEY-TIME 0 (documented: no expiry) was treated as expired"),
    ("c07_bcast", "c07_bcast", "a survey was not transmitted exactly once, with header = its id and the caller's body, to every pipe attached with "
                               "queue room at that moment (or something else was transmitted)"),
]
RAW = [
    ("x07_bcast", "x07_bcast", "XSURVEYOR did not transmit a message exactly once, with the caller's header and body, to every pipe attached with queue room"),
    ("x07_recv", "x07_recv", "XSURVEYOR Recv returned something that is not a response that arrived (header split off), or returned one arrival twice"),
]

RESP = [
    ("r07_route", "r07_route", "a RESPONDENT answer was not transmitted exactly once on the pipe its survey arrived on, with that survey's backtrace as header "
                               "(it went to another surveyor, to several, carried another backtrace, or an answer without a received survey was transmitted)"),
]

SUM_KEYS = ["evaluations", "traces_validated_against_impl", "steps", "timing_discarded", "histories_truncated_as_ambiguous", "distinct_nontrivial"]


def run(res):
    core.std_proof_coverage(res, "C07", extra_obligations=1)
    # SURVEYOR; the model of the repaired code (survey_model true): no timer for SURVEY-TIME 0.  survey_model false is the
    # code as found (zero timer: the survey expired at once), kept for the theorem C07_zero_survey_time_refuted
    l1.run(res, "C07", "survey", "Model.Survey Model.SurveyOracle", "(survey_model true)", "init", COOKED,
           "SURVEYOR behaviour differs from the model (Model/Survey.v)")
    cov1 = dict(res.coverage)
    # XSURVEYOR (raw): same binary, other mode
    l1.run(res, "C07", "xsurvey", "Model.Survey Model.SurveyOracle", "xsurvey_model", "rinit", RAW,
           "XSURVEYOR behaviour differs from the model (Model/Survey.v, raw part)",
           env={"L1_MODE": "raw", "L1_PER_WORKER": "30", "L1_PER_TIMED_WORKER": "6"}, gocmd="l1survey", sub="raw")
    cov2 = dict(res.coverage)
    # RESPONDENT: judged by the routing oracle only (null_model is never compared)
    l1.run(res, "C07", "respondent", "Model.Survey Model.SurveyOracle", "null_model", "tt", RESP,
           "unused (oracle-only run)", env={"L1_MODE": "resp", "L1_PER_WORKER": "20", "L1_PER_TIMED_WORKER": "5"}, gocmd="l1survey", sub="resp")
    cov3 = dict(res.coverage)
    cov3["histories_truncated_as_ambiguous"] = 0     # not compared with a model at all: counted as oracle-only below
    for k in SUM_KEYS:
        res.coverage[k] = cov1.get(k, 0) + cov2.get(k, 0) + cov3.get(k, 0)
    d1, d2, d3 = cov1.get("stimulus_distribution", {}), cov2.get("stimulus_distribution", {}), cov3.get("stimulus_distribution", {})
    res.coverage["stimulus_distribution"] = {k: d1.get(k, 0) + d2.get(k, 0) + d3.get(k, 0) for k in set(d1) | set(d2) | set(d3)}
    res.coverage["samples"] = (cov1.get("samples") or [])[:1] + (cov2.get("samples") or [])[:1] + (cov3.get("samples") or [])[:1]
    res.coverage["per_protocol"] = {"surveyor": {k: cov1.get(k) for k in SUM_KEYS}, "xsurveyor": {k: cov2.get(k) for k in SUM_KEYS},
                                    "respondent (oracle only, no model comparison)": {k: cov3.get(k) for k in SUM_KEYS}}
    res.coverage["traces_validated_against_impl"] = cov1.get("evaluations", 0) + cov2.get("evaluations", 0)
    res.coverage["oracle_only_histories"] = cov3.get("evaluations", 0)
    # a response arriving at the instant its survey is abandoned: the hand-over to the survey's queue (a channel that cancel closes)
    # must happen under the socket mutex under which cancel unpublishes the survey -- lock discipline on the regenerated skeleton
    from .c11 import run_static_subset
    run_static_subset(res, "C07", ["surveyor.survey.recvQ+send"], "C07_gen_handover_under_lock",
                      "a response is handed to a survey's receive queue, a channel that survey.cancel closes after taking the survey out of the socket's table under the "
                      "socket mutex; a hand-over outside that mutex can hit the closed channel (panic: send on closed channel) when the survey is abandoned, "
                      "expires or is closed at that moment")
    # search below the granularity of the histories: a survey's timer expiring while the next survey is being started
    out, defs, (rc, so, se) = core.gen_and_eval("C07_race", "c07race",
        "From Coq Require Import List NArith Bool.\nImport ListNotations.\nFrom MV Require Import Lib.Check.\nOpen Scope N_scope.\nOpen Scope list_scope.\n",
        "Definition race_ok (c : bool * N * N * N * N) : bool := let '(_, it, ps, st, ot) := c in (0 <? it) && (ps =? 0) && (st =? 0) && (ot =? 0).\n"
        "Definition bad_race := Eval vm_compute in bad_idx race_ok race_cases.\nPrint bad_race.\n"
        "Definition cr_ok (c : N * N * N) : bool := let '(it, dl, ot) := c in (0 <? it) && (dl =? 0).\n"
        "Definition bad_cr := Eval vm_compute in bad_idx cr_ok closerecv_cases.\nPrint bad_cr.\n")
    if out is None:
        res.violation("race:harness-abort", "the survey expiry-race search did not complete on the current tree (rc=%d): %s" % (rc, se[-600:]),
                      {"stderr": se[-3000:]}, found_input=("panic:" in se or "WATCHDOG" in se))
    else:
        from .c20 import items
        its = items(open(defs).read(), "race_cases")
        res.coverage["expiry_race_sweeps"] = its
        crs = items(open(defs).read(), "closerecv_cases")
        res.coverage["close_then_recv_rounds"] = crs
        for i in core.parse_nlist(core.parse_printed(out, "bad_cr")) or []:
            res.violation("race:close-vs-recv",
                          "a SURVEYOR context with a response already queued was closed and Recv called at once: the closed context handed out the response "
                          "(rounds, responses delivered after Close, set-up failures) = %s" % (crs[i] if i < len(crs) else "?"),
                          {"case": crs[i] if i < len(crs) else "?", "how": "harness/cmd/c07race closeRecv: OpenContext; Send; respondent answers; ctx.Close(); ctx.Recv() immediately"})
        for i in core.parse_nlist(core.parse_printed(out, "bad_race")) or []:
            res.violation("race:expiry-vs-new-survey",
                          "with a survey's timer expiring at the moment the next survey is started (offset swept +-100 us, 4 goroutines contending for the socket mutex), "
                          "Recv after the new survey's SendMsg reported 'no survey in progress', returned a stale response, or failed otherwise: "
                          "(on a context?, iterations, ErrProtoState during the live survey, stale responses, other errors) = %s" % (its[i] if i < len(its) else "?"),
                          {"case": its[i] if i < len(its) else "?", "how": "harness/cmd/c07race: SURVEY-TIME 2 ms; Send one; wait 2 ms + offset; SURVEY-TIME 10 s; Send two; Recv (1 ms deadline)",
                           "model": "Model/Survey.v: a Recv during a live survey blocks or returns a response to it (theorems C07_returns_only_current_all_histories, C07_recv_no_survey)"})
    res.coverage["trusted_base"] = core.COQ_TRUSTED + [
        "hand-written models Model/Survey.v (SURVEYOR with contexts, XSURVEYOR) tied by correspondence at quiescence granularity: each stimulus is atomic in "
        "the model, so interleavings finer than one API call / one peer message / one timer expiry between quiescent points are covered neither by the "
        "theorems nor by the harness",
        "timers: SURVEY-TIME 80 ms / RECV-DEADLINE 50 ms fired by explicit sleeps; a timer due within 20 ms of a step boundary (or of another timer of the same "
        "context) makes the rest of the history ambiguous (not compared); timed histories with a non-sleeping step longer than 12 ms are discarded and counted",
        "mock protocol pipes (harness/mp) stand in for core + transports + RESPONDENT peers; quiescence is detected from runtime.Stack",
        "survey ids are renamed to the index of the SendMsg call (start value read from the socket's nextID field); the 2^31 wrap of ids is not exercised",
        "which of several Recv calls blocked on one queue gets the next message, and XSURVEYOR's Recv after Close with a non-empty queue, are the Go runtime's "
        "choice: such histories are compared only up to that point",
    ]
    res.assumptions += [
        "RESPONDENT-side routing ('each answer reaches only the surveyor that asked') is checked by a trace oracle on generated RESPONDENT histories "
        "(1..3 surveyor pipes, 1..3 contexts, backtraces of 1..3 words, surveyor leaving before the answer) without a Rocq model or theorem of respondent.go; "
        "XRESPONDENT is not exercised here (its hop handling is C09)",
        "SURVEY-TIME 0 is documented as 'infinite' but surveyor.go armed time.AfterFunc(0): the survey was cancelled at once and Recv returned ErrProtoState "
        "(found by oracle c07_zero; repaired in /repo, see known_findings.json 'fixed'); the check compares with survey_model true (no timer for 0); "
        "survey_model false is the code as found (theorem C07_zero_survey_time_refuted)",
        "Recv on a closed context of an open socket returns ErrProtoState, not ErrClosed (no survey in progress); the model follows the code",
    ]
