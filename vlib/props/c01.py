"""C01 -- messages arrive byte-identical and whole over every transport."""
import re

from .. import core
from .c20 import items

IMPORTS = """From MV Require Import Lib.Bytes Model.Wire Proofs.WireProofs.
From MVgen Require Import Consts.
Open Scope N_scope.
"""

OBLIGATIONS = [
    # the pool table of the current source: every class hands out at least what its test admits
    ("C01_gen_pool_ok",
     "let p := {| p_classes := combine gen_pool_maxbody gen_pool_newmsg; p_strict := String.eqb gen_pool_cmp \"<\" |} in "
     "pool_ok p = true /\\ length gen_pool_maxbody = length gen_pool_newmsg /\\ (String.eqb gen_pool_cmp \"<\" || String.eqb gen_pool_cmp \"<=\") = true "
     "/\\ (forall sz, sz <= new_message_cap p sz)",
     "cbv zeta. split; [vm_compute; reflexivity|]. split; [vm_compute; reflexivity|]. split; [vm_compute; reflexivity|]. "
     "intro sz. apply new_message_cap_ge. vm_compute. reflexivity."),
    ("C01_gen_default_limit", "gen_max_recv_size = Some 1048576%Z", "vm_compute. reflexivity."),
]

HEADER = """From MV Require Import Lib.Bytes Lib.Check Model.Hops Model.Wire Proofs.PatternProofs.
Open Scope string_scope.
Open Scope N_scope.
Open Scope list_scope.
Definition flow_case : Type :=
  (transport * pattern * bool * bool * N * list (N * N) * list (N * string * (N * N * string * string)))%type.
"""

FOOTER = """
(* what the application's Recv shows for one delivered wire message *)
Definition rx_app (p : pattern) (raw fwd : bool) (pid : N) (w : bytes) : option rx :=
  if fwd then
    if raw then
      match p with
      | PReqRep => rx_model RXRep 8 pid w
      | PSurvey => rx_model RXRespondent 8 pid w
      | PBus => rx_model RXBus 8 pid w
      | _ => rx_peer p 8 pid w
      end
    else option_map cooked_view (rx_peer p 8 pid w)
  else
    (* reply direction (REP -> REQ, RESPONDENT -> SURVEYOR): the id word is taken off *)
    if raw then Some (rx_first_word w) else Some (cooked_view (rx_first_word w)).

Definition wire_msg (p : pattern) (m : N * N) : bytes * bytes := ([], tx_cooked p 0 (gen_body (fst m) (snd m))).

(* the header is compared in raw mode only: in cooked mode it is not part of what the application sent or
   should look at (mangos leaves e.g. the request id there) *)
Fixpoint match_all (p : pattern) (raw fwd : bool) (ws : list bytes)
         (got : list (N * string * (N * N * string * string))) : bool :=
  match ws, got with
  | [], [] => true
  | w :: ws', (pid, h, d) :: got' =>
    match rx_app p raw fwd pid w with
    | Some (Deliver hdr body) => (if raw then bytes_eqb hdr (unhex h) else true) && digest_eqb (digest body) d && match_all p raw fwd ws' got'
    | _ => false
    end
  | _, _ => false
  end.

Definition ok_flow (c : flow_case) : bool :=
  let '(t, p, raw, fwd, maxrx, msgs, got) := c in
  match_all p raw fwd (transport_deliver t maxrx (map (wire_msg p) msgs)) got.
Definition n_deliv (c : flow_case) : N := let '(_, _, _, _, _, _, got) := c in N.of_nat (length got).
Definition n_bytes (c : flow_case) : N := let '(_, _, _, _, _, msgs, _) := c in fold_left N.add (map snd msgs) 0.
Definition bad := Eval vm_compute in bad_idx ok_flow flows.
Definition deliveries := Eval vm_compute in fold_left N.add (map n_deliv flows) 0.
Definition bytes_sent := Eval vm_compute in fold_left N.add (map n_bytes flows) 0.
Print bad. Print deliveries. Print bytes_sent.
"""


def run(res):
    core.std_proof_coverage(res, "C01", extra_obligations=len(OBLIGATIONS))
    gd = core.gen_consts("C01")
    obl = core.check_gen_obligations("C01", gd, IMPORTS, OBLIGATIONS)
    failed = [(n, e) for n, ok, e in obl if not ok]
    res.coverage["discharged"] += len(obl) - len(failed)
    res.coverage["theorems"] += [n for n, _, _ in obl]
    res.coverage["generated_obligations"] = {n: ok for n, ok, _ in obl}

    shards, (rc, so, se) = core.gen_and_eval_sharded("C01", "c01", HEADER, FOOTER)
    found = 0
    if shards is None:
        res.violation("harness-abort", "the transport harness did not complete on the current tree (rc=%d): %s" % (rc, se[-600:]),
                      {"stderr": se[-3000:], "panic": "panic:" in se, "correspondence": "cmd/c01 vs Model/Wire.v"}, found_input=("panic:" in se))
        res.coverage.update({"evaluations": 0, "distinct_nontrivial": 0, "rule": "harness aborted", "samples": []})
    else:
        total = deliv = nbytes = 0
        samples, combos = [], set()
        for name, text, out in shards:
            its = items(text, "flows")
            total += len(its)
            bad = core.parse_nlist(core.parse_printed(out, "bad"))
            if bad is None:
                raise core.Broken("could not parse bad from shard " + name)
            deliv += int(core.parse_printed(out, "deliveries") or 0)
            nbytes += int(core.parse_printed(out, "bytes_sent") or 0)
            for it in its:
                m = re.match(r"\((\w+), (\w+), (\w+), (\w+),", it)
                if m:
                    combos.add(m.groups())
            if its and len(samples) < 3:
                samples.append(its[0][:400])
            for i in bad:
                case = its[i] if i < len(its) else "?"
                m = re.match(r"\((\w+), (\w+), (\w+), (\w+),", case)
                sig = "flow:" + ":".join(m.groups()) if m else "flow:?"
                found += 1
                res.violation(sig, "what Recv returned on this connection differs from the model (transport_deliver + receive filter): "
                              "a message was lost, altered, split, merged, delivered beyond the limit, or carried a wrong header",
                              {"shard": name, "index": i, "case": case[:6000], "model": "Model/Wire.v transport_deliver, PatternProofs.rx_peer",
                               "format": "(transport, pattern, raw, forward?, maxrx, [(seed, n)], [(pipe id, header hex, (len, adler32, head16, tail16))])"})
        res.coverage.update({
            "evaluations": total, "distinct_nontrivial": len(combos), "traces_validated_against_impl": total,
            "messages_delivered_and_compared": deliv, "payload_bytes_sent": nbytes,
            "rule": "one case = one connection flow (transport x pattern x cooked/raw x direction): a shuffled sequence of position-dependent bodies "
                    "with sizes 0,1, every pool class c-1,c,c+1 (also minus the pattern's header), limit-1, limit and finally limit+1, sent through real "
                    "sockets; every delivered message is compared by (length, Adler-32, first/last 16 bytes) and header with the model's prediction. "
                    "distinct_nontrivial counts distinct (transport, pattern, raw, direction) combinations reached",
            "samples": samples,
        })
    # framing must not depend on how the byte stream is cut: conn / connipc over a connection that returns the
    # peer's bytes in arbitrary pieces, and the bytes Send writes
    from .. import stream
    res.coverage["chunked_stream_scenarios"] = stream.run(res, "C01")
    for n, e in failed:
        res.violation("obligation:" + n, "generated obligation %s no longer checks against the pool table / limit re-extracted from /repo" % n,
                      {"theorem": n, "coqc": e, "translator": "harness/cmd/consts"}, found_input=(found > 0))
    res.coverage["trusted_base"] = core.COQ_TRUSTED + [
        "translator harness/cmd/consts (go/ast over message.go: maxbody literals, newMsg sizes, NewMessage's comparison operator; default MAX-RCV-SIZE via GetOption)",
        "hand-written model Model/Wire.v (+Hops.v receive filters) tied by correspondence through real sockets on loopback/tmpdir",
        "TLS record layer, kernel sockets, gorilla/websocket framing and io.ReadFull are below the byte streams the model talks about",
    ]
