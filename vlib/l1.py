"""Common code of the protocol-level (L1) correspondence checks."""
import os
import re

from . import core

HEADER = """From MV Require Import Lib.Bytes Lib.Check Lib.Proto %(imports)s.
Open Scope N_scope.
Open Scope list_scope.
"""

FOOTER = """
Definition verdicts := Eval vm_compute in map %(check_fn)s histories.
Print verdicts.
Definition ambiguous := Eval vm_compute in map %(ambig_fn)s histories.
Print ambiguous.
%(oracles)s
Print n_discarded.
"""


def split_histories(text):
    """Split the `histories` definition into the individual history strings."""
    m = re.search(r"Definition histories : [^\n]*:= \[\n(.*)\n\]\.", text, re.S)
    if not m:
        return []
    body = m.group(1)
    hs, depth, cur = [], 0, ""
    for line in body.split("\n"):
        cur += line + "\n"
        depth += line.count("[") - line.count("]")
        if depth == 0 and cur.strip():
            hs.append(cur.strip().rstrip(";").strip())
            cur = ""
    return hs


def parse_optlist(s):
    """'[None; Some 3; ...]' -> [None, 3, ...]"""
    if s is None:
        return None
    return [None if x == "None" else int(x.split()[1]) for x in re.findall(r"None|Some \d+", s)]


STIMS = ["SCall", "SAddPipe", "SDropPipe", "SDeliver", "SHold", "SRelease", "SPass", "KListen", "KListenAgain", "KConnect", "KCloseListener", "KNewDialer", "KDial", "KResolve", "KCloseDialer", "KPipeFail", "KPipeClose", "KHookPolicy", "KProtoRefuse", "KCloseSock", "KPass"]
CALLS = ["CSend", "CRecv", "CSetOpt", "COpenCtx", "CCloseCtx", "CCloseSock"]


def run(res, pid, proto, imports, model, init, oracles, what_mismatch, env=None, gocmd=None, check_fn=None, ambig_fn=None, prelude="", sub=""):
    """oracles: list of (name, coq_function, description). Returns number of concrete findings."""
    ortext = "\n".join("Definition %s := Eval vm_compute in map %s histories.\nPrint %s." % (n, f, n) for n, f, _ in oracles)
    header = HEADER % {"imports": imports} + prelude
    footer = FOOTER % {"check_fn": check_fn or "(fun h => check_from %s %s 0 h)" % (model, init),
                       "ambig_fn": ambig_fn or "(fun h => ambiguous_from %s %s 0 h)" % (model, init), "oracles": ortext}
    shards, (rc, so, se) = core.gen_and_eval_sharded(pid, gocmd or ("l1" + proto), header, footer, goargs=None, env=env, sub=sub)
    found = 0
    if shards is None:
        res.violation("harness-abort", "the %s history harness did not complete on the current tree (rc=%d): %s" % (proto, rc, se[-800:]),
                      {"stderr": se[-4000:], "panic": "panic:" in se}, found_input=("panic:" in se))
        res.coverage.update({"evaluations": 0, "distinct_nontrivial": 0, "rule": "harness aborted", "samples": []})
        return 1 if "panic:" in se else 0
    nh = nsteps = disc = namb = 0
    dist = {k: 0 for k in STIMS + CALLS}
    samples = []
    distinct = set()
    stuck = 0
    for name, text, out in shards:
        hs = split_histories(text)
        nh += len(hs)
        for h in hs:
            distinct.add(h)
            nsteps += h.count("\n") + 1
        for k in dist:
            dist[k] += len(re.findall(r"\b%s\b" % k, text))
        disc += int(core.parse_printed(out, "n_discarded") or 0)
        v = parse_optlist(core.parse_printed(out, "verdicts"))
        if v is None or len(v) != len(hs):
            raise core.Broken("could not parse verdicts of shard %s (%s vs %d histories)" % (name, v and len(v), len(hs)))
        amb = parse_optlist(core.parse_printed(out, "ambiguous")) or []
        namb += sum(1 for a in amb if a is not None)
        ov = {}
        for n, f, desc in oracles:
            ov[n] = parse_optlist(core.parse_printed(out, n))
            if ov[n] is None or len(ov[n]) != len(hs):
                raise core.Broken("could not parse oracle %s of shard %s" % (n, name))
        if hs and len(samples) < 2:
            samples.append(hs[0][:700])
        for i, h in enumerate(hs):
            if "STUCK:" in h:
                stuck += 1
                found += 1
                res.violation("stuck:" + proto, "goroutines parked on a mutex with nothing running (deadlock) during this history",
                              {"shard": name, "history": h[:6000]})
                continue
            hit = False
            for n, f, desc in oracles:
                if ov[n][i] is not None:
                    hit = True
                    found += 1
                    lines = h.split("\n")
                    res.violation("oracle:%s:%s" % (n, proto), "%s (at step %d of the history)" % (desc, ov[n][i]),
                                  {"shard": name, "oracle": n, "step": ov[n][i], "history": h[:8000],
                                   "failing_step": lines[ov[n][i]][:600] if ov[n][i] < len(lines) else "?",
                                   "format": "[(stimulus, [observations until quiescence], [calls still blocked])]"})
            if v[i] is not None and not hit:
                found += 1
                lines = h.split("\n")
                res.violation("model:%s" % proto, "%s (first differing step: %d)" % (what_mismatch, v[i]),
                              {"shard": name, "step": v[i], "history": h[:8000], "failing_step": lines[v[i]][:600] if v[i] < len(lines) else "?",
                               "model": model, "format": "[(stimulus, [observations until quiescence], [calls still blocked])]"})
    res.coverage.update({
        "evaluations": nh, "distinct_nontrivial": len(distinct), "traces_validated_against_impl": nh,
        "steps": nsteps, "stimulus_distribution": dist, "timing_discarded": disc, "histories_truncated_as_ambiguous": namb, "samples": samples,
        "rule": "one case = one history of stimuli (API calls in their own goroutines, pipe arrival/loss, crafted peer messages, held/released/failed pipe sends, "
                "option changes, time passing) driven sequentially against X.NewProtocol() with mock pipes; after each stimulus the driver waits for quiescence and "
                "records returns, transmissions and the set of blocked calls; directed histories run first, then generated ones (16 worker processes, seed-derived). "
                "Histories whose wall-clock gaps endanger timer determinism are discarded and counted. distinct = distinct history text; every history runs >= 12 steps",
    })
    return found
