(* The hand-over between Send and the forwarding goroutine of PUSH (protocol/xpush/xpush.go): SendMsg puts the message
   on the sendQ channel OUTSIDE the socket mutex, then takes the mutex and signals the condition variable; sender()
   sleeps on it (cv.Wait, under the mutex) whenever no pipe is ready or the queue is empty; a pipe that finishes a
   transmission puts itself back on readyQ and broadcasts.  A condition variable does not remember a signal that nobody
   was waiting for, so whether a wake-up can be lost is a question about all interleavings of these steps.
   [cond] = true is the variant "signal only if the queue holds at most one message" (a change that was seeded twice);
   false is the code.  No proofs here. *)
From Coq Require Import List NArith Bool.
Import ListNotations.
Open Scope N_scope.

Inductive sstate := Running | Waiting.

Record wst := {
  w_q : N;            (* messages on sendQ *)
  w_cap : N;          (* its capacity *)
  w_ready : N;        (* pipes on readyQ *)
  w_infl : N;         (* pipes transmitting *)
  w_pend : N;         (* callers between their channel send and their Signal *)
  w_sender : sstate }.

Inductive wev :=
| EEnq        (* a caller's `sendQ <- m` completes *)
| ESig        (* such a caller runs Lock; Signal; Unlock *)
| EStep       (* sender(): one pass of its loop, under the mutex *)
| EDone.      (* a pipe finishes its transmission: back on readyQ, Broadcast *)

Definition set (s : wst) q ready infl pend snd : wst :=
  {| w_q := q; w_cap := w_cap s; w_ready := ready; w_infl := infl; w_pend := pend; w_sender := snd |}.

(* None: the step is not enabled in this state *)
Definition wstep (cond : bool) (s : wst) (e : wev) : option wst :=
  match e with
  | EEnq => if w_q s <? w_cap s then Some (set s (w_q s + 1) (w_ready s) (w_infl s) (w_pend s + 1) (w_sender s)) else None
  | ESig => if w_pend s =? 0 then None
            else Some (set s (w_q s) (w_ready s) (w_infl s) (w_pend s - 1)
                           (if negb cond || (w_q s <=? 1) then Running else w_sender s))
  | EStep => match w_sender s with
             | Waiting => None
             | Running => if (w_ready s =? 0) || (w_q s =? 0) then Some (set s (w_q s) (w_ready s) (w_infl s) (w_pend s) Waiting)
                          else Some (set s (w_q s - 1) (w_ready s - 1) (w_infl s + 1) (w_pend s) Running)
             end
  | EDone => if w_infl s =? 0 then None else Some (set s (w_q s) (w_ready s + 1) (w_infl s - 1) (w_pend s) Running)
  end.

Fixpoint wrun (cond : bool) (s : wst) (es : list wev) : option wst :=
  match es with
  | [] => Some s
  | e :: r => match wstep cond s e with Some s' => wrun cond s' r | None => None end
  end.

(* a socket with [pipes] idle peers and an empty queue of capacity [cap]; the sender goroutine has just started *)
Definition winit (cap pipes : N) : wst :=
  {| w_q := 0; w_cap := cap; w_ready := pipes; w_infl := 0; w_pend := 0; w_sender := Running |}.

(* the sender sleeps although a message is queued and a pipe is ready, and nobody is on the way to wake it *)
Definition lost (s : wst) : bool :=
  match w_sender s with Waiting => (0 <? w_q s) && (0 <? w_ready s) && (w_pend s =? 0) | Running => false end.
