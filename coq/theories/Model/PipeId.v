(* The process-wide pipe ID allocator (internal/core/pipe.go pipeIDAllocator): a 32-bit counter, masked to 31 bits, that
   skips zero and the IDs still in use.  No proofs here. *)
From Coq Require Export List NArith Bool.
Export ListNotations.
Open Scope N_scope.

Definition M31 : N := 2 ^ 31.
Definition M32 : N := 2 ^ 32.

Record alloc := { a_used : list N; a_next : N }.

(* the `for` loop of Get: fuel bounds the number of candidates looked at *)
Fixpoint get_fuel (fuel : nat) (used : list N) (next : N) : option (N * N) :=
  match fuel with
  | O => None
  | S f =>
    let id := next mod M31 in
    let next' := (next + 1) mod M32 in
    if (id =? 0) || existsb (N.eqb id) used then get_fuel f used next' else Some (id, next')
  end.

(* |used| + 2 candidates are enough (Proofs/PipeIdProofs.v get_total) *)
Definition get (a : alloc) : option (N * alloc) :=
  match get_fuel (S (S (length (a_used a)))) (a_used a) (a_next a) with
  | Some (id, nx) => Some (id, {| a_used := id :: a_used a; a_next := nx |})
  | None => None
  end.

Definition free (a : alloc) (id : N) : alloc :=
  {| a_used := filter (fun x => negb (x =? id)) (a_used a); a_next := a_next a |}.

(* operations of the correspondence harness: position the counter, allocate, release the k-th oldest live id *)
Inductive idop := ISetNext (v : N) | IGet | IFree (k : nat).

Definition id_step (a : alloc) (o : idop) : alloc * option N :=
  match o with
  | ISetNext v => ({| a_used := a_used a; a_next := v mod M32 |}, None)
  | IGet => match get a with Some (id, a') => (a', Some id) | None => (a, Some 0) end
  | IFree k => match nth_error (rev (a_used a)) k with Some id => (free a id, None) | None => (a, None) end
  end.

Fixpoint id_run (a : alloc) (ops : list idop) : list N :=
  match ops with
  | [] => []
  | o :: r => let '(a', out) := id_step a o in (match out with Some id => [id] | None => [] end) ++ id_run a' r
  end.
