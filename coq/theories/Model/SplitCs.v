(* Check-then-act across two critical sections: a function reads a field under a mutex, releases the mutex, takes it
   again and writes that field without having read it again -- whatever it decided on the first reading may no longer
   hold (another goroutine ran in between).  Analysis over the lock skeletons of Model/RaceCfg.v; its soundness for
   every path of a function is Proofs/SplitCsSound.v.

   State, per program point: the mutex classes held (required to be the same on every path reaching the point: a
   function where that fails is reported as such), the fields read in the current critical section on every path
   (must) and on some path (may), the fields written in it on every path, and the fields that were read -- and not
   written: a flag the function sets itself and clears later is its own -- in an earlier critical section and not
   read since (may). *)
From MV Require Import Model.RaceCfg.
Open Scope N_scope.

Record sst := { s_must : list N; s_may : list N; s_wr : list N; s_stale : list N; s_held : cset }.
Definition s0 (entry : cset) : sst := {| s_must := []; s_may := []; s_wr := []; s_stale := []; s_held := entry |}.
Definition nunion (a b : list N) : list N := fold_left (fun acc c => cadd c acc) b a.
Definition is_nil {A} (l : list A) : bool := match l with [] => true | _ => false end.

(* one instruction: new state, fields written on a stale reading *)
Definition sp_instr (s : sst) (i : rinstr) : sst * list N :=
  match i with
  | RLock c => ({| s_must := s_must s; s_may := s_may s; s_wr := s_wr s; s_stale := s_stale s; s_held := cadd c (s_held s) |}, [])
  | RUnlock c =>
    let h := cdel c (s_held s) in
    (if is_nil h
     then {| s_must := []; s_may := []; s_wr := [];
             s_stale := nunion (s_stale s) (filter (fun f => negb (cmem f (s_wr s))) (s_may s)); s_held := [] |}
     else {| s_must := s_must s; s_may := s_may s; s_wr := s_wr s; s_stale := s_stale s; s_held := h |}, [])
  | RAccess w f =>
    if is_nil (s_held s) then (s, [])
    else ({| s_must := cadd f (s_must s); s_may := if w then s_may s else cadd f (s_may s); s_wr := if w then cadd f (s_wr s) else s_wr s;
             s_stale := cdel f (s_stale s); s_held := s_held s |},
          if w && cmem f (s_stale s) && negb (cmem f (s_must s)) then [f] else [])
  | _ => (s, [])
  end.
Fixpoint sp_body (s : sst) (b : list rinstr) : sst * list N :=
  match b with
  | [] => (s, [])
  | i :: r => let '(s1, v1) := sp_instr s i in let '(s2, v2) := sp_body s1 r in (s2, v1 ++ v2)
  end.

(* a covers b: b's facts are at least as strong *)
Definition sst_le (b a : sst) : bool :=
  csub (s_must a) (s_must b) && csub (s_may b) (s_may a) && csub (s_wr a) (s_wr b) && csub (s_stale b) (s_stale a)
  && csub (s_held a) (s_held b) && csub (s_held b) (s_held a).

Definition sjoin (a : option sst) (b : sst) : option sst :=
  match a with
  | None => Some b
  | Some x => Some {| s_must := cinter (s_must x) (s_must b); s_may := nunion (s_may x) (s_may b); s_wr := cinter (s_wr x) (s_wr b);
                      s_stale := nunion (s_stale x) (s_stale b); s_held := s_held x |}
  end.
Fixpoint set_join (A : list (option sst)) (n : nat) (s : sst) : list (option sst) :=
  match A, n with
  | [], _ => []
  | x :: r, O => sjoin x s :: r
  | x :: r, S n' => x :: set_join r n' s
  end.
(* along an edge back to an earlier block (a loop starting its next round) what was read in earlier rounds is forgotten:
   every round of a receive / accept loop is an event of its own *)
Definition along (i n : nat) (s : sst) : sst :=
  if Nat.leb n i then {| s_must := s_must s; s_may := s_may s; s_wr := s_wr s; s_stale := []; s_held := s_held s |} else s.
Definition sp_prop (f : rfunc) (A : list (option sst)) (i : nat) : list (option sst) :=
  match nth_error A i, nth_error (rblocks f) i with
  | Some (Some s), Some b => fold_left (fun A' n => set_join A' n (along i n (fst (sp_body s (rbody b))))) (rsuccs b) A
  | _, _ => A
  end.
Definition sp_sweep (f : rfunc) (A : list (option sst)) : list (option sst) := fold_left (sp_prop f) (seq 0 (length (rblocks f))) A.
Definition sp_compute (f : rfunc) (entry : cset) : list (option sst) :=
  riter (2 * length (rblocks f) + 4) (sp_sweep f) (match rblocks f with [] => [] | _ :: r => Some (s0 entry) :: map (fun _ => None) r end).

(* certificate: the assignment is a post-fixpoint (in particular the held sets agree along every edge) *)
Definition sp_block_ok (f : rfunc) (A : list (option sst)) (i : nat) : bool :=
  match nth_error A i, nth_error (rblocks f) i with
  | Some (Some s), Some b =>
    let o := fst (sp_body s (rbody b)) in
    forallb (fun n => match nth_error A n with Some (Some t) => sst_le (along i n o) t | _ => false end) (rsuccs b)
  | Some None, Some _ => true
  | _, _ => false
  end.
Definition sp_cert_ok (f : rfunc) (entry : cset) (A : list (option sst)) : bool :=
  Nat.eqb (length A) (length (rblocks f)) &&
  match nth_error A 0 with Some (Some s) => sst_le (s0 entry) s | _ => is_nil (rblocks f) end &&
  forallb (sp_block_ok f A) (seq 0 (length (rblocks f))).

Definition sp_block_viol (f : rfunc) (A : list (option sst)) (i : nat) : list N :=
  match nth_error A i, nth_error (rblocks f) i with
  | Some (Some s), Some b => snd (sp_body s (rbody b))
  | _, _ => [] end.
Definition sp_violations (f : rfunc) (entry : cset) : list N :=
  let A := sp_compute f entry in
  flat_map (sp_block_viol f A) (seq 0 (length (rblocks f))).
(* the function passes: the certificate checks and no block writes on a stale reading *)
Definition sp_func_ok (f : rfunc) (entry : cset) : bool :=
  let A := sp_compute f entry in sp_cert_ok f entry A && is_nil (sp_violations f entry).

(* whole program: (function number, fields written on a stale reading -- or [none; the certificate failed]) restricted to [keep] *)
Definition sp_program (top : cset) (prog : list rfunc) (E : entries) (keep : N -> bool) : list (N * list N) :=
  flat_map (fun x => let '(i, f) := x in
      if rctor f then [] else
      let e := entry_of top E (N.of_nat i) in
      if negb (sp_cert_ok f e (sp_compute f e)) then [(N.of_nat i, [])] else
      match filter keep (sp_violations f e) with
      | [] => []
      | vs => [(N.of_nat i, vs)]
      end) (combine (seq 0 (length prog)) prog).

(* every function of the program that is not a constructor passes *)
Definition sp_all_ok (top : cset) (prog : list rfunc) (E : entries) : bool :=
  forallb (fun x => let '(i, f) := x in rctor f || sp_func_ok f (entry_of top E (N.of_nat i))) (combine (seq 0 (length prog)) prog).
