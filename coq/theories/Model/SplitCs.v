(* Check-then-act across two critical sections: a function reads a field under a mutex, releases the mutex, takes it
   again and writes that field without having read it again -- whatever it decided on the first reading may no longer
   hold (another goroutine ran in between).  May-analysis over the lock skeletons of Model/RaceCfg.v. *)
From MV Require Import Model.RaceCfg.
Open Scope N_scope.

(* abstract state: fields read in the current critical section (cur), fields read in an earlier one and not re-read since (stale),
   number of lock classes held (depth, counted loosely: any Lock opens / any Unlock closes) *)
Record sst := { s_cur : list N; s_wr : list N; s_stale : list N; s_held : cset }.
Definition s0 (entry : cset) : sst := {| s_cur := []; s_wr := []; s_stale := []; s_held := entry |}.
Definition nunion (a b : list N) : list N := fold_left (fun acc c => cadd c acc) b a.

Definition sp_instr (s : sst) (i : rinstr) : sst * list N :=
  match i with
  | RLock c => ({| s_cur := s_cur s; s_wr := s_wr s; s_stale := s_stale s; s_held := cadd c (s_held s) |}, [])
  | RUnlock c =>
    let h := cdel c (s_held s) in
    (match h with
     (* what this section only looked at (and did not write itself) may be out of date from now on *)
     | [] => {| s_cur := []; s_wr := []; s_stale := nunion (s_stale s) (filter (fun f => negb (cmem f (s_wr s))) (s_cur s)); s_held := [] |}
     | _ => {| s_cur := s_cur s; s_wr := s_wr s; s_stale := s_stale s; s_held := h |}
     end, [])
  | RAccess false f =>
    (match s_held s with
     | [] => s
     | _ => {| s_cur := cadd f (s_cur s); s_wr := s_wr s; s_stale := cdel f (s_stale s); s_held := s_held s |}
     end, [])
  | RAccess true f =>
    (match s_held s with
     | [] => s
     | _ => {| s_cur := cadd f (s_cur s); s_wr := cadd f (s_wr s); s_stale := cdel f (s_stale s); s_held := s_held s |}
     end,
     match s_held s with [] => [] | _ => if cmem f (s_stale s) && negb (cmem f (s_cur s)) then [f] else [] end)
  | _ => (s, [])
  end.
Fixpoint sp_body (s : sst) (b : list rinstr) : sst * list N :=
  match b with
  | [] => (s, [])
  | i :: r => let '(s1, v1) := sp_instr s i in let '(s2, v2) := sp_body s1 r in (s2, v1 ++ v2)
  end.

Definition sjoin (a : option sst) (b : sst) : option sst :=
  match a with
  | None => Some b
  | Some x => Some {| s_cur := cinter (s_cur x) (s_cur b); s_wr := cinter (s_wr x) (s_wr b); s_stale := nunion (s_stale x) (s_stale b); s_held := cinter (s_held x) (s_held b) |}
  end.
Fixpoint set_join (A : list (option sst)) (n : nat) (s : sst) : list (option sst) :=
  match A, n with
  | [], _ => []
  | x :: r, O => sjoin x s :: r
  | x :: r, S n' => x :: set_join r n' s
  end.
Definition sp_prop (f : rfunc) (A : list (option sst)) (i : nat) : list (option sst) :=
  match nth_error A i, nth_error (rblocks f) i with
  | Some (Some s), Some b => fold_left (fun A' n => set_join A' n (fst (sp_body s (rbody b)))) (rsuccs b) A
  | _, _ => A
  end.
Definition sp_sweep (f : rfunc) (A : list (option sst)) : list (option sst) := fold_left (sp_prop f) (seq 0 (length (rblocks f))) A.
Definition sp_compute (f : rfunc) (entry : cset) : list (option sst) :=
  riter (2 * length (rblocks f) + 4) (sp_sweep f) (match rblocks f with [] => [] | _ :: r => Some (s0 entry) :: map (fun _ => None) r end).
Definition sp_violations (f : rfunc) (entry : cset) : list N :=
  let A := sp_compute f entry in
  flat_map (fun i => match nth_error A i, nth_error (rblocks f) i with
                     | Some (Some s), Some b => snd (sp_body s (rbody b))
                     | _, _ => [] end) (seq 0 (length (rblocks f))).

(* whole program: (function number, fields written on a stale reading), restricted to the fields [keep] selects *)
Definition sp_program (top : cset) (prog : list rfunc) (E : entries) (keep : N -> bool) : list (N * list N) :=
  flat_map (fun x => let '(i, f) := x in
      if rctor f then [] else
      match filter keep (sp_violations f (entry_of top E (N.of_nat i))) with
      | [] => []
      | vs => [(N.of_nat i, vs)]
      end) (combine (seq 0 (length prog)) prog).
