(* Property oracles over BUS / STAR histories: decidable forms of the C08 conclusions, evaluated on the
   implementation's traces (and on the model's).  Payload conventions of harness/l1kit: a Send body starts with
   be16(call id), a delivered payload with be16(0x8000 + delivery number). *)
From MV Require Import Model.BusStar Model.PairPushOracle.
Open Scope N_scope.

Definition is_star (k : N) : bool := 3 <=? k.
Definition is_raw (k : N) : bool := (k =? 2) || (k =? 4).

(* one message the socket has to distribute: what must appear on each pipe, the pipe that must NOT get it
   (0: none), the pipes that got it so far, whether it may be transmitted at all *)
Record mrec := {
  mr_wire : msg;
  mr_excl : N;
  mr_to : list N;
  mr_fwd : bool;
  mr_n : N }.      (* how many times the application sent this very message (it may keep a reference and send it again) *)
Definition set_mr_to (s : mrec) (v : list N) : mrec :=
  {| mr_wire := mr_wire s; mr_excl := mr_excl s; mr_to := v; mr_fwd := mr_fwd s; mr_n := mr_n s |}.
Definition ncount (p : N) (l : list N) : N := N.of_nat (length (filter (N.eqb p) l)).
Record bso := {
  y_kind : N;
  y_ttl : N;
  y_closed : bool;
  y_att : list N;
  y_holds : list N;
  y_busy : list N;
  y_msgs : list (N * mrec);
  y_recvs : list N;
  y_deliv : list (N * (N * ret));
  y_out : list N;
  y_done : list N;
  y_last : list (N * N) }.
Definition set_y_kind (s : bso) (v : N) : bso :=
  {| y_kind := v; y_ttl := y_ttl s; y_closed := y_closed s; y_att := y_att s; y_holds := y_holds s; y_busy := y_busy s; y_msgs := y_msgs s; y_recvs := y_recvs s; y_deliv := y_deliv s; y_out := y_out s; y_done := y_done s; y_last := y_last s |}.
Definition set_y_ttl (s : bso) (v : N) : bso :=
  {| y_kind := y_kind s; y_ttl := v; y_closed := y_closed s; y_att := y_att s; y_holds := y_holds s; y_busy := y_busy s; y_msgs := y_msgs s; y_recvs := y_recvs s; y_deliv := y_deliv s; y_out := y_out s; y_done := y_done s; y_last := y_last s |}.
Definition set_y_closed (s : bso) (v : bool) : bso :=
  {| y_kind := y_kind s; y_ttl := y_ttl s; y_closed := v; y_att := y_att s; y_holds := y_holds s; y_busy := y_busy s; y_msgs := y_msgs s; y_recvs := y_recvs s; y_deliv := y_deliv s; y_out := y_out s; y_done := y_done s; y_last := y_last s |}.
Definition set_y_att (s : bso) (v : list N) : bso :=
  {| y_kind := y_kind s; y_ttl := y_ttl s; y_closed := y_closed s; y_att := v; y_holds := y_holds s; y_busy := y_busy s; y_msgs := y_msgs s; y_recvs := y_recvs s; y_deliv := y_deliv s; y_out := y_out s; y_done := y_done s; y_last := y_last s |}.
Definition set_y_holds (s : bso) (v : list N) : bso :=
  {| y_kind := y_kind s; y_ttl := y_ttl s; y_closed := y_closed s; y_att := y_att s; y_holds := v; y_busy := y_busy s; y_msgs := y_msgs s; y_recvs := y_recvs s; y_deliv := y_deliv s; y_out := y_out s; y_done := y_done s; y_last := y_last s |}.
Definition set_y_busy (s : bso) (v : list N) : bso :=
  {| y_kind := y_kind s; y_ttl := y_ttl s; y_closed := y_closed s; y_att := y_att s; y_holds := y_holds s; y_busy := v; y_msgs := y_msgs s; y_recvs := y_recvs s; y_deliv := y_deliv s; y_out := y_out s; y_done := y_done s; y_last := y_last s |}.
Definition set_y_msgs (s : bso) (v : list (N * mrec)) : bso :=
  {| y_kind := y_kind s; y_ttl := y_ttl s; y_closed := y_closed s; y_att := y_att s; y_holds := y_holds s; y_busy := y_busy s; y_msgs := v; y_recvs := y_recvs s; y_deliv := y_deliv s; y_out := y_out s; y_done := y_done s; y_last := y_last s |}.
Definition set_y_recvs (s : bso) (v : list N) : bso :=
  {| y_kind := y_kind s; y_ttl := y_ttl s; y_closed := y_closed s; y_att := y_att s; y_holds := y_holds s; y_busy := y_busy s; y_msgs := y_msgs s; y_recvs := v; y_deliv := y_deliv s; y_out := y_out s; y_done := y_done s; y_last := y_last s |}.
Definition set_y_deliv (s : bso) (v : list (N * (N * ret))) : bso :=
  {| y_kind := y_kind s; y_ttl := y_ttl s; y_closed := y_closed s; y_att := y_att s; y_holds := y_holds s; y_busy := y_busy s; y_msgs := y_msgs s; y_recvs := y_recvs s; y_deliv := v; y_out := y_out s; y_done := y_done s; y_last := y_last s |}.
Definition set_y_out (s : bso) (v : list N) : bso :=
  {| y_kind := y_kind s; y_ttl := y_ttl s; y_closed := y_closed s; y_att := y_att s; y_holds := y_holds s; y_busy := y_busy s; y_msgs := y_msgs s; y_recvs := y_recvs s; y_deliv := y_deliv s; y_out := v; y_done := y_done s; y_last := y_last s |}.
Definition set_y_done (s : bso) (v : list N) : bso :=
  {| y_kind := y_kind s; y_ttl := y_ttl s; y_closed := y_closed s; y_att := y_att s; y_holds := y_holds s; y_busy := y_busy s; y_msgs := y_msgs s; y_recvs := y_recvs s; y_deliv := y_deliv s; y_out := y_out s; y_done := v; y_last := y_last s |}.
Definition set_y_last (s : bso) (v : list (N * N)) : bso :=
  {| y_kind := y_kind s; y_ttl := y_ttl s; y_closed := y_closed s; y_att := y_att s; y_holds := y_holds s; y_busy := y_busy s; y_msgs := y_msgs s; y_recvs := y_recvs s; y_deliv := y_deliv s; y_out := y_out s; y_done := y_done s; y_last := v |}.

Definition bso0 : bso :=
  {| y_kind := 0; y_ttl := 8; y_closed := false; y_att := []; y_holds := []; y_busy := []; y_msgs := []; y_recvs := [];
     y_deliv := []; y_out := []; y_done := []; y_last := [] |}.

Record bsflags := { g_noecho : bool; g_once : bool; g_all : bool; g_nofwd : bool; g_up : bool }.
Definition gl_and (a b : bsflags) : bsflags :=
  {| g_noecho := g_noecho a && g_noecho b; g_once := g_once a && g_once b; g_all := g_all a && g_all b;
     g_nofwd := g_nofwd a && g_nofwd b; g_up := g_up a && g_up b |}.
Definition gl_ok : bsflags := {| g_noecho := true; g_once := true; g_all := true; g_nofwd := true; g_up := true |}.

(* a Send: (what goes on every pipe, excluded pipe, transmitted at all) *)
Definition send_spec (k : N) (hdr body : bytes) : msg * N * bool :=
  if k =? 1 then (([], body), 0, true)
  else if k =? 2 then
    if (length hdr =? 4)%nat then (([], body), (let id := be_dec hdr in if 1000 <? id then id - 1000 else 0), true)
    else ((hdr, body), 0, true)
  else if k =? 3 then (([x00; x00; x00; x00], body), 0, true)
  else ((hdr, body), 0, (length hdr =? 4)%nat).

(* bytes yielded by pipe p: (what the application must see, what every OTHER pipe must get) *)
Definition deliver_spec (k ttl p : N) (wire : bytes) : option (ret * option msg) :=
  if is_star k then
    match rx_model RXStar ttl (pipe_id p) wire with
    | Some (Deliver h b) => Some ((if is_raw k then RMsg h b else RMsg [] b), Some (h, b))
    | _ => None
    end
  else Some ((if is_raw k then RMsg (be_enc 4 (pipe_id p)) wire else RMsg [] wire), None).

Definition not_from (s : bso) (p : N) (key : N) : bool :=
  match aget key (y_deliv s) with Some (q, _) => negb (q =? p) | None => true end.

Definition bs_ostep (s : bso) (st : stim) (os : list obs) (bl : list N) : bso * bsflags :=
  if y_kind s =? 0 then (set_y_kind s (kind_of st), gl_ok) else
  let k := y_kind s in
  (* stimulus *)
  let '(s1, origin) :=
    match st with
    | SCall t (CSend _ h b) =>
      if ret_ok t os then
        let '(w, ex, fwd) := send_spec k h b in
        (* keyed by the body's tag (= the call id for a message sent once; an application that kept a reference and sends
           the very same message again adds one more distribution of it: every pipe may get it once per send) *)
        let r := match aget (tag_of b) (y_msgs s) with
                 | Some r0 => {| mr_wire := w; mr_excl := ex; mr_to := mr_to r0; mr_fwd := fwd; mr_n := mr_n r0 + 1 |}
                 | None => {| mr_wire := w; mr_excl := ex; mr_to := []; mr_fwd := fwd; mr_n := 1 |}
                 end in
        (set_y_msgs s (aset (tag_of b) r (y_msgs s)), if fwd then Some (tag_of b) else None)
      else (s, None)
    | SCall t (CRecv _) => (set_y_recvs s (t :: y_recvs s), None)
    | SCall t (CSetOpt _ OTtl v _) => ((if ret_ok t os then set_y_ttl s (Z.to_N v) else s), None)
    | SCall t (CSetOpt _ OReadQLen v _) =>
      (* whatever was queued may be lost; xstar leaves blocked RecvMsg calls on the old channel *)
      ((if ret_ok t os then set_y_recvs (set_y_out s []) (if is_star k then [] else y_recvs s) else s), None)
    | SCall t CCloseSock => (set_y_closed s true, None)
    | SAddPipe p =>
      ((match refusal p os with None => set_y_holds (set_y_att s (nadd p (y_att s))) (nrem p (y_holds s)) | Some _ => s end), None)
    | SDropPipe p => (set_y_out (set_y_busy (set_y_att s (nrem p (y_att s))) (nrem p (y_busy s))) (filter (not_from s p) (y_out s)), None)
    | SHold p h => (set_y_holds s (if h then nadd p (y_holds s) else nrem p (y_holds s)), None)
    | SRelease p ok =>
      let s1 := set_y_busy s (nrem p (y_busy s)) in
      ((if negb ok && nmem p (y_busy s) then set_y_out (set_y_att s1 (nrem p (y_att s))) (filter (not_from s p) (y_out s)) else s1), None)
    | SDeliver p wire =>
      if existsb (fun o => match o with ONotTaken _ => true | _ => false end) os then (s, None)
      else match deliver_spec k (y_ttl s) p wire with
           | Some (r, fw) =>
             let key := tag_of (match r with RMsg _ b => b | _ => [] end) in
             let s1 := set_y_out (set_y_deliv s (aset key (p, r) (y_deliv s))) (y_out s ++ [key]) in
             (set_y_msgs s1 (aset key {| mr_wire := match fw with Some m => m | None => ([], []) end; mr_excl := p; mr_to := [];
                                         mr_fwd := match fw with Some _ => true | None => false end; mr_n := 1 |} (y_msgs s)),
              match fw with Some _ => Some key | None => None end)
           | None => (s, None)
           end
    | _ => (s, None)
    end in
  let att0 := y_att s1 in
  let busy0 := y_busy s1 in
  (* observations *)
  let '(s2, f2) :=
    fold_left (fun '(s, f) o =>
      match o with
      | OTx p h b =>
        let key := tag_of b in
        match aget key (y_msgs s) with
        | Some r =>
          let s' := set_y_msgs s (aset key (set_mr_to r (p :: mr_to r)) (y_msgs s)) in
          ((if nmem p (y_holds s) then set_y_busy s' (nadd p (y_busy s)) else s'),
           gl_and f {| g_noecho := negb (p =? mr_excl r);
                       g_once := negb (mr_fwd r) || (msg_eqb (mr_wire r) (h, b) && (ncount p (mr_to r) <? mr_n r) && nmem p (y_att s));
                       g_all := true; g_nofwd := mr_fwd r; g_up := true |})
        | None => (s, gl_and f {| g_noecho := true; g_once := false; g_all := true; g_nofwd := true; g_up := true |})
        end
      | ORet t (RMsg h b) =>
        let key := tag_of b in
        match aget key (y_deliv s) with
        | Some (p, r) =>
          let last := match aget p (y_last s) with Some l => l | None => 0 end in
          let good := ret_eqb r (RMsg h b) && negb (nmem key (y_done s)) && (last <? key) in
          (set_y_last (set_y_done (set_y_out s (nrem key (y_out s))) (key :: y_done s)) (aset p key (y_last s)),
           gl_and f {| g_noecho := true; g_once := true; g_all := true; g_nofwd := true; g_up := good |})
        | None => (s, gl_and f {| g_noecho := true; g_once := true; g_all := true; g_nofwd := true; g_up := false |})
        end
      | OPipeClose p =>
        (set_y_out (set_y_busy (set_y_att s (nrem p (y_att s))) (nrem p (y_busy s))) (filter (not_from s p) (y_out s)), f)
      | _ => (s, f)
      end) os (s1, gl_ok) in
  (* every attached pipe that was able to take the message of this step got it *)
  let all :=
    match origin with
    | Some key =>
      match aget key (y_msgs s2) with
      | Some r =>
        let before := match aget key (y_msgs s1) with Some r0 => mr_to r0 | None => [] end in
        forallb (fun p => nmem p busy0 || (p =? mr_excl r) || (ncount p before <? ncount p (mr_to r))) att0
      | None => true
      end
    | None => true
    end in
  let starving := existsb (fun t => nmem t (y_recvs s2)) bl && negb (is_nil (y_out s2)) && negb (y_closed s2) in
  (s2, gl_and f2 {| g_noecho := true; g_once := true; g_all := all; g_nofwd := true; g_up := negb starving |}).

Fixpoint bs_ofrom (pick : bsflags -> bool) (s : bso) (i : N) (h : list step_rec) : option N :=
  match h with
  | [] => None
  | (st, os, bl) :: r => let '(s', f) := bs_ostep s st os bl in if pick f then bs_ofrom pick s' (N.succ i) r else Some i
  end.
Definition c08_noecho (h : list step_rec) : option N := bs_ofrom g_noecho bso0 0 h.
Definition c08_once (h : list step_rec) : option N := bs_ofrom g_once bso0 0 h.
Definition c08_all (h : list step_rec) : option N := bs_ofrom g_all bso0 0 h.
Definition c08_nofwd (h : list step_rec) : option N := bs_ofrom g_nofwd bso0 0 h.
Definition c08_up (h : list step_rec) : option N := bs_ofrom g_up bso0 0 h.

Fixpoint bs_trace (s : bsstate) (h : list stim) : list step_rec :=
  match h with
  | [] => []
  | st :: r => let '(s', os) := bs_step s st in (st, os, bs_blocked s') :: bs_trace s' r
  end.
