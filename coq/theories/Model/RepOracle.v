(* Property oracle over REP / RESPONDENT / XREP / XRESPONDENT histories: the decidable form of the C05
   conclusion, run on the implementation's traces and on the model's.  The harness tags payloads: the first
   two bytes of every request payload are a request number unique in the history, the first two bytes of
   every reply body are a reply number unique in the history.  The oracle does not use the model: it
   reconstructs from the stimuli which request arrived where (splitting the body at the first word whose
   top bit is set, as every receiver of the family does) and from the API returns which context holds
   which request. *)
From MV Require Import Lib.Proto Model.Hops Model.Rep.
Open Scope N_scope.

Definition tag_of (b : bytes) : N := match b with x :: y :: _ => be_dec [x; y] | _ => 2 ^ 20 end.

(* routing header (backtrace) and payload of a request as it comes off the wire *)
Fixpoint split_bt (fuel : nat) (hdr body : bytes) : option (bytes * bytes) :=
  match fuel with
  | O => None
  | S f =>
    match body with
    | a :: b :: c :: d :: rest =>
      if high a then Some (hdr ++ [a; b; c; d], rest) else split_bt f (hdr ++ [a; b; c; d]) rest
    | _ => None
    end
  end.
Definition split_req (body : bytes) : option (bytes * bytes) := split_bt (S (length body)) [] body.

Record ostate := {
  o_arrived : list (N * (N * (bytes * bytes)));   (* request number -> (pipe, (backtrace, payload)): taken by a receiver *)
  o_got : list N;                                 (* request numbers some Recv has returned *)
  o_cur : list (N * option (N * bytes));          (* context -> (pipe, backtrace) of the request it holds and has not answered *)
  o_recvs : list (N * N);                         (* Recv call -> context *)
  o_sends : list (N * N);                         (* Send call -> reply number *)
  o_exp : list (N * option (N * (bytes * bytes))); (* reply number -> (pipe, (header, body)) that may be written, once *)
  o_dead : list N;                                (* pipes that have gone *)
}.
Definition o0 : ostate :=
  {| o_arrived := []; o_got := []; o_cur := []; o_recvs := []; o_sends := []; o_exp := []; o_dead := [] |}.

Definition ret_of (t : N) (os : list obs) : option ret :=
  match filter (fun o => match o with ORet t' _ => t' =? t | _ => false end) os with
  | ORet _ r :: _ => Some r
  | _ => None
  end.
Definition not_taken (p : N) (os : list obs) : bool :=
  existsb (fun o => match o with ONotTaken q => q =? p | _ => false end) os.
Definition is_err (r : option ret) (e : N) : bool := match r with Some (RErr e') => e' =? e | _ => false end.
Definition any_err (r : option ret) : bool := match r with Some (RErr _) => true | _ => false end.
Definition mem (x : N) (l : list N) : bool := existsb (N.eqb x) l.
Definition oget {V} (k : N) (l : list (N * option V)) : option V := match aget k l with Some v => v | None => None end.

Definition set_arrived s v := {| o_arrived := v; o_got := o_got s; o_cur := o_cur s; o_recvs := o_recvs s; o_sends := o_sends s; o_exp := o_exp s; o_dead := o_dead s |}.
Definition set_got s v := {| o_arrived := o_arrived s; o_got := v; o_cur := o_cur s; o_recvs := o_recvs s; o_sends := o_sends s; o_exp := o_exp s; o_dead := o_dead s |}.
Definition set_cur s v := {| o_arrived := o_arrived s; o_got := o_got s; o_cur := v; o_recvs := o_recvs s; o_sends := o_sends s; o_exp := o_exp s; o_dead := o_dead s |}.
Definition set_recvs s v := {| o_arrived := o_arrived s; o_got := o_got s; o_cur := o_cur s; o_recvs := v; o_sends := o_sends s; o_exp := o_exp s; o_dead := o_dead s |}.
Definition set_sends s v := {| o_arrived := o_arrived s; o_got := o_got s; o_cur := o_cur s; o_recvs := o_recvs s; o_sends := v; o_exp := o_exp s; o_dead := o_dead s |}.
Definition set_exp s v := {| o_arrived := o_arrived s; o_got := o_got s; o_cur := o_cur s; o_recvs := o_recvs s; o_sends := o_sends s; o_exp := v; o_dead := o_dead s |}.
Definition set_dead s v := {| o_arrived := o_arrived s; o_got := o_got s; o_cur := o_cur s; o_recvs := o_recvs s; o_sends := o_sends s; o_exp := o_exp s; o_dead := v |}.

(* the stimulus: what it makes known, and the check on how a Send call was answered *)
Definition c05_stim (k : kind) (s : ostate) (st : stim) (os : list obs) : ostate * bool :=
  match st with
  | SDeliver p body =>
    if not_taken p os || mem p (o_dead s) then (s, true)
    else match split_req body with
         | Some (bt, payload) => (set_arrived s (aset (tag_of payload) (p, (bt, payload)) (o_arrived s)), true)
         | None => (s, true)
         end
  | SDropPipe p => (set_dead s (p :: o_dead s), true)
  | SRelease p false => (set_dead s (p :: o_dead s), true)
  | SCall t (CRecv c) =>
    let s := set_recvs s (aset t c (o_recvs s)) in
    (* RESPONDENT forgets the request it holds when it starts to wait for the next one *)
    (if is_respondent k then set_cur s (aset c None (o_cur s)) else s, true)
  | SCall t (CSend c hdr body) =>
    let r := ret_of t os in
    let s := set_sends s (aset t (tag_of body) (o_sends s)) in
    if is_raw k then
      (* the application names the pipe: first header word = pipe id; that word is stripped *)
      match hdr with
      | a :: b :: c' :: d :: rest =>
        let id := be_dec [a; b; c'; d] in
        if (1000 <=? id) && negb (any_err r)
        then (set_exp s (aset (tag_of body) (Some (id - 1000, (rest, body))) (o_exp s)), true)
        else (s, true)
      | _ => (s, true)
      end
    else
      match oget c (o_cur s) with
      | Some (p, bt) =>
        (* a request is pending: the reply is accepted (not a protocol-state error) and bound for (p, bt) *)
        if any_err r then (s, negb (is_err r EProtoState))
        else (set_exp (set_cur s (aset c None (o_cur s))) (aset (tag_of body) (Some (p, (bt, body))) (o_exp s)), true)
      | None =>
        (* nothing pending: refused at once, nothing may be written *)
        (s, is_err r EProtoState || is_err r EClosed)
      end
  | _ => (s, true)
  end.

Definition c05_obs (k : kind) (acc : ostate * bool) (o : obs) : ostate * bool :=
  let '(s, ok) := acc in
  match o with
  | ORet t (RMsg h b) =>
    match aget t (o_recvs s), aget (tag_of b) (o_arrived s) with
    | Some c, Some (p, (bt, payload)) =>
      let good := bytes_eqb b payload && negb (mem (tag_of b) (o_got s))
                  && (if is_raw k then bytes_eqb h (be_enc 4 (pipe_id p) ++ bt) else true) in
      let s := set_got s (tag_of b :: o_got s) in
      (if is_raw k then s else set_cur s (aset c (Some (p, bt)) (o_cur s)), ok && good)
    | _, _ => (s, false)          (* a Recv returned something no receiver took *)
    end
  | ORet t (RErr _) =>
    (* a Send that fails has not handed its message to a pipe *)
    match aget t (o_sends s) with
    | Some r => (set_exp s (aset r None (o_exp s)), ok)
    | None => (s, ok)
    end
  | OTx p h b =>
    match oget (tag_of b) (o_exp s) with
    | Some (p', (h', b')) =>
      (set_exp s (aset (tag_of b) None (o_exp s)),
       ok && (p =? p') && bytes_eqb h h' && bytes_eqb b b' && negb (mem p (o_dead s)))
    | None => (s, false)          (* unexplained or repeated transmission *)
    end
  | OPipeClose p => (set_dead s (p :: o_dead s), ok)
  | _ => (s, ok)
  end.

Definition c05_step (k : kind) (s : ostate) (st : stim) (os : list obs) : ostate * bool :=
  let '(s1, ok1) := c05_stim k s st os in
  fold_left (c05_obs k) os (s1, ok1).

Fixpoint c05_from (k : kind) (s : ostate) (i : N) (h : list step_rec) : option N :=
  match h with
  | [] => None
  | (st, os, _) :: r => let '(s', ok) := c05_step k s st os in if ok then c05_from k s' (N.succ i) r else Some i
  end.
Definition c05_oracle_k (k : kind) (h : list step_rec) : option N := c05_from k o0 0 h.
Definition c05_oracle (kh : N * list step_rec) : option N := c05_oracle_k (kind_of (fst kh)) (snd kh).

(* the model's own trace for a list of stimuli, in the same step_rec form *)
Fixpoint model_trace (k : kind) (s : rstate) (h : list stim) : list step_rec :=
  match h with
  | [] => []
  | st :: r => let '(s', os) := step k s st in (st, os, blocked s') :: model_trace k s' r
  end.
