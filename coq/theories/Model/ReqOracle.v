(* Property oracles over REQ histories (decidable forms of the C03 / C04 conclusions), run on the
   implementation's traces and on the model's.  Reply payloads carry, in their first two bytes, the id of
   the request they answer; request bodies carry their own id likewise (the harness builds them so). *)
From MV Require Import Lib.Proto Model.Req.
Open Scope N_scope.

Definition tag_of (b : bytes) : N := match b with x :: y :: _ => be_dec [x; y] | _ => 2 ^ 20 end.

Record ostate := {
  o_nsend : N;                    (* SendMsg calls so far *)
  o_last : list (N * N);          (* context -> id of its most recent accepted Send *)
  o_recvs : list (N * N);         (* Recv call -> context *)
  o_sends : list (N * (N * N));   (* Send call -> (context, id) *)
  o_returned : list N;            (* ids whose reply has been returned *)
  o_tx : list (N * (bytes * bytes)); (* id -> first transmitted (header, body) *)
  o_done : list N;                (* ids answered, cancelled or closed: no transmission may follow *)
}.
Definition o0 := {| o_nsend := 0; o_last := []; o_recvs := []; o_sends := []; o_returned := []; o_tx := []; o_done := [] |}.

Definition ret_of (t : N) (os : list obs) : option ret :=
  match filter (fun o => match o with ORet t' _ => t' =? t | _ => false end) os with
  | ORet _ r :: _ => Some r
  | _ => None
  end.

(* C03: a returned reply answers the context's most recent request, and each request's reply is returned once *)
Definition c03_step (s : ostate) (st : stim) (os : list obs) : ostate * bool :=
  let s1 :=
    match st with
    | SCall t (CSend c _ _) =>
      let id := o_nsend s + 1 in
      let rejected := match ret_of t os with Some (RErr e) => (e =? EClosed) || (e =? ENoPeers) | _ => false end in
      {| o_nsend := id; o_last := if rejected then o_last s else aset c id (o_last s); o_recvs := o_recvs s;
         o_sends := aset t (c, id) (o_sends s); o_returned := o_returned s; o_tx := o_tx s; o_done := o_done s |}
    | SCall t (CRecv c) =>
      {| o_nsend := o_nsend s; o_last := o_last s; o_recvs := aset t c (o_recvs s); o_sends := o_sends s;
         o_returned := o_returned s; o_tx := o_tx s; o_done := o_done s |}
    | _ => s
    end in
  fold_left (fun '(s, ok) o =>
    match o with
    | ORet t (RMsg _ b) =>
      match aget t (o_recvs s) with
      | Some c =>
        let cur := match aget c (o_last s) with Some id => id | None => 0 end in
        let good := (tag_of b =? cur) && negb (existsb (N.eqb cur) (o_returned s)) in
        ({| o_nsend := o_nsend s; o_last := o_last s; o_recvs := o_recvs s; o_sends := o_sends s;
            o_returned := tag_of b :: o_returned s; o_tx := o_tx s; o_done := o_done s |}, ok && good)
      | None => (s, false)
      end
    | _ => (s, ok)
    end) os (s1, true).

Fixpoint c03_from (s : ostate) (i : N) (h : list step_rec) : option N :=
  match h with
  | [] => None
  | (st, os, _) :: r => let '(s', ok) := c03_step s st os in if ok then c03_from s' (N.succ i) r else Some i
  end.
Definition c03_oracle (h : list step_rec) : option N := c03_from o0 0 h.

(* C04: every transmission of a request repeats the first one's bytes; it goes to one pipe per
   (re)transmission; nothing is transmitted for a request after its reply was returned to the application. *)
Definition c04_step (s : ostate) (st : stim) (os : list obs) : ostate * bool :=
  let s := match st with
           | SCall t (CSend c _ _) =>
             {| o_nsend := o_nsend s + 1; o_last := o_last s; o_recvs := o_recvs s; o_sends := o_sends s;
                o_returned := o_returned s; o_tx := o_tx s; o_done := o_done s |}
           | _ => s end in
  fold_left (fun '(s, ok) o =>
    match o with
    | OTx p h b =>
      let id := tag_of b in
      let hdr_ok := bytes_eqb h (req_hdr id) in
      let same := match aget id (o_tx s) with Some (h0, b0) => bytes_eqb h h0 && bytes_eqb b b0 | None => true end in
      let live := negb (existsb (N.eqb id) (o_returned s)) in
      ({| o_nsend := o_nsend s; o_last := o_last s; o_recvs := o_recvs s; o_sends := o_sends s; o_returned := o_returned s;
          o_tx := match aget id (o_tx s) with Some _ => o_tx s | None => aset id (h, b) (o_tx s) end; o_done := o_done s |},
       ok && hdr_ok && same && live && (id <=? o_nsend s))
    | ORet t (RMsg _ b) =>
      ({| o_nsend := o_nsend s; o_last := o_last s; o_recvs := o_recvs s; o_sends := o_sends s;
          o_returned := tag_of b :: o_returned s; o_tx := o_tx s; o_done := o_done s |}, ok)
    | _ => (s, ok)
    end) os (s, true).
Fixpoint c04_from (s : ostate) (i : N) (h : list step_rec) : option N :=
  match h with
  | [] => None
  | (st, os, _) :: r => let '(s', ok) := c04_step s st os in if ok then c04_from s' (N.succ i) r else Some i
  end.
Definition c04_oracle (h : list step_rec) : option N := c04_from o0 0 h.

(* the model's own trace for a list of stimuli, in the same step_rec form *)
Fixpoint model_trace (fixed : bool) (s : rstate) (h : list stim) : list step_rec :=
  match h with
  | [] => []
  | st :: r => let '(s', os) := step fixed s st in (st, os, blocked s') :: model_trace fixed s' r
  end.
