(* "Check-then-register" atomicity on the lock skeletons regenerated from the Go source (harness/cmd/go2race):
   every insertion into a registry field of an object that has a `closed` flag (socket.listeners, socket.pipes,
   a protocol's pipes / contexts / surveys ...) is preceded, in the SAME critical section, by a read of that flag
   -- no Lock, Unlock or call of a translated function in between -- on every path through the function.
   Otherwise Close can run between the check and the registration and the object registers into a closed socket
   (a listener that keeps accepting after Close, a pipe nobody will ever close).  No proofs here. *)
From MV Require Import Model.RaceCfg.
Open Scope N_scope.

(* which functions may perform a lock operation, themselves or through the functions they call: L(g) = false is
   only accepted (lcert_ok) if g contains no lock operation and calls only functions with L = false *)
Definition locky := list bool.
Definition lk (L : locky) (g : N) : bool := nth (N.to_nat g) L true.
Definition instrs_of (f : rfunc) : list rinstr := flat_map rbody (rblocks f).
Definition lock_free_instr (L : locky) (i : rinstr) : bool :=
  match i with RLock _ | RUnlock _ | RDeferUnlock _ => false | RCall g => negb (lk L g) | _ => true end.
Definition lcert_ok (prog : list rfunc) (L : locky) : bool :=
  Nat.eqb (length L) (length prog) &&
  forallb (fun x => let '(b, f) := x in b || forallb (lock_free_instr L) (instrs_of f)) (combine L prog).
Definition lrefine (prog : list rfunc) (L : locky) : locky :=
  map (fun x => let '(b, f) := x in b || negb (forallb (lock_free_instr L) (instrs_of f))) (combine L prog).
(* least solution, from "nobody locks" upwards; any post-fixpoint would do *)
Definition lcompute (prog : list rfunc) : locky := riter (length prog + 1) (lrefine prog) (map (fun _ => false) prog).

(* has `rd` certainly been read since the last lock operation (here or in a callee)? *)
Definition atransfer (L : locky) (rd : N) (seen : bool) (i : rinstr) : bool :=
  match i with
  | RAccess false f => seen || (f =? rd)
  | RAccess true _ => seen
  | RLock _ | RUnlock _ => false
  | RDeferUnlock _ => seen          (* runs at return *)
  | RCall g => if lk L g then false else seen      (* a callee that may lock may release our lock *)
  | RGo _ => seen
  end.
Definition aseen (L : locky) (rd : N) (seen : bool) (b : list rinstr) : bool := fold_left (atransfer L rd) b seen.

Fixpoint awrites_ok (L : locky) (ins rd : N) (seen : bool) (b : list rinstr) : bool :=
  match b with
  | [] => true
  | i :: r =>
    (match i with RAccess true f => if f =? ins then seen else true | _ => true end) &&
    awrites_ok L ins rd (atransfer L rd seen i) r
  end.

Definition aassign := list (option bool).      (* per block: None = not reached; Some b = `seen` on every path reaching it *)
Definition ameet (a : option bool) (b : bool) : option bool := match a with None => Some b | Some x => Some (x && b) end.
Fixpoint set_ameet (A : aassign) (n : nat) (b : bool) : aassign :=
  match A, n with
  | [], _ => []
  | x :: r, O => ameet x b :: r
  | x :: r, S n' => x :: set_ameet r n' b
  end.
Definition aprop_block (L : locky) (rd : N) (f : rfunc) (A : aassign) (i : nat) : aassign :=
  match nth_error A i, nth_error (rblocks f) i with
  | Some (Some s), Some b => fold_left (fun A' n => set_ameet A' n (aseen L rd s (rbody b))) (rsuccs b) A
  | _, _ => A
  end.
Definition asweep (L : locky) (rd : N) (f : rfunc) (A : aassign) : aassign := fold_left (aprop_block L rd f) (seq 0 (length (rblocks f))) A.
Definition acompute (L : locky) (rd : N) (f : rfunc) : aassign :=
  riter (2 * length (rblocks f) + 4) (asweep L rd f)
        (match rblocks f with [] => [] | _ :: r => Some false :: map (fun _ => None) r end).

(* certificate check: post-fixpoint + every insertion happens with `seen` *)
Definition ablock_ok (L : locky) (ins rd : N) (f : rfunc) (A : aassign) (i : nat) : bool :=
  match nth_error A i, nth_error (rblocks f) i with
  | Some (Some s), Some b =>
    awrites_ok L ins rd s (rbody b) &&
    forallb (fun n => match nth_error A n with Some (Some t) => implb t (aseen L rd s (rbody b)) | _ => false end) (rsuccs b)
  | Some None, Some _ => true
  | _, _ => false
  end.
Definition acert_ok (L : locky) (ins rd : N) (f : rfunc) (A : aassign) : bool :=
  Nat.eqb (length A) (length (rblocks f)) &&
  match nth_error A 0 with Some (Some s) => negb s | _ => match rblocks f with [] => true | _ => false end end &&
  forallb (ablock_ok L ins rd f A) (seq 0 (length (rblocks f))).

(* constructors build objects nobody else can see yet *)
Definition afunc_ok (L : locky) (ins rd : N) (f : rfunc) : bool := rctor f || acert_ok L ins rd f (acompute L rd f).
Definition atom_ok (rules : list (N * N)) (prog : list rfunc) : bool :=
  let L := lcompute prog in
  lcert_ok prog L && forallb (fun r => forallb (afunc_ok L (fst r) (snd r)) prog) rules.
(* search: which rule fails in which function *)
Definition atom_bad (rules : list (N * N)) (prog : list rfunc) : list (N * string) :=
  let L := lcompute prog in
  flat_map (fun r => flat_map (fun f => if afunc_ok L (fst r) (snd r) f then [] else [(fst r, rname f)]) prog) rules.
