(* The handshaker of the stream transports (transport/conn.go connHandshaker): every listener and dialer of tcp, ipc,
   tls+tcp hands its freshly accepted / dialled connections to one; the socket core collects the results with Wait.
   All four methods and the tail of the worker goroutine run under the handshaker's mutex, so each is one atomic step;
   the handshake itself (blocking I/O with the peer) happens outside the lock, between HStart and HFinish.
   No proofs here. *)
From Coq Require Import List NArith Bool.
Import ListNotations.
Open Scope N_scope.

Inductive hop :=
| HStart (c : N)                 (* Start(conn c) *)
| HFinish (c : N) (ok : bool)    (* conn c's handshake returns: ok, or an error (bad header, EOF, closed under it ...) *)
| HWait                          (* Wait(), when it does not have to block *)
| HClose.                        (* Close() *)

(* what Wait returns *)
Inductive wres :=
| WPipe (c : N)                  (* (pipe c, nil) *)
| WFail                          (* (nil, the handshake's error) *)
| WLate (c : N)                  (* (pipe c -- already closed --, ErrClosed): only produced after Close; Wait never returns it *)
| WClosed                        (* (nil, ErrClosed) *)
| WBlock.                        (* nothing finished yet: the caller stays blocked *)

Record hst := {
  h_work : list N;               (* workq: handshakes in flight *)
  h_done : list wres;            (* doneq, oldest first (WPipe / WFail / WLate entries) *)
  h_closed : bool;
  h_open : list N;               (* connections started and not closed so far (by anybody) *)
  h_given : list N;              (* connections handed to the caller by Wait (the caller owns them now) *)
  h_seen : list N }.             (* every connection ever started *)

Definition h0 : hst := {| h_work := []; h_done := []; h_closed := false; h_open := []; h_given := []; h_seen := [] |}.

Definition nmem (x : N) (l : list N) : bool := existsb (N.eqb x) l.
Definition nrem (x : N) (l : list N) : list N := filter (fun y => negb (y =? x)) l.

Definition close_all (cs : list N) (op : list N) : list N := filter (fun y => negb (nmem y cs)) op.
Definition done_conns (d : list wres) : list N :=
  flat_map (fun w => match w with WPipe c => [c] | WLate c => [c] | _ => [] end) d.

(* one step; the second component is what the call returned (WBlock for calls that return nothing) *)
Definition hstep (s : hst) (o : hop) : hst * wres :=
  match o with
  | HStart c =>
    if nmem c (h_seen s) then (s, WBlock) else      (* a connection is started once *)
    if h_closed s then
      (* Close has already swept workq: nobody else would close this one *)
      ({| h_work := h_work s; h_done := h_done s; h_closed := true; h_open := h_open s; h_given := h_given s; h_seen := c :: h_seen s |}, WBlock)
    else
      ({| h_work := c :: h_work s; h_done := h_done s; h_closed := false; h_open := c :: h_open s; h_given := h_given s; h_seen := c :: h_seen s |}, WBlock)
  | HFinish c ok =>
    if negb (nmem c (h_work s)) then (s, WBlock) else
    let work := nrem c (h_work s) in
    if negb ok then
      ({| h_work := work; h_done := h_done s ++ [WFail]; h_closed := h_closed s; h_open := nrem c (h_open s); h_given := h_given s; h_seen := h_seen s |}, WBlock)
    else if h_closed s then
      ({| h_work := work; h_done := h_done s ++ [WLate c]; h_closed := true; h_open := nrem c (h_open s); h_given := h_given s; h_seen := h_seen s |}, WBlock)
    else
      ({| h_work := work; h_done := h_done s ++ [WPipe c]; h_closed := false; h_open := h_open s; h_given := h_given s; h_seen := h_seen s |}, WBlock)
  | HWait =>
    if h_closed s then (s, WClosed) else
    match h_done s with
    | [] => (s, WBlock)
    | w :: r =>
      ({| h_work := h_work s; h_done := r; h_closed := false; h_open := h_open s;
          h_given := match w with WPipe c => c :: h_given s | _ => h_given s end; h_seen := h_seen s |}, w)
    end
  | HClose =>
    ({| h_work := h_work s; h_done := []; h_closed := true;
        h_open := close_all (h_work s ++ done_conns (h_done s)) (h_open s); h_given := h_given s; h_seen := h_seen s |}, WBlock)
  end.

Fixpoint hrun (s : hst) (ops : list hop) : hst * list wres :=
  match ops with
  | [] => (s, [])
  | o :: r => let '(s1, w) := hstep s o in let '(s2, ws) := hrun s1 r in (s2, w :: ws)
  end.

(* the trace the harness compares: after every operation, what the call returned and which connections are still open *)
Fixpoint htrace (s : hst) (ops : list hop) : list (wres * list N) :=
  match ops with
  | [] => []
  | o :: r => let '(s1, w) := hstep s o in (w, h_open s1) :: htrace s1 r
  end.
