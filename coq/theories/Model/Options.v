(* C19 -- options and unsupported operations: one contract.

   A small, uniform model:  every option NAME has one DOMAIN (type and range, from options.go's
   documentation and the code), every OBJECT KIND has a table of the names it can set / get, and the
   result of any call is decided by

        expected k name v = if the kind cannot set the name      then BadOption
                            else if the value is in the domain   then Ok
                            else                                      BadValue

   plus a short, explicit list of per-object EXCEPTIONS where the code narrows (or widens) the
   domain; an exception can only turn Ok into BadValue or back -- never a panic, never another error.
   Tables mirror /repo: options.go, protocol/*/*.go (SetOption/GetOption/OpenContext),
   internal/core/{socket,dialer,listener,pipe}.go, transport/*/*.go, transport/conn.go, device.go.
   No proofs in this file. *)
From Coq Require Import List NArith ZArith Bool String Ascii.
Import ListNotations.
Open Scope string_scope.

(* ------------------------------------------------------------------ values ---- *)

Inductive otag := TFloat64 | TInt32 | TUint8 | TStruct | TInt64 | TUint.

Inductive value :=
| VInt (z : Z)           (* Go int *)
| VDur (ns : Z)          (* time.Duration, nanoseconds *)
| VBool (b : bool)
| VBytes (len : N)       (* []byte *)
| VString                (* string *)
| VNil                   (* untyped nil *)
| VTls (isnil : bool)    (* *tls.Config, possibly a typed nil pointer *)
| VU32 (z : Z)           (* uint32 *)
| VMode (z : Z)          (* os.FileMode *)
| VOther (t : otag).     (* any other dynamic type *)

(* ------------------------------------------------------------- option names ---- *)

Inductive optid :=
| ORaw | ORecvDeadline | OSendDeadline | ORetryTime | OSubscribe | OUnsubscribe | OSurveyTime
| OTlsConfig | OWriteQLen | OReadQLen | OKeepAlive | OKeepAliveTime | ONoDelay | OLinger | OTtl
| OMaxRecvSize | OReconnectTime | OMaxReconnectTime | OBestEffort | OLocalAddr | ORemoteAddr
| OTlsState | OHttpRequest | ODialAsynch | OPeerPid | OPeerUid | OPeerGid | OPeerZone | OFailNoPeers
| OIpcChmod | OIpcOwner | OIpcGroup | OWinSecDesc | OWinInBuf | OWinOutBuf
| OWsMux | OWsHandler | OWsCheckOrigin
| OResizeDiscards.        (* undocumented test hook of xpull (xpull.go:134) *)
Scheme Equality for optid.

Definition name_table : list (string * optid) := [
  ("RAW", ORaw); ("RECV-DEADLINE", ORecvDeadline); ("SEND-DEADLINE", OSendDeadline);
  ("RETRY-TIME", ORetryTime); ("SUBSCRIBE", OSubscribe); ("UNSUBSCRIBE", OUnsubscribe);
  ("SURVEY-TIME", OSurveyTime); ("TLS-CONFIG", OTlsConfig); ("WRITEQ-LEN", OWriteQLen);
  ("READQ-LEN", OReadQLen); ("KEEPALIVE", OKeepAlive); ("KEEPALIVETIME", OKeepAliveTime);
  ("NO-DELAY", ONoDelay); ("LINGER", OLinger); ("TTL", OTtl); ("MAX-RCV-SIZE", OMaxRecvSize);
  ("RECONNECT-TIME", OReconnectTime); ("MAX-RECONNECT-TIME", OMaxReconnectTime);
  ("BEST-EFFORT", OBestEffort); ("LOCAL-ADDR", OLocalAddr); ("REMOTE-ADDR", ORemoteAddr);
  ("TLS-STATE", OTlsState); ("HTTP-REQUEST", OHttpRequest); ("DIAL-ASYNCH", ODialAsynch);
  ("PEER-PID", OPeerPid); ("PEER-UID", OPeerUid); ("PEER-GID", OPeerGid); ("PEER-ZONE", OPeerZone);
  ("FAIL-NO-PEERS", OFailNoPeers);
  ("UNIX-IPC-CHMOD", OIpcChmod); ("UNIX-IPC-OWNER", OIpcOwner); ("UNIX-IPC-GROUP", OIpcGroup);
  ("WIN-IPC-SECURITY-DESCRIPTOR", OWinSecDesc); ("WIN-IPC-INPUT-BUFFER-SIZE", OWinInBuf);
  ("WIN-IPC-OUTPUT-BUFFER-SIZE", OWinOutBuf);
  ("WEBSOCKET-MUX", OWsMux); ("WEBSOCKET-HANDLER", OWsHandler); ("WEBSOCKET-CHECKORIGIN", OWsCheckOrigin);
  ("_resizeDiscards", OResizeDiscards) ].

Fixpoint lookup_in (t : list (string * optid)) (s : string) : option optid :=
  match t with
  | [] => None
  | (n, o) :: r => if String.eqb n s then Some o else lookup_in r s
  end.
Definition lookup (s : string) : option optid := lookup_in name_table s.

(* ------------------------------------------------------------------ domains ---- *)
(* One domain per option name.  Sources: the comment of each constant in options.go, and where the
   comment gives no range the strictest check any implementation applies
   (queue lengths >= 0, TTL 1..255, MAX-RCV-SIZE >= 0: core/socket.go:351; reconnect times >= 0:
   core/dialer.go:113,121).  Deadlines: any duration (zero = no limit, negative = documented as
   non-blocking).  RETRY-TIME / SURVEY-TIME / KEEPALIVETIME: any duration (no implementation and no
   comment restricts the sign). *)
Definition domain (o : optid) (v : value) : bool :=
  match o, v with
  | (ORecvDeadline | OSendDeadline | ORetryTime | OSurveyTime | OKeepAliveTime), VDur _ => true
  | (OReconnectTime | OMaxReconnectTime), VDur ns => (0 <=? ns)%Z
  | (OWriteQLen | OReadQLen | OMaxRecvSize), VInt z => (0 <=? z)%Z
  | OTtl, VInt z => (1 <=? z)%Z && (z <=? 255)%Z
  | (OBestEffort | OFailNoPeers | OKeepAlive | ONoDelay | ODialAsynch | OWsCheckOrigin), VBool _ => true
  | (OSubscribe | OUnsubscribe), (VBytes _ | VString) => true
  | OTlsConfig, VTls _ => true
  | OIpcChmod, (VU32 z | VMode z) => (0 <=? z)%Z && (z <=? 511)%Z      (* mode & 0777 = mode *)
  | (OIpcOwner | OIpcGroup), VInt _ => true
  | OResizeDiscards, _ => true                                          (* hook: ignores other types *)
  | _, _ => false
  end.

(* -------------------------------------------------------------- object kinds ---- *)

Inductive proto :=
| Ppair | Pxpair | Ppair1 | Pxpair1 | Ppub | Pxpub | Psub | Pxsub | Preq | Pxreq | Prep | Pxrep
| Ppush | Pxpush | Ppull | Pxpull | Psurveyor | Pxsurveyor | Prespondent | Pxrespondent
| Pbus | Pxbus | Pstar | Pxstar.
Definition all_protos : list proto :=
  [Ppair; Pxpair; Ppair1; Pxpair1; Ppub; Pxpub; Psub; Pxsub; Preq; Pxreq; Prep; Pxrep;
   Ppush; Pxpush; Ppull; Pxpull; Psurveyor; Pxsurveyor; Prespondent; Pxrespondent;
   Pbus; Pxbus; Pstar; Pxstar].

Inductive tran := OTInproc | OTTcp | OTIpc | OTTls | OTWs | OTWss.
Inductive side := SListen | SDial.
Inductive phase := PBefore | PAfter.

Inductive objkind :=
| KProto (p : proto)        (* protocol.Protocol as made by NewProtocol *)
| KSock (p : proto)         (* mangos.Socket = core socket around the protocol *)
| KCtx (p : proto)          (* context opened on such a socket *)
| KDialer (t : tran)        (* mangos.Dialer (core dialer + transport dialer) of a PAIR socket *)
| KListener (t : tran)      (* mangos.Listener of a PAIR socket *)
| KPipe (t : tran) (s : side).

Definition is_raw (p : proto) : bool :=
  match p with
  | Pxpair | Pxpair1 | Pxpub | Pxsub | Pxreq | Pxrep | Pxpush | Pxpull | Pxsurveyor | Pxrespondent | Pxbus | Pxstar => true
  | _ => false
  end.

Definition mem (o : optid) (l : list optid) : bool := existsb (optid_beq o) l.

(* Options a protocol implementation both sets and gets (its SetOption / GetOption switch). *)
Definition proto_rw (p : proto) : list optid :=
  match p with
  | Ppair | Pxpair => [ORecvDeadline; OSendDeadline; OWriteQLen; OReadQLen; OBestEffort]
  | Ppair1 | Pxpair1 => [ORecvDeadline; OSendDeadline; OWriteQLen; OReadQLen; OBestEffort; OTtl]
  | Ppub | Pxpub => [OWriteQLen]
  | Psub | Pxsub => [ORecvDeadline; OReadQLen]
  | Preq => [ORecvDeadline; OSendDeadline; ORetryTime; OBestEffort; OFailNoPeers]
  | Pxreq => [ORecvDeadline; OSendDeadline; OBestEffort; OWriteQLen; OReadQLen]
  | Prep => [ORecvDeadline; OSendDeadline; OBestEffort; OWriteQLen; OTtl]
  | Pxrep | Pxrespondent | Prespondent => [ORecvDeadline; OSendDeadline; OBestEffort; OWriteQLen; OReadQLen; OTtl]
  | Ppush | Pxpush => [OSendDeadline; OBestEffort; OFailNoPeers; OWriteQLen]
  | Ppull | Pxpull => [ORecvDeadline; OReadQLen]
  | Psurveyor => [ORecvDeadline; OSurveyTime; OWriteQLen; OReadQLen]
  | Pxsurveyor | Pbus | Pxbus => [ORecvDeadline; OWriteQLen; OReadQLen]
  | Pstar | Pxstar => [ORecvDeadline; OWriteQLen; OReadQLen; OTtl]
  end.
(* write-only at protocol level *)
Definition proto_wo (p : proto) : list optid :=
  match p with
  | Psub => [OSubscribe; OUnsubscribe]
  | Ppull | Pxpull => [OResizeDiscards]
  | _ => []
  end.
(* read-only at protocol level: RAW, everywhere *)
Definition proto_ro (p : proto) : list optid := [ORaw].

Definition ctx_rw (p : proto) : list optid :=
  match p with
  | Preq => [ORecvDeadline; OSendDeadline; ORetryTime; OBestEffort; OFailNoPeers]
  | Prep | Prespondent => [ORecvDeadline; OSendDeadline; OBestEffort]
  | Psub => [ORecvDeadline; OReadQLen]
  | Psurveyor => [ORecvDeadline; OSurveyTime; OReadQLen]
  | _ => []
  end.
Definition ctx_wo (p : proto) : list optid :=
  match p with Psub => [OSubscribe; OUnsubscribe] | _ => [] end.

Definition has_contexts (p : proto) : bool :=
  match p with Preq | Prep | Psub | Psurveyor | Prespondent => true | _ => false end.

(* core socket (core/socket.go:349) *)
Definition core_sock_rw : list optid := [OMaxRecvSize; OReconnectTime; OMaxReconnectTime; ODialAsynch].
(* core dialer (core/dialer.go:86,111) *)
Definition core_dialer_rw : list optid := [OReconnectTime; OMaxReconnectTime; ODialAsynch].

(* transport dialers / listeners *)
Definition tdialer_rw (t : tran) : list optid :=
  match t with
  | OTInproc => []
  | OTTcp => [OMaxRecvSize; OKeepAliveTime; OKeepAlive; ONoDelay]
  | OTIpc => [OMaxRecvSize]
  | OTTls => [OMaxRecvSize; OKeepAliveTime; OKeepAlive; ONoDelay; OTlsConfig]
  | OTWs | OTWss => [ONoDelay; OWsCheckOrigin; OTlsConfig; OMaxRecvSize]
  end.
Definition tlistener_rw (t : tran) : list optid := tdialer_rw t.
Definition tlistener_wo (t : tran) : list optid :=
  match t with OTIpc => [OIpcChmod; OIpcOwner; OIpcGroup] | _ => [] end.
Definition tlistener_ro (t : tran) : list optid :=
  match t with OTWs | OTWss => [OWsMux; OWsHandler] | _ => [] end.

Definition can_set (k : objkind) (o : optid) : bool :=
  match k with
  | KProto p => mem o (proto_rw p) || mem o (proto_wo p)
  | KSock p => mem o (proto_rw p) || mem o (proto_wo p) || mem o core_sock_rw
  | KCtx p => mem o (ctx_rw p) || mem o (ctx_wo p)
  | KDialer t => mem o core_dialer_rw || mem o (tdialer_rw t)
  | KListener t => mem o (tlistener_rw t) || mem o (tlistener_wo t)
  | KPipe _ _ => false                                 (* pipes have no SetOption *)
  end.

Definition sock_can_get (p : proto) (o : optid) : bool :=
  mem o (proto_rw p) || mem o (proto_ro p) || mem o core_sock_rw.

(* What a transport pipe itself answers (transport/conn.go:103, inproc.go:117, ws.go:185 + 229/401,
   ipc_peer_linux.go:33). *)
Definition tpipe_own (t : tran) : list optid :=
  match t with
  | OTInproc => [OLocalAddr; ORemoteAddr]
  | OTTcp => [OMaxRecvSize; OLocalAddr; ORemoteAddr]
  | OTIpc => [OMaxRecvSize; OLocalAddr; ORemoteAddr; OPeerPid; OPeerUid; OPeerGid]
  | OTTls => [OMaxRecvSize; OLocalAddr; ORemoteAddr; OTlsState]
  | OTWs => [OLocalAddr; ORemoteAddr]
  | OTWss => [OLocalAddr; ORemoteAddr; OTlsState]
  end.
(* ws/wss pipes answer ErrBadOption for what they do not have, so core/pipe.go:191 passes the
   question on to the dialer (and from there to the socket) or the listener; every other pipe
   answers ErrBadProperty and the question stops there. *)
Definition tpipe_falls_through (t : tran) : bool := match t with OTWs | OTWss => true | _ => false end.

(* Options that exist in a ws dialer/listener option map only once they were set (ws.go:88). *)
Definition absent_until_set (k : objkind) (o : optid) : bool :=
  match k, o with
  | KDialer (OTWs | OTWss), (OTlsConfig | OWsCheckOrigin) => true
  | KListener (OTWs | OTWss), OTlsConfig => true
  | _, _ => false
  end.

Definition can_get (k : objkind) (o : optid) : bool :=
  match k with
  | KProto p => mem o (proto_rw p) || mem o (proto_ro p)
  | KSock p => sock_can_get p o
  | KCtx p => mem o (ctx_rw p)
  | KDialer t => mem o core_dialer_rw || mem o (tdialer_rw t) || sock_can_get Ppair o   (* dialer.go:107 *)
  | KListener t => mem o (tlistener_rw t) || mem o (tlistener_ro t)
  | KPipe t s =>
    mem o (tpipe_own t) ||
    (tpipe_falls_through t &&
     match s with
     | SDial => (mem o core_dialer_rw || (mem o (tdialer_rw t) && (negb (absent_until_set (KDialer t) o) || match t, o with OTWss, OTlsConfig => true | _, _ => false end)) || sock_can_get Ppair o)
     | SListen => (mem o (tlistener_rw t) && (negb (absent_until_set (KListener t) o) || match t, o with OTWss, OTlsConfig => true | _, _ => false end)) || mem o (tlistener_ro t)
     end)
  end.

(* --------------------------------------------------------------- the contract ---- *)

Inductive result := ROk | RBadOption | RBadValue.

Definition expected_id (k : objkind) (o : optid) (v : value) : result :=
  if negb (can_set k o) then RBadOption
  else if domain o v then ROk else RBadValue.

Definition expected (k : objkind) (name : string) (v : value) : result :=
  match lookup name with
  | None => RBadOption
  | Some o => expected_id k o v
  end.

(* ---- exceptions: (kind, option, value) triples where the code's check differs from the domain ---- *)

Inductive exc := ENone | ENarrow | EWiden | EEither.

Definition rep_like (k : objkind) : bool :=
  match k with
  | KProto (Prep | Prespondent) | KSock (Prep | Prespondent) | KCtx (Prep | Prespondent) => true
  | _ => false
  end.
Definition is_sock (k : objkind) : bool := match k with KSock _ => true | _ => false end.
Definition is_transport_end (k : objkind) : bool :=
  match k with KDialer OTInproc | KListener OTInproc => false | KDialer _ | KListener _ => true | _ => false end.

Definition exception (k : objkind) (o : optid) (v : value) : exc :=
  match o, v with
  (* X1  REP and RESPONDENT contexts (and through them the sockets) reject a zero or negative
         deadline: rep.go:231,240  respondent.go:223,232 (`val > 0`).  Narrowing. *)
  | (ORecvDeadline | OSendDeadline), VDur ns => if rep_like k && (ns <=? 0)%Z then ENarrow else ENone
  (* X2  the core socket stores any duration as reconnect time (core/socket.go:357,363) although
         the dialers it hands the value to require >= 0 (core/dialer.go:113,121).  Widening. *)
  | (OReconnectTime | OMaxReconnectTime), VDur ns => if is_sock k && (ns <? 0)%Z then EWiden else ENone
  (* X3  transport dialers/listeners take any int as MAX-RCV-SIZE (tcp.go:67,208 ipc_unix.go:73,203
         tlstcp.go:68,228 ws.go:120) although the socket requires >= 0 (core/socket.go:351); a negative
         limit behaves as "no limit" in conn.go.  Widening. *)
  | OMaxRecvSize, VInt z => if is_transport_end k && (z <? 0)%Z then EWiden else ENone
  (* X4  UNSUBSCRIBE of a topic that is not subscribed is ErrBadValue (sub.go: unsubscribe): the
         outcome depends on the subscriptions made so far, which this table does not track. *)
  | OUnsubscribe, (VBytes _ | VString) => EEither
  | _, _ => ENone
  end.

(* the result the code is expected to give, with the exceptions applied; None = either Ok or BadValue *)
Definition expected_exc_o (k : objkind) (o : option optid) (v : value) : option result :=
  match o with
  | None => Some RBadOption
  | Some o =>
    match expected_id k o v with
    | RBadOption => Some RBadOption
    | r =>
      match exception k o v with
      | ENone => Some r
      | ENarrow => Some RBadValue
      | EWiden => Some ROk
      | EEither => None
      end
    end
  end.
Definition expected_exc (k : objkind) (name : string) (v : value) : option result :=
  expected_exc_o k (lookup name) v.

(* ---- Get after Set ---- *)

(* Options whose Get does not read back what Set stored: NO-DELAY is accepted for compatibility and
   always reads true (tcp.go:118,253 tlstcp.go:116,277 ws.go:89). *)
Definition get_is_constant (o : optid) : bool := match o with ONoDelay => true | _ => false end.

Inductive getobs :=
| GSet        (* Get ok, equals the value just set, differs from the value before *)
| GBoth       (* Get ok, value set = value before = value now *)
| GUnchanged  (* Get ok, equals the value before, not the value set *)
| GNeither    (* Get ok, some other value *)
| GBadOption | GBadValue | GBadProperty | GPanic | GOtherErr.

Inductive setobs := SOk | SBadOption | SBadValue | SPanic | SOtherErr.

Definition set_matches (e : option result) (s : setobs) : bool :=
  match e, s with
  | Some ROk, SOk | Some RBadOption, SBadOption | Some RBadValue, SBadValue => true
  | None, (SOk | SBadValue) => true
  | _, _ => false
  end.

(* get_after_set: what Get must show after a Set that returned `s` (s is the OBSERVED set result, so
   a wrong Set result is reported once, by set_matches).  `present` = the option is currently readable. *)
Definition get_ok (k : objkind) (o : option optid) (s : setobs) (present : bool) (g : getobs) : bool :=
  match o with
  | None => match g with GBadOption => true | _ => false end
  | Some o =>
    if negb (can_get k o) then match g with GBadOption => true | _ => false end
    else if negb present then match g with GBadOption => true | _ => false end
    else match s with
         | SOk => if get_is_constant o then match g with GSet | GBoth | GUnchanged => true | _ => false end
                  else match g with GSet | GBoth => true | _ => false end
         | _ => match g with GUnchanged | GBoth => true | _ => false end       (* a refused Set changes nothing *)
         end
  end.

(* ---- a row of the grid: the first Get, then for every value (set, get) ---- *)

Definition setobs_of (c : ascii) : setobs :=
  if Ascii.eqb c "o" then SOk else if Ascii.eqb c "b" then SBadOption else if Ascii.eqb c "v" then SBadValue
  else if Ascii.eqb c "p" then SPanic else SOtherErr.
Definition getobs_of (c : ascii) : getobs :=
  if Ascii.eqb c "s" then GSet else if Ascii.eqb c "e" then GBoth else if Ascii.eqb c "u" then GUnchanged
  else if Ascii.eqb c "n" then GNeither else if Ascii.eqb c "b" then GBadOption else if Ascii.eqb c "v" then GBadValue
  else if Ascii.eqb c "r" then GBadProperty else if Ascii.eqb c "p" then GPanic else GOtherErr.

(* bad positions of a row: index of the value, and which half failed (0 = Set, 1 = Get) *)
Fixpoint row_bad (k : objkind) (name : string) (o : option optid) (present : bool) (i : N)
         (vals : list value) (obs : string) : list (N * N) :=
  match vals, obs with
  | v :: vals', String cs (String cg obs') =>
    let s := setobs_of cs in
    let g := getobs_of cg in
    let present' := present || match s with SOk => true | _ => false end in
    (if set_matches (expected_exc_o k o v) s then [] else [(i, 0%N)]) ++
    (if get_ok k o s present' g then [] else [(i, 1%N)]) ++
    row_bad k name o present' (N.succ i) vals' obs'
  | [], EmptyString => []
  | _, _ => [(i, 2%N)]                                    (* malformed row *)
  end.

(* whether a readable option is readable from the start *)
Definition initially_present (k : objkind) (ph : phase) (o : optid) : bool :=
  negb (absent_until_set k o) ||
  match k, ph, o with
  | (KDialer OTWss | KListener OTWss), PAfter, OTlsConfig => true     (* given to NewDialer/NewListener *)
  | _, _, _ => false
  end.

Definition g0_ok (k : objkind) (ph : phase) (o : option optid) (c : ascii) : bool :=
  match o with
  | None => Ascii.eqb c "b"
  | Some o => if can_get k o && initially_present k ph o then Ascii.eqb c "o" else Ascii.eqb c "b"
  end.

Definition check_row (vals : list value) (r : objkind * phase * string * string * string) : list (N * N) :=
  let '(k, ph, name, g0, obs) := r in
  let o := lookup name in
  let pres := match o with Some o' => initially_present k ph o' | None => false end in
  (match g0 with String c EmptyString => if g0_ok k ph o c then [] else [(999%N, 1%N)] | _ => [(999%N, 2%N)] end) ++
  row_bad k name o pres 0 vals obs.

(* what the model expects for Set, as a character (for reports): o b v, or ? for either *)
Definition expected_char (k : objkind) (name : string) (v : value) : ascii :=
  match expected_exc k name v with
  | Some ROk => "o" | Some RBadOption => "b" | Some RBadValue => "v" | None => "?"
  end%char.
Fixpoint string_of_chars (l : list ascii) : string :=
  match l with [] => EmptyString | c :: r => String c (string_of_chars r) end.
Definition expected_row (vals : list value) (k : objkind) (name : string) : string :=
  string_of_chars (map (expected_char k name) vals).

(* ---- pipes: GetOption only ---- *)
(* the designated error of a pipe that does not have the option: ErrBadProperty ("r"), except the
   ws/wss pipes which say ErrBadOption ("b") after the fall-through found nothing *)
Definition pipe_expected (t : tran) (s : side) (name : string) : ascii :=
  match lookup name with
  | Some o => if can_get (KPipe t s) o then "o" else if tpipe_falls_through t then "b" else "r"
  | None => if tpipe_falls_through t then "b" else "r"
  end%char.
Definition check_pipe (r : objkind * string * string * string) : bool :=
  let '(k, name, c, _) := r in
  match k, c with
  | KPipe t s, String ch EmptyString => Ascii.eqb ch (pipe_expected t s name)
  | _, _ => false
  end.

(* ------------------------------------------------------------- inheritance ---- *)
(* Which options a NEW context / dialer / listener takes over from the socket it is made on. *)

Inductive inh_src :=
| ICtx (p : proto)         (* OpenContext after the option was set on the socket *)
| IDialer (t : tran)       (* NewDialer after ... (PAIR socket) *)
| IListener (t : tran).

Definition inherits (s : inh_src) (o : optid) : bool :=
  match s with
  | ICtx Preq => mem o [OBestEffort; ORetryTime; OSendDeadline; ORecvDeadline; OFailNoPeers]    (* req.go:510 *)
  | ICtx Prespondent => mem o [OBestEffort; ORecvDeadline; OSendDeadline]                       (* respondent.go:452 *)
  | ICtx Psub => mem o [OReadQLen; ORecvDeadline]                                               (* sub.go:341 *)
  | ICtx Psurveyor => mem o [OSurveyTime; ORecvDeadline; OReadQLen]                             (* surveyor.go:333 *)
  | ICtx Prep => false                                   (* rep.go:418: a new REP context copies nothing *)
  | ICtx _ => false
  | IDialer t => mem o core_dialer_rw                                                           (* socket.go:244 *)
                 || (mem o [OMaxRecvSize] && mem o (tdialer_rw t))                              (* socket.go:268 *)
  | IListener t => mem o [OMaxRecvSize] && mem o (tlistener_rw t)                               (* socket.go:318 *)
  end.

(* what Get on the new object shows for a value v set on the socket beforehand:
   "s" the value, "n" another (its own default), "b" not readable there *)
Definition inherit_expected (s : inh_src) (name : string) : ascii :=
  match lookup name with
  | None => "b"
  | Some o =>
    match s with
    | ICtx p => if negb (mem o (ctx_rw p)) then "b" else if inherits s o then "s" else "n"
    | IDialer t => if inherits s o then "s"
                   else if mem o (tdialer_rw t) then (if absent_until_set (KDialer t) o then "b" else "n")
                   else if sock_can_get Ppair o then "s"       (* read through to the socket *)
                   else "b"
    | IListener t => if inherits s o then "s"
                     else if mem o (tlistener_rw t) then (if absent_until_set (KListener t) o then "b" else "n")
                     else if mem o (tlistener_ro t) then "n" else "b"
    end
  end%char.
Definition check_inherit (c : inh_src * string * value * string) : bool :=
  let '(s, name, _, r) := c in
  match r with String ch EmptyString => Ascii.eqb ch (inherit_expected s name) | _ => false end.

(* -------------------------------------------------- unsupported operations ---- *)

Inductive opres := OpOk | OpProtoOp | OpNotRaw | OpBadProto | OpClosed | OpOther.

Definition can_recv (p : proto) : bool :=
  match p with Ppub | Pxpub | Ppush | Pxpush => false | _ => true end.
Definition can_send (p : proto) : bool :=
  match p with Psub | Pxsub | Ppull | Pxpull => false | _ => true end.

(* SP protocol numbers (protocol/protocol.go) *)
Definition self_num (p : proto) : N :=
  match p with
  | Ppair | Pxpair => 16 | Ppair1 | Pxpair1 => 17
  | Ppub | Pxpub => 32 | Psub | Pxsub => 33
  | Preq | Pxreq => 48 | Prep | Pxrep => 49
  | Ppush | Pxpush => 80 | Ppull | Pxpull => 81
  | Psurveyor | Pxsurveyor => 98 | Prespondent | Pxrespondent => 99
  | Pbus | Pxbus => 112 | Pstar | Pxstar => 1600
  end%N.
Definition peer_num (p : proto) : N :=
  match p with
  | Ppair | Pxpair => 16 | Ppair1 | Pxpair1 => 17
  | Ppub | Pxpub => 33 | Psub | Pxsub => 32
  | Preq | Pxreq => 49 | Prep | Pxrep => 48
  | Ppush | Pxpush => 81 | Ppull | Pxpull => 80
  | Psurveyor | Pxsurveyor => 99 | Prespondent | Pxrespondent => 98
  | Pbus | Pxbus => 112 | Pstar | Pxstar => 1600
  end%N.

Inductive unsup_op :=
| URecv (p : proto) | USend (p : proto) | UOpenCtx (p : proto)
| UCtxRecv (p : proto) | UCtxSend (p : proto)
| UDevice (a b : option proto).     (* None = a nil socket *)

(* device.go:33: nil is replaced by the other socket; both nil => ErrClosed; then the protocol
   pairing is checked (ErrBadProto), then RAW on the first, then on the second (ErrNotRaw). *)
Definition device_result (a b : option proto) : opres :=
  let a' := match a with None => b | s => s end in
  let b' := match b with None => a' | s => s end in
  match a', b' with
  | Some x, Some y =>
    if negb ((self_num x =? peer_num y)%N && (self_num y =? peer_num x)%N) then OpBadProto
    else if negb (is_raw x) || negb (is_raw y) then OpNotRaw
    else OpOk
  | _, _ => OpClosed
  end.

(* Some r: the call must return exactly r.  None: the operation exists; it must not return ErrProtoOp. *)
Definition unsup_expected (u : unsup_op) : option opres :=
  match u with
  | URecv p => if can_recv p then None else Some OpProtoOp
  | USend p => if can_send p then None else Some OpProtoOp
  | UOpenCtx p => if has_contexts p then Some OpOk else Some OpProtoOp
  | UCtxRecv p => if can_recv p then None else Some OpProtoOp
  | UCtxSend p => if can_send p then None else Some OpProtoOp
  | UDevice a b => Some (device_result a b)
  end.

Definition opres_of (s : string) : opres :=
  if String.eqb s "ok" then OpOk else if String.eqb s "ProtoOp" then OpProtoOp
  else if String.eqb s "NotRaw" then OpNotRaw else if String.eqb s "BadProto" then OpBadProto
  else if String.eqb s "Closed" then OpClosed else OpOther.
Definition opres_eqb (a b : opres) : bool :=
  match a, b with
  | OpOk, OpOk | OpProtoOp, OpProtoOp | OpNotRaw, OpNotRaw | OpBadProto, OpBadProto | OpClosed, OpClosed | OpOther, OpOther => true
  | _, _ => false
  end.
(* observation = "<result>" or "<result>+side-effect" when the socket was no longer usable afterwards *)
Definition check_unsup (c : unsup_op * string) : bool :=
  let '(u, r) := c in
  match unsup_expected u with
  | Some e => opres_eqb (opres_of r) e
  | None => negb (opres_eqb (opres_of r) OpProtoOp) && negb (String.eqb r "panic")
  end.

(* -------------------------------------------------------- effect functions ---- *)
(* Time in milliseconds. *)

(* a deadline arm of a blocking call: ready once `elapsed` reaches the deadline; 0 = never *)
Definition deadline_ready (d elapsed : N) : bool := negb (d =? 0)%N && (d <=? elapsed)%N.
(* SURVEY-TIME: responses are accepted while the survey is open; 0 = for ever (options.go:72) *)
Definition survey_open (survey_time elapsed : N) : bool := (survey_time =? 0)%N || (elapsed <? survey_time)%N.
(* RETRY-TIME: the request is resent once the interval passed; 0 = never (options.go:44) *)
Definition retry_due (retry_time elapsed : N) : bool := negb (retry_time =? 0)%N && (retry_time <=? elapsed)%N.

(* ---- queue resize: a socket with its pipes, each pipe's receiver either idle or holding a message
        it could not put into the full receive queue ---- *)
Inductive rstate := RIdle | RBlocked (m : N).
Record qsock := { q_pipes : list (N * rstate); q_items : list N; q_cap : N }.

(* What a blocked receiver does when the queue is replaced.
   Retry      : offers its message to the new queue (xpair, xrep, xreq, sub, ... `case <-sizeQ:` -> loop)
   BreakOuter : gives up and closes its pipe (xbus.go:279-281 `case <-zq: m.Free(); break outer` then p.Close()) *)
Inductive policy := Retry | BreakOuter.

Definition room (items : list N) (cap : N) : bool := (N.of_nat (List.length items) <? cap)%N.

Fixpoint settle (pol : policy) (ps : list (N * rstate)) (items : list N) (cap : N)
  : list (N * rstate) * list N :=
  match ps with
  | [] => ([], items)
  | (id, RIdle) :: r => let '(r', it) := settle pol r items cap in ((id, RIdle) :: r', it)
  | (id, RBlocked m) :: r =>
    match pol with
    | BreakOuter => settle pol r items cap                          (* pipe closed, message dropped *)
    | Retry => if room items cap
               then let '(r', it) := settle pol r (items ++ [m]) cap in ((id, RIdle) :: r', it)
               else let '(r', it) := settle pol r items cap in ((id, RBlocked m) :: r', it)
    end
  end.

(* SetOption(READQ-LEN, n): a new, empty queue of capacity n replaces the old one, then the blocked
   receivers react *)
Definition resize (pol : policy) (s : qsock) (n : N) : qsock :=
  let '(ps, it) := settle pol (q_pipes s) [] n in
  {| q_pipes := ps; q_items := it; q_cap := n |}.

Definition pipe_ids (s : qsock) : list N := map fst (q_pipes s).

(* the policy each implementation follows *)
Definition code_policy (p : proto) : policy := match p with Pbus | Pxbus => BreakOuter | _ => Retry end.

Inductive effect :=
| ERecvBlock (p : proto) (deadline wait : N)       (* Recv with RECV-DEADLINE = deadline, observed for `wait` *)
| ESendBlock (p : proto) (deadline wait : N)       (* Send without a peer, SEND-DEADLINE = deadline *)
| ESurvey (survey_time reply_after : N)            (* a response sent reply_after ms after the survey *)
| ERetry (retry_time wait : N)                     (* did the peer see a second copy within `wait` *)
| EResize (p : proto) (o : optid) (full : bool) (newlen : N)
| EZeroQ (p : proto) (o : optid)
| EOrigin (sets : list bool)                       (* WEBSOCKET-CHECKORIGIN set to these values in turn, then an upgrade with a foreign Origin *)
| EResizeDeadline (p : proto)   (* a Recv bounded by RECV-DEADLINE 300 ms is pending while READQ-LEN is changed at 100 and 200 ms *)
| EAlias (on_context : bool)     (* SUBSCRIBE given as a []byte whose buffer the caller then re-uses (twice): which topics are subscribed afterwards *)
| EMaxRecv (tr : string) (via_socket : bool) (sets : list N) (msglen : N).
    (* MAX-RCV-SIZE set on a listener (or through its socket) to these values in turn, before and after Listen; then a new
       peer connects and sends one message of that length *)

(* what the PROPERTY requires to be observed *)
(* the receive limit: 0 = none, otherwise the largest message accepted (default 1 MiB) *)
Definition max_recv_admits (limit n : N) : bool := (limit =? 0)%N || (n <=? limit)%N.
Definition effect_expected (e : effect) : string :=
  match e with
  | ERecvBlock _ d w => if deadline_ready d w then "timeout" else "blocked"
  | ESendBlock _ d w => if deadline_ready d w then "timeout" else "blocked"
  | ESurvey st after => if survey_open st after then "accepted" else "rejected"
  | ERetry rt w => if retry_due rt w then "retried" else "noretry"
  | EResize _ _ _ _ => "kept"
  | EZeroQ _ _ => "works"
  | EOrigin sets => if last sets true then "refused" else "accepted"   (* the value in force is the last one set; default: check *)
  | EResizeDeadline _ => "ontime"   (* the accepted deadline still governs the pending call *)
  | EAlias _ => "kept"          (* the values accepted are the bytes that were passed, whatever the caller does with its buffer later *)
  | EMaxRecv _ _ sets n => if max_recv_admits (last sets 1048576%N) n then "delivered" else "dropped"
  end.
Definition check_effect (c : effect * string) : bool :=
  let '(e, r) := c in String.eqb r (effect_expected e).
