(* BUS (protocol/xbus, bus) and STAR (protocol/xstar, star) as deterministic machines over the L1 stimuli.
   Conventions (selector step, pipe ids, refused attach) are in Model/Chan.v; the receive filters are the ones of
   Model/Hops.v (`rx_model RXBus / RXStar`).  No proofs here. *)
From MV Require Export Model.Chan.
Open Scope N_scope.

(* one attached pipe: its sender goroutine's channel (sq, capacity cap = WRITEQ-LEN at attach time), the mock's
   mode (hold) and whether the sender goroutine is inside the pipe's SendMsg (infl) *)
Record bp := {
  bp_id : N;
  bp_hold : bool;
  bp_infl : bool;
  bp_sq : list msg;
  bp_cap : N }.
Definition set_bp_id (s : bp) (v : N) : bp :=
  {| bp_id := v; bp_hold := bp_hold s; bp_infl := bp_infl s; bp_sq := bp_sq s; bp_cap := bp_cap s |}.
Definition set_bp_hold (s : bp) (v : bool) : bp :=
  {| bp_id := bp_id s; bp_hold := v; bp_infl := bp_infl s; bp_sq := bp_sq s; bp_cap := bp_cap s |}.
Definition set_bp_infl (s : bp) (v : bool) : bp :=
  {| bp_id := bp_id s; bp_hold := bp_hold s; bp_infl := v; bp_sq := bp_sq s; bp_cap := bp_cap s |}.
Definition set_bp_sq (s : bp) (v : list msg) : bp :=
  {| bp_id := bp_id s; bp_hold := bp_hold s; bp_infl := bp_infl s; bp_sq := v; bp_cap := bp_cap s |}.
Definition set_bp_cap (s : bp) (v : N) : bp :=
  {| bp_id := bp_id s; bp_hold := bp_hold s; bp_infl := bp_infl s; bp_sq := bp_sq s; bp_cap := v |}.

(* the socket; sbr / srxw: RecvMsg calls / receiver goroutines still blocked on a recvq channel that xstar's
   READQ-LEN option has replaced *)
Record bus := {
  b_closed : bool;
  b_pipes : list bp;
  b_sqlen : N;
  b_rq : list msg;
  b_rqlen : N;
  b_br : list brecv;
  b_sbr : list brecv;
  b_rxw : list (N * msg);
  b_srxw : list (N * msg);
  b_rexp : N;
  b_ttl : N;
  b_now : N;
  b_amb : bool }.
Definition set_b_closed (s : bus) (v : bool) : bus :=
  {| b_closed := v; b_pipes := b_pipes s; b_sqlen := b_sqlen s; b_rq := b_rq s; b_rqlen := b_rqlen s; b_br := b_br s; b_sbr := b_sbr s; b_rxw := b_rxw s; b_srxw := b_srxw s; b_rexp := b_rexp s; b_ttl := b_ttl s; b_now := b_now s; b_amb := b_amb s |}.
Definition set_b_pipes (s : bus) (v : list bp) : bus :=
  {| b_closed := b_closed s; b_pipes := v; b_sqlen := b_sqlen s; b_rq := b_rq s; b_rqlen := b_rqlen s; b_br := b_br s; b_sbr := b_sbr s; b_rxw := b_rxw s; b_srxw := b_srxw s; b_rexp := b_rexp s; b_ttl := b_ttl s; b_now := b_now s; b_amb := b_amb s |}.
Definition set_b_sqlen (s : bus) (v : N) : bus :=
  {| b_closed := b_closed s; b_pipes := b_pipes s; b_sqlen := v; b_rq := b_rq s; b_rqlen := b_rqlen s; b_br := b_br s; b_sbr := b_sbr s; b_rxw := b_rxw s; b_srxw := b_srxw s; b_rexp := b_rexp s; b_ttl := b_ttl s; b_now := b_now s; b_amb := b_amb s |}.
Definition set_b_rq (s : bus) (v : list msg) : bus :=
  {| b_closed := b_closed s; b_pipes := b_pipes s; b_sqlen := b_sqlen s; b_rq := v; b_rqlen := b_rqlen s; b_br := b_br s; b_sbr := b_sbr s; b_rxw := b_rxw s; b_srxw := b_srxw s; b_rexp := b_rexp s; b_ttl := b_ttl s; b_now := b_now s; b_amb := b_amb s |}.
Definition set_b_rqlen (s : bus) (v : N) : bus :=
  {| b_closed := b_closed s; b_pipes := b_pipes s; b_sqlen := b_sqlen s; b_rq := b_rq s; b_rqlen := v; b_br := b_br s; b_sbr := b_sbr s; b_rxw := b_rxw s; b_srxw := b_srxw s; b_rexp := b_rexp s; b_ttl := b_ttl s; b_now := b_now s; b_amb := b_amb s |}.
Definition set_b_br (s : bus) (v : list brecv) : bus :=
  {| b_closed := b_closed s; b_pipes := b_pipes s; b_sqlen := b_sqlen s; b_rq := b_rq s; b_rqlen := b_rqlen s; b_br := v; b_sbr := b_sbr s; b_rxw := b_rxw s; b_srxw := b_srxw s; b_rexp := b_rexp s; b_ttl := b_ttl s; b_now := b_now s; b_amb := b_amb s |}.
Definition set_b_sbr (s : bus) (v : list brecv) : bus :=
  {| b_closed := b_closed s; b_pipes := b_pipes s; b_sqlen := b_sqlen s; b_rq := b_rq s; b_rqlen := b_rqlen s; b_br := b_br s; b_sbr := v; b_rxw := b_rxw s; b_srxw := b_srxw s; b_rexp := b_rexp s; b_ttl := b_ttl s; b_now := b_now s; b_amb := b_amb s |}.
Definition set_b_rxw (s : bus) (v : list (N * msg)) : bus :=
  {| b_closed := b_closed s; b_pipes := b_pipes s; b_sqlen := b_sqlen s; b_rq := b_rq s; b_rqlen := b_rqlen s; b_br := b_br s; b_sbr := b_sbr s; b_rxw := v; b_srxw := b_srxw s; b_rexp := b_rexp s; b_ttl := b_ttl s; b_now := b_now s; b_amb := b_amb s |}.
Definition set_b_srxw (s : bus) (v : list (N * msg)) : bus :=
  {| b_closed := b_closed s; b_pipes := b_pipes s; b_sqlen := b_sqlen s; b_rq := b_rq s; b_rqlen := b_rqlen s; b_br := b_br s; b_sbr := b_sbr s; b_rxw := b_rxw s; b_srxw := v; b_rexp := b_rexp s; b_ttl := b_ttl s; b_now := b_now s; b_amb := b_amb s |}.
Definition set_b_rexp (s : bus) (v : N) : bus :=
  {| b_closed := b_closed s; b_pipes := b_pipes s; b_sqlen := b_sqlen s; b_rq := b_rq s; b_rqlen := b_rqlen s; b_br := b_br s; b_sbr := b_sbr s; b_rxw := b_rxw s; b_srxw := b_srxw s; b_rexp := v; b_ttl := b_ttl s; b_now := b_now s; b_amb := b_amb s |}.
Definition set_b_ttl (s : bus) (v : N) : bus :=
  {| b_closed := b_closed s; b_pipes := b_pipes s; b_sqlen := b_sqlen s; b_rq := b_rq s; b_rqlen := b_rqlen s; b_br := b_br s; b_sbr := b_sbr s; b_rxw := b_rxw s; b_srxw := b_srxw s; b_rexp := b_rexp s; b_ttl := v; b_now := b_now s; b_amb := b_amb s |}.
Definition set_b_now (s : bus) (v : N) : bus :=
  {| b_closed := b_closed s; b_pipes := b_pipes s; b_sqlen := b_sqlen s; b_rq := b_rq s; b_rqlen := b_rqlen s; b_br := b_br s; b_sbr := b_sbr s; b_rxw := b_rxw s; b_srxw := b_srxw s; b_rexp := b_rexp s; b_ttl := b_ttl s; b_now := v; b_amb := b_amb s |}.
Definition set_b_amb (s : bus) (v : bool) : bus :=
  {| b_closed := b_closed s; b_pipes := b_pipes s; b_sqlen := b_sqlen s; b_rq := b_rq s; b_rqlen := b_rqlen s; b_br := b_br s; b_sbr := b_sbr s; b_rxw := b_rxw s; b_srxw := b_srxw s; b_rexp := b_rexp s; b_ttl := b_ttl s; b_now := b_now s; b_amb := v |}.

Definition bus0 : bus :=
  {| b_closed := false; b_pipes := []; b_sqlen := 128; b_rq := []; b_rqlen := 128; b_br := []; b_sbr := [];
     b_rxw := []; b_srxw := []; b_rexp := 0; b_ttl := 8; b_now := 0; b_amb := false |}.

(* `select { case p.sendQ <- m: default: m.Free() }`: taken at once when the pipe's sender goroutine waits on the
   channel, buffered while there is room, dropped otherwise *)
Definition offer (m : msg) (b : bp) : bp * list obs :=
  if negb (bp_infl b) && is_nil (bp_sq b)
  then ((if bp_hold b then set_bp_infl b true else b), [OTx (bp_id b) (fst m) (snd m)])
  else if qlen (bp_sq b) <? bp_cap b then (set_bp_sq b (bp_sq b ++ [m]), [])
  else (b, []).

(* the loop over s.pipes (tgt: which pipes are offered the message) *)
Definition fan (tgt : bp -> bool) (m : msg) (ps : list bp) : list bp * list obs :=
  (map (fun b => if tgt b then fst (offer m b) else b) ps,
   flat_map (fun b => if tgt b then snd (offer m b) else []) ps).

(* a held transmission completed: the sender goroutine goes on with what is buffered *)
Definition bp_release (b : bp) : bp * list obs :=
  match bp_sq b with
  | [] => (set_bp_infl b false, [])
  | m :: q =>
    if bp_hold b then (set_bp_infl (set_bp_sq b q) true, [OTx (bp_id b) (fst m) (snd m)])
    else (set_bp_infl (set_bp_sq b []) false, map (fun m => OTx (bp_id b) (fst m) (snd m)) (m :: q))
  end.

Definition b_get (s : bus) (p : N) : option bp := find (fun b => bp_id b =? p) (b_pipes s).
Definition b_attached (s : bus) (p : N) : bool := existsb (fun b => bp_id b =? p) (b_pipes s).
Definition b_drop (s : bus) (p : N) : bus :=
  set_b_srxw (set_b_rxw (set_b_pipes s (filter (fun b => negb (bp_id b =? p)) (b_pipes s)))
                        (filter (fun e => negb (fst e =? p)) (b_rxw s)))
             (filter (fun e => negb (fst e =? p)) (b_srxw s)).
Definition b_drop_all (s : bus) (ps : list N) : bus := fold_left b_drop ps s.

(* xbus.SendMsg: a 4-byte header names the pipe to skip and is stripped; any other header stays (id 0 matches
   no pipe).  bus.SendMsg clears the header first.  xstar.SendMsg requires a 4-byte header (else the message is
   dropped) and offers it to every pipe; star.SendMsg sets four zero bytes. *)
Definition bus_skip (hdr : bytes) : N * bytes := if (length hdr =? 4)%nat then (be_dec hdr, []) else (0, hdr).

Definition b_send (star cooked : bool) (s : bus) (t : N) (hdr body : bytes) : bus * list obs :=
  if b_closed s then (s, [ORet t (RErr EClosed)])
  else if star then
    let h := if cooked then [x00; x00; x00; x00] else hdr in
    if (length h =? 4)%nat then
      let '(ps, o) := fan (fun _ => true) (h, body) (b_pipes s) in (set_b_pipes s ps, o ++ [ORet t ROk])
    else (s, [ORet t ROk])
  else
    let '(skip, h) := bus_skip (if cooked then [] else hdr) in
    let '(ps, o) := fan (fun b => negb (pipe_id (bp_id b) =? skip)) (h, body) (b_pipes s) in
    (set_b_pipes s ps, o ++ [ORet t ROk]).

Definition b_view (cooked : bool) (m : msg) : ret := if cooked then view_cooked m else view_raw m.

(* the receiver goroutine of pipe p got `wire` from the transport *)
Definition b_deliver (star cooked : bool) (s : bus) (p : N) (wire : bytes) : bus * list obs :=
  match rx_model (if star then RXStar else RXBus) (b_ttl s) (pipe_id p) wire with
  | Some (Deliver h b) =>
    (* xstar: one copy to every pipe but the one it came from, then one copy up *)
    let '(ps, o1) := if star then fan (fun q => negb (bp_id q =? p)) (h, b) (b_pipes s) else (b_pipes s, []) in
    let s1 := set_b_pipes s ps in
    if star && b_closed s then
      (* s.closeq is ready: with room in recvq the select may take either arm; without, the receiver leaves and
         closes its pipe *)
      if qlen (b_rq s) <? b_rqlen s then (set_b_amb s1 true, o1)
      else (b_drop s1 p, o1 ++ [OPipeClose p])
    else
      let '(rq, br, w, o2) := up_arrive (b_view cooked) p (h, b) (b_rq s) (b_rqlen s) (b_br s) (b_rxw s) in
      (set_b_rxw (set_b_br (set_b_rq s1 rq) br) w, o1 ++ o2)
  | _ => (s, [])
  end.

Definition b_dues (s : bus) : list N := map br_due (b_br s) ++ map br_due (b_sbr s).

Definition b_step (star cooked : bool) (s : bus) (st : stim) : bus * list obs :=
  match st with
  | SCall t (CSend _ hdr body) => b_send star cooked s t hdr body
  | SCall t (CRecv _) =>
    match up_take (b_rq s) (b_rxw s) with
    | Some (m, q, w) =>
      if b_closed s then (set_b_amb s true, [])
      else (set_b_rxw (set_b_rq s q) w, [ORet t (b_view cooked m)])
    | None =>
      if b_closed s then (s, [ORet t (RErr EClosed)])
      else (set_b_br s (b_br s ++ [{| br_t := t; br_due := due_at (b_now s) (b_rexp s) |}]), [])
    end
  | SCall t (CSetOpt _ o v _) =>
    match o with
    | ORecvDeadline => (set_b_rexp s (opt_ms v), [ORet t ROk])
    | OWriteQLen =>
      if (v <? 0)%Z then (s, [ORet t (RErr EBadValue)])
      else (set_b_sqlen s (Z.to_N v), [ORet t ROk])      (* used for pipes attached from now on *)
    | OReadQLen =>
      if (v <? 0)%Z then (s, [ORet t (RErr EBadValue)])
      else if star then
        (* xstar: a new channel replaces recvq and nobody is told: RecvMsg calls and receiver goroutines blocked
           on the old channel stay blocked on it (until a deadline, the pipe's or the socket's close) *)
        (set_b_srxw (set_b_rxw (set_b_sbr (set_b_br (set_b_rqlen (set_b_rq s []) (Z.to_N v)) []) (b_sbr s ++ b_br s)) [])
                    (b_srxw s ++ b_rxw s), [ORet t ROk])
      else
        (* xbus: sizeQ is closed: blocked RecvMsg calls start over; a receiver goroutine holding a message
           discards it, leaves its loop and closes its pipe *)
        (b_drop_all
           (set_b_amb
              (set_b_br (set_b_rqlen (set_b_rq s []) (Z.to_N v))
                        (b_br s))      (* they keep the deadline of their call (repaired in /repo: the timer was restarted) *)
              (b_amb s || several (b_br s)))     (* woken RecvMsg calls block again in any order *)
           (map fst (b_rxw s)),
         map (fun e => OPipeClose (fst e)) (b_rxw s) ++ [ORet t ROk])
    | OTtl =>
      if star then if ttl_accepts v then (set_b_ttl s (Z.to_N v), [ORet t ROk]) else (s, [ORet t (RErr EBadValue)])
      else (s, [ORet t (RErr EBadOption)])
    | _ => (s, [ORet t (RErr EBadOption)])
    end
  | SCall t (COpenCtx _) => (s, [ORet t (RErr EProtoOp)])
  | SCall t (CCloseCtx _) => (s, [])
  | SCall t CCloseSock =>
    if b_closed s then (s, [ORet t (RErr EClosed)])
    else
      let s1 := set_b_sbr (set_b_br (set_b_closed s true) []) [] in
      let o := rets EClosed (map br_t (b_br s)) ++ rets EClosed (map br_t (b_sbr s)) in
      if star then
        (* receiver goroutines that hold a message see s.closeq, leave and close their pipes *)
        let gone := map fst (b_rxw s) ++ map fst (b_srxw s) in
        (b_drop_all s1 gone, o ++ map OPipeClose gone ++ [ORet t ROk])
      else (s1, o ++ [ORet t ROk])
  | SAddPipe p =>
    if b_closed s then (s, [ORet (attach_key p) (RErr EClosed)])
    else (set_b_pipes s (b_pipes s ++ [{| bp_id := p; bp_hold := false; bp_infl := false; bp_sq := []; bp_cap := b_sqlen s |}]), [])
  | SDropPipe p => (b_drop s p, [])
  | SDeliver p wire =>
    if b_attached s p && negb (existsb (fun e => fst e =? p) (b_rxw s ++ b_srxw s))
    then b_deliver star cooked s p wire
    else (s, [ONotTaken p])
  | SHold p h => (set_b_pipes s (map (fun b => if bp_id b =? p then set_bp_hold b h else b) (b_pipes s)), [])
  | SRelease p ok =>
    match b_get s p with
    | Some b =>
      if bp_infl b then
        if ok then
          let '(b', o) := bp_release b in
          (set_b_pipes s (map (fun x => if bp_id x =? p then b' else x) (b_pipes s)), o)
        else (b_drop s p, [])
      else (s, [])
    | None => (s, [])
    end
  | SPass until =>
    let '(br, o1) := expire_r until (b_br s) in
    let '(sbr, o2) := expire_r until (b_sbr s) in
    (set_b_amb (set_b_now (set_b_sbr (set_b_br s br) sbr) until) (b_amb s || pass_amb until (b_dues s)), o1 ++ o2)
  | STick at_ =>
    (set_b_amb (set_b_now s (N.max (b_now s) at_)) (b_amb s || tick_amb at_ (b_dues s)), [])
  end.

Definition b_blocked (s : bus) : list N := map br_t (b_br s) ++ map br_t (b_sbr s).

(* ============================== the combined model ============================== *)
(* kinds: 1 bus, 2 xbus, 3 star, 4 xstar *)
Inductive bsstate := BS0 | BS (star cooked : bool) (s : bus).
Definition bs_select (k : N) : bsstate :=
  if k =? 1 then BS false true bus0 else if k =? 2 then BS false false bus0
  else if k =? 3 then BS true true bus0 else BS true false bus0.
Definition bs_step (x : bsstate) (st : stim) : bsstate * list obs :=
  match x with
  | BS0 => match st with SCall _ (COpenCtx k) => (bs_select k, []) | _ => (BS0, []) end
  | BS a c s => let '(s', o) := b_step a c s st in (BS a c s', o)
  end.
Definition bs_blocked (x : bsstate) : list N := match x with BS0 => [] | BS _ _ s => b_blocked s end.
Definition bs_ambig (x : bsstate) : bool := match x with BS0 => false | BS _ _ s => b_amb s end.
Definition bs_model : model := {| m_state := bsstate; m_step := bs_step; m_blocked := bs_blocked; m_ambiguous := bs_ambig |}.
