(* SURVEYOR (protocol/surveyor/surveyor.go) and XSURVEYOR (protocol/xsurveyor/xsurveyor.go) as deterministic
   state machines over the L1 stimuli.  One step = one stimulus followed by everything the library's goroutines
   do until quiescence.  Survey ids are modelled as the index of the SendMsg call that created them (the
   implementation uses nextID+index with the top bit set; the harness renames).  No proofs here.

   [fixed] (cooked model only): the code as found arms `time.AfterFunc(survExpire, cancel)` also for
   SURVEY-TIME = 0, which the documentation defines as "infinite": the survey is cancelled at once.  The model
   with fixed=false follows the code; fixed=true follows the documentation (no timer for 0). *)
From MV Require Export Lib.Proto.
Open Scope N_scope.

(* ---- association helpers (insertion order preserved; adel removes every binding of the key) ---- *)
Fixpoint aget {V} (k : N) (l : list (N * V)) : option V :=
  match l with [] => None | (k', v) :: r => if k =? k' then Some v else aget k r end.
Fixpoint aset {V} (k : N) (v : V) (l : list (N * V)) : list (N * V) :=
  match l with [] => [(k, v)] | (k', v') :: r => if k =? k' then (k, v) :: r else (k', v') :: aset k v r end.
Fixpoint adel {V} (k : N) (l : list (N * V)) : list (N * V) :=
  match l with [] => [] | (k', v') :: r => if k =? k' then adel k r else (k', v') :: adel k r end.

Definition nlen {A} (l : list A) : N := N.of_nat (length l).
Definition opt_is (o : option N) (k : N) : bool := match o with Some j => j =? k | None => false end.

(* ================= pipes: the per-pipe send queue and sender goroutine (same code in both protocols) ======== *)
(* p.sendQ has capacity pp_cap (WRITEQ-LEN when the pipe was added).  The sender goroutine takes one message at a
   time and calls the transport's SendMsg: with the mock in hold mode that call blocks (pp_busy) until released. *)
Record spipe := { pp_id : N; pp_hold : bool; pp_busy : bool; pp_cap : N; pp_q : list (bytes * bytes) }.

Definition pp_with (pp : spipe) (busy : bool) (q : list (bytes * bytes)) : spipe :=
  {| pp_id := pp_id pp; pp_hold := pp_hold pp; pp_busy := busy; pp_cap := pp_cap pp; pp_q := q |}.
Definition pp_sethold (pp : spipe) (h : bool) : spipe :=
  {| pp_id := pp_id pp; pp_hold := h; pp_busy := pp_busy pp; pp_cap := pp_cap pp; pp_q := pp_q pp |}.

(* `select { case p.sendQ <- m: default: }` for one pipe: an idle sender takes the message at once (that is the
   transmission); a sender stuck in a held send leaves it in the queue if there is room; else it is dropped *)
Definition push1 (h b : bytes) (pp : spipe) : spipe * list obs :=
  if pp_busy pp then
    (if nlen (pp_q pp) <? pp_cap pp then pp_with pp true (pp_q pp ++ [(h, b)]) else pp, [])
  else (pp_with pp (pp_hold pp) (pp_q pp), [OTx (pp_id pp) h b]).

(* best-effort broadcast over the pipes attached at that moment *)
Fixpoint bcast (h b : bytes) (l : list spipe) : list spipe * list obs :=
  match l with
  | [] => ([], [])
  | pp :: r => let '(pp', o) := push1 h b pp in let '(r', os) := bcast h b r in (pp' :: r', o ++ os)
  end.

(* the sender loop after a held send completed: transmit queued messages until the queue is empty or a send is held *)
Fixpoint drain1 (fuel : nat) (pp : spipe) : spipe * list obs :=
  match fuel with
  | O => (pp, [])
  | S f =>
    if pp_busy pp then (pp, [])
    else match pp_q pp with
         | [] => (pp, [])
         | (h, b) :: q' => let '(pp', os) := drain1 f (pp_with pp (pp_hold pp) q') in (pp', OTx (pp_id pp) h b :: os)
         end
  end.

Definition find_pipe (p : N) (l : list spipe) : option spipe := find (fun x => pp_id x =? p) l.
Definition put_pipe (x : spipe) (l : list spipe) : list spipe := map (fun y => if pp_id y =? pp_id x then x else y) l.
Definition del_pipe (p : N) (l : list spipe) : list spipe := filter (fun y => negb (pp_id y =? p)) l.
Definition new_pipe (p cap : N) : spipe := {| pp_id := p; pp_hold := false; pp_busy := false; pp_cap := cap; pp_q := [] |}.

(* SRelease p ok on the pipe list: (pipes, observations, pipe failed) *)
Definition release_pipe (p : N) (ok : bool) (l : list spipe) : list spipe * list obs :=
  match find_pipe p l with
  | Some pp =>
    if pp_busy pp then
      if ok then let '(pp', os) := drain1 (S (length (pp_q pp))) (pp_with pp false (pp_q pp)) in (put_pipe pp' l, os)
      else (del_pipe p l, [])     (* a failed transport send closes the pipe (done by the mock, as core does) *)
    else (l, [])
  | None => (l, [])
  end.

(* ---- timers (both protocols) ---- *)
Inductive tkind := TkSurvey (id : N) | TkRecv (t : N).
Record timer := { tm_id : N; tm_ctx : N; tm_kind : tkind; tm_due : N }.
Definition tol : N := 20.   (* ms *)

Fixpoint earliest (l : list timer) (best : option timer) : option timer :=
  match l with
  | [] => best
  | t :: r => earliest r (match best with
                          | None => Some t
                          | Some b => if tm_due t <? tm_due b then Some t else Some b
                          end)
  end.
Definition del_timer (o : option N) (l : list timer) : list timer :=
  match o with None => l | Some i => filter (fun t => negb (tm_id t =? i)) l end.

(* ================= cooked SURVEYOR ================= *)
Record sctx := {
  x_closed : bool;
  x_rqlen : N;                 (* READQ-LEN: capacity of the queue of surveys started from now on *)
  x_recvExp : Z;               (* RECV-DEADLINE, ms; a timer only if > 0 *)
  x_survExp : Z;               (* SURVEY-TIME, ms *)
  x_surv : option N;           (* c.surv: id of the current survey *)
}.
(* one entry of sock.surveys: a registered (not cancelled) survey *)
Record survey := {
  v_ctx : N;
  v_cap : N;
  v_q : list (bytes * bytes);  (* recvQ: (header, body) of queued responses *)
  v_timer : option N;
}.
(* a RecvMsg call blocked in its select on (c.closeQ, surv.recvQ, timeq) *)
Record thread := { th_t : N; th_c : N; th_id : N; th_timer : option N }.

Record sstate := {
  ctxs : list (N * sctx);
  survs : list (N * survey);
  pipes : list spipe;
  sclosed : bool;
  wqlen : N;
  nsend : N;                   (* SendMsg calls so far = last id issued *)
  threads : list thread;       (* oldest first *)
  timers : list timer;
  ntimer : N;
  now : N;
  out : list obs;              (* observations of the current step, newest first *)
  ambig : bool;
}.

Definition ctx_init : sctx := {| x_closed := false; x_rqlen := 128; x_recvExp := 0%Z; x_survExp := 1000%Z; x_surv := None |}.
Definition init : sstate :=
  {| ctxs := [(0, ctx_init)]; survs := []; pipes := []; sclosed := false; wqlen := 128; nsend := 0; threads := [];
     timers := []; ntimer := 0; now := 0; out := []; ambig := false |}.

Definition set_ctxs (s : sstate) (v : list (N * sctx)) : sstate :=
  {| ctxs := v; survs := survs s; pipes := pipes s; sclosed := sclosed s; wqlen := wqlen s; nsend := nsend s; threads := threads s;
     timers := timers s; ntimer := ntimer s; now := now s; out := out s; ambig := ambig s |}.
Definition set_survs (s : sstate) (v : list (N * survey)) : sstate :=
  {| ctxs := ctxs s; survs := v; pipes := pipes s; sclosed := sclosed s; wqlen := wqlen s; nsend := nsend s; threads := threads s;
     timers := timers s; ntimer := ntimer s; now := now s; out := out s; ambig := ambig s |}.
Definition set_pipes (s : sstate) (v : list spipe) : sstate :=
  {| ctxs := ctxs s; survs := survs s; pipes := v; sclosed := sclosed s; wqlen := wqlen s; nsend := nsend s; threads := threads s;
     timers := timers s; ntimer := ntimer s; now := now s; out := out s; ambig := ambig s |}.
Definition set_threads (s : sstate) (v : list thread) : sstate :=
  {| ctxs := ctxs s; survs := survs s; pipes := pipes s; sclosed := sclosed s; wqlen := wqlen s; nsend := nsend s; threads := v;
     timers := timers s; ntimer := ntimer s; now := now s; out := out s; ambig := ambig s |}.
Definition set_timers (s : sstate) (v : list timer) (n : N) : sstate :=
  {| ctxs := ctxs s; survs := survs s; pipes := pipes s; sclosed := sclosed s; wqlen := wqlen s; nsend := nsend s; threads := threads s;
     timers := v; ntimer := n; now := now s; out := out s; ambig := ambig s |}.
Definition set_misc (s : sstate) (closed : bool) (wq ns nw : N) (amb : bool) : sstate :=
  {| ctxs := ctxs s; survs := survs s; pipes := pipes s; sclosed := closed; wqlen := wq; nsend := ns; threads := threads s;
     timers := timers s; ntimer := ntimer s; now := nw; out := out s; ambig := amb |}.
Definition set_now (s : sstate) (nw : N) (amb : bool) : sstate := set_misc s (sclosed s) (wqlen s) (nsend s) nw amb.
Definition emit (s : sstate) (o : obs) : sstate :=
  {| ctxs := ctxs s; survs := survs s; pipes := pipes s; sclosed := sclosed s; wqlen := wqlen s; nsend := nsend s; threads := threads s;
     timers := timers s; ntimer := ntimer s; now := now s; out := o :: out s; ambig := ambig s |}.
Definition emits (s : sstate) (os : list obs) : sstate :=
  {| ctxs := ctxs s; survs := survs s; pipes := pipes s; sclosed := sclosed s; wqlen := wqlen s; nsend := nsend s; threads := threads s;
     timers := timers s; ntimer := ntimer s; now := now s; out := rev os ++ out s; ambig := ambig s |}.
Definition clear_out (s : sstate) : sstate :=
  {| ctxs := ctxs s; survs := survs s; pipes := pipes s; sclosed := sclosed s; wqlen := wqlen s; nsend := nsend s; threads := threads s;
     timers := timers s; ntimer := ntimer s; now := now s; out := []; ambig := ambig s |}.
Definition set_ctx (s : sstate) (c : N) (x : sctx) : sstate := set_ctxs s (aset c x (ctxs s)).

Definition x_with_surv (x : sctx) (v : option N) : sctx :=
  {| x_closed := x_closed x; x_rqlen := x_rqlen x; x_recvExp := x_recvExp x; x_survExp := x_survExp x; x_surv := v |}.
Definition x_with_closed (x : sctx) (b : bool) : sctx :=
  {| x_closed := b; x_rqlen := x_rqlen x; x_recvExp := x_recvExp x; x_survExp := x_survExp x; x_surv := x_surv x |}.
Definition x_with_opts (x : sctx) (rq : N) (re se : Z) : sctx :=
  {| x_closed := x_closed x; x_rqlen := rq; x_recvExp := re; x_survExp := se; x_surv := x_surv x |}.
Definition v_with_q (v : survey) (q : list (bytes * bytes)) : survey :=
  {| v_ctx := v_ctx v; v_cap := v_cap v; v_q := q; v_timer := v_timer v |}.

Definition stop_timer (s : sstate) (o : option N) : sstate := set_timers s (del_timer o (timers s)) (ntimer s).
Definition arm (s : sstate) (c : N) (k : tkind) (ms : N) : sstate * N :=
  let i := ntimer s + 1 in
  (set_timers s (timers s ++ [{| tm_id := i; tm_ctx := c; tm_kind := k; tm_due := now s + ms |}]) i, i).

Definition surv_hdr (id : N) : bytes := be_enc 4 (2 ^ 31 + id).

(* every RecvMsg blocked on survey id returns err (it sees the closed recvQ, or the context's closeQ) *)
Definition fail_threads (s : sstate) (id err : N) : sstate :=
  let hit := filter (fun th => th_id th =? id) (threads s) in
  let s := set_threads s (filter (fun th => negb (th_id th =? id)) (threads s)) in
  fold_left (fun s th => emit (stop_timer s (th_timer th)) (ORet (th_t th) (RErr err))) hit s.

(* survey.cancel(err): once per survey; a survey is registered from start() until here *)
Definition cancel (s : sstate) (id err : N) : sstate :=
  match aget id (survs s) with
  | None => s
  | Some v =>
    let s := stop_timer s (v_timer v) in
    let s := match aget (v_ctx v) (ctxs s) with
             | Some x => if opt_is (x_surv x) id then set_ctx s (v_ctx v) (x_with_surv x None) else s
             | None => s
             end in
    let s := set_survs s (adel id (survs s)) in
    fail_threads s id err
  end.

(* the wire word of a response, as the receiver reads it: Some id iff >= 4 bytes with the top bit set.
   (Registered ids all carry the top bit, so a word without it matches nothing.) *)
Definition wire_id (body : bytes) : option N :=
  match body with
  | a :: b :: c :: d :: _ => let w := be_dec [a; b; c; d] in if 2 ^ 31 <=? w then Some (w - 2 ^ 31) else None
  | _ => None
  end.
Definition split4 (body : bytes) : bytes * bytes :=
  match body with a :: b :: c :: d :: r => ([a; b; c; d], r) | _ => ([], []) end.

(* the receiver goroutine's handling of one message *)
Definition pipe_recv (s : sstate) (body : bytes) : sstate :=
  match wire_id body with
  | None => s
  | Some id =>
    match aget id (survs s) with
    | None => s
    | Some v =>
      let m := split4 body in
      (* select { case surv.recvQ <- m: default: } -- a waiting RecvMsg takes it directly *)
      match filter (fun th => th_id th =? id) (threads s) with
      | th :: more =>
        let s := set_threads s (filter (fun x => negb (th_t x =? th_t th)) (threads s)) in
        let s := stop_timer s (th_timer th) in
        (* which of several receivers blocked on the same queue gets it is not enumerated *)
        let s := set_now s (now s) (ambig s || match more with [] => false | _ => true end) in
        emit s (ORet (th_t th) (RMsg (fst m) (snd m)))
      | [] =>
        if nlen (v_q v) <? v_cap v then set_survs s (aset id (v_with_q v (v_q v ++ [m])) (survs s)) else s
      end
    end
  end.

Definition z_ms (v : Z) : N := Z.to_N v.

(* close() of one context (socket lock held) *)
Definition close_ctx (s : sstate) (c : N) : sstate :=
  match aget c (ctxs s) with
  | None => s
  | Some x =>
    if x_closed x then s
    else
      let s := set_ctx s c (x_with_closed x true) in
      match x_surv x with Some id => cancel s id EClosed | None => s end
  end.

Definition do_call (fixed : bool) (s : sstate) (t : N) (k : call) : sstate :=
  match k with
  | CSend c _ body =>
    (* the id is taken before anything is checked *)
    let s := set_misc s (sclosed s) (wqlen s) (nsend s + 1) (now s) (ambig s) in
    let id := nsend s in
    match aget c (ctxs s) with
    | None => emit s (ORet t (RErr EClosed))
    | Some x =>
      if sclosed s || x_closed x then emit s (ORet t (RErr EClosed))
      else
        let old := x_surv x in
        (* newsurv.start *)
        let forever := fixed && (x_survExp x =? 0)%Z in
        let '(s, tm) := if (0 <? x_survExp x)%Z then let '(s, i) := arm s c (TkSurvey id) (z_ms (x_survExp x)) in (s, Some i)
                        else (s, None) in
        let s := set_survs s (aset id {| v_ctx := c; v_cap := x_rqlen x; v_q := []; v_timer := tm |} (survs s)) in
        let s := set_ctx s c (x_with_surv x (Some id)) in
        (* go oldsurv.cancel(ErrCanceled) *)
        let s := match old with Some o => cancel s o ECanceled | None => s end in
        (* broadcast to a snapshot of the pipes *)
        let '(ps, os) := bcast (surv_hdr id) body (pipes s) in
        let s := emits (set_pipes s ps) os in
        let s := emit s (ORet t ROk) in
        (* time.AfterFunc(d <= 0) runs its function at once *)
        if (0 <? x_survExp x)%Z || forever then s else cancel s id EProtoState
    end
  | CRecv c =>
    match aget c (ctxs s) with
    | None => emit s (ORet t (RErr EClosed))
    | Some x =>
      if sclosed s then emit s (ORet t (RErr EClosed))
      else match x_surv x with
           | None => emit s (ORet t (RErr EProtoState))
           | Some id =>
             match aget id (survs s) with
             | None => emit s (ORet t (RErr EProtoState))
             | Some v =>
               match v_q v with
               | m :: q' => emit (set_survs s (aset id (v_with_q v q') (survs s))) (ORet t (RMsg (fst m) (snd m)))
               | [] =>
                 let '(s, tm) := if (0 <? x_recvExp x)%Z then let '(s, i) := arm s c (TkRecv t) (z_ms (x_recvExp x)) in (s, Some i)
                                 else (s, None) in
                 set_threads s (threads s ++ [{| th_t := t; th_c := c; th_id := id; th_timer := tm |}])
               end
             end
           end
    end
  | CSetOpt c o v _ =>
    match aget c (ctxs s) with
    | None => emit s (ORet t (RErr EClosed))
    | Some x =>
      let ok x' := emit (set_ctx s c x') (ORet t ROk) in
      match o with
      | OSurveyTime => ok (x_with_opts x (x_rqlen x) (x_recvExp x) v)
      | ORecvDeadline => ok (x_with_opts x (x_rqlen x) v (x_survExp x))
      | OReadQLen => if (0 <=? v)%Z then ok (x_with_opts x (Z.to_N v) (x_recvExp x) (x_survExp x)) else emit s (ORet t (RErr EBadValue))
      | OWriteQLen =>
        (* a socket option: context 0 is the socket itself in the harness *)
        if c =? 0 then
          if (0 <=? v)%Z then emit (set_misc s (sclosed s) (Z.to_N v) (nsend s) (now s) (ambig s)) (ORet t ROk)
          else emit s (ORet t (RErr EBadValue))
        else emit s (ORet t (RErr EBadOption))
      | _ => emit s (ORet t (RErr EBadOption))
      end
    end
  | COpenCtx c =>
    if sclosed s then emit s (ORet t (RErr EClosed))
    else match aget c (ctxs s), aget 0 (ctxs s) with
         | None, Some d => emit (set_ctx s c (x_with_opts ctx_init (x_rqlen d) (x_recvExp d) (x_survExp d))) (ORet t ROk)
         | _, _ => s      (* context numbers are never reused by the harness *)
         end
  | CCloseCtx c =>
    match aget c (ctxs s) with
    | None => emit s (ORet t (RErr EClosed))
    | Some x => if x_closed x then emit s (ORet t (RErr EClosed)) else emit (close_ctx s c) (ORet t ROk)
    end
  | CCloseSock =>
    if sclosed s then emit s (ORet t (RErr EClosed))
    else
      let s := set_misc s true (wqlen s) (nsend s) (now s) (ambig s) in
      emit (fold_left (fun s cx => close_ctx s (fst cx)) (ctxs s) s) (ORet t ROk)
  end.

(* ---- timer callbacks ---- *)
Definition fire (s : sstate) (tm : timer) : sstate :=
  match tm_kind tm with
  | TkSurvey id => cancel s id EProtoState
  | TkRecv t =>
    match filter (fun th => th_t th =? t) (threads s) with
    | th :: _ => emit (set_threads s (filter (fun x => negb (th_t x =? t)) (threads s))) (ORet t (RErr ERecvTimeout))
    | [] => s
    end
  end.

(* fire every timer that is due, earliest first *)
Fixpoint fire_due (fuel : nat) (s : sstate) : sstate :=
  match fuel with
  | O => s
  | S f =>
    match earliest (filter (fun t => tm_due t <=? now s) (timers s)) None with
    | None => s
    | Some tm =>
      let rest := filter (fun t => negb (tm_id t =? tm_id tm)) (timers s) in
      (* a callback due within `tol` of the end of the sleep may or may not have run; two timers of one context due
         within `tol` of each other may run in either order: not enumerated *)
      let close_pair := existsb (fun t => (tm_ctx t =? tm_ctx tm) && (tm_due t <? tm_due tm + tol)) rest in
      let s := set_now (set_timers s rest (ntimer s)) (now s) (ambig s || (now s <? tm_due tm + tol) || close_pair) in
      fire_due f (fire s tm)
    end
  end.

Definition step_raw (fixed : bool) (s : sstate) (st : stim) : sstate :=
  match st with
  | SCall t k => do_call fixed s t k
  | SAddPipe p => if sclosed s then s else set_pipes s (pipes s ++ [new_pipe p (wqlen s)])
  | SDropPipe p => set_pipes s (del_pipe p (pipes s))
  | SDeliver p body =>
    match find_pipe p (pipes s) with
    | Some _ => pipe_recv s body
    | None => emit s (ONotTaken p)
    end
  | SHold p h =>
    match find_pipe p (pipes s) with
    | Some pp => set_pipes s (put_pipe (pp_sethold pp h) (pipes s))
    | None => s
    end
  | SRelease p ok => let '(ps, os) := release_pipe p ok (pipes s) in emits (set_pipes s ps) os
  | SPass until =>
    let s := fire_due 64 (set_now s until (ambig s)) in
    (* likewise for timers that become due just after the sleep *)
    set_now s (now s) (ambig s || existsb (fun t => tm_due t <? until + tol) (timers s))
  | STick at_ =>
    (* outside a sleep no timer may be (nearly) due: else the order of its callback and the next stimulus is open *)
    set_now s (N.max (now s) at_) (ambig s || existsb (fun t => tm_due t <? at_ + tol) (timers s))
  end.

Definition step (fixed : bool) (s : sstate) (st : stim) : sstate * list obs :=
  let s := step_raw fixed (clear_out s) st in (s, rev (out s)).
Definition blocked (s : sstate) : list N := map th_t (threads s).

Definition survey_model (fixed : bool) : model :=
  {| m_state := sstate; m_step := step fixed; m_blocked := blocked; m_ambiguous := ambig |}.

(* ================= raw XSURVEYOR ================= *)
Record rthread := { rt_t : N; rt_timer : option N }.
Record rstate := {
  r_pipes : list spipe;
  r_closed : bool;
  r_wqlen : N; r_rqlen : N; r_recvExp : Z;
  r_q : list (bytes * bytes);           (* s.recvQ *)
  r_stuck : list (N * (bytes * bytes)); (* pipe -> the message its receiver goroutine is blocked sending to a full recvQ *)
  r_threads : list rthread;
  r_timers : list timer; r_ntimer : N; r_now : N;
  r_out : list obs; r_ambig : bool;
}.
Definition rinit : rstate :=
  {| r_pipes := []; r_closed := false; r_wqlen := 128; r_rqlen := 128; r_recvExp := 0%Z; r_q := []; r_stuck := [];
     r_threads := []; r_timers := []; r_ntimer := 0; r_now := 0; r_out := []; r_ambig := false |}.

Definition rset_pipes (s : rstate) (v : list spipe) : rstate :=
  {| r_pipes := v; r_closed := r_closed s; r_wqlen := r_wqlen s; r_rqlen := r_rqlen s; r_recvExp := r_recvExp s; r_q := r_q s;
     r_stuck := r_stuck s; r_threads := r_threads s; r_timers := r_timers s; r_ntimer := r_ntimer s; r_now := r_now s;
     r_out := r_out s; r_ambig := r_ambig s |}.
Definition rset_opts (s : rstate) (closed : bool) (wq rq : N) (re : Z) : rstate :=
  {| r_pipes := r_pipes s; r_closed := closed; r_wqlen := wq; r_rqlen := rq; r_recvExp := re; r_q := r_q s;
     r_stuck := r_stuck s; r_threads := r_threads s; r_timers := r_timers s; r_ntimer := r_ntimer s; r_now := r_now s;
     r_out := r_out s; r_ambig := r_ambig s |}.
Definition rset_q (s : rstate) (q : list (bytes * bytes)) (st : list (N * (bytes * bytes))) : rstate :=
  {| r_pipes := r_pipes s; r_closed := r_closed s; r_wqlen := r_wqlen s; r_rqlen := r_rqlen s; r_recvExp := r_recvExp s; r_q := q;
     r_stuck := st; r_threads := r_threads s; r_timers := r_timers s; r_ntimer := r_ntimer s; r_now := r_now s;
     r_out := r_out s; r_ambig := r_ambig s |}.
Definition rset_threads (s : rstate) (v : list rthread) : rstate :=
  {| r_pipes := r_pipes s; r_closed := r_closed s; r_wqlen := r_wqlen s; r_rqlen := r_rqlen s; r_recvExp := r_recvExp s; r_q := r_q s;
     r_stuck := r_stuck s; r_threads := v; r_timers := r_timers s; r_ntimer := r_ntimer s; r_now := r_now s;
     r_out := r_out s; r_ambig := r_ambig s |}.
Definition rset_timers (s : rstate) (v : list timer) (n : N) : rstate :=
  {| r_pipes := r_pipes s; r_closed := r_closed s; r_wqlen := r_wqlen s; r_rqlen := r_rqlen s; r_recvExp := r_recvExp s; r_q := r_q s;
     r_stuck := r_stuck s; r_threads := r_threads s; r_timers := v; r_ntimer := n; r_now := r_now s;
     r_out := r_out s; r_ambig := r_ambig s |}.
Definition rset_now (s : rstate) (nw : N) (amb : bool) : rstate :=
  {| r_pipes := r_pipes s; r_closed := r_closed s; r_wqlen := r_wqlen s; r_rqlen := r_rqlen s; r_recvExp := r_recvExp s; r_q := r_q s;
     r_stuck := r_stuck s; r_threads := r_threads s; r_timers := r_timers s; r_ntimer := r_ntimer s; r_now := nw;
     r_out := r_out s; r_ambig := amb |}.
Definition remits (s : rstate) (os : list obs) : rstate :=
  {| r_pipes := r_pipes s; r_closed := r_closed s; r_wqlen := r_wqlen s; r_rqlen := r_rqlen s; r_recvExp := r_recvExp s; r_q := r_q s;
     r_stuck := r_stuck s; r_threads := r_threads s; r_timers := r_timers s; r_ntimer := r_ntimer s; r_now := r_now s;
     r_out := rev os ++ r_out s; r_ambig := r_ambig s |}.
Definition remit (s : rstate) (o : obs) : rstate := remits s [o].
Definition rclear_out (s : rstate) : rstate :=
  {| r_pipes := r_pipes s; r_closed := r_closed s; r_wqlen := r_wqlen s; r_rqlen := r_rqlen s; r_recvExp := r_recvExp s; r_q := r_q s;
     r_stuck := r_stuck s; r_threads := r_threads s; r_timers := r_timers s; r_ntimer := r_ntimer s; r_now := r_now s;
     r_out := []; r_ambig := r_ambig s |}.
Definition rambig (s : rstate) (b : bool) : rstate := rset_now s (r_now s) (r_ambig s || b).

Definition rarm (s : rstate) (t : N) : rstate * option N :=
  if (0 <? r_recvExp s)%Z then
    let i := r_ntimer s + 1 in
    (rset_timers s (r_timers s ++ [{| tm_id := i; tm_ctx := 0; tm_kind := TkRecv t; tm_due := r_now s + z_ms (r_recvExp s) |}]) i, Some i)
  else (s, None).

(* after RecvMsg took a message from the queue: a receiver goroutine blocked on the full queue gets the free slot *)
Definition rrefill (s : rstate) : rstate :=
  match r_stuck s with
  | [] => s
  | (p, m) :: more =>
    if nlen (r_q s) <? r_rqlen s
    then rambig (rset_q s (r_q s ++ [m]) more) (match more with [] => false | _ => true end)
    else s
  end.

(* the receiver goroutine of pipe p got a message from the peer *)
Definition rpipe_recv (s : rstate) (p : N) (body : bytes) : rstate :=
  match body with
  | _ :: _ :: _ :: _ :: _ =>
    let m := split4 body in
    match r_threads s with
    | th :: more =>
      (* a RecvMsg is waiting on recvQ: which of several is not enumerated *)
      let s := rset_timers (rset_threads s more) (del_timer (rt_timer th) (r_timers s)) (r_ntimer s) in
      rambig (remit s (ORet (rt_t th) (RMsg (fst m) (snd m)))) (match more with [] => false | _ => true end)
    | [] =>
      if nlen (r_q s) <? r_rqlen s then rset_q s (r_q s ++ [m]) (r_stuck s)
      else rset_q s (r_q s) (r_stuck s ++ [(p, m)])      (* blocks in `case recvQ <- m` *)
    end
  | _ => s
  end.

Definition rdo_call (s : rstate) (t : N) (k : call) : rstate :=
  match k with
  | CSend _ hdr body =>
    if r_closed s then remit s (ORet t (RErr EClosed))
    else let '(ps, os) := bcast hdr body (r_pipes s) in remit (remits (rset_pipes s ps) os) (ORet t ROk)
  | CRecv _ =>
    match r_q s with
    | m :: q' =>
      (* RecvMsg does not look at s.closed: with the socket closed both recvQ and closeQ are ready *)
      let s := rambig s (r_closed s) in
      rrefill (remit (rset_q s q' (r_stuck s)) (ORet t (RMsg (fst m) (snd m))))
    | [] =>
      match r_stuck s with
      | (p, m) :: more =>
        (* READQ-LEN 0: direct hand-over from a blocked receiver goroutine *)
        let s := rambig s (r_closed s || match more with [] => false | _ => true end) in
        remit (rset_q s [] more) (ORet t (RMsg (fst m) (snd m)))
      | [] =>
        if r_closed s then remit s (ORet t (RErr EClosed))
        else let '(s, tm) := rarm s t in rset_threads s (r_threads s ++ [{| rt_t := t; rt_timer := tm |}])
      end
    end
  | CSetOpt _ o v _ =>
    match o with
    | ORecvDeadline => remit (rset_opts s (r_closed s) (r_wqlen s) (r_rqlen s) v) (ORet t ROk)
    | OWriteQLen => if (0 <=? v)%Z then remit (rset_opts s (r_closed s) (Z.to_N v) (r_rqlen s) (r_recvExp s)) (ORet t ROk)
                    else remit s (ORet t (RErr EBadValue))
    | OReadQLen =>
      if (0 <=? v)%Z then
        (* a new queue replaces the old one (its messages are lost); everybody waiting on the old one starts over:
           blocked receiver goroutines drop their message, blocked RecvMsg calls wait on the new queue with the deadline of
           their call (the code as found restarted the deadline: repaired in /repo) *)
        let s := rset_q (rset_opts s (r_closed s) (r_wqlen s) (Z.to_N v) (r_recvExp s)) [] [] in
        remit s (ORet t ROk)
      else remit s (ORet t (RErr EBadValue))
    | _ => remit s (ORet t (RErr EBadOption))
    end
  | COpenCtx _ => remit s (ORet t (RErr EProtoOp))
  | CCloseCtx _ => remit s (ORet t (RErr EProtoOp))     (* not generated: context 0 is the socket *)
  | CCloseSock =>
    if r_closed s then remit s (ORet t (RErr EClosed))
    else
      let s := rset_opts s true (r_wqlen s) (r_rqlen s) (r_recvExp s) in
      let ths := r_threads s in
      let s := fold_left (fun s th => remit (rset_timers s (del_timer (rt_timer th) (r_timers s)) (r_ntimer s))
                                            (ORet (rt_t th) (RErr EClosed))) ths (rset_threads s []) in
      remit s (ORet t ROk)
  end.

Definition rfire (s : rstate) (tm : timer) : rstate :=
  match tm_kind tm with
  | TkRecv t =>
    match filter (fun th => rt_t th =? t) (r_threads s) with
    | _ :: _ => remit (rset_threads s (filter (fun x => negb (rt_t x =? t)) (r_threads s))) (ORet t (RErr ERecvTimeout))
    | [] => s
    end
  | TkSurvey _ => s
  end.
Fixpoint rfire_due (fuel : nat) (s : rstate) : rstate :=
  match fuel with
  | O => s
  | S f =>
    match earliest (filter (fun t => tm_due t <=? r_now s) (r_timers s)) None with
    | None => s
    | Some tm =>
      let s := rset_timers s (filter (fun t => negb (tm_id t =? tm_id tm)) (r_timers s)) (r_ntimer s) in
      rfire_due f (rfire (rambig s (r_now s <? tm_due tm + tol)) tm)
    end
  end.

Definition rstep_raw (s : rstate) (st : stim) : rstate :=
  match st with
  | SCall t k => rdo_call s t k
  | SAddPipe p => if r_closed s then s else rset_pipes s (r_pipes s ++ [new_pipe p (r_wqlen s)])
  | SDropPipe p => rset_q (rset_pipes s (del_pipe p (r_pipes s))) (r_q s) (adel p (r_stuck s))
  | SDeliver p body =>
    match find_pipe p (r_pipes s), aget p (r_stuck s) with
    | Some _, None => rpipe_recv s p body
    | _, _ => remit s (ONotTaken p)
    end
  | SHold p h =>
    match find_pipe p (r_pipes s) with
    | Some pp => rset_pipes s (put_pipe (pp_sethold pp h) (r_pipes s))
    | None => s
    end
  | SRelease p ok =>
    let '(ps, os) := release_pipe p ok (r_pipes s) in
    let s := remits (rset_pipes s ps) os in
    match find_pipe p ps with Some _ => s | None => rset_q s (r_q s) (adel p (r_stuck s)) end
  | SPass until =>
    let s := rfire_due 64 (rset_now s until (r_ambig s)) in
    rambig s (existsb (fun t => tm_due t <? until + tol) (r_timers s))
  | STick at_ =>
    rset_now s (N.max (r_now s) at_) (r_ambig s || existsb (fun t => tm_due t <? at_ + tol) (r_timers s))
  end.

Definition rstep (s : rstate) (st : stim) : rstate * list obs :=
  let s := rstep_raw (rclear_out s) st in (s, rev (r_out s)).
Definition rblocked (s : rstate) : list N := map rt_t (r_threads s).
Definition xsurvey_model : model :=
  {| m_state := rstate; m_step := rstep; m_blocked := rblocked; m_ambiguous := r_ambig |}.
