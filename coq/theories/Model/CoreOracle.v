(* Property oracles over core histories (decidable forms of the C13 / C14 / C10 / C12 conclusions). *)
From MV Require Import Model.Core.
Open Scope N_scope.

Definition all_obs (h : list kstep_rec) : list kobs := flat_map (fun r => snd (fst r)) h.
Definition cnt (f : kobs -> bool) (l : list kobs) : nat := length (filter f l).
Definition pipes_of (l : list kobs) : list N :=
  nodup N.eq_dec (flat_map (fun o => match o with HAttaching p | HAttached p | HDetached p | PAdd p _ | PRemove p | TClose p => [p] | _ => [] end) l).

Fixpoint index_of (f : kobs -> bool) (l : list kobs) (i : nat) : option nat :=
  match l with [] => None | o :: r => if f o then Some i else index_of f r (S i) end.

(* C13: for each pipe: Attaching exactly once and before every other event of that pipe; Attached at most once;
   Detached at most once and only if the protocol accepted the pipe; a pipe refused by the protocol or closed
   during Attaching gets neither Attached nor Detached; the protocol is told of arrival at most once and of
   departure at most once and only after an accepted arrival.  (7777/8888 are emitted by the harness for a
   duplicate live id / an id outside 1..2^31-1.) *)
(* the events that concern pipe p, in order *)
Definition about (p : N) (o : kobs) : bool :=
  match o with
  | HAttaching q | HAttached q | HDetached q | PRemove q | TClose q => q =? p
  | PAdd q _ => q =? p
  | _ => false
  end.
Definition evs (p : N) (l : list kobs) : list kobs := filter (about p) l.

Definition c13_events_ok (e : list kobs) : bool :=
  let is k o := match k, o with
                | 0, HAttaching _ | 1, HAttached _ | 2, HDetached _ | 4, PRemove _ | 5, TClose _ => true
                | 3, PAdd _ true => true
                | 6, PAdd _ false => true
                | _, _ => false end in
  (match e with HAttaching _ :: _ => true | _ => false end)       (* Attaching first ... *)
  && (Nat.eqb (cnt (is 0) e) 1)                                    (* ... and exactly once *)
  && (Nat.leb (cnt (is 1) e) 1) && (Nat.leb (cnt (is 2) e) 1)
  && (Nat.leb (cnt (is 3) e + cnt (is 6) e) 1) && (Nat.leb (cnt (is 4) e) 1)
  && (Nat.leb (cnt (is 1) e) (cnt (is 3) e))            (* Attached only if accepted *)
  && (Nat.leb (cnt (is 2) e) (cnt (is 3) e))            (* Detached only if accepted *)
  && (Nat.leb (cnt (is 4) e) (cnt (is 3) e))            (* RemovePipe only after an accepted AddPipe *)
  && (Nat.eqb (cnt (is 2) e) (cnt (is 4) e))            (* Detached iff the protocol was told of the departure *)
  && (* once the transport pipe is closed, an accepted pipe has been detached (the run-down is complete at quiescence) *)
     (if Nat.ltb 0 (cnt (is 5) e) then Nat.eqb (cnt (is 2) e) (cnt (is 3) e) else true).
Definition c13_pipe_ok (l : list kobs) (p : N) : bool := c13_events_ok (evs p l).
Definition c13_oracle (h : list kstep_rec) : option N :=
  let l := all_obs h in
  if existsb (fun o => match o with HAttaching 7777 | HDetached 8888 | HAttaching 8888 => true | _ => false end) l then Some 7777
  else match filter (fun p => negb (c13_pipe_ok l p)) (pipes_of l) with p :: _ => Some p | [] => None end.

(* C10 (core part): once the socket is closed and quiescent, no pipe id is in use and no pipe is listed *)
Fixpoint c10_from (closed : bool) (i : N) (h : list kstep_rec) : option N :=
  match h with
  | [] => None
  | (st, os, _) :: r =>
    let closed := closed || match st with KCloseSock _ => true | _ => false end in
    if closed && existsb (fun o => match o with Ids n | Listed n => negb (n =? 0) | _ => false end) os then Some i
    else c10_from closed (N.succ i) r
  end.
Definition c10_oracle (h : list kstep_rec) : option N := c10_from false 0 h.

(* C14 / C10: no dial attempt is started after the dialer or the socket was closed *)
Fixpoint c14_from (dclosed : list N) (sclosed : bool) (i : N) (h : list kstep_rec) : option N :=
  match h with
  | [] => None
  | (st, os, _) :: r =>
    if existsb (fun o => match o with DialAttempt d => sclosed || existsb (N.eqb d) dclosed | _ => false end) os then Some i
    else
      let dclosed := match st with KCloseDialer _ d => d :: dclosed | _ => dclosed end in
      let sclosed := sclosed || match st with KCloseSock _ => true | _ => false end in
      c14_from dclosed sclosed (N.succ i) r
  end.
Definition c14_oracle (h : list kstep_rec) : option N := c14_from [] false 0 h.

(* C12: a Dial that failed for a network reason can be retried: the next Dial on that dialer is not
   refused with "address in use"; likewise a failed Listen *)
Fixpoint c12_from (failedD failedL : list N) (pend : list (N * N)) (i : N) (h : list kstep_rec) : option N :=
  match h with
  | [] => None
  | (st, os, _) :: r =>
    let pend := match st with KDial t d => (t, d) :: pend | _ => pend end in
    let bad := match st with
               | KDial t d => existsb (N.eqb d) failedD && existsb (fun o => match o with KRet t' e => (t' =? t) && (e =? KEAddrInUse) | _ => false end) os
               | KListenAgain t l => existsb (N.eqb l) failedL && existsb (fun o => match o with KRet t' e => (t' =? t) && (e =? KEAddrInUse) | _ => false end) os
               | _ => false end in
    if bad then Some i else
    (* only the immediate retry is constrained *)
    let failedD := match st with KDial _ d => filter (fun x => negb (x =? d)) failedD | _ => failedD end in
    let failedL := match st with KListenAgain _ l => filter (fun x => negb (x =? l)) failedL | _ => failedL end in
    let failedD := fold_left (fun acc o => match o with
                                           | KRet t e => if e =? KERefused then
                                                           match find (fun x => fst x =? t) pend with Some (_, d) => d :: acc | None => acc end
                                                         else acc
                                           | _ => acc end) os failedD in
    let failedL := match st with KListen t l true => l :: failedL | _ => failedL end in
    c12_from failedD failedL pend (N.succ i) r
  end.
Definition c12_oracle (h : list kstep_rec) : option N := c12_from [] [] [] 0 h.

Fixpoint kmodel_trace (idfix dialfix : bool) (s : kstate) (h : list kstim) : list kstep_rec :=
  match h with
  | [] => []
  | st :: r => let '(s', os) := kstep idfix dialfix s st in (st, os, kblocked s') :: kmodel_trace idfix dialfix s' r
  end.
