(* Control-flow skeletons of the Go functions (regenerated from the source by harness/cmd/go2cfg) and the
   lock-balance checker that is evaluated on them.  No proofs here. *)
From Coq Require Export String.
From Coq Require Export List NArith Bool.
Export ListNotations.
Open Scope N_scope.

Definition lockid := N.         (* canonical access path of a mutex within one function, interned *)

Inductive instr :=
| ILock (l : lockid)
| IUnlock (l : lockid)
| IDeferUnlock (l : lockid)
| ICondWait (l : lockid)        (* releases and re-acquires l: lockset unchanged, l must be held *)
| IBlocking (kind : N)          (* channel send/receive or select without default, I/O, sleep, WaitGroup.Wait *)
| IOther.

Record block := { body : list instr; succs : list nat; returns : bool }.
Record func := { fname : string; entry_held : list lockid; blocks : list block }.

(* ---- machine state: sorted duplicate-free list of held locks, stack of deferred unlocks ---- *)
Record st := { held : list lockid; defers : list lockid }.

Inductive err :=
| SelfDeadlock (l : lockid)      (* Lock of a mutex this goroutine already holds *)
| UnlockUnheld (l : lockid)
| WaitUnheld (l : lockid)
| BlockingHeld (kind : N) (l : lockid)
| ReturnHolding (l : lockid).    (* return with a lock still held / or entry lock released *)

Inductive res (A : Type) := Ok (a : A) | Bad (e : err).
Arguments Ok {A} a. Arguments Bad {A} e.

Fixpoint mem (l : lockid) (h : list lockid) : bool :=
  match h with [] => false | x :: r => (x =? l) || mem l r end.
Fixpoint insert (l : lockid) (h : list lockid) : list lockid :=
  match h with
  | [] => [l]
  | x :: r => if l <? x then l :: h else if l =? x then h else x :: insert l r
  end.
Fixpoint remove (l : lockid) (h : list lockid) : list lockid :=
  match h with [] => [] | x :: r => if x =? l then r else x :: remove l r end.

(* policy for blocking operations: `may_block kind l` = a blocking instruction of this kind is tolerated
   while l is held.  C12 uses the permissive policy (balance only), C10/C12-strict the real one. *)
Definition policy := N -> lockid -> bool.

Definition exec_instr (pol : policy) (s : st) (i : instr) : res st :=
  match i with
  | ILock l => if mem l (held s) then Bad (SelfDeadlock l)
               else Ok {| held := insert l (held s); defers := defers s |}
  | IUnlock l => if mem l (held s) then Ok {| held := remove l (held s); defers := defers s |}
                 else Bad (UnlockUnheld l)
  | IDeferUnlock l => Ok {| held := held s; defers := l :: defers s |}
  | ICondWait l => if mem l (held s) then Ok s else Bad (WaitUnheld l)
  | IBlocking k =>
    match filter (fun l => negb (pol k l)) (held s) with
    | [] => Ok s
    | l :: _ => Bad (BlockingHeld k l)
    end
  | IOther => Ok s
  end.

Fixpoint exec_body (pol : policy) (s : st) (b : list instr) : res st :=
  match b with
  | [] => Ok s
  | i :: r => match exec_instr pol s i with Ok s' => exec_body pol s' r | Bad e => Bad e end
  end.

(* at a return the deferred unlocks run (LIFO), after which exactly the entry locks must be held *)
Fixpoint run_defers (h : list lockid) (d : list lockid) : res (list lockid) :=
  match d with
  | [] => Ok h
  | l :: r => if mem l h then run_defers (remove l h) r else Bad (UnlockUnheld l)
  end.

Fixpoint list_eqb (a b : list lockid) : bool :=
  match a, b with
  | [], [] => true
  | x :: a', y :: b' => (x =? y) && list_eqb a' b'
  | _, _ => false
  end.

Definition first_diff (h e : list lockid) : lockid :=
  match filter (fun l => negb (mem l e)) h with
  | l :: _ => l
  | [] => match filter (fun l => negb (mem l h)) e with l :: _ => l | [] => 0 end
  end.

Definition at_return (entry : list lockid) (s : st) : res unit :=
  match run_defers (held s) (defers s) with
  | Bad e => Bad e
  | Ok h => if list_eqb h entry then Ok tt else Bad (ReturnHolding (first_diff h entry))
  end.

(* one block: body, then the return obligation if it is a returning block *)
Definition exec_block (pol : policy) (entry : list lockid) (b : block) (s : st) : res st :=
  match exec_body pol s (body b) with
  | Bad e => Bad e
  | Ok s' => if returns b then match at_return entry s' with Ok _ => Ok s' | Bad e => Bad e end else Ok s'
  end.

(* ---- paths ---- *)
(* a path is a list of block indices; valid if it starts at 0 and follows successor edges *)
Fixpoint valid_from (f : func) (cur : nat) (p : list nat) : bool :=
  match p with
  | [] => true
  | n :: r => existsb (Nat.eqb n) (match nth_error (blocks f) cur with Some b => succs b | None => [] end)
              && valid_from f n r
  end.

Fixpoint run_from (pol : policy) (f : func) (cur : nat) (s : st) (p : list nat) : res st :=
  match nth_error (blocks f) cur with
  | None => Ok s
  | Some b =>
    match exec_block pol (entry_held f) b s with
    | Bad e => Bad e
    | Ok s' => match p with [] => Ok s' | n :: r => run_from pol f n s' r end
    end
  end.

Definition init_st (f : func) : st := {| held := entry_held f; defers := [] |}.
(* execution along the path 0 :: p *)
Definition run_path (pol : policy) (f : func) (p : list nat) : res st := run_from pol f 0%nat (init_st f) p.

(* ---- the checker: one abstract state per block, then a local consistency check ---- *)
Definition st_eqb (a b : st) : bool := list_eqb (held a) (held b) && list_eqb (defers a) (defers b).

Definition assignment := list (option st).

Fixpoint set_if_none (A : assignment) (n : nat) (s : st) : assignment :=
  match A, n with
  | [], _ => []
  | None :: r, O => Some s :: r
  | x :: r, O => x :: r
  | x :: r, S n' => x :: set_if_none r n' s
  end.

Definition propagate_block (pol : policy) (f : func) (A : assignment) (i : nat) : assignment :=
  match nth_error A i, nth_error (blocks f) i with
  | Some (Some s), Some b =>
    match exec_body pol s (body b) with
    | Ok s' => fold_left (fun A' n => set_if_none A' n s') (succs b) A
    | Bad _ => A
    end
  | _, _ => A
  end.

Definition sweep (pol : policy) (f : func) (A : assignment) : assignment :=
  fold_left (propagate_block pol f) (seq 0 (length (blocks f))) A.

Fixpoint iterate {X} (n : nat) (g : X -> X) (x : X) : X :=
  match n with O => x | S n' => iterate n' g (g x) end.

Definition compute (pol : policy) (f : func) : assignment :=
  iterate (length (blocks f)) (sweep pol f)
          (match blocks f with [] => [] | _ :: r => Some (init_st f) :: map (fun _ => None) r end).

(* local consistency of an assignment: this is what soundness rests on (compute is untrusted) *)
Definition block_ok (pol : policy) (f : func) (A : assignment) (i : nat) : bool :=
  match nth_error A i, nth_error (blocks f) i with
  | Some (Some s), Some b =>
    match exec_block pol (entry_held f) b s with
    | Bad _ => false
    | Ok s' => forallb (fun n => match nth_error A n with
                                | Some (Some t) => st_eqb s' t
                                | _ => false end) (succs b)
    end
  | Some None, Some _ => true           (* unreachable in the assignment: nothing to check *)
  | _, _ => false
  end.

Definition consistent (pol : policy) (f : func) (A : assignment) : bool :=
  Nat.eqb (length A) (length (blocks f)) &&
  match nth_error A 0 with Some (Some s) => st_eqb s (init_st f) | _ => match blocks f with [] => true | _ => false end end &&
  forallb (block_ok pol f A) (seq 0 (length (blocks f))).

Definition balanced_fn (pol : policy) (f : func) : bool := consistent pol f (compute pol f).

Definition permissive : policy := fun _ _ => true.

(* first offending block / error, for reports *)
Definition first_error (pol : policy) (f : func) : option (nat * err) :=
  let A := compute pol f in
  let errs := flat_map (fun i =>
    match nth_error A i, nth_error (blocks f) i with
    | Some (Some s), Some b => match exec_block pol (entry_held f) b s with Bad e => [(i, e)] | Ok _ => [] end
    | _, _ => []
    end) (seq 0 (length (blocks f))) in
  match errs with e :: _ => Some e | [] => None end.
