(* Property oracles over PAIR / PUSH / PULL histories: decidable forms of the C02 conclusions, evaluated on the
   implementation's traces (and on the model's).  They use the payload conventions of harness/l1kit: a Send body
   starts with be16(call id), a delivered payload with be16(0x8000 + delivery number). *)
From MV Require Import Model.PairPush.
Open Scope N_scope.

Definition tag_of (b : bytes) : N := match b with x :: y :: _ => be_dec [x; y] | _ => 2 ^ 20 end.

(* association lists keyed by N *)
Fixpoint aget {V} (k : N) (l : list (N * V)) : option V :=
  match l with [] => None | (k', v) :: r => if k =? k' then Some v else aget k r end.
Fixpoint aset {V} (k : N) (v : V) (l : list (N * V)) : list (N * V) :=
  match l with [] => [(k, v)] | (k', v') :: r => if k =? k' then (k, v) :: r else (k', v') :: aset k v r end.
Definition nrem (x : N) (l : list N) : list N := filter (fun y => negb (y =? x)) l.
Definition nadd (x : N) (l : list N) : list N := if nmem x l then l else l ++ [x].
Definition msg_eqb (a b : msg) : bool := bytes_eqb (fst a) (fst b) && bytes_eqb (snd a) (snd b).

Definition is_pair (k : N) : bool := (1 <=? k) && (k <=? 4).
Definition is_push (k : N) : bool := k =? 5.
Definition kind_of (st : stim) : N := match st with SCall _ (COpenCtx k) => k | _ => 0 end.

(* was the attach of pipe p refused in this step, and with which error *)
Definition refusal (p : N) (os : list obs) : option N :=
  match filter (fun o => match o with ORet t (RErr _) => t =? attach_key p | _ => false end) os with
  | ORet _ (RErr e) :: _ => Some e
  | _ => None
  end.
Definition ret_of (t : N) (os : list obs) : option ret :=
  match filter (fun o => match o with ORet t' _ => t' =? t | _ => false end) os with
  | ORet _ r :: _ => Some r
  | _ => None
  end.
Definition ret_ok (t : N) (os : list obs) : bool := match ret_of t os with Some ROk => true | _ => false end.

(* ---------------- transmit side ---------------- *)
Record srec := {
  sr_start : N;
  sr_m : msg;
  sr_ret : option N;
  sr_must : bool }.
Definition set_sr_start (s : srec) (v : N) : srec :=
  {| sr_start := v; sr_m := sr_m s; sr_ret := sr_ret s; sr_must := sr_must s |}.
Definition set_sr_m (s : srec) (v : msg) : srec :=
  {| sr_start := sr_start s; sr_m := v; sr_ret := sr_ret s; sr_must := sr_must s |}.
Definition set_sr_ret (s : srec) (v : option N) : srec :=
  {| sr_start := sr_start s; sr_m := sr_m s; sr_ret := v; sr_must := sr_must s |}.
Definition set_sr_must (s : srec) (v : bool) : srec :=
  {| sr_start := sr_start s; sr_m := sr_m s; sr_ret := sr_ret s; sr_must := v |}.
Record txo := {
  x_kind : N;
  x_step : N;
  x_sends : list (N * srec);
  x_att : list N;
  x_holds : list N;
  x_busy : list N;
  x_closed : bool;
  x_best : bool;
  x_written : list N;
  x_maxst : list (N * N);
  x_pend : list N;
  x_q0 : bool }.
Definition set_x_kind (s : txo) (v : N) : txo :=
  {| x_kind := v; x_step := x_step s; x_sends := x_sends s; x_att := x_att s; x_holds := x_holds s; x_busy := x_busy s; x_closed := x_closed s; x_best := x_best s; x_written := x_written s; x_maxst := x_maxst s; x_pend := x_pend s; x_q0 := x_q0 s |}.
Definition set_x_step (s : txo) (v : N) : txo :=
  {| x_kind := x_kind s; x_step := v; x_sends := x_sends s; x_att := x_att s; x_holds := x_holds s; x_busy := x_busy s; x_closed := x_closed s; x_best := x_best s; x_written := x_written s; x_maxst := x_maxst s; x_pend := x_pend s; x_q0 := x_q0 s |}.
Definition set_x_sends (s : txo) (v : list (N * srec)) : txo :=
  {| x_kind := x_kind s; x_step := x_step s; x_sends := v; x_att := x_att s; x_holds := x_holds s; x_busy := x_busy s; x_closed := x_closed s; x_best := x_best s; x_written := x_written s; x_maxst := x_maxst s; x_pend := x_pend s; x_q0 := x_q0 s |}.
Definition set_x_att (s : txo) (v : list N) : txo :=
  {| x_kind := x_kind s; x_step := x_step s; x_sends := x_sends s; x_att := v; x_holds := x_holds s; x_busy := x_busy s; x_closed := x_closed s; x_best := x_best s; x_written := x_written s; x_maxst := x_maxst s; x_pend := x_pend s; x_q0 := x_q0 s |}.
Definition set_x_holds (s : txo) (v : list N) : txo :=
  {| x_kind := x_kind s; x_step := x_step s; x_sends := x_sends s; x_att := x_att s; x_holds := v; x_busy := x_busy s; x_closed := x_closed s; x_best := x_best s; x_written := x_written s; x_maxst := x_maxst s; x_pend := x_pend s; x_q0 := x_q0 s |}.
Definition set_x_busy (s : txo) (v : list N) : txo :=
  {| x_kind := x_kind s; x_step := x_step s; x_sends := x_sends s; x_att := x_att s; x_holds := x_holds s; x_busy := v; x_closed := x_closed s; x_best := x_best s; x_written := x_written s; x_maxst := x_maxst s; x_pend := x_pend s; x_q0 := x_q0 s |}.
Definition set_x_closed (s : txo) (v : bool) : txo :=
  {| x_kind := x_kind s; x_step := x_step s; x_sends := x_sends s; x_att := x_att s; x_holds := x_holds s; x_busy := x_busy s; x_closed := v; x_best := x_best s; x_written := x_written s; x_maxst := x_maxst s; x_pend := x_pend s; x_q0 := x_q0 s |}.
Definition set_x_best (s : txo) (v : bool) : txo :=
  {| x_kind := x_kind s; x_step := x_step s; x_sends := x_sends s; x_att := x_att s; x_holds := x_holds s; x_busy := x_busy s; x_closed := x_closed s; x_best := v; x_written := x_written s; x_maxst := x_maxst s; x_pend := x_pend s; x_q0 := x_q0 s |}.
Definition set_x_written (s : txo) (v : list N) : txo :=
  {| x_kind := x_kind s; x_step := x_step s; x_sends := x_sends s; x_att := x_att s; x_holds := x_holds s; x_busy := x_busy s; x_closed := x_closed s; x_best := x_best s; x_written := v; x_maxst := x_maxst s; x_pend := x_pend s; x_q0 := x_q0 s |}.
Definition set_x_maxst (s : txo) (v : list (N * N)) : txo :=
  {| x_kind := x_kind s; x_step := x_step s; x_sends := x_sends s; x_att := x_att s; x_holds := x_holds s; x_busy := x_busy s; x_closed := x_closed s; x_best := x_best s; x_written := x_written s; x_maxst := v; x_pend := x_pend s; x_q0 := x_q0 s |}.
Definition set_x_pend (s : txo) (v : list N) : txo :=
  {| x_kind := x_kind s; x_step := x_step s; x_sends := x_sends s; x_att := x_att s; x_holds := x_holds s; x_busy := x_busy s; x_closed := x_closed s; x_best := x_best s; x_written := x_written s; x_maxst := x_maxst s; x_pend := v; x_q0 := x_q0 s |}.
Definition set_x_q0 (s : txo) (v : bool) : txo :=
  {| x_kind := x_kind s; x_step := x_step s; x_sends := x_sends s; x_att := x_att s; x_holds := x_holds s; x_busy := x_busy s; x_closed := x_closed s; x_best := x_best s; x_written := x_written s; x_maxst := x_maxst s; x_pend := x_pend s; x_q0 := v |}.

Definition txo0 : txo :=
  {| x_kind := 0; x_step := 0; x_sends := []; x_att := []; x_holds := []; x_busy := []; x_closed := false; x_best := false;
     x_written := []; x_maxst := []; x_pend := []; x_q0 := false |}.

(* what a Send must look like on the pipe; None: the socket is entitled to discard it (malformed raw PAIRv1 header) *)
Definition wire_of (k : N) (hdr body : bytes) : option msg :=
  if is_pair k then match pa_hdr_in (3 <=? k) (negb (k =? 2) && negb (k =? 4)) hdr with Some h => Some (h, body) | None => None end
  else Some (hdr, body).

Record txflags := { f_once : bool; f_order : bool; f_progress : bool; f_single : bool; f_q0 : bool }.
Definition fl_and (a b : txflags) : txflags :=
  {| f_once := f_once a && f_once b; f_order := f_order a && f_order b; f_progress := f_progress a && f_progress b;
     f_single := f_single a && f_single b; f_q0 := f_q0 a && f_q0 b |}.
Definition fl_ok : txflags := {| f_once := true; f_order := true; f_progress := true; f_single := true; f_q0 := true |}.

(* order is judged per connection: PAIR has one at a time (key 0), PUSH one per pipe *)
Definition conn_key (k p : N) : N := if is_push k then p else 0.

Definition tx_stim (s : txo) (st : stim) (os : list obs) : txo * txflags :=
  match st with
  | SCall t (CSend _ h b) =>
    let w := wire_of (x_kind s) h b in
    (set_x_sends s (aset t {| sr_start := x_step s; sr_m := match w with Some m => m | None => (h, b) end; sr_ret := None;
                              sr_must := match w with Some _ => negb (x_best s) | None => false end |} (x_sends s)), fl_ok)
  | SCall t (CSetOpt _ OBestEffort v _) => ((if ret_ok t os then set_x_best s (negb (v =? 0)%Z) else s), fl_ok)
  | SCall t CCloseSock => (set_x_closed s true, fl_ok)
  | SCall t (CSetOpt _ OWriteQLen v _) => ((if ret_ok t os then set_x_q0 s (v =? 0)%Z else s), fl_ok)
  | SAddPipe p =>
    let want := if x_closed s then Some EClosed
                else if is_pair (x_kind s) && negb (is_nil (x_att s)) then Some EProtoState else None in
    let got := refusal p os in
    let good := match want, got with Some a, Some b => a =? b | None, None => true | _, _ => false end in
    ((match got with
      | None => set_x_holds (set_x_att s (nadd p (x_att s))) (nrem p (x_holds s))
      | Some _ => s end),
     {| f_once := true; f_order := true; f_progress := true; f_single := good; f_q0 := true |})
  | SDropPipe p => (set_x_busy (set_x_att s (nrem p (x_att s))) (nrem p (x_busy s)), fl_ok)
  | SHold p h => (set_x_holds s (if h then nadd p (x_holds s) else nrem p (x_holds s)), fl_ok)
  | SRelease p ok =>
    let s1 := set_x_busy s (nrem p (x_busy s)) in
    ((if negb ok && nmem p (x_busy s) then set_x_att s1 (nrem p (x_att s)) else s1), fl_ok)
  | _ => (s, fl_ok)
  end.

Definition tx_obs (s : txo) (o : obs) : txo * txflags :=
  match o with
  | ORet t ROk =>
    match aget t (x_sends s) with
    | Some r =>
      let s1 := set_x_sends s (aset t (set_sr_ret r (Some (x_step s))) (x_sends s)) in
      ((if sr_must r && negb (nmem t (x_written s)) then set_x_pend s1 (nadd t (x_pend s)) else s1), fl_ok)
    | None => (s, fl_ok)
    end
  | OTx p h b =>
    let t := tag_of b in
    match aget t (x_sends s) with
    | Some r =>
      let once := msg_eqb (sr_m r) (h, b) && negb (nmem t (x_written s)) && nmem p (x_att s) in
      let ck := conn_key (x_kind s) p in
      let mx := match aget ck (x_maxst s) with Some m => m | None => 0 end in
      (* this call must not have completed before an earlier-written one was even started *)
      let order := match sr_ret r with Some rt => mx <=? rt | None => true end in
      let s1 := set_x_maxst (set_x_pend (set_x_written s (t :: x_written s)) (nrem t (x_pend s)))
                            (aset ck (N.max mx (sr_start r)) (x_maxst s)) in
      ((if nmem p (x_holds s) then set_x_busy s1 (nadd p (x_busy s)) else s1),
       {| f_once := once; f_order := order; f_progress := true; f_single := true; f_q0 := true |})
    | None => (s, {| f_once := false; f_order := true; f_progress := true; f_single := true; f_q0 := true |})   (* invented *)
    end
  | OPipeClose p => (set_x_busy (set_x_att s (nrem p (x_att s))) (nrem p (x_busy s)), fl_ok)
  | _ => (s, fl_ok)
  end.

Definition is_resize (st : stim) (os : list obs) : bool :=
  match st with
  | SCall t (CSetOpt _ OWriteQLen _ _) => ret_ok t os
  | SCall t (CSetOpt _ OReadQLen _ _) => ret_ok t os
  | _ => false
  end.

(* a connected peer is able to take a message *)
Definition peer_able (s : txo) : bool :=
  existsb (fun p => negb (nmem p (x_busy s))) (x_att s) && (is_pair (x_kind s) || negb (x_closed s)).

Definition tx_step (s : txo) (st : stim) (os : list obs) (bl : list N) : txo * txflags :=
  if x_kind s =? 0 then (set_x_step (set_x_kind s (kind_of st)) 1, fl_ok) else
  let '(s1, f1) := tx_stim s st os in
  let '(s2, f2) := fold_left (fun '(s, f) o => let '(s', f') := tx_obs s o in (s', fl_and f f')) os (s1, f1) in
  let s3 := if is_resize st os then set_x_pend s2 [] else s2 in
  let send_blocked := existsb (fun t => match aget t (x_sends s3) with Some _ => true | None => false end) bl in
  let prog := negb (peer_able s3) || (is_nil (x_pend s3) && negb send_blocked) in
  (* PUSH while WRITEQ-LEN is 0 is reported separately (c02_progress_q0) *)
  let q0 := is_push (x_kind s3) && x_q0 s3 in
  (set_x_step s3 (x_step s3 + 1),
   fl_and f2 {| f_once := true; f_order := true; f_progress := q0 || prog; f_single := true; f_q0 := negb q0 || prog |}).

Fixpoint tx_from (pick : txflags -> bool) (s : txo) (i : N) (h : list step_rec) : option N :=
  match h with
  | [] => None
  | (st, os, bl) :: r => let '(s', f) := tx_step s st os bl in if pick f then tx_from pick s' (N.succ i) r else Some i
  end.
Definition c02_once (h : list step_rec) : option N := tx_from f_once txo0 0 h.
Definition c02_order (h : list step_rec) : option N := tx_from f_order txo0 0 h.
Definition c02_progress (h : list step_rec) : option N := tx_from f_progress txo0 0 h.
Definition c02_single (h : list step_rec) : option N := tx_from f_single txo0 0 h.
Definition c02_progress_q0 (h : list step_rec) : option N := tx_from f_q0 txo0 0 h.

(* ---------------- receive side (PAIR, PULL): every message taken from a pipe is returned by exactly one RecvMsg,
   unchanged, messages of one pipe in their order; nothing else is ever returned ---------------- *)
Record rxo := {
  r_kind : N;
  r_ttl : N;
  r_closed : bool;
  r_recvs : list N;
  r_deliv : list (N * (N * ret));
  r_out : list N;
  r_done : list N;
  r_last : list (N * N) }.
Definition set_r_kind (s : rxo) (v : N) : rxo :=
  {| r_kind := v; r_ttl := r_ttl s; r_closed := r_closed s; r_recvs := r_recvs s; r_deliv := r_deliv s; r_out := r_out s; r_done := r_done s; r_last := r_last s |}.
Definition set_r_ttl (s : rxo) (v : N) : rxo :=
  {| r_kind := r_kind s; r_ttl := v; r_closed := r_closed s; r_recvs := r_recvs s; r_deliv := r_deliv s; r_out := r_out s; r_done := r_done s; r_last := r_last s |}.
Definition set_r_closed (s : rxo) (v : bool) : rxo :=
  {| r_kind := r_kind s; r_ttl := r_ttl s; r_closed := v; r_recvs := r_recvs s; r_deliv := r_deliv s; r_out := r_out s; r_done := r_done s; r_last := r_last s |}.
Definition set_r_recvs (s : rxo) (v : list N) : rxo :=
  {| r_kind := r_kind s; r_ttl := r_ttl s; r_closed := r_closed s; r_recvs := v; r_deliv := r_deliv s; r_out := r_out s; r_done := r_done s; r_last := r_last s |}.
Definition set_r_deliv (s : rxo) (v : list (N * (N * ret))) : rxo :=
  {| r_kind := r_kind s; r_ttl := r_ttl s; r_closed := r_closed s; r_recvs := r_recvs s; r_deliv := v; r_out := r_out s; r_done := r_done s; r_last := r_last s |}.
Definition set_r_out (s : rxo) (v : list N) : rxo :=
  {| r_kind := r_kind s; r_ttl := r_ttl s; r_closed := r_closed s; r_recvs := r_recvs s; r_deliv := r_deliv s; r_out := v; r_done := r_done s; r_last := r_last s |}.
Definition set_r_done (s : rxo) (v : list N) : rxo :=
  {| r_kind := r_kind s; r_ttl := r_ttl s; r_closed := r_closed s; r_recvs := r_recvs s; r_deliv := r_deliv s; r_out := r_out s; r_done := v; r_last := r_last s |}.
Definition set_r_last (s : rxo) (v : list (N * N)) : rxo :=
  {| r_kind := r_kind s; r_ttl := r_ttl s; r_closed := r_closed s; r_recvs := r_recvs s; r_deliv := r_deliv s; r_out := r_out s; r_done := r_done s; r_last := v |}.

Definition rxo0 : rxo :=
  {| r_kind := 0; r_ttl := 8; r_closed := false; r_recvs := []; r_deliv := []; r_out := []; r_done := []; r_last := [] |}.

(* what the application must see of the bytes a pipe yielded (None: filtered by the hop limit / malformed) *)
Definition up_of (k ttl : N) (wire : bytes) : option ret :=
  if is_pair k then match pa_rx_in (3 <=? k) ttl wire with
                    | Some m => Some (pa_view (3 <=? k) (negb (k =? 2) && negb (k =? 4)) m) | None => None end
  else if k =? 6 then Some (RMsg [] wire) else None.
Definition ret_body (r : ret) : bytes := match r with RMsg _ b => b | _ => [] end.

Definition rx_step (s : rxo) (st : stim) (os : list obs) (bl : list N) : rxo * bool :=
  if r_kind s =? 0 then (set_r_kind s (kind_of st), true) else
  let s1 :=
    match st with
    | SCall t (CRecv _) => set_r_recvs s (t :: r_recvs s)
    | SCall t (CSetOpt _ OTtl v _) => if ret_ok t os then set_r_ttl s (Z.to_N v) else s
    | SCall t CCloseSock => set_r_closed s true
    | SDeliver p wire =>
      if existsb (fun o => match o with ONotTaken _ => true | _ => false end) os then s
      else match up_of (r_kind s) (r_ttl s) wire with
           | Some r => let key := tag_of (ret_body r) in
                       set_r_out (set_r_deliv s (aset key (p, r) (r_deliv s))) (r_out s ++ [key])
           | None => s
           end
    | SDropPipe p => set_r_out s (filter (fun key => match aget key (r_deliv s) with Some (q, _) => negb (q =? p) | None => true end) (r_out s))
    | SRelease p false => set_r_out s (filter (fun key => match aget key (r_deliv s) with Some (q, _) => negb (q =? p) | None => true end) (r_out s))
    | _ => s
    end in
  let '(s2, ok) :=
    fold_left (fun '(s, ok) o =>
      match o with
      | ORet t (RMsg h b) =>
        let key := tag_of b in
        match aget key (r_deliv s) with
        | Some (p, r) =>
          let last := match aget p (r_last s) with Some l => l | None => 0 end in
          let good := ret_eqb r (RMsg h b) && negb (nmem key (r_done s)) && (last <? key) && nmem t (r_recvs s) in
          (set_r_last (set_r_done (set_r_out s (nrem key (r_out s))) (key :: r_done s)) (aset p key (r_last s)), ok && good)
        | None => (s, false)
        end
      | OPipeClose p =>
        (set_r_out s (filter (fun key => match aget key (r_deliv s) with Some (q, _) => negb (q =? p) | None => true end) (r_out s)), ok)
      | _ => (s, ok)
      end) os (s1, true) in
  let s3 := if is_resize st os then set_r_out s2 [] else s2 in
  (* a RecvMsg is still waiting although a delivered message has not been handed out *)
  let starving := existsb (fun t => nmem t (r_recvs s3)) bl && negb (is_nil (r_out s3)) && negb (r_closed s3) in
  (s3, ok && negb starving).

Fixpoint rx_from (s : rxo) (i : N) (h : list step_rec) : option N :=
  match h with
  | [] => None
  | (st, os, bl) :: r => let '(s', ok) := rx_step s st os bl in if ok then rx_from s' (N.succ i) r else Some i
  end.
Definition c02_rx (h : list step_rec) : option N := rx_from rxo0 0 h.

(* the model's own trace for a list of stimuli, in step_rec form *)
Fixpoint pp_trace (s : ppstate) (h : list stim) : list step_rec :=
  match h with
  | [] => []
  | st :: r => let '(s', os) := pp_step s st in (st, os, pp_blocked s') :: pp_trace s' r
  end.
