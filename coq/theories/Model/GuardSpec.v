(* Reviewed exemptions of the lock-discipline check (C11).  Every entry is a (struct type . field) with the reason
   why its accesses are ordered by something other than a common mutex.  Anything not listed here that is written
   after construction must be accessed with a common mutex class held at every access. *)
From MV Require Import Model.RaceCfg.
Open Scope string_scope.

Fixpoint has_sub (p s : string) : bool :=
  if String.prefix p s then true else match s with EmptyString => false | String _ r => has_sub p r end.

Definition exempt_fields : list string := [
  (* written by the protocol's AddPipe through SetPrivate before the pipe's goroutines are started (go statement
     = happens-before), read by them afterwards; never written again *)
  "internal/core.pipe.data";
  (* written once inside survey.cancel's sync.Once before close(recvQ); read by RecvMsg only after it received
     from the closed channel (channel close = happens-before) *)
  "protocol/surveyor.survey.err";
  (* assigned once in survey.start, under the socket mutex, before the survey is published in c.surv / s.surveys;
     afterwards only the channel itself is used *)
  "protocol/surveyor.survey.recvQ";
  (* ---- transports ---- *)
  (* conn.SetOption is not reachable from the application (mangos.Pipe has no SetOption): the dialer / accept loop that
     created the conn calls it before handing the conn to the handshaker (channel send / go statement = happens-before);
     afterwards maxrx and the map are only read *)
  "transport.conn.maxrx";
  "transport.conn.options";
  (* the accepting side of an inproc pair is parked in listener.Accept on server.readyq; dialer.Dial fills in the
     queues and the peer pointers and then closes readyq (channel close = happens-before); never written again *)
  "transport/inproc.inproc.rq";
  "transport/inproc.inproc.wq";
  "transport/inproc.inproc.peer";
  (* written once by Listen under l.lock before the accept goroutine is started (go statement = happens-before); a second
     Listen fails in net.ListenUnix (address in use) before reaching the store *)
  "transport/ipc.listener.listener"
].

(* in scope of the static discipline: the socket core and the protocol implementations (the mechanism the property
   names: "every shared field is accessed under its socket's mutex").  Message fields change owner instead of being
   locked (C17).  The transports (transport/conn.go and transport/<name>) are in scope as well since the endpoint races
   found there (known_findings.json, C11 fa324e6 .. a15de47, a1ed452). *)
Definition in_scope (name : string) : bool :=
  (String.prefix "protocol/" name || String.prefix "internal/core." name || String.prefix "transport" name)
  && negb (has_sub "Message." name).

Definition exempt_of (field_names : list string) : list N :=
  map (fun x => N.of_nat (fst x))
      (filter (fun x => negb (in_scope (snd x)) || existsb (String.eqb (snd x)) exempt_fields)
              (combine (seq 0 (length field_names)) field_names)).

(* ---- check-then-register rules (C10; Model/AtomCfg.v) ----
   The translator proposes one rule per registry field (map or slice) that the struct's own Close method walks, of a
   struct with a `closed` flag.  Reviewed exemptions: *)
Definition atom_exempt : list string := [
  (* connHandshaker.worker appends the finished item to doneq also when the handshaker was closed meanwhile: the item
     then holds no connection (failed: c = nil; succeeded: closed on the spot) -- nothing is left open by it *)
  "transport.connHandshaker.doneq+insert"
].
Definition atom_rules_checked (field_names : list string) (rules : list (N * N)) : list (N * N) :=
  filter (fun r => negb (existsb (String.eqb (nth (N.to_nat (fst r)) field_names "")) atom_exempt)) rules.
