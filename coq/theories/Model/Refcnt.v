(* Message ownership (C17): the ledger monitor over the sequence of NewMessage / Clone / Free / release /
   MakeUnique-copy events reported by message_verif.go (plus the application's own events recorded by the
   harness), and small models of the library's clone/free discipline on its fan-out and retention paths.
   Mirrors message.go:{NewMessage,Clone,Free,MakeUnique,Dup}, protocol/{xpub,xbus,xstar,surveyor,xsurveyor}:SendMsg,
   protocol/req:{send,sendCtx,receiver,cancel}, protocol/sub:{receiver,RecvMsg}, protocol/xstar:receiver,
   protocol/{xpush,xpair,...}:SendMsg (error outcomes), transport/conn.go:Send.  No proofs here. *)
From MV Require Export Lib.Bytes Model.Wire.
From Coq Require Import FMapPositive.
Open Scope N_scope.

(* ---------------------------------------------------------------- events ---- *)
Inductive memop :=
| MNew (m sz cap blen hlen : N)   (* NewMessage(sz) returned object m: cap of its body buffer, len(Body), len(Header) *)
| MClone (m : N)
| MFree (m : N)                   (* Free entered (before the decrement) *)
| MRelease (m : N)                (* the count reached zero: the object goes back to its pool (and is poisoned) *)
| MUnique (m : N)                 (* MakeUnique found m shared and made a copy (its New precedes; the Free of m follows) *)
| MHandOut (m : N)                (* Recv returned m to the application *)
| MAppFree (m : N)                (* the application is done with a received message (its Free follows) *)
| MSendErr (m : N)                (* a Send of m returned an error: m is the caller's again *)
| MMark (k : N).                  (* scenario boundary: no effect *)

(* ---------------------------------------------------------------- heap ---- *)
Record cell := { rc : N; live : bool; out : bool }.
Definition dead : cell := {| rc := 0; live := false; out := false |}.
Definition heap := PositiveMap.t cell.
Definition hempty : heap := PositiveMap.empty cell.
Definition hget (h : heap) (m : N) : cell :=
  match PositiveMap.find (N.succ_pos m) h with Some c => c | None => dead end.
Definition hset (h : heap) (m : N) (c : cell) : heap := PositiveMap.add (N.succ_pos m) c h.

(* a message somebody may legitimately operate on: allocated, not in the application's hands, not already at zero *)
Definition usable (c : cell) : bool := live c && negb (out c) && (1 <=? rc c).
Definition owned (n : N) : cell := {| rc := n; live := true; out := false |}.

(* ---------------------------------------------------------------- the monitor ---- *)
Definition step (h : heap) (o : memop) : option heap :=
  match o with
  | MNew m sz cap bl hl =>
    (* the allocator may only (re)issue an object nobody owns; it starts empty, with room for sz *)
    if negb (live (hget h m)) && (sz <=? cap) && (bl =? 0) && (hl =? 0) then Some (hset h m (owned 1)) else None
  | MClone m => let c := hget h m in if usable c then Some (hset h m (owned (rc c + 1))) else None
  | MFree m => let c := hget h m in if usable c then Some (hset h m (owned (rc c - 1))) else None
  | MRelease m => let c := hget h m in
    if live c && negb (out c) && (rc c =? 0) then Some (hset h m dead) else None
  | MUnique m => if usable (hget h m) then Some h else None
  | MHandOut m => let c := hget h m in
    if usable c && (rc c =? 1) then Some (hset h m {| rc := 1; live := true; out := true |}) else None
  | MAppFree m => let c := hget h m in
    if live c && out c then Some (hset h m (owned (rc c))) else None
  | MSendErr m => if usable (hget h m) then Some h else None
  | MMark _ => Some h
  end.

Fixpoint run (h : heap) (tr : list memop) : option heap :=
  match tr with
  | [] => Some h
  | o :: r => match step h o with Some h' => run h' r | None => None end
  end.

Definition ledger_ok (tr : list memop) : bool := match run hempty tr with Some _ => true | None => false end.

(* diagnostics: the indices of the rejected events (a rejected event is skipped) *)
Fixpoint ledger_bad_from (i : N) (h : heap) (tr : list memop) : list N :=
  match tr with
  | [] => []
  | o :: r => match step h o with
              | Some h' => ledger_bad_from (N.succ i) h' r
              | None => i :: ledger_bad_from (N.succ i) h r
              end
  end.
Definition ledger_bad (tr : list memop) : list N := ledger_bad_from 0 hempty tr.

(* ---------------------------------------------------------------- the trace language of the property ---- *)
Definition op_id (o : memop) : option N :=
  match o with
  | MNew m _ _ _ _ | MClone m | MFree m | MRelease m | MUnique m | MHandOut m | MAppFree m | MSendErr m => Some m
  | MMark _ => None
  end.
Definition names (m : N) (o : memop) : bool := match op_id o with Some x => x =? m | None => false end.
Definition is_new (o : memop) : bool := match o with MNew _ _ _ _ _ => true | _ => false end.
Definition uses (m : N) (o : memop) : bool := names m o && negb (is_new o).
Definition reissues (m : N) (o : memop) : bool := names m o && is_new o.

(* the reference count as the events themselves define it (integers: nothing is clamped) *)
Definition rc_step (m : N) (z : Z) (o : memop) : Z :=
  match o with
  | MNew x _ _ _ _ => if x =? m then 1%Z else z
  | MClone x => if x =? m then (z + 1)%Z else z
  | MFree x => if x =? m then (z - 1)%Z else z
  | _ => z
  end.
Definition refcount_of (m : N) (tr : list memop) : Z := fold_left (rc_step m) tr 0%Z.

(* after a release nothing touches the object until the allocator issues it again *)
Definition no_use_after_release (tr : list memop) : Prop :=
  forall a m b o c, tr = a ++ MRelease m :: b ++ o :: c -> uses m o = true ->
    exists o', In o' b /\ reissues m o' = true.
Definition no_double_release (tr : list memop) : Prop :=
  forall a m b c, tr = a ++ MRelease m :: b ++ MRelease m :: c -> exists o', In o' b /\ reissues m o' = true.
Definition refcount_never_negative (tr : list memop) : Prop :=
  forall a c m, tr = a ++ c -> (0 <= refcount_of m a)%Z.
Definition release_exactly_at_zero (tr : list memop) : Prop :=
  (forall a m c, tr = a ++ MRelease m :: c -> refcount_of m a = 0%Z) /\
  (* and a count that reached zero is followed by the release before anything else happens to the object *)
  (forall a m b o c, tr = a ++ MFree m :: b ++ o :: c -> refcount_of m a = 1%Z -> names m o = true ->
     (forall o', In o' b -> names m o' = false) -> o = MRelease m).
(* Recv hands out a message only when it holds the only reference, and from then on the first event on it is
   the application's own free *)
Definition exclusive_handout (tr : list memop) : Prop :=
  forall a m c, tr = a ++ MHandOut m :: c ->
    refcount_of m a = 1%Z /\
    forall b o c', c = b ++ o :: c' -> names m o = true -> (forall o', In o' b -> names m o' = false) -> o = MAppFree m.
(* the allocator issues only objects nobody owns, empty, with room for the requested size *)
Definition new_is_fresh (tr : list memop) : Prop :=
  forall a m sz cap bl hl c, tr = a ++ MNew m sz cap bl hl :: c ->
    sz <= cap /\ bl = 0 /\ hl = 0 /\
    forall a1 o a2, a = a1 ++ o :: a2 -> names m o = true -> (forall o', In o' a2 -> names m o' = false) -> o = MRelease m.
(* a failed Send leaves the caller a message that has not been released and still carries a reference *)
Definition failed_send_keeps (tr : list memop) : Prop :=
  forall a m c, tr = a ++ MSendErr m :: c ->
    (1 <= refcount_of m a)%Z /\
    forall a1 a2, a = a1 ++ MRelease m :: a2 -> exists o', In o' a2 /\ reissues m o' = true.

(* ---------------------------------------------------------------- path models ---- *)
(* xpub / xstar / xbus / surveyor / xsurveyor SendMsg over the pipes in map order, `full` says whose queue is full:
     for each pipe { m.Clone(); select { case q <- m: default: m.Free() } };  m.Free()                          *)
Fixpoint fanout_loop (m : N) (full : list bool) : list memop :=
  match full with
  | [] => []
  | f :: r => MClone m :: (if f then [MFree m] else []) ++ fanout_loop m r
  end.
Definition fanout_send (m : N) (full : list bool) : list memop := fanout_loop m full ++ [MFree m].
Definition queued (full : list bool) : N := N.of_nat (length (filter negb full)).

(* xbus skips the pipe the message came from *)
Definition xbus_send (m : N) (pipes : list (bool * bool)) (* (is the origin, queue full) *) : list memop :=
  fanout_send m (map snd (filter (fun p => negb (fst p)) pipes)).

(* the whole life of a published message, sequential schedule: the pipes' senders hand their copies to the
   transport afterwards (transport/conn.go:Send frees on success; the protocol's sender frees on failure) *)
Definition fanout_life (m sz cap : N) (full : list bool) : list memop :=
  MNew m sz cap 0 0 :: fanout_send m full ++ repeat (MFree m) (N.to_nat (queued full)) ++ [MRelease m].

(* every interleaving: after each pipe's turn `k` of the copies queued so far (at most those outstanding) are
   written and freed by the sender goroutines while the loop is still running *)
Fixpoint fanout_il (m : N) (outst : nat) (sched : list (bool * nat)) : list memop * nat :=
  match sched with
  | [] => ([], outst)
  | (full, k) :: r =>
    let o1 := if full then outst else S outst in
    let k' := Nat.min k o1 in
    let '(ops, o') := fanout_il m (o1 - k') r in
    (MClone m :: (if full then [MFree m] else []) ++ repeat (MFree m) k' ++ ops, o')
  end.
Definition fanout_any (m sz cap : N) (sched : list (bool * nat)) : list memop :=
  let '(ops, o) := fanout_il m 0 sched in
  MNew m sz cap 0 0 :: ops ++ [MFree m] ++ repeat (MFree m) o ++ [MRelease m].

(* REQ: the context keeps the request (its one reference) until a reply or a cancel; every (re)transmission
   clones it for the pipe, and that copy is freed by the transport (sent) or by sendCtx (failed) -- possibly
   only after the reply has made the context drop the request (`late`) *)
Fixpoint req_txs (m : N) (n : nat) : list memop :=
  match n with O => [] | S k => MClone m :: MFree m :: req_txs m k end.
Definition req_life (m sz cap : N) (ntx : nat) (late : bool) : list memop :=
  MNew m sz cap 0 0 :: req_txs m ntx ++
  (if late then [MClone m; MFree m (* reqMsg.Free() *); MFree m (* the transmission ends *)]
   else [MFree m]) ++ [MRelease m].

(* SUB: the pipe's receiver clones once per matching context and drops its own reference; each context's RecvMsg
   then runs MakeUnique: a copy (NewMessage; copy; Free of the shared one) while the count is above one, the
   message itself once it is the last.  Contexts receive in order; `next` is the id the allocator returns. *)
Fixpoint sub_recvs (m : N) (cnt : nat) (next sz cap : N) : list memop :=
  match cnt with
  | O => []
  | S k => match k with
           | O => [MHandOut m]
           | S _ => [MNew next sz cap 0 0; MUnique m; MFree m; MHandOut next] ++ sub_recvs m k (next + 1) sz cap
           end
  end.
Definition app_done (m : N) : list memop := [MAppFree m; MFree m; MRelease m].
Definition sub_trace (matches : list bool) (sz cap : N) : list memop :=
  let k := length (filter (fun b => b) matches) in
  MNew 0 sz cap 0 0 :: repeat (MClone 0) k ++ [MFree 0] ++
  match k with
  | O => [MRelease 0]
  | S _ => sub_recvs 0 k 1 sz cap ++ flat_map app_done (map N.of_nat (seq 0 k))
  end.
(* the mutant / a hypothetical SUB that hands the shared message to every context *)
Definition sub_trace_shared (k : nat) (sz cap : N) : list memop :=
  MNew 0 sz cap 0 0 :: repeat (MClone 0) k ++ [MFree 0] ++ repeat (MHandOut 0) k.

(* xstar's receiver: one copy for the application and one per other pipe (Dup), then the original is dropped *)
Fixpoint star_dups (next sz cap : N) (full : list bool) : list memop :=
  match full with
  | [] => []
  | f :: r => MNew next sz cap 0 0 :: (if f then [MFree next; MRelease next] else []) ++ star_dups (next + 1) sz cap r
  end.
Definition star_forward (m sz cap : N) (full : list bool) : list memop :=
  MNew m sz cap 0 0 :: MNew (m + 1) sz cap 0 0 :: star_dups (m + 2) sz cap full ++ [MFree m; MRelease m; MHandOut (m + 1)].

(* Send outcomes of the queueing senders (xpush, xpair, xpair1, xreq, xrep, xrespondent, ... : one select) *)
Inductive send_outcome := SQueued | STimeout | SClosed | SNoPeers | SBestEffortDrop.
Definition send_is_error (o : send_outcome) : bool :=
  match o with STimeout | SClosed | SNoPeers => true | _ => false end.
(* what SendMsg itself does to the message *)
Definition send_ops (m : N) (o : send_outcome) : list memop :=
  match o with
  | SBestEffortDrop => [MFree m]        (* dropped: the library owned it (nil was returned) *)
  | _ => []                             (* queued: the pipe's sender owns it now; error: untouched *)
  end.
(* the caller's view: on an error it still has the message and frees it itself *)
Definition send_call (m : N) (o : send_outcome) : list memop :=
  send_ops m o ++ (if send_is_error o then [MSendErr m; MFree m] else match o with SQueued => [MFree m] (* transport *) | _ => [] end)
  ++ [MRelease m].
(* fan-out senders fail only with ErrClosed, before touching the message; surveyor (cooked) has already run
   MakeUnique, which does nothing for an unshared message *)
Definition fanout_call (m : N) (closed : bool) (full : list bool) : list memop :=
  if closed then [MSendErr m] else fanout_send m full.

(* surveyor (cooked) SendMsg as found: `m.MakeUnique()` with the result discarded -- for a message the caller
   also holds a reference to, the copy d is dropped on the floor and the shared original goes through the loop;
   and the repaired form `m = m.MakeUnique()` *)
Definition surveyor_send_as_found (m d sz cap : N) (shared : bool) (full : list bool) : list memop :=
  (if shared then [MNew d sz cap 0 0; MUnique m; MFree m] else []) ++ fanout_send m full.
Definition surveyor_send_repaired (m d sz cap : N) (shared : bool) (full : list bool) : list memop :=
  if shared then [MNew d sz cap 0 0; MUnique m; MFree m] ++ fanout_send d full else fanout_send m full.
