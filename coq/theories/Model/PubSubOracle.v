(* Property oracles over PUB/SUB histories: decidable forms of the C06 conclusions, evaluated on the
   IMPLEMENTATION's traces (and on the model's).  They do not use the model's state machines: they keep
   only what the property itself talks about (subscriptions as set by the API calls that returned, the
   messages that arrived, the messages that were sent).  The first step of a history names the protocol. *)
From MV Require Import Lib.Proto Model.PubSub.
Open Scope N_scope.

Definition ps_ret_of (t : N) (os : list obs) : option ret :=
  match filter (fun o => match o with ORet t' _ => t' =? t | _ => false end) os with
  | ORet _ r :: _ => Some r
  | _ => None
  end.
Definition ret_ok (t : N) (os : list obs) : bool := match ps_ret_of t os with Some ROk => true | _ => false end.
Definition returned (t : N) (os : list obs) : bool := match ps_ret_of t os with Some _ => true | None => false end.
Definition not_taken (p : N) (os : list obs) : bool := existsb (fun o => match o with ONotTaken q => q =? p | _ => false end) os.
Definition mem (x : N) (l : list N) : bool := existsb (N.eqb x) l.
Definition kind_is (h : list step_rec) (k : Z) : bool :=
  match h with (st, _, _) :: _ => match kind_of st with Some k' => (k' =? k)%Z | None => false end | [] => false end.

(* ---------------------------------------------------------------------------------------------- *)
(*  SUB / XSUB                                                                                      *)
(* ---------------------------------------------------------------------------------------------- *)
Record so := {
  so_subs : list (N * list bytes);         (* context -> subscriptions in force (from the calls that returned nil) *)
  so_open : list N;                        (* contexts that receive arriving messages *)
  so_cand : list (N * list (N * bytes));   (* context -> (pipe, body) of the arrivals it may still return, oldest first *)
  so_recvs : list (N * N);                 (* Recv call -> context *)
  so_prev : list N;                        (* calls blocked when the previous step ended *)
  so_raw : bool;
}.
Definition so_init (raw : bool) : so :=
  {| so_subs := [(0, if raw then [[]] else [])]; so_open := [0]; so_cand := [(0, [])]; so_recvs := []; so_prev := []; so_raw := raw |}.
Definition so_with (s : so) subs opn cand recvs : so :=
  {| so_subs := subs; so_open := opn; so_cand := cand; so_recvs := recvs; so_prev := so_prev s; so_raw := so_raw s |}.
Definition subs_of (s : so) (c : N) : list bytes := match kget c (so_subs s) with Some l => l | None => [] end.
Definition cand_of (s : so) (c : N) : list (N * bytes) := match kget c (so_cand s) with Some l => l | None => [] end.

(* take the first candidate with this body: (its pipe, the candidates before it, the candidates after it) *)
Fixpoint cand_split (b : bytes) (pre l : list (N * bytes)) : option (N * list (N * bytes) * list (N * bytes)) :=
  match l with
  | [] => None
  | (p, b') :: r => if bytes_eqb b b' then Some (p, pre, r) else cand_split b (pre ++ [(p, b')]) r
  end.

Definition so_stim (s : so) (st : stim) (os : list obs) : so :=
  match st with
  | SCall t (CRecv c) => so_with s (so_subs s) (so_open s) (so_cand s) (kset t c (so_recvs s))
  | SCall t (CSetOpt c OSubscribe _ topic) =>
    if ret_ok t os && negb (so_raw s) then so_with s (kset c (topic :: subs_of s c) (so_subs s)) (so_open s) (so_cand s) (so_recvs s) else s
  | SCall t (CSetOpt c OUnsubscribe _ topic) =>
    if ret_ok t os && negb (so_raw s) then
      let subs := filter (fun x => negb (bytes_eqb x topic)) (subs_of s c) in
      (* once Unsubscribe has returned, nothing that no longer matches may come out *)
      so_with s (kset c subs (so_subs s)) (so_open s)
              (kset c (filter (fun pb => matches subs (snd pb)) (cand_of s c)) (so_cand s)) (so_recvs s)
    else s
  | SCall t (COpenCtx c) =>
    if ret_ok t os then so_with s (kset c [] (so_subs s)) (c :: so_open s) (kset c [] (so_cand s)) (so_recvs s) else s
  | SCall t (CCloseCtx c) =>
    if ret_ok t os then so_with s (so_subs s) (filter (fun x => negb (x =? c)) (so_open s)) (so_cand s) (so_recvs s) else s
  | SCall t CCloseSock =>
    if ret_ok t os && negb (so_raw s) then so_with s (so_subs s) [] (so_cand s) (so_recvs s) else s
  | SDeliver p b =>
    if not_taken p os then s
    else so_with s (so_subs s) (so_open s)
                 (map (fun cc => if mem (fst cc) (so_open s) && matches (subs_of s (fst cc)) b then (fst cc, snd cc ++ [(p, b)]) else cc) (so_cand s))
                 (so_recvs s)
  | _ => s
  end.

(* soundness of what Recv returns: it arrived for this context and matched then, still matches after every
   completed Unsubscribe, is byte-identical (empty header), comes at most once and in each pipe's order *)
Definition so_rets (s : so) (os : list obs) : so * bool :=
  fold_left (fun '(s, ok) o =>
    match o with
    | ORet t (RMsg h b) =>
      match kget t (so_recvs s) with
      | Some c =>
        match cand_split b [] (cand_of s c) with
        | Some (p, pre, post) =>
          (so_with s (so_subs s) (so_open s) (kset c (filter (fun pb => negb (fst pb =? p)) pre ++ post) (so_cand s)) (so_recvs s),
           ok && match h with [] => true | _ => false end)
        | None => (s, false)
        end
      | None => (s, false)
      end
    | _ => (s, ok)
    end) os (s, true).

(* liveness at the moment of arrival: a context with a parked Recv and a matching subscription hands the
   arriving message to a parked Recv in the same step *)
Definition so_live (s : so) (st : stim) (os : list obs) : bool :=
  match st with
  | SDeliver p b =>
    if not_taken p os then true
    else forallb (fun c =>
           if matches (subs_of s c) b then
             let waiting := filter (fun t => match kget t (so_recvs s) with Some c' => c' =? c | None => false end) (so_prev s) in
             match waiting with [] => true | _ => existsb (fun t => returned t os) waiting end
           else true) (so_open s)
  | _ => true
  end.

Definition so_step (s : so) (r : step_rec) : so * bool * bool :=
  let '(st, os, bl) := r in
  let live := so_live s st os in
  let s1 := so_stim s st os in
  let '(s2, ok) := so_rets s1 os in
  ({| so_subs := so_subs s2; so_open := so_open s2; so_cand := so_cand s2; so_recvs := so_recvs s2; so_prev := bl; so_raw := so_raw s2 |},
   ok, live).

Fixpoint so_from (which : bool) (s : so) (i : N) (h : list step_rec) : option N :=
  match h with
  | [] => None
  | r :: rest => let '(s', ok, live) := so_step s r in
                 if (if which then ok else live) then so_from which s' (N.succ i) rest else Some i
  end.

Definition sub_oracle_with (which : bool) (h : list step_rec) : option N :=
  if kind_is h KSub then so_from which (so_init false) 1 (tl h)
  else if kind_is h KXSub then so_from which (so_init true) 1 (tl h)
  else None.
Definition c06_sub_oracle : list step_rec -> option N := sub_oracle_with true.
Definition c06_live_oracle : list step_rec -> option N := sub_oracle_with false.

(* ---------------------------------------------------------------------------------------------- *)
(*  PUB / XPUB                                                                                      *)
(* ---------------------------------------------------------------------------------------------- *)
Record qst := { q_alive : bool; q_hold : bool; q_pend : bool; q_next : N }.
Record po := { po_sent : list pmsg; po_pipes : list (N * qst); po_closed : bool }.
Definition po_init : po := {| po_sent := []; po_pipes := []; po_closed := false |}.
Definition pmsg_eqb (a b : pmsg) : bool := bytes_eqb (fst a) (fst b) && bytes_eqb (snd a) (snd b).
Fixpoint find_from (i from : N) (m : pmsg) (l : list pmsg) : option N :=
  match l with
  | [] => None
  | x :: r => if (from <=? i) && pmsg_eqb x m then Some i else find_from (i + 1) from m r
  end.
Definition po_setp (s : po) (p : N) (q : qst) : po := {| po_sent := po_sent s; po_pipes := kset p q (po_pipes s); po_closed := po_closed s |}.
Definition has_tx (p : N) (m : pmsg) (os : list obs) : bool :=
  existsb (fun o => match o with OTx q h b => (q =? p) && pmsg_eqb (h, b) m | _ => false end) os.

Definition po_step (s : po) (r : step_rec) : po * bool :=
  let '(st, os, _) := r in
  (* a Send accepted by an open socket must reach every attached pipe whose sender is idle, in this very step *)
  let '(s1, ok1) :=
    match st with
    | SCall t (CSend _ h b) =>
      if po_closed s then (s, true)
      else if ret_ok t os then
        ({| po_sent := po_sent s ++ [(h, b)]; po_pipes := po_pipes s; po_closed := false |},
         forallb (fun pq => if q_alive (snd pq) && negb (q_pend (snd pq)) then has_tx (fst pq) (h, b) os else true) (po_pipes s))
      else (s, false)
    | SCall t CCloseSock =>
      if ret_ok t os then ({| po_sent := po_sent s; po_pipes := po_pipes s; po_closed := true |}, true) else (s, true)
    | SAddPipe p => (po_setp s p {| q_alive := negb (po_closed s); q_hold := false; q_pend := false; q_next := qlen (po_sent s) |}, true)
    | SDropPipe p => match kget p (po_pipes s) with
                     | Some q => (po_setp s p {| q_alive := false; q_hold := q_hold q; q_pend := false; q_next := q_next q |}, true)
                     | None => (s, true) end
    | SHold p h => match kget p (po_pipes s) with
                   | Some q => (po_setp s p {| q_alive := q_alive q; q_hold := h; q_pend := q_pend q; q_next := q_next q |}, true)
                   | None => (s, true) end
    | SRelease p okr => match kget p (po_pipes s) with
                        | Some q => (po_setp s p {| q_alive := q_alive q && (okr || negb (q_pend q)); q_hold := q_hold q; q_pend := false; q_next := q_next q |}, true)
                        | None => (s, true) end
    | _ => (s, true)
    end in
  (* every transmission is a copy of a sent message, later in send order than the pipe's previous one, on a live pipe *)
  fold_left (fun '(s, ok) o =>
    match o with
    | OTx p h b =>
      match kget p (po_pipes s) with
      | Some q =>
        match find_from 0 (q_next q) (h, b) (po_sent s) with
        | Some i => (po_setp s p {| q_alive := q_alive q; q_hold := q_hold q; q_pend := q_hold q; q_next := i + 1 |}, ok && q_alive q)
        | None => (s, false)
        end
      | None => (s, false)
      end
    | _ => (s, ok)
    end) os (s1, ok1).

Fixpoint po_from (s : po) (i : N) (h : list step_rec) : option N :=
  match h with
  | [] => None
  | r :: rest => let '(s', ok) := po_step s r in if ok then po_from s' (N.succ i) rest else Some i
  end.
Definition c06_pub_oracle (h : list step_rec) : option N :=
  if kind_is h KPub || kind_is h KXPub then po_from po_init 1 (tl h) else None.

(* ---------------------------------------------------------------------------------------------- *)
(*  no accepted option value may crash the caller                                                   *)
(* ---------------------------------------------------------------------------------------------- *)
Fixpoint panic_from (i : N) (h : list step_rec) : option N :=
  match h with
  | [] => None
  | (_, os, _) :: rest =>
    if existsb (fun o => match o with ORet _ (RErr e) => e =? EPanic | _ => false end) os then Some i else panic_from (N.succ i) rest
  end.
Definition c06_panic_oracle (h : list step_rec) : option N := panic_from 0 h.

(* the model's own trace for a list of stimuli, in step_rec form *)
Fixpoint u_trace (fixed : bool) (u : ustate) (h : list stim) : list step_rec :=
  match h with
  | [] => []
  | st :: r => let '(u', os) := u_step fixed u st in (st, os, u_blocked u') :: u_trace fixed u' r
  end.
