(* Shared pieces of the PAIR / PUSH / PULL / BUS / STAR models (Model/PairPush.v, Model/BusStar.v):
   Go channel discipline as pure list functions, blocked API calls with deadlines, pseudo-observations.
   No proofs here.

   Conventions of these histories (harness/l1kit):
   * the first step of every history is the selector `SCall 0 (COpenCtx kind)` (no observation): it tells
     the combined model which protocol the history ran against;
   * the mock pipe with harness index p has pipe id `pipe_id p`;
   * an attach the protocol REFUSES (AddPipe returned an error) is observed as `ORet (attach_key p) (RErr e)`
     in the SAddPipe step (the harness then closes the pipe as core does; no OPipeClose is recorded for it);
   * Go runtime facts the models rely on: goroutines blocked on a channel are served in the order they
     blocked (runtime sudog queues are FIFO); a `select` with several ready arms picks any of them
     (the models flag `ambiguous` wherever that can happen). *)
From MV Require Export Lib.Proto Model.Hops.
Open Scope N_scope.

Definition msg : Type := (bytes * bytes)%type.   (* (header, body) as handed to a pipe / returned to the application *)
Definition pipe_id (p : N) : N := 1000 + p.
Definition attach_key (p : N) : N := 1000000 + p.
Definition tol : N := 10.   (* ms *)

Record bsend := { bs_t : N; bs_m : msg; bs_due : N }.   (* a blocked SendMsg: call, message, deadline (0 = none) *)
Record brecv := { br_t : N; br_due : N }.               (* a blocked RecvMsg *)

Definition qlen {A} (l : list A) : N := N.of_nat (length l).
Definition due_at (now exp : N) : N := if 0 <? exp then now + exp else 0.
Definition opt_ms (v : Z) : N := Z.to_N v.

(* ---- deadlines ---- *)
Definition ripe (until due : N) : bool := (0 <? due) && (due <=? until).
Definition expire_s (until : N) (l : list bsend) : list bsend * list obs :=
  (filter (fun b => negb (ripe until (bs_due b))) l,
   map (fun b => ORet (bs_t b) (RErr ESendTimeout)) (filter (fun b => ripe until (bs_due b)) l)).
Definition expire_r (until : N) (l : list brecv) : list brecv * list obs :=
  (filter (fun b => negb (ripe until (br_due b))) l,
   map (fun b => ORet (br_t b) (RErr ERecvTimeout)) (filter (fun b => ripe until (br_due b)) l)).
(* a deadline within `tol` of the end of a sleep may or may not have fired *)
Definition pass_amb (until : N) (dues : list N) : bool :=
  existsb (fun d => (0 <? d) && (until <? d + tol) && (d <? until + tol)) dues.
(* outside a sleep no deadline may be (nearly) due *)
Definition tick_amb (at_ : N) (dues : list N) : bool :=
  existsb (fun d => (0 <? d) && (d <? at_ + tol)) dues.

(* ---- send side of a buffered channel with blocked senders ----
   Blocked senders enter the buffer in the order they blocked, as room appears. *)
Fixpoint refill (cap : N) (sq : list msg) (bs : list bsend) : list msg * list bsend * list obs :=
  match bs with
  | b :: r =>
    if qlen sq <? cap
    then let '(q, r', o) := refill cap (sq ++ [bs_m b]) r in (q, r', ORet (bs_t b) ROk :: o)
    else (sq, bs, [])
  | [] => (sq, [], [])
  end.

Definition pending (sq : list msg) (bs : list bsend) : list msg := sq ++ map bs_m bs.

(* ---- receive side: buffer rq of capacity cap, blocked RecvMsg calls br, receiver goroutines that hold a
   message because the buffer is full rxw (pipe, message), both in blocking order ---- *)
Definition up_arrive (view : msg -> ret) (p : N) (m : msg) (rq : list msg) (cap : N) (br : list brecv) (rxw : list (N * msg))
  : list msg * list brecv * list (N * msg) * list obs :=
  match br with
  | b :: r => (rq, r, rxw, [ORet (br_t b) (view m)])
  | [] => if qlen rq <? cap then (rq ++ [m], [], rxw, []) else (rq, [], rxw ++ [(p, m)], [])
  end.

Definition up_take (rq : list msg) (rxw : list (N * msg)) : option (msg * list msg * list (N * msg)) :=
  match rq with
  | m :: q => match rxw with (_, m') :: w => Some (m, q ++ [m'], w) | [] => Some (m, q, []) end
  | [] => match rxw with (_, m') :: w => Some (m', [], w) | [] => None end
  end.

Definition view_raw (m : msg) : ret := RMsg (fst m) (snd m).
Definition view_cooked (m : msg) : ret := RMsg [] (snd m).

Definition rets (e : N) (ts : list N) : list obs := map (fun t => ORet t (RErr e)) ts.

(* messages written to pipes, in the order the model emits them *)
Definition txs_of (os : list obs) : list msg :=
  flat_map (fun o => match o with OTx _ h b => [(h, b)] | _ => [] end) os.
Definition txs_on (p : N) (os : list obs) : list msg :=
  flat_map (fun o => match o with OTx q h b => if q =? p then [(h, b)] else [] | _ => [] end) os.

Definition is_nil {A} (l : list A) : bool := match l with [] => true | _ => false end.
Definition nmem (x : N) (l : list N) : bool := existsb (N.eqb x) l.
Definition several {A} (l : list A) : bool := match l with _ :: _ :: _ => true | _ => false end.
