(* C18 -- deadlines, best effort, fail-no-peers: the `select` idiom of the protocols' SendMsg / RecvMsg.

   Almost every protocol implements a blocking Send/Recv as

       lock; read options; pick the time channel; unlock
       select { case <own channel op>: done
                case <-closeQ:        ErrClosed
                case <-timeQ:         best effort ? drop, nil : timeout error
                case <-sizeQ:         (queue resized: retry / drop) }

   with timeQ = nilQ (never ready: no deadline), closedQ (a closed channel, always ready: best effort) or
   time.After(d).  Part 1 models that statement (Go picks any READY arm); Part 2 records, as data, which
   protocol offers which option; Part 3 is a big-step machine over the L1 stimuli for a representative set
   (xpair, xpush, xpull, xpub, xreq, xbus) whose entry decisions are the Part-1 functions.  The cooked sockets with
   contexts, REP and RESPONDENT, are in Model/DeadlineCtx.v (same decisions); REQ uses timers and a condition variable
   instead and is modelled in Model/Req.v.   No proofs here.

   Per-protocol table (read off protocol/*/*.go; "any" = every time.Duration accepted, <= 0 means none):

   impl         ctxs  SEND-DEADLINE  RECV-DEADLINE  BEST-EFFORT  FAIL-NO-PEERS  Send: no peer / full queue         Recv
   xpair xpair1 -     any            any            yes          -              shared sendQ: queues, blocks full   shared recvQ, blocks
   pair pair1   -     (wrappers of xpair / xpair1: identical)
   xreq         -     any            any            yes          -              shared sendQ: queues, blocks full   shared recvQ
   req          yes   any            any            yes          yes            cond-var + timers (Model/Req.v); ctxs inherit
   xpush push   -     any            -              yes          yes            shared sendQ; fnp: ErrNoPeers       ErrProtoOp
   xpull pull   -     -              any            -            -              ErrProtoOp                          shared recvQ
   xpub pub     -     -              -              -            -              per-pipe queue, drops when full     ErrProtoOp
   xsub         -     -              any            -            -              ErrProtoOp                          shared recvQ
   sub          yes   -              any            -            -              ErrProtoOp                          per-ctx recvQ; ctxs inherit
   xbus bus     -     -              any            -            -              per-pipe queue, drops when full     shared recvQ
   xstar star   -     -              any            -            -              per-pipe queue, drops when full     shared recvQ
   xsurveyor    -     -              any            -            -              per-pipe queue, drops when full     shared recvQ
   surveyor     yes   -              any            -            -              per-pipe queue, drops (never blocks) survey queue; ErrProtoState w/o survey; ctxs inherit
   xrep         -     any            any            yes          -              routed by header: unknown pipe => dropped, nil; per-pipe queue blocks when full;
                                                                                 pipe leaves mid-call => ErrClosed; socket Close does not wake it
   xrespondent  -     any            any            yes          -              as xrep but pipe leaves mid-call => dropped, nil
   rep          yes   > 0 only       > 0 only       yes          -              to the request's pipe (queue WRITEQ-LEN, default 0), blocks when full; ctxs do NOT inherit
   respondent   yes   > 0 only       > 0 only       yes          -              as rep; ctxs inherit
   (rep / respondent SetOption rejects a deadline <= 0 with ErrBadValue: a deadline once set cannot be removed.) *)
From MV Require Export Lib.Proto.
Open Scope N_scope.

(* ================= Part 1: the select statement ================= *)

Inductive arm :=
| ArmOp (ready : bool)          (* the operation's own channel: sendQ <- m (room?) / <-recvQ (message?) *)
| ArmClosed                     (* a closed channel: always ready (closedQ; closeQ after Close; noPeerQ after the last peer left) *)
| ArmTimer (start d : N)        (* time.After(d) created at `start` *)
| ArmNever.                     (* nilQ / an open closeQ: never ready *)

Inductive outcome := Done | TimedOut | Dropped | ErrClosed | ErrNoPeers | Blocked.

Definition arm_ready (now : N) (a : arm) : bool :=
  match a with
  | ArmOp r => r
  | ArmClosed => true
  | ArmTimer st d => st + d <=? now
  | ArmNever => false
  end.

(* the outcomes of the arms that are ready now *)
Definition ready_arms (now : N) (arms : list (arm * outcome)) : list outcome :=
  map snd (filter (fun ao => arm_ready now (fst ao)) arms).

(* Go's select without default: any ready arm may be taken; none ready: the goroutine stays parked *)
Definition select (now : N) (arms : list (arm * outcome)) : list outcome :=
  match ready_arms now arms with [] => [Blocked] | r => r end.

Definition time_arm (besteffort : bool) (deadline start : N) : arm :=
  if besteffort then ArmClosed else if 0 <? deadline then ArmTimer start deadline else ArmNever.
Definition close_arm (closed : bool) : arm := if closed then ArmClosed else ArmNever.

Definition send_arms (besteffort : bool) (deadline : N) (queue_has_room closed : bool) (start : N) : list (arm * outcome) :=
  [(ArmOp queue_has_room, Done); (close_arm closed, ErrClosed);
   (time_arm besteffort deadline start, if besteffort then Dropped else TimedOut)].
Definition send_outcome (besteffort : bool) (deadline : N) (queue_has_room closed : bool) (now start : N) : list outcome :=
  select now (send_arms besteffort deadline queue_has_room closed start).

Definition recv_arms (deadline : N) (has_msg closed : bool) (start : N) : list (arm * outcome) :=
  [(ArmOp has_msg, Done); (close_arm closed, ErrClosed); (time_arm false deadline start, TimedOut)].
Definition recv_outcome (deadline : N) (has_msg closed : bool) (now start : N) : list outcome :=
  select now (recv_arms deadline has_msg closed start).

(* xpush adds the noPeerQ arm (closed by RemovePipe when fail-no-peers is set and the last pipe left) *)
Definition send_outcome_np (besteffort : bool) (deadline : N) (queue_has_room closed nopeers : bool) (now start : N) : list outcome :=
  select now ((close_arm nopeers, ErrNoPeers) :: send_arms besteffort deadline queue_has_room closed start).

(* ================= Part 2: which implementation offers what ================= *)

Inductive drange := DNone | DAny | DPositive.      (* option absent / every duration (<= 0: no deadline) / only > 0 accepted *)
Inductive sendbeh := SbNoOp | SbSharedQ | SbPerPipeDrop | SbRouted | SbCondVar.
Inductive recvbeh := RbNoOp | RbSharedQ | RbCtxQ | RbSurvey | RbCondVar.
Record impl := {
  i_name : string; i_ctxs : bool; i_inherit : bool;
  i_sd : drange; i_rd : drange; i_be : bool; i_fnp : bool;
  i_send : sendbeh; i_recv : recvbeh }.
Definition I n c ih sd rd be fnp sb rb : impl :=
  {| i_name := n; i_ctxs := c; i_inherit := ih; i_sd := sd; i_rd := rd; i_be := be; i_fnp := fnp; i_send := sb; i_recv := rb |}.
Open Scope string_scope.
Definition impls : list impl := [
  I "xpair" false false DAny DAny true false SbSharedQ RbSharedQ;   I "pair" false false DAny DAny true false SbSharedQ RbSharedQ;
  I "xpair1" false false DAny DAny true false SbSharedQ RbSharedQ;  I "pair1" false false DAny DAny true false SbSharedQ RbSharedQ;
  I "xreq" false false DAny DAny true false SbSharedQ RbSharedQ;    I "req" true true DAny DAny true true SbCondVar RbCondVar;
  I "xpush" false false DAny DNone true true SbSharedQ RbNoOp;      I "push" false false DAny DNone true true SbSharedQ RbNoOp;
  I "xpull" false false DNone DAny false false SbNoOp RbSharedQ;    I "pull" false false DNone DAny false false SbNoOp RbSharedQ;
  I "xpub" false false DNone DNone false false SbPerPipeDrop RbNoOp; I "pub" false false DNone DNone false false SbPerPipeDrop RbNoOp;
  I "xsub" false false DNone DAny false false SbNoOp RbSharedQ;     I "sub" true true DNone DAny false false SbNoOp RbCtxQ;
  I "xbus" false false DNone DAny false false SbPerPipeDrop RbSharedQ; I "bus" false false DNone DAny false false SbPerPipeDrop RbSharedQ;
  I "xstar" false false DNone DAny false false SbPerPipeDrop RbSharedQ; I "star" false false DNone DAny false false SbPerPipeDrop RbSharedQ;
  I "xsurveyor" false false DNone DAny false false SbPerPipeDrop RbSharedQ; I "surveyor" true true DNone DAny false false SbPerPipeDrop RbSurvey;
  I "xrep" false false DAny DAny true false SbRouted RbSharedQ;     I "xrespondent" false false DAny DAny true false SbRouted RbSharedQ;
  I "rep" true false DPositive DPositive true false SbRouted RbSharedQ; I "respondent" true true DPositive DPositive true false SbRouted RbSharedQ ].
Close Scope string_scope.

(* SetOption's verdict on a duration in ms *)
Definition range_accepts (r : drange) (v : Z) : option bool :=    (* None: ErrBadOption; Some false: ErrBadValue *)
  match r with DNone => None | DAny => Some true | DPositive => Some (0 <? v)%Z end.

(* ================= Part 3: the queue sockets as a machine over L1 histories ================= *)

Inductive skind := SkNone | SkShared | SkCentral | SkBcast.
(*  SkShared : one sendQ (cap WRITEQ-LEN); every pipe's sender goroutine receives from it (xpair, xreq)
    SkCentral: one sendQ; a socket goroutine moves its head to the first ready pipe when len(sendQ) > 0 (xpush)
    SkBcast  : a queue per pipe (cap = WRITEQ-LEN when the pipe was added), non-blocking offer to each (xpub, xbus) *)
Inductive rkind := RkNone | RkPlain | RkReq4 | RkBusId.
Record cfg := {
  k_send : skind; k_recv : rkind;
  k_sd : bool; k_rd : bool; k_be : bool; k_fnp : bool;   (* options offered *)
  k_wq : bool; k_rq : bool;
  k_closedcheck : bool;   (* SendMsg tests s.closed under the lock before the select (xreq does not: Close sets sendQ = nil) *)
  k_busexcl : bool;       (* xbus: a 4-byte header names the pipe that must not get a copy, and is stripped *)
  k_rearm : bool }.       (* the code as found: RecvMsg created its timer inside the sizeQ retry loop, so a queue resize
                             restarted a parked Recv's deadline.  false = repaired code (timer created once per call) *)

Definition cfg_xpair := {| k_send := SkShared; k_recv := RkPlain; k_sd := true; k_rd := true; k_be := true; k_fnp := false;
                           k_wq := true; k_rq := true; k_closedcheck := true; k_busexcl := false; k_rearm := false |}.
Definition cfg_xreq  := {| k_send := SkShared; k_recv := RkReq4; k_sd := true; k_rd := true; k_be := true; k_fnp := false;
                           k_wq := true; k_rq := true; k_closedcheck := false; k_busexcl := false; k_rearm := false |}.
Definition cfg_xpush := {| k_send := SkCentral; k_recv := RkNone; k_sd := true; k_rd := false; k_be := true; k_fnp := true;
                           k_wq := true; k_rq := false; k_closedcheck := true; k_busexcl := false; k_rearm := false |}.
Definition cfg_xpull := {| k_send := SkNone; k_recv := RkPlain; k_sd := false; k_rd := true; k_be := false; k_fnp := false;
                           k_wq := false; k_rq := true; k_closedcheck := true; k_busexcl := false; k_rearm := false |}.
Definition cfg_xpub  := {| k_send := SkBcast; k_recv := RkNone; k_sd := false; k_rd := false; k_be := false; k_fnp := false;
                           k_wq := true; k_rq := false; k_closedcheck := true; k_busexcl := false; k_rearm := false |}.
Definition cfg_xbus  := {| k_send := SkBcast; k_recv := RkBusId; k_sd := false; k_rd := true; k_be := false; k_fnp := false;
                           k_wq := true; k_rq := true; k_closedcheck := true; k_busexcl := true; k_rearm := false |}.

Definition as_found (k : cfg) : cfg :=
  {| k_send := k_send k; k_recv := k_recv k; k_sd := k_sd k; k_rd := k_rd k; k_be := k_be k; k_fnp := k_fnp k; k_wq := k_wq k; k_rq := k_rq k;
     k_closedcheck := k_closedcheck k; k_busexcl := k_busexcl k; k_rearm := true |}.

Definition msg := (bytes * bytes)%type.    (* header, body *)

(* a blocked API call.  Its time.After was created between two measured time stamps: b_lo (the STick before the
   call) and b_hi (the next time stamp); b_d = 0: no deadline. *)
Record bcall := { b_t : N; b_msg : msg; b_lo : N; b_hi : option N; b_d : N }.

Record qpipe := {
  qp_id : N; qp_alive : bool; qp_hold : bool;
  qp_busy : bool;            (* a message is inside pipe.SendMsg (held by the harness) *)
  qp_q : list msg; qp_cap : N;   (* SkBcast: the pipe's own queue *)
  qp_rx : option msg }.      (* the receiver goroutine is parked on recvQ <- m *)

Record qst := {
  q_pipes : list qpipe;
  q_sendq : list msg; q_W : N;
  q_recvq : list msg; q_R : N;
  q_ready : list N;          (* SkCentral: readyQ *)
  q_rxwait : list N;         (* pipes whose receiver is parked on recvQ, in arrival order *)
  q_bsend : list bcall; q_brecv : list bcall;    (* parked API calls, oldest first (channel wait queues are FIFO) *)
  q_sd : N; q_rd : N; q_be : bool; q_fnp : bool;
  q_closed : bool; q_now : N; q_out : list obs; q_ambig : bool }.

Definition qinit : qst :=
  {| q_pipes := []; q_sendq := []; q_W := 128; q_recvq := []; q_R := 128; q_ready := []; q_rxwait := [];
     q_bsend := []; q_brecv := []; q_sd := 0; q_rd := 0; q_be := false; q_fnp := false;
     q_closed := false; q_now := 0; q_out := []; q_ambig := false |}.

(* ---- record updates ---- *)
Definition set_pipes (s : qst) (x : list qpipe) : qst :=
  {| q_pipes := x; q_sendq := q_sendq s; q_W := q_W s; q_recvq := q_recvq s; q_R := q_R s; q_ready := q_ready s; q_rxwait := q_rxwait s;
     q_bsend := q_bsend s; q_brecv := q_brecv s; q_sd := q_sd s; q_rd := q_rd s; q_be := q_be s; q_fnp := q_fnp s;
     q_closed := q_closed s; q_now := q_now s; q_out := q_out s; q_ambig := q_ambig s |}.
Definition set_sendq (s : qst) (x : list msg) : qst :=
  {| q_pipes := q_pipes s; q_sendq := x; q_W := q_W s; q_recvq := q_recvq s; q_R := q_R s; q_ready := q_ready s; q_rxwait := q_rxwait s;
     q_bsend := q_bsend s; q_brecv := q_brecv s; q_sd := q_sd s; q_rd := q_rd s; q_be := q_be s; q_fnp := q_fnp s;
     q_closed := q_closed s; q_now := q_now s; q_out := q_out s; q_ambig := q_ambig s |}.
Definition set_recvq (s : qst) (x : list msg) (w : list N) : qst :=
  {| q_pipes := q_pipes s; q_sendq := q_sendq s; q_W := q_W s; q_recvq := x; q_R := q_R s; q_ready := q_ready s; q_rxwait := w;
     q_bsend := q_bsend s; q_brecv := q_brecv s; q_sd := q_sd s; q_rd := q_rd s; q_be := q_be s; q_fnp := q_fnp s;
     q_closed := q_closed s; q_now := q_now s; q_out := q_out s; q_ambig := q_ambig s |}.
Definition set_ready (s : qst) (x : list N) : qst :=
  {| q_pipes := q_pipes s; q_sendq := q_sendq s; q_W := q_W s; q_recvq := q_recvq s; q_R := q_R s; q_ready := x; q_rxwait := q_rxwait s;
     q_bsend := q_bsend s; q_brecv := q_brecv s; q_sd := q_sd s; q_rd := q_rd s; q_be := q_be s; q_fnp := q_fnp s;
     q_closed := q_closed s; q_now := q_now s; q_out := q_out s; q_ambig := q_ambig s |}.
Definition set_bsend (s : qst) (x : list bcall) : qst :=
  {| q_pipes := q_pipes s; q_sendq := q_sendq s; q_W := q_W s; q_recvq := q_recvq s; q_R := q_R s; q_ready := q_ready s; q_rxwait := q_rxwait s;
     q_bsend := x; q_brecv := q_brecv s; q_sd := q_sd s; q_rd := q_rd s; q_be := q_be s; q_fnp := q_fnp s;
     q_closed := q_closed s; q_now := q_now s; q_out := q_out s; q_ambig := q_ambig s |}.
Definition set_brecv (s : qst) (x : list bcall) : qst :=
  {| q_pipes := q_pipes s; q_sendq := q_sendq s; q_W := q_W s; q_recvq := q_recvq s; q_R := q_R s; q_ready := q_ready s; q_rxwait := q_rxwait s;
     q_bsend := q_bsend s; q_brecv := x; q_sd := q_sd s; q_rd := q_rd s; q_be := q_be s; q_fnp := q_fnp s;
     q_closed := q_closed s; q_now := q_now s; q_out := q_out s; q_ambig := q_ambig s |}.
Definition set_opts (s : qst) (sd rd : N) (be fnp : bool) (w r : N) : qst :=
  {| q_pipes := q_pipes s; q_sendq := q_sendq s; q_W := w; q_recvq := q_recvq s; q_R := r; q_ready := q_ready s; q_rxwait := q_rxwait s;
     q_bsend := q_bsend s; q_brecv := q_brecv s; q_sd := sd; q_rd := rd; q_be := be; q_fnp := fnp;
     q_closed := q_closed s; q_now := q_now s; q_out := q_out s; q_ambig := q_ambig s |}.
Definition set_misc (s : qst) (closed : bool) (nw : N) (amb : bool) : qst :=
  {| q_pipes := q_pipes s; q_sendq := q_sendq s; q_W := q_W s; q_recvq := q_recvq s; q_R := q_R s; q_ready := q_ready s; q_rxwait := q_rxwait s;
     q_bsend := q_bsend s; q_brecv := q_brecv s; q_sd := q_sd s; q_rd := q_rd s; q_be := q_be s; q_fnp := q_fnp s;
     q_closed := closed; q_now := nw; q_out := q_out s; q_ambig := amb |}.
Definition emit (s : qst) (o : obs) : qst :=
  {| q_pipes := q_pipes s; q_sendq := q_sendq s; q_W := q_W s; q_recvq := q_recvq s; q_R := q_R s; q_ready := q_ready s; q_rxwait := q_rxwait s;
     q_bsend := q_bsend s; q_brecv := q_brecv s; q_sd := q_sd s; q_rd := q_rd s; q_be := q_be s; q_fnp := q_fnp s;
     q_closed := q_closed s; q_now := q_now s; q_out := o :: q_out s; q_ambig := q_ambig s |}.
Definition clear_out (s : qst) : qst :=
  {| q_pipes := q_pipes s; q_sendq := q_sendq s; q_W := q_W s; q_recvq := q_recvq s; q_R := q_R s; q_ready := q_ready s; q_rxwait := q_rxwait s;
     q_bsend := q_bsend s; q_brecv := q_brecv s; q_sd := q_sd s; q_rd := q_rd s; q_be := q_be s; q_fnp := q_fnp s;
     q_closed := q_closed s; q_now := q_now s; q_out := []; q_ambig := q_ambig s |}.
Definition set_ambig (s : qst) : qst := set_misc s (q_closed s) (q_now s) true.

Definition with_pipe (x : qpipe) (hold busy : bool) (q : list msg) (rx : option msg) : qpipe :=
  {| qp_id := qp_id x; qp_alive := qp_alive x; qp_hold := hold; qp_busy := busy; qp_q := q; qp_cap := qp_cap x; qp_rx := rx |}.
Definition dead_pipe (x : qpipe) : qpipe :=
  {| qp_id := qp_id x; qp_alive := false; qp_hold := qp_hold x; qp_busy := false; qp_q := []; qp_cap := qp_cap x; qp_rx := None |}.

Definition get_pipe (s : qst) (p : N) : option qpipe := find (fun x => qp_id x =? p) (q_pipes s).
Definition put_pipe (s : qst) (x : qpipe) : qst :=
  set_pipes s (map (fun y => if qp_id y =? qp_id x then x else y) (q_pipes s)).
Definition live_pipes (s : qst) : list qpipe := filter qp_alive (q_pipes s).
Definition no_peers (s : qst) : bool := match live_pipes s with [] => true | _ => false end.
Definition idle_consumers (s : qst) : list qpipe := filter (fun x => qp_alive x && negb (qp_busy x)) (q_pipes s).
Definition nlen {A} (l : list A) : N := N.of_nat (length l).
Definition nremove (x : N) (l : list N) : list N := filter (fun y => negb (y =? x)) l.

(* can `sendQ <- m` proceed now? *)
Definition send_room (k : cfg) (s : qst) : bool :=
  match k_send k with
  | SkShared => negb (q_closed s && negb (k_closedcheck k))
                && ((nlen (q_sendq s) <? q_W s) || match idle_consumers s with [] => false | _ => true end)
  | SkCentral => nlen (q_sendq s) <? q_W s      (* the socket's sender goroutine tests len(sendQ) first: no hand-off *)
  | _ => false
  end.
(* can `<-recvQ` proceed now? (an empty queue with a parked receiver goroutine: READQ-LEN = 0 hand-off) *)
Definition recv_has (s : qst) : bool :=
  match q_recvq s, q_rxwait s with [], [] => false | _, _ => true end.

(* ---- the goroutines that move messages from the send queue(s) to the pipes ---- *)
Definition tx (s : qst) (p : N) (m : msg) : qst := emit s (OTx p (fst m) (snd m)).

Fixpoint pump (k : cfg) (fuel : nat) (nh : list N) (s : qst) : qst :=
  match fuel with
  | O => s
  | S f =>
    let unblock :=
      match q_bsend s with
      | b :: bs => if send_room k s
                   then pump k f nh (emit (set_sendq (set_bsend s bs) (q_sendq s ++ [b_msg b])) (ORet (b_t b) ROk))
                   else s
      | [] => s
      end in
    match k_send k with
    | SkShared =>
      match q_sendq s, idle_consumers s with
      | m :: rest, [x] =>
        let s := tx (set_sendq s rest) (qp_id x) m in
        pump k f nh (if qp_hold x then put_pipe s (with_pipe x true true (qp_q x) (qp_rx x)) else s)
      | _ :: _, _ :: _ :: _ => set_ambig s      (* which pipe's sender goroutine wins: not enumerated *)
      | _, _ => unblock
      end
    | SkCentral =>
      if q_closed s then s else
      match q_sendq s, q_ready s with
      | m :: rest, p :: rq =>
        match get_pipe s p with
        | Some x =>
          let s := tx (set_ready (set_sendq s rest) rq) p m in
          if qp_hold x then pump k f nh (put_pipe s (with_pipe x true true (qp_q x) (qp_rx x)))
          else
            (* the send completes at once and the pipe re-enters readyQ; two such completions race for the order *)
            let s := if existsb (fun q => negb (q =? p)) nh then set_ambig s else s in
            pump k f (p :: nh) (set_ready s (q_ready s ++ [p]))
        | None => s
        end
      | _, _ => unblock
      end
    | _ => s
    end
  end.
Definition pump_all (k : cfg) (s : qst) : qst :=
  pump k (4 + 2 * (length (q_sendq s) + length (q_bsend s))) [] s.

(* SkBcast: one pipe's sender goroutine *)
Fixpoint pump_pipe (fuel : nat) (s : qst) (p : N) : qst :=
  match fuel with
  | O => s
  | S f =>
    match get_pipe s p with
    | Some x =>
      if qp_alive x && negb (qp_busy x) then
        match qp_q x with
        | m :: rest =>
          let s := tx s p m in
          if qp_hold x then put_pipe s (with_pipe x true true rest (qp_rx x))
          else pump_pipe f (put_pipe s (with_pipe x (qp_hold x) false rest (qp_rx x))) p
        | [] => s
        end
      else s
    | None => s
    end
  end.

(* ---- receive side ---- *)
(* the receiver goroutine of pipe p has m in hand: recvQ <- m *)
Definition rx_push (s : qst) (p : N) (m : msg) : qst :=
  match q_brecv s with
  | b :: bs => emit (set_brecv s bs) (ORet (b_t b) (RMsg (fst m) (snd m)))
  | [] =>
    if nlen (q_recvq s) <? q_R s then set_recvq s (q_recvq s ++ [m]) (q_rxwait s)
    else match get_pipe s p with
         | Some x => set_recvq (put_pipe s (with_pipe x (qp_hold x) (qp_busy x) (qp_q x) (Some m))) (q_recvq s) (q_rxwait s ++ [p])
         | None => s
         end
  end.
(* an API call takes one message *)
Definition rx_take (s : qst) : option (msg * qst) :=
  let refill (s : qst) :=
    match q_rxwait s with
    | p :: w =>
      match get_pipe s p with
      | Some x => match qp_rx x with
                  | Some m => set_recvq (put_pipe s (with_pipe x (qp_hold x) (qp_busy x) (qp_q x) None)) (q_recvq s ++ [m]) w
                  | None => s end
      | None => s
      end
    | [] => s
    end in
  match q_recvq s with
  | m :: rest => Some (m, refill (set_recvq s rest (q_rxwait s)))
  | [] =>
    match q_rxwait s with
    | p :: w =>
      match get_pipe s p with
      | Some x => match qp_rx x with
                  | Some m => Some (m, set_recvq (put_pipe s (with_pipe x (qp_hold x) (qp_busy x) (qp_q x) None)) [] w)
                  | None => None end
      | None => None
      end
    | [] => None
    end
  end.

Definition pipe_wire_id (p : N) : N := 1000 + p.     (* the mock pipes' ID() *)

Definition rx_transform (k : cfg) (p : N) (body : bytes) : option msg :=
  match k_recv k with
  | RkNone => None
  | RkPlain => Some ([], body)
  | RkReq4 => match body with a :: b :: c :: d :: r => Some ([a; b; c; d], r) | _ => None end
  | RkBusId => Some (be_enc 4 (pipe_wire_id p), body)
  end.

(* ---- pipe removal ---- *)
Definition remove_pipe (k : cfg) (s : qst) (p : N) : qst :=
  match get_pipe s p with
  | None => s
  | Some x =>
    if negb (qp_alive x) then s else
    let s := put_pipe s (dead_pipe x) in
    let s := set_ready s (nremove p (q_ready s)) in
    let s := set_recvq s (q_recvq s) (nremove p (q_rxwait s)) in
    if k_fnp k && q_fnp s && no_peers s then
      (* close(noPeerQ): every parked Send takes that arm *)
      fold_left (fun s b => emit s (ORet (b_t b) (RErr ENoPeers))) (q_bsend s) (set_bsend s [])
    else s
  end.

(* ---- API calls ---- *)
Definition opt_ms (v : Z) : N := Z.to_N v.
Definition reply (s : qst) (t : N) (r : ret) : qst := emit s (ORet t r).
Definition park (d : N) (s : qst) (t : N) (m : msg) : bcall :=
  {| b_t := t; b_msg := m; b_lo := q_now s; b_hi := None; b_d := d |}.

Definition do_send (k : cfg) (s : qst) (t : N) (hdr body : bytes) : list qst :=
  match k_send k with
  | SkNone => [reply s t (RErr EProtoOp)]
  | SkBcast =>
    if q_closed s then [reply s t (RErr EClosed)] else
    let strip := k_busexcl k && (nlen hdr =? 4) in
    let excl := if strip then Some (be_dec hdr) else None in
    let m : msg := (if strip then [] else hdr, body) in
    let s := fold_left (fun s x0 =>
               match get_pipe s (qp_id x0) with
               | Some x =>
                 if match excl with Some e => e =? pipe_wire_id (qp_id x) | None => false end then s
                 else if (nlen (qp_q x) <? qp_cap x) || negb (qp_busy x)
                      then pump_pipe 4 (put_pipe s (with_pipe x (qp_hold x) (qp_busy x) (qp_q x ++ [m]) (qp_rx x))) (qp_id x)
                      else s      (* back-pressure: this pipe's copy is dropped *)
               | None => s
               end) (live_pipes s) s in
    [reply s t ROk]
  | _ =>
    if k_closedcheck k && q_closed s then [reply s t (RErr EClosed)]
    else if k_fnp k && q_fnp s && no_peers s then [reply s t (RErr ENoPeers)]
    else
      let d := if q_be s then 0 else q_sd s in
      flat_map (fun o =>
        match o with
        | Done => [reply (pump_all k (set_sendq s (q_sendq s ++ [(hdr, body)]))) t ROk]
        | Dropped => [reply s t ROk]
        | ErrClosed => [reply s t (RErr EClosed)]
        | ErrNoPeers => [reply s t (RErr ENoPeers)]
        | TimedOut => [reply s t (RErr ESendTimeout)]
        | Blocked => [set_bsend s (q_bsend s ++ [park d s t (hdr, body)])]
        end) (send_outcome (q_be s) (q_sd s) (send_room k s) (q_closed s) (q_now s) (q_now s))
  end.

Definition do_recv (k : cfg) (s : qst) (t : N) : list qst :=
  match k_recv k with
  | RkNone => [reply s t (RErr EProtoOp)]
  | _ =>
    flat_map (fun o =>
      match o with
      | Done => match rx_take s with
                | Some (m, s') => [reply s' t (RMsg (fst m) (snd m))]
                | None => []
                end
      | ErrClosed => [reply s t (RErr EClosed)]
      | TimedOut => [reply s t (RErr ERecvTimeout)]
      | Blocked => [set_brecv s (q_brecv s ++ [park (q_rd s) s t ([], [])])]
      | _ => []
      end) (recv_outcome (q_rd s) (recv_has s) (q_closed s) (q_now s) (q_now s))
  end.

Definition quiet (s : qst) : bool :=     (* nothing queued or parked: a queue may be replaced without losing anything *)
  negb (q_closed s) &&    (* (after Close a new queue length re-creates xreq's sendQ, which Close had set to nil: not modelled) *)
  match q_sendq s, q_recvq s, q_bsend s, q_brecv s, q_rxwait s with [], [], [], [], [] => true | _, _, _, _, _ => false end.

(* A new queue length closes sizeQ: every parked call of a protocol that selects on it wakes up.  RecvMsg loops and
   re-reads the queues.  In the code as found (k_rearm) it also called time.After again -- the deadline started afresh
   (xpair, xreq, xpull, xbus all created the timer inside the loop); the repaired code keeps the timer of the call.
   Only the simplest case is enumerated: one parked Recv, nothing else. *)
Definition rearm_single (k : cfg) (s : qst) : option qst :=
  if q_closed s then None else
  match q_sendq s, q_recvq s, q_bsend s, q_rxwait s, q_brecv s with
  | [], [], [], [], [b] =>
    if k_rearm k then Some (set_brecv s [{| b_t := b_t b; b_msg := b_msg b; b_lo := q_now s; b_hi := None; b_d := q_rd s |}])
    else Some s
  | _, _, _, _, _ => None
  end.
Definition resized (k : cfg) (s : qst) : qst :=
  if quiet s then s else match rearm_single k s with Some s' => s' | None => set_ambig s end.

Definition do_setopt (k : cfg) (s : qst) (t : N) (o : opt) (v : Z) : qst :=
  let bad := reply s t (RErr EBadOption) in
  let bv := reply s t (RErr EBadValue) in
  match o with
  | OSendDeadline => if k_sd k then reply (set_opts s (opt_ms v) (q_rd s) (q_be s) (q_fnp s) (q_W s) (q_R s)) t ROk else bad
  | ORecvDeadline => if k_rd k then reply (set_opts s (q_sd s) (opt_ms v) (q_be s) (q_fnp s) (q_W s) (q_R s)) t ROk else bad
  | OBestEffort => if k_be k then reply (set_opts s (q_sd s) (q_rd s) (negb (v =? 0)%Z) (q_fnp s) (q_W s) (q_R s)) t ROk else bad
  | OFailNoPeers => if k_fnp k then reply (set_opts s (q_sd s) (q_rd s) (q_be s) (negb (v =? 0)%Z) (q_W s) (q_R s)) t ROk else bad
  | OWriteQLen =>
    if negb (k_wq k) then bad else if (v <? 0)%Z then bv
    else
      (* the shared queue is replaced (parked calls are woken through sizeQ and re-arm): only modelled when idle *)
      let s := match k_send k with SkBcast => s | SkShared => resized k s | _ => if quiet s then s else set_ambig s end in
      reply (set_opts s (q_sd s) (q_rd s) (q_be s) (q_fnp s) (opt_ms v) (q_R s)) t ROk
  | OReadQLen =>
    if negb (k_rq k) then bad else if (v <? 0)%Z then bv
    else reply (set_opts (resized k s) (q_sd s) (q_rd s) (q_be s) (q_fnp s) (q_W s) (opt_ms v)) t ROk
  | _ => bad
  end.

Definition do_close (s : qst) (t : N) : qst :=
  if q_closed s then reply s t (RErr EClosed)
  else
    let s := set_misc s true (q_now s) (q_ambig s) in
    let s := fold_left (fun s b => emit s (ORet (b_t b) (RErr EClosed))) (q_bsend s ++ q_brecv s) (set_brecv (set_bsend s []) []) in
    reply s t ROk.

Definition tol : N := 10.   (* ms *)

Definition seal (at_ : N) (l : list bcall) : list bcall :=
  map (fun b => match b_hi b with
                | Some _ => b
                | None => {| b_t := b_t b; b_msg := b_msg b; b_lo := b_lo b; b_hi := Some at_; b_d := b_d b |}
                end) l.
Definition hi_of (b : bcall) : N := match b_hi b with Some h => h | None => b_lo b end.
(* the deadline certainly expired before `until` / certainly not *)
Definition fired (until : N) (b : bcall) : bool :=
  (0 <? b_d b) && (hi_of b + b_d b + tol <=? until) && (b_lo b + b_d b <=? until).
Definition notyet (until : N) (b : bcall) : bool := (b_d b =? 0) || (until + tol <=? b_lo b + b_d b).

Definition do_pass (s : qst) (until : N) : qst :=
  let bs := seal until (q_bsend s) in
  let br := seal until (q_brecv s) in
  let unclear := existsb (fun b => negb (fired until b) && negb (notyet until b)) (bs ++ br) in
  let s := set_brecv (set_bsend s (filter (fun b => negb (fired until b)) bs)) (filter (fun b => negb (fired until b)) br) in
  let s := fold_left (fun s b => emit s (ORet (b_t b) (RErr ESendTimeout))) (filter (fired until) bs) s in
  let s := fold_left (fun s b => emit s (ORet (b_t b) (RErr ERecvTimeout))) (filter (fired until) br) s in
  set_misc s (q_closed s) until (q_ambig s || unclear).

Definition do_tick (s : qst) (at_ : N) : qst :=
  let s := set_brecv (set_bsend s (seal at_ (q_bsend s))) (seal at_ (q_brecv s)) in
  (* outside a sleep no deadline may be (nearly) due: else the order of its expiry and the next stimulus is open *)
  let near := existsb (fun b => (0 <? b_d b) && (b_lo b + b_d b <? at_ + tol)) (q_bsend s ++ q_brecv s) in
  set_misc s (q_closed s) (N.max (q_now s) at_) (q_ambig s || near).

Definition nstep_raw (k : cfg) (s : qst) (st : stim) : list qst :=
  match st with
  | SCall t (CSend _ hdr body) => do_send k s t hdr body
  | SCall t (CRecv _) => do_recv k s t
  | SCall t (CSetOpt _ o v _) => [do_setopt k s t o v]
  | SCall t (COpenCtx _) => [reply s t (RErr EProtoOp)]
  | SCall t (CCloseCtx _) => [set_ambig s]
  | SCall t CCloseSock => [do_close s t]
  | SPass until => [do_pass s until]
  | STick at_ => [do_tick s at_]
  | _ =>
    if q_closed s then [set_ambig s]      (* pipe events after Close are left to the core-level checks *)
    else
    match st with
    | SAddPipe p =>
      let s := set_pipes s (q_pipes s ++ [{| qp_id := p; qp_alive := true; qp_hold := false; qp_busy := false; qp_q := [];
                                             qp_cap := q_W s; qp_rx := None |}]) in
      let s := match k_send k with SkCentral => set_ready s (q_ready s ++ [p]) | _ => s end in
      [pump_all k s]
    | SDropPipe p => [remove_pipe k s p]
    | SDeliver p body =>
      match get_pipe s p with
      | Some x =>
        if negb (qp_alive x) then [emit s (ONotTaken p)]
        else match qp_rx x with
             | Some _ => [emit s (ONotTaken p)]
             | None => match rx_transform k p body with
                       | Some m => [rx_push s p m]
                       | None => [s]
                       end
             end
      | None => [emit s (ONotTaken p)]
      end
    | SHold p h =>
      match get_pipe s p with
      | Some x => [put_pipe s (with_pipe x h (qp_busy x) (qp_q x) (qp_rx x))]
      | None => [s]
      end
    | SRelease p ok =>
      match get_pipe s p with
      | Some x =>
        if qp_alive x && qp_busy x then
          if ok then
            let s := put_pipe s (with_pipe x (qp_hold x) false (qp_q x) (qp_rx x)) in
            match k_send k with
            | SkBcast => [pump_pipe (4 + length (qp_q x)) s p]
            | SkCentral => [pump_all k (set_ready s (q_ready s ++ [p]))]
            | _ => [pump_all k s]
            end
          else [remove_pipe k s p]      (* a failed transport send closes the pipe (the mock does, as core does) *)
        else [s]
      | None => [s]
      end
    | _ => [s]
    end
  end.

Definition nstep (k : cfg) (s : qst) (st : stim) : list qst := nstep_raw k (clear_out s) st.

Definition blocked (s : qst) : list N := map b_t (q_bsend s) ++ map b_t (q_brecv s).
Definition obs_of (s : qst) : list obs := rev (q_out s).

(* ---- history checker for a machine with enumerated choices: keeps every state that explains the
        observations so far (a best-effort Send with room may queue or drop: both return nil) ---- *)
Record nmodel := {
  n_state : Type;
  n_step : n_state -> stim -> list n_state;     (* every candidate successor *)
  n_obs : n_state -> list obs;                  (* the observations of the step that led here *)
  n_blocked : n_state -> list N;
  n_ambiguous : n_state -> bool }.

Definition nagrees (M : nmodel) (os : list obs) (bl : list N) (s : n_state M) : bool :=
  obs_perm (n_obs M s) os && nlist_eqb (nsort (n_blocked M s)) (nsort bl).

Fixpoint ncheck_gen (M : nmodel) (ss : list (n_state M)) (i : N) (h : list step_rec) : option N :=
  match h with
  | [] => None
  | (st, os, bl) :: r =>
    let cands := flat_map (fun s => n_step M s st) ss in
    if existsb (n_ambiguous M) cands then None
    else match filter (nagrees M os bl) cands with
         | [] =>
           (* the step took so long that a deadline became (nearly) due within it: the next time stamp tells *)
           match r with
           | (st2, _, _) :: _ => if existsb (n_ambiguous M) (flat_map (fun s => n_step M s st2) cands) then None else Some i
           | [] => Some i
           end
         | ok => ncheck_gen M ok (N.succ i) r
         end
  end.

Fixpoint nambiguous_gen (M : nmodel) (ss : list (n_state M)) (i : N) (h : list step_rec) : option N :=
  match h with
  | [] => None
  | (st, os, bl) :: r =>
    let cands := flat_map (fun s => n_step M s st) ss in
    if existsb (n_ambiguous M) cands then Some i
    else match filter (nagrees M os bl) cands with
         | [] => None
         | ok => nambiguous_gen M ok (N.succ i) r
         end
  end.

Definition qnmodel (k : cfg) : nmodel :=
  {| n_state := qst; n_step := nstep k; n_obs := obs_of; n_blocked := blocked; n_ambiguous := q_ambig |}.
Definition ncheck_from (k : cfg) (ss : list qst) (i : N) (h : list step_rec) : option N := ncheck_gen (qnmodel k) ss i h.
Definition nambiguous_from (k : cfg) (ss : list qst) (i : N) (h : list step_rec) : option N := nambiguous_gen (qnmodel k) ss i h.

(* the same machines as deterministic `model`s: a step with several candidates is declared ambiguous *)
Definition dstep (k : cfg) (s : qst) (st : stim) : qst * list obs :=
  match nstep k s st with
  | [x] => (x, obs_of x)
  | x :: _ => (set_ambig x, obs_of x)
  | [] => (set_ambig s, [])
  end.
Definition qmodel (k : cfg) : model :=
  {| m_state := qst; m_step := dstep k; m_blocked := blocked; m_ambiguous := q_ambig |}.
Definition xpair_model := qmodel cfg_xpair.
Definition xreq_model := qmodel cfg_xreq.
Definition xpush_model := qmodel cfg_xpush.
Definition xpull_model := qmodel cfg_xpull.
Definition xpub_model := qmodel cfg_xpub.
Definition xbus_model := qmodel cfg_xbus.
