(* PUB/SUB family (protocol/sub/sub.go, xsub/xsub.go, xpub/xpub.go, pub/pub.go) as deterministic state
   machines over the L1 stimuli.  One step = one stimulus followed by everything the library's goroutines
   do until quiescence.  Three machines (cooked SUB with contexts, raw XSUB, PUB = XPUB) and one wrapper
   `pubsub_model` whose first stimulus `SCall 0 (CSetOpt 0 OTtl kind [])` (written by the harness in front of
   every history; never an API call) selects the machine.  The SUB machine takes a flag `fixed`: false = sub.go as
   found (READQ-LEN < 0 panics in make(chan); READQ-LEN 0 wedges the socket), true = the repaired code (READQ-LEN < 0
   is ErrBadValue; the receiver's last enqueue attempt is non-blocking, so a zero-length queue drops what no parked
   Recv takes).  No proofs here. *)
From MV Require Export Lib.Proto.
Open Scope N_scope.

(* a Go runtime panic in the calling goroutine (recovered by the harness), reported as an error class *)
Definition EPanic : N := 98.

(* kinds, as written by the harness *)
Definition KSub : Z := 1%Z. Definition KXSub : Z := 2%Z. Definition KPub : Z := 3%Z. Definition KXPub : Z := 4%Z.

Definition ptol : N := 15.   (* ms: a timer this close to a step boundary may or may not have fired *)

(* context.matches: some subscription is a prefix of the body *)
Definition matches (subs : list bytes) (body : bytes) : bool := existsb (fun s => is_prefix s body) subs.

(* ---- association lists (insertion order preserved, keys unique) ---- *)
Fixpoint kget {V} (k : N) (l : list (N * V)) : option V :=
  match l with [] => None | (k', v) :: r => if k =? k' then Some v else kget k r end.
Fixpoint kset {V} (k : N) (v : V) (l : list (N * V)) : list (N * V) :=
  match l with [] => [(k, v)] | (k', v') :: r => if k =? k' then (k, v) :: r else (k', v') :: kset k v r end.
Definition qlen {A} (l : list A) : N := N.of_nat (length l).
Definition ms_of (v : Z) : N := Z.to_N v.      (* durations <= 0 mean "none" *)

(* a blocked RecvMsg: call id, context, time its deadline timer fires *)
Record rthread := { th_id : N; th_ctx : N; th_due : option N }.
Definition blocked_on (ths : list rthread) (c : N) : list rthread := filter (fun th => th_ctx th =? c) ths.
Definition not_in (ids : list N) (ths : list rthread) : list rthread :=
  filter (fun th => negb (existsb (N.eqb (th_id th)) ids)) ths.
Definition due_by (tm : N) (th : rthread) : bool := match th_due th with Some d => d <=? tm | None => false end.
Definition near (tm : N) (th : rthread) : bool := match th_due th with Some d => d <? tm + ptol | None => false end.
Definition arm_at (now exp : N) : option N := if 0 <? exp then Some (now + exp) else None.

(* ================================================================================================ *)
(*  cooked SUB                                                                                       *)
(* ================================================================================================ *)
Record sctx := {
  x_subs : list bytes;      (* c.subs, in insertion order, no duplicates *)
  x_q : list bytes;         (* c.recvQ, oldest first (bodies; headers are empty on arrival) *)
  x_qlen : N;               (* c.recvQLen = capacity of recvQ *)
  x_exp : N;                (* c.recvExpire in ms, 0 = none *)
  x_closed : bool;          (* closed contexts are no longer in s.ctxs *)
}.
Definition with_subs_q (x : sctx) subs q : sctx :=
  {| x_subs := subs; x_q := q; x_qlen := x_qlen x; x_exp := x_exp x; x_closed := x_closed x |}.
Definition with_q (x : sctx) q : sctx := with_subs_q x (x_subs x) q.
Definition with_qlen (x : sctx) n : sctx :=
  {| x_subs := x_subs x; x_q := []; x_qlen := n; x_exp := x_exp x; x_closed := x_closed x |}.
Definition with_exp (x : sctx) e : sctx :=
  {| x_subs := x_subs x; x_q := x_q x; x_qlen := x_qlen x; x_exp := e; x_closed := x_closed x |}.
Definition with_closed (x : sctx) : sctx :=
  {| x_subs := x_subs x; x_q := x_q x; x_qlen := x_qlen x; x_exp := x_exp x; x_closed := true |}.

Record sstate := {
  sb_ctxs : list (N * sctx);   (* 0 = the socket's master context *)
  sb_closed : bool;
  sb_pipes : list (N * bool);  (* pipe -> its receiver goroutine is running *)
  sb_threads : list rthread;   (* blocked RecvMsg calls, oldest first *)
  sb_stuck : list N;           (* calls parked on the socket mutex for ever (see sb_wedged) *)
  sb_wedged : bool;            (* a receiver goroutine sits in `c.recvQ <- m` on a zero-length queue HOLDING the socket lock *)
  sb_now : N;
  sb_out : list obs;           (* observations of the current step, newest first *)
  sb_ambig : bool;
}.

Definition defaultQLen : N := 128.
Definition ctx_new (n e : N) : sctx := {| x_subs := []; x_q := []; x_qlen := n; x_exp := e; x_closed := false |}.
Definition sb_init : sstate :=
  {| sb_ctxs := [(0, ctx_new defaultQLen 0)]; sb_closed := false; sb_pipes := []; sb_threads := []; sb_stuck := [];
     sb_wedged := false; sb_now := 0; sb_out := []; sb_ambig := false |}.

Definition sb_with (s : sstate) ctxs ths out : sstate :=
  {| sb_ctxs := ctxs; sb_closed := sb_closed s; sb_pipes := sb_pipes s; sb_threads := ths; sb_stuck := sb_stuck s;
     sb_wedged := sb_wedged s; sb_now := sb_now s; sb_out := out; sb_ambig := sb_ambig s |}.
Definition sb_emit (s : sstate) (o : obs) : sstate := sb_with s (sb_ctxs s) (sb_threads s) (o :: sb_out s).
Definition sb_set_ctx (s : sstate) (c : N) (x : sctx) : sstate := sb_with s (kset c x (sb_ctxs s)) (sb_threads s) (sb_out s).
Definition sb_flags (s : sstate) closed wedged ambig now : sstate :=
  {| sb_ctxs := sb_ctxs s; sb_closed := closed; sb_pipes := sb_pipes s; sb_threads := sb_threads s; sb_stuck := sb_stuck s;
     sb_wedged := wedged; sb_now := now; sb_out := sb_out s; sb_ambig := ambig |}.
Definition sb_set_ambig (s : sstate) (b : bool) : sstate := sb_flags s (sb_closed s) (sb_wedged s) (sb_ambig s || b) (sb_now s).
Definition sb_set_pipes (s : sstate) ps : sstate :=
  {| sb_ctxs := sb_ctxs s; sb_closed := sb_closed s; sb_pipes := ps; sb_threads := sb_threads s; sb_stuck := sb_stuck s;
     sb_wedged := sb_wedged s; sb_now := sb_now s; sb_out := sb_out s; sb_ambig := sb_ambig s |}.
Definition sb_park (s : sstate) (t : N) : sstate :=
  {| sb_ctxs := sb_ctxs s; sb_closed := sb_closed s; sb_pipes := sb_pipes s; sb_threads := sb_threads s; sb_stuck := sb_stuck s ++ [t];
     sb_wedged := sb_wedged s; sb_now := sb_now s; sb_out := sb_out s; sb_ambig := sb_ambig s |}.

(* c.subscribe / the list part of c.unsubscribe *)
Definition subscribe (subs : list bytes) (topic : bytes) : list bytes :=
  if existsb (bytes_eqb topic) subs then subs else subs ++ [topic].
Fixpoint remove1 (topic : bytes) (subs : list bytes) : list bytes :=
  match subs with [] => [] | s :: r => if bytes_eqb s topic then r else s :: remove1 topic r end.
(* c.unsubscribe: the subscription goes, the queue is rebuilt from the messages that still match, in order *)
Definition unsubscribe (x : sctx) (topic : bytes) : sctx :=
  let subs := remove1 topic (x_subs x) in with_subs_q x subs (filter (matches subs) (x_q x)).

(* the receiver's enqueue: room -> append; full -> drop the OLDEST, then append *)
Definition push (x : sctx) (body : bytes) : sctx :=
  with_q x ((if qlen (x_q x) <? x_qlen x then x_q x else tl (x_q x)) ++ [body]).

(* pipe.receiver, per context (the loop `for c := range s.ctxs`): what one arriving message does to it *)
Definition wants (x : sctx) (body : bytes) : bool := negb (x_closed x) && matches (x_subs x) body.
Definition dl_ctx (ths : list rthread) (body : bytes) (cx : N * sctx) : N * sctx :=
  let '(c, x) := cx in
  match blocked_on ths c with
  | [] => if wants x body && (0 <? x_qlen x) then (c, push x body) else cx
  | _ => cx      (* a parked RecvMsg takes it straight from the channel: the queue stays empty *)
  end.
(* the parked RecvMsg calls that return this message *)
Definition dl_handed (ths : list rthread) (body : bytes) (cx : N * sctx) : list N :=
  let '(c, x) := cx in
  if wants x body then match blocked_on ths c with [th] => [th_id th] | _ => [] end else [].
(* nobody parked and a zero-length queue.  As found: `c.recvQ <- m` blocks with the socket lock held.
   Repaired: `select { case c.recvQ <- m: default: m.Free() }` drops the message (dl_ctx leaves the context alone) *)
Definition dl_wedge (fixed : bool) (ths : list rthread) (body : bytes) (cx : N * sctx) : bool :=
  let '(c, x) := cx in
  negb fixed && wants x body && (x_qlen x =? 0) && match blocked_on ths c with [] => true | _ => false end.
(* several parked RecvMsg calls on one context: which one gets it is the runtime's choice *)
Definition dl_race (ths : list rthread) (body : bytes) (cx : N * sctx) : bool :=
  let '(c, x) := cx in
  wants x body && match blocked_on ths c with _ :: _ :: _ => true | _ => false end.

Definition sb_deliver (fixed : bool) (s : sstate) (body : bytes) : sstate :=
  let ths := sb_threads s in
  let handed := flat_map (dl_handed ths body) (sb_ctxs s) in
  let wedge := existsb (dl_wedge fixed ths body) (sb_ctxs s) in
  (* on a wedge, the contexts visited earlier in Go's map order got the message, the later ones did not *)
  let amb := existsb (dl_race ths body) (sb_ctxs s)
             || (wedge && (1 <? qlen (filter (fun cx => wants (snd cx) body) (sb_ctxs s)))) in
  let s := sb_with s (map (dl_ctx ths body) (sb_ctxs s)) (not_in handed ths)
                   (rev (map (fun t => ORet t (RMsg [] body)) handed) ++ sb_out s) in
  sb_flags s (sb_closed s) (sb_wedged s || wedge) (sb_ambig s || amb) (sb_now s).

(* contexts closing: their parked RecvMsg calls return ErrClosed *)
Definition sb_close_ctxs (s : sstate) (cs : list N) : sstate :=
  let gone := filter (fun th => existsb (N.eqb (th_ctx th)) cs) (sb_threads s) in
  sb_with s (map (fun cx => if existsb (N.eqb (fst cx)) cs then (fst cx, with_closed (snd cx)) else cx) (sb_ctxs s))
          (filter (fun th => negb (existsb (N.eqb (th_ctx th)) cs)) (sb_threads s))
          (rev (map (fun th => ORet (th_id th) (RErr EClosed)) gone) ++ sb_out s).

(* does the call take the socket mutex (and so never return once the socket is wedged)? *)
Definition sb_locks (k : call) : bool :=
  match k with
  | CSend _ _ _ => false
  | CSetOpt _ o v _ => match o with
                       | OReadQLen => (0 <=? v)%Z      (* make(chan, v) comes first and panics for v < 0 *)
                       | ORecvDeadline | OSubscribe | OUnsubscribe => true
                       | _ => false end
  | _ => true
  end.

Definition sb_call (fixed : bool) (s : sstate) (t : N) (k : call) : sstate :=
  if sb_wedged s && sb_locks k then sb_park s t else
  match k with
  | CSend _ _ _ => sb_emit s (ORet t (RErr EProtoOp))
  | CRecv c =>
    match kget c (sb_ctxs s) with
    | None => sb_set_ambig s true
    | Some x =>
      match x_q x with
      | m :: q' =>
        (* closeQ and recvQ both ready: select picks either *)
        if x_closed x then sb_set_ambig s true
        else sb_emit (sb_set_ctx s c (with_q x q')) (ORet t (RMsg [] m))
      | [] =>
        if x_closed x then sb_emit s (ORet t (RErr EClosed))
        else sb_with s (sb_ctxs s) (sb_threads s ++ [{| th_id := t; th_ctx := c; th_due := arm_at (sb_now s) (x_exp x) |}]) (sb_out s)
      end
    end
  | CSetOpt c o v arg =>
    match kget c (sb_ctxs s) with
    | None => sb_set_ambig s true
    | Some x =>
      match o with
      | OReadQLen =>
        (* as found: make(chan *Message, v) panics with "makechan: size out of range"; repaired: `ok && v >= 0` *)
        if (v <? 0)%Z then sb_emit s (ORet t (RErr (if fixed then EBadValue else EPanic)))
        else sb_emit (sb_set_ctx s c (with_qlen x (Z.to_N v))) (ORet t ROk)   (* the old queue and its messages are abandoned *)
      | ORecvDeadline => sb_emit (sb_set_ctx s c (with_exp x (ms_of v))) (ORet t ROk)
      | OSubscribe => sb_emit (sb_set_ctx s c (with_subs_q x (subscribe (x_subs x) arg) (x_q x))) (ORet t ROk)
      | OUnsubscribe =>
        if existsb (bytes_eqb arg) (x_subs x) then sb_emit (sb_set_ctx s c (unsubscribe x arg)) (ORet t ROk)
        else sb_emit s (ORet t (RErr EBadValue))
      | _ => sb_emit s (ORet t (RErr EBadOption))
      end
    end
  | COpenCtx c =>
    if sb_closed s then sb_emit s (ORet t (RErr EClosed))
    else match kget 0 (sb_ctxs s) with
         | Some m => sb_emit (sb_set_ctx s c (ctx_new (x_qlen m) (x_exp m))) (ORet t ROk)
         | None => sb_set_ambig s true
         end
  | CCloseCtx c =>
    match kget c (sb_ctxs s) with
    | None => sb_set_ambig s true
    | Some x => if x_closed x then sb_emit s (ORet t (RErr EClosed))
                else sb_emit (sb_close_ctxs s [c]) (ORet t ROk)
    end
  | CCloseSock =>
    if sb_closed s then sb_emit s (ORet t (RErr EClosed))
    else
      let s := sb_flags s true (sb_wedged s) (sb_ambig s) (sb_now s) in
      sb_emit (sb_close_ctxs s (map fst (filter (fun cx => negb (x_closed (snd cx))) (sb_ctxs s)))) (ORet t ROk)
  end.

Definition pipe_up (ps : list (N * bool)) (p : N) : bool := match kget p ps with Some b => b | None => false end.

(* deadline timers: RecvMsg calls whose time.After channel fires during a sleep *)
Definition expire_threads (ths : list rthread) (until : N) : list rthread * list obs * bool :=
  let fired := filter (due_by until) ths in
  let rest := filter (fun th => negb (due_by until th)) ths in
  (rest, map (fun th => ORet (th_id th) (RErr ERecvTimeout)) fired,
   existsb (fun th => match th_due th with Some d => until <? d + ptol | None => false end) fired || existsb (near until) rest).

Definition sb_step_raw (fixed : bool) (s : sstate) (st : stim) : sstate :=
  match st with
  | SCall t k => sb_call fixed s t k
  | SAddPipe p =>
    if sb_wedged s then sb_set_ambig s true      (* AddPipe itself would block on the mutex *)
    else sb_set_pipes s (kset p (negb (sb_closed s)) (sb_pipes s))
  | SDropPipe p => sb_set_pipes s (kset p false (sb_pipes s))
  | SDeliver p body =>
    if negb (pipe_up (sb_pipes s) p) then sb_emit s (ONotTaken p)
    else if sb_wedged s then sb_set_ambig s true
    else sb_deliver fixed s body
  | SHold _ _ | SRelease _ _ => s
  | SPass until =>
    let '(rest, os, amb) := expire_threads (sb_threads s) until in
    let s := sb_with s (sb_ctxs s) rest (rev os ++ sb_out s) in
    sb_flags s (sb_closed s) (sb_wedged s) (sb_ambig s || amb) (N.max (sb_now s) until)
  | STick tm =>
    sb_flags s (sb_closed s) (sb_wedged s) (sb_ambig s || existsb (near tm) (sb_threads s)) (N.max (sb_now s) tm)
  end.

Definition sb_clear (s : sstate) : sstate := sb_with s (sb_ctxs s) (sb_threads s) [].
Definition sb_step (fixed : bool) (s : sstate) (st : stim) : sstate * list obs :=
  let s := sb_step_raw fixed (sb_clear s) st in (s, rev (sb_out s)).
Definition sb_blocked (s : sstate) : list N := map th_id (sb_threads s) ++ sb_stuck s.

(* ================================================================================================ *)
(*  raw XSUB: one queue for the socket, no filtering, drop the NEWEST when full                       *)
(* ================================================================================================ *)
Record xstate := {
  xs_q : list bytes; xs_qlen : N; xs_exp : N; xs_closed : bool;
  xs_pipes : list (N * bool); xs_threads : list rthread;
  xs_now : N; xs_out : list obs; xs_ambig : bool;
}.
Definition xs_init : xstate :=
  {| xs_q := []; xs_qlen := defaultQLen; xs_exp := 0; xs_closed := false; xs_pipes := []; xs_threads := [];
     xs_now := 0; xs_out := []; xs_ambig := false |}.
Definition xs_with (s : xstate) q ths out : xstate :=
  {| xs_q := q; xs_qlen := xs_qlen s; xs_exp := xs_exp s; xs_closed := xs_closed s; xs_pipes := xs_pipes s; xs_threads := ths;
     xs_now := xs_now s; xs_out := out; xs_ambig := xs_ambig s |}.
Definition xs_emit (s : xstate) (o : obs) : xstate := xs_with s (xs_q s) (xs_threads s) (o :: xs_out s).
Definition xs_opts (s : xstate) n e closed : xstate :=
  {| xs_q := xs_q s; xs_qlen := n; xs_exp := e; xs_closed := closed; xs_pipes := xs_pipes s; xs_threads := xs_threads s;
     xs_now := xs_now s; xs_out := xs_out s; xs_ambig := xs_ambig s |}.
Definition xs_misc (s : xstate) ps now amb : xstate :=
  {| xs_q := xs_q s; xs_qlen := xs_qlen s; xs_exp := xs_exp s; xs_closed := xs_closed s; xs_pipes := ps; xs_threads := xs_threads s;
     xs_now := now; xs_out := xs_out s; xs_ambig := amb |}.
Definition xs_set_ambig (s : xstate) : xstate := xs_misc s (xs_pipes s) (xs_now s) true.

(* pipe.receiver: `select { case recvQ <- m: default: m.Free() }` *)
Definition xs_deliver (s : xstate) (body : bytes) : xstate :=
  match xs_threads s with
  | [th] => xs_emit (xs_with s (xs_q s) [] (xs_out s)) (ORet (th_id th) (RMsg [] body))
  | _ :: _ :: _ => xs_set_ambig s
  | [] => if qlen (xs_q s) <? xs_qlen s then xs_with s (xs_q s ++ [body]) [] (xs_out s) else s
  end.

Definition xs_call (s : xstate) (t : N) (k : call) : xstate :=
  match k with
  | CSend _ _ _ => xs_emit s (ORet t (RErr EProtoOp))
  | CRecv _ =>
    match xs_q s with
    | m :: q' => if xs_closed s then xs_set_ambig s
                 else xs_emit (xs_with s q' (xs_threads s) (xs_out s)) (ORet t (RMsg [] m))
    | [] => if xs_closed s then xs_emit s (ORet t (RErr EClosed))
            else xs_with s [] (xs_threads s ++ [{| th_id := t; th_ctx := 0; th_due := arm_at (xs_now s) (xs_exp s) |}]) (xs_out s)
    end
  | CSetOpt _ o v _ =>
    match o with
    | ORecvDeadline => xs_emit (xs_opts s (xs_qlen s) (ms_of v) (xs_closed s)) (ORet t ROk)
    | OReadQLen =>
      if (v <? 0)%Z then xs_emit s (ORet t (RErr EBadValue))
      else
        (* a new empty queue; parked RecvMsg calls loop and wait on it, keeping the deadline of their call (the code as
           found created the timer inside the loop, restarting the deadline: repaired in /repo, see known_findings.json) *)
        let ths := xs_threads s in
        xs_emit (xs_opts (xs_with s [] ths (xs_out s)) (Z.to_N v) (xs_exp s) (xs_closed s)) (ORet t ROk)
    | _ => xs_emit s (ORet t (RErr EBadOption))
    end
  | COpenCtx _ => xs_emit s (ORet t (RErr EProtoOp))
  | CCloseCtx _ => xs_set_ambig s
  | CCloseSock =>
    if xs_closed s then xs_emit s (ORet t (RErr EClosed))
    else
      let s' := xs_opts (xs_with s (xs_q s) [] (rev (map (fun th => ORet (th_id th) (RErr EClosed)) (xs_threads s)) ++ xs_out s))
                        (xs_qlen s) (xs_exp s) true in
      xs_emit s' (ORet t ROk)
  end.

Definition xs_step_raw (s : xstate) (st : stim) : xstate :=
  match st with
  | SCall t k => xs_call s t k
  | SAddPipe p => xs_misc s (kset p (negb (xs_closed s)) (xs_pipes s)) (xs_now s) (xs_ambig s)
  | SDropPipe p => xs_misc s (kset p false (xs_pipes s)) (xs_now s) (xs_ambig s)
  | SDeliver p body => if pipe_up (xs_pipes s) p then xs_deliver s body else xs_emit s (ONotTaken p)
  | SHold _ _ | SRelease _ _ => s
  | SPass until =>
    let '(rest, os, amb) := expire_threads (xs_threads s) until in
    xs_misc (xs_with s (xs_q s) rest (rev os ++ xs_out s)) (xs_pipes s) (N.max (xs_now s) until) (xs_ambig s || amb)
  | STick tm => xs_misc s (xs_pipes s) (N.max (xs_now s) tm) (xs_ambig s || existsb (near tm) (xs_threads s))
  end.
Definition xs_step (s : xstate) (st : stim) : xstate * list obs :=
  let s := xs_step_raw (xs_with s (xs_q s) (xs_threads s) []) st in (s, rev (xs_out s)).
Definition xs_blocked (s : xstate) : list N := map th_id (xs_threads s).

(* ================================================================================================ *)
(*  PUB / XPUB: per-pipe send queue, drop the NEWEST when full                                       *)
(* ================================================================================================ *)
Definition pmsg : Type := (bytes * bytes)%type.    (* header, body *)
Record ppipe := {
  pp_id : N;
  pp_alive : bool;         (* in s.pipes *)
  pp_hold : bool;          (* the mock transport blocks sends until released *)
  pp_busy : bool;          (* the sender goroutine is inside p.p.SendMsg (message already handed to the transport) *)
  pp_q : list pmsg;        (* p.sendq *)
  pp_cap : N;              (* its capacity = WRITEQ-LEN when the pipe was added *)
}.
Definition pp_with (pp : ppipe) alive hold busy q : ppipe :=
  {| pp_id := pp_id pp; pp_alive := alive; pp_hold := hold; pp_busy := busy; pp_q := q; pp_cap := pp_cap pp |}.

Record pstate := { pb_pipes : list ppipe; pb_qlen : N; pb_closed : bool; pb_out : list obs }.
Definition pb_init : pstate := {| pb_pipes := []; pb_qlen := defaultQLen; pb_closed := false; pb_out := [] |}.
Definition pb_with (s : pstate) ps out : pstate := {| pb_pipes := ps; pb_qlen := pb_qlen s; pb_closed := pb_closed s; pb_out := out |}.
Definition pb_emit (s : pstate) (o : obs) : pstate := pb_with s (pb_pipes s) (o :: pb_out s).

(* socket.SendMsg, per pipe: `select { case p.sendq <- m: default: m.Free() }`; an idle sender goroutine
   takes the message at once and calls the transport *)
Definition send_pipe (m : pmsg) (pp : ppipe) : ppipe :=
  if negb (pp_alive pp) then pp
  else if negb (pp_busy pp) then pp_with pp true (pp_hold pp) (pp_hold pp) (pp_q pp)
  else if qlen (pp_q pp) <? pp_cap pp then pp_with pp true (pp_hold pp) true (pp_q pp ++ [m])
  else pp.
Definition send_tx (m : pmsg) (pp : ppipe) : list obs :=
  if pp_alive pp && negb (pp_busy pp) then [OTx (pp_id pp) (fst m) (snd m)] else [].

(* a held send completes: the sender goroutine goes on with its queue *)
Definition drain (pp : ppipe) : ppipe * list obs :=
  match pp_q pp with
  | [] => (pp_with pp (pp_alive pp) (pp_hold pp) false [], [])
  | m :: r =>
    if pp_hold pp then (pp_with pp (pp_alive pp) true true r, [OTx (pp_id pp) (fst m) (snd m)])
    else (pp_with pp (pp_alive pp) false false [], map (fun m => OTx (pp_id pp) (fst m) (snd m)) (pp_q pp))
  end.

Definition pb_get (s : pstate) (p : N) : option ppipe := find (fun pp => pp_id pp =? p) (pb_pipes s).
Definition pb_set (s : pstate) (pp : ppipe) : pstate :=
  pb_with s (map (fun y => if pp_id y =? pp_id pp then pp else y) (pb_pipes s)) (pb_out s).
Definition pb_dead (pp : ppipe) : ppipe := pp_with pp false (pp_hold pp) false [].

Definition pb_call (s : pstate) (t : N) (k : call) : pstate :=
  match k with
  | CSend _ h b =>
    if pb_closed s then pb_emit s (ORet t (RErr EClosed))
    else pb_emit (pb_with s (map (send_pipe (h, b)) (pb_pipes s)) (rev (flat_map (send_tx (h, b)) (pb_pipes s)) ++ pb_out s))
                 (ORet t ROk)
  | CRecv _ => pb_emit s (ORet t (RErr EProtoOp))
  | CSetOpt _ o v _ =>
    match o with
    | OWriteQLen => if (v <? 0)%Z then pb_emit s (ORet t (RErr EBadValue))
                    else pb_emit {| pb_pipes := pb_pipes s; pb_qlen := Z.to_N v; pb_closed := pb_closed s; pb_out := pb_out s |} (ORet t ROk)
    | _ => pb_emit s (ORet t (RErr EBadOption))
    end
  | COpenCtx _ => pb_emit s (ORet t (RErr EProtoOp))
  | CCloseCtx _ => s
  | CCloseSock =>
    if pb_closed s then pb_emit s (ORet t (RErr EClosed))
    else pb_emit {| pb_pipes := pb_pipes s; pb_qlen := pb_qlen s; pb_closed := true; pb_out := pb_out s |} (ORet t ROk)
  end.

Definition pb_step_raw (s : pstate) (st : stim) : pstate :=
  match st with
  | SCall t k => pb_call s t k
  | SAddPipe p =>
    pb_with s (pb_pipes s ++ [{| pp_id := p; pp_alive := negb (pb_closed s); pp_hold := false; pp_busy := false; pp_q := [];
                                 pp_cap := pb_qlen s |}]) (pb_out s)
  | SDropPipe p => match pb_get s p with Some pp => pb_set s (pb_dead pp) | None => s end
  | SDeliver p _ =>
    (* the receiver goroutine discards whatever a subscriber sends *)
    match pb_get s p with
    | Some pp => if pp_alive pp then s else pb_emit s (ONotTaken p)
    | None => pb_emit s (ONotTaken p)
    end
  | SHold p h => match pb_get s p with Some pp => pb_set s (pp_with pp (pp_alive pp) h (pp_busy pp) (pp_q pp)) | None => s end
  | SRelease p ok =>
    match pb_get s p with
    | Some pp =>
      if pp_busy pp then
        if ok then let '(pp', os) := drain pp in pb_with (pb_set s pp') (pb_pipes (pb_set s pp')) (rev os ++ pb_out s)
        else pb_set s (pb_dead pp)       (* a failed transport send closes the pipe; its queue is discarded *)
      else s
    | None => s
    end
  | SPass _ | STick _ => s
  end.
Definition pb_step (s : pstate) (st : stim) : pstate * list obs :=
  let s := pb_step_raw (pb_with s (pb_pipes s) []) st in (s, rev (pb_out s)).

(* ================================================================================================ *)
(*  the wrapper                                                                                      *)
(* ================================================================================================ *)
Inductive ustate := U0 | USub (s : sstate) | UXSub (s : xstate) | UPub (s : pstate) | UBad.

Definition kind_of (st : stim) : option Z :=
  match st with SCall 0 (CSetOpt 0 OTtl k []) => Some k | _ => None end.

Definition u_step (fixed : bool) (u : ustate) (st : stim) : ustate * list obs :=
  match u with
  | U0 =>
    match kind_of st with
    | Some k => ((if (k =? KSub)%Z then USub sb_init else if (k =? KXSub)%Z then UXSub xs_init
                  else if (k =? KPub)%Z || (k =? KXPub)%Z then UPub pb_init else UBad), [])
    | None => (UBad, [ONotTaken (2 ^ 32)])
    end
  | USub s => let '(s', os) := sb_step fixed s st in (USub s', os)
  | UXSub s => let '(s', os) := xs_step s st in (UXSub s', os)
  | UPub s => let '(s', os) := pb_step s st in (UPub s', os)
  | UBad => (UBad, [ONotTaken (2 ^ 32)])     (* a history without a kind never agrees *)
  end.
Definition u_blocked (u : ustate) : list N :=
  match u with USub s => sb_blocked s | UXSub s => xs_blocked s | _ => [] end.
Definition u_ambig (u : ustate) : bool :=
  match u with USub s => sb_ambig s | UXSub s => xs_ambig s | _ => false end.

Definition pubsub_model (fixed : bool) : model :=
  {| m_state := ustate; m_step := u_step fixed; m_blocked := u_blocked; m_ambiguous := u_ambig |}.
Definition pubsub_init : ustate := U0.
