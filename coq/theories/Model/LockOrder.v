(* Lock ordering on the lock skeletons of Model/RaceCfg.v: which mutex class is acquired while which other class is
   certainly held (directly, or by a callee, transitively), and whether that relation has a cycle. *)
From MV Require Import Model.RaceCfg.
Open Scope N_scope.

(* (classes certainly held, class locked) for every Lock instruction of a block *)
Fixpoint body_locks (h : cset) (b : list rinstr) : list (cset * N) :=
  match b with
  | [] => []
  | i :: r => (match i with RLock c => [(h, c)] | _ => [] end) ++ body_locks (rtransfer h i) r
  end.
Definition func_locks (f : rfunc) (A : rassign) : list (cset * N) :=
  flat_map (fun i => match nth_error A i, nth_error (rblocks f) i with
                     | Some (Some h), Some b => body_locks h (rbody b)
                     | _, _ => [] end) (seq 0 (length (rblocks f))).

Definition cunion (a b : cset) : cset := fold_left (fun acc c => cadd c acc) b a.
Definition direct_acq (f : rfunc) : cset :=
  fold_left (fun acc b => fold_left (fun acc i => match i with RLock c => cadd c acc | _ => acc end) (rbody b) acc) (rblocks f) [].
Definition callees (f : rfunc) : list N :=
  flat_map (fun b => flat_map (fun i => match i with RCall g => [g] | _ => [] end) (rbody b)) (rblocks f).
(* classes a call of function g may acquire: its own Lock instructions and those of everything it calls synchronously *)
Definition acq_step (prog : list rfunc) (A : list cset) : list cset :=
  map (fun f => fold_left (fun acc g => cunion acc (nth (N.to_nat g) A [])) (callees f) (direct_acq f)) prog.
Definition acq_sets (prog : list rfunc) : list cset := riter 12 (acq_step prog) (map direct_acq prog).

Definition order_edges (top : cset) (prog : list rfunc) (E : entries) : list (N * N) :=
  let acq := acq_sets prog in
  flat_map (fun x => let '(i, f) := x in
      let e := entry_of top E (N.of_nat i) in
      let A := rcompute f e in
      flat_map (fun hc => map (fun c1 => (c1, snd hc)) (fst hc)) (func_locks f A) ++
      flat_map (fun s => match s with
                         | SCallSite _ g h => flat_map (fun c1 => map (fun c2 => (c1, c2)) (nth (N.to_nat g) acq [])) h
                         | _ => [] end) (func_sites (N.of_nat i) f A))
    (combine (seq 0 (length prog)) prog).

Definition emem (e : N * N) (l : list (N * N)) : bool := existsb (fun x => (fst x =? fst e) && (snd x =? snd e)) l.
Definition eadd (e : N * N) (l : list (N * N)) : list (N * N) := if emem e l then l else e :: l.
Definition dedup (l : list (N * N)) : list (N * N) := fold_left (fun acc e => eadd e acc) l [].
(* one round of closure: add (a, c) whenever (a, b) and (b, c) *)
Definition close_step (base cur : list (N * N)) : list (N * N) :=
  fold_left (fun acc ab => fold_left (fun acc bc => if snd ab =? fst bc then eadd (fst ab, snd bc) acc else acc) base acc) cur cur.
Definition closure (fuel : nat) (edges : list (N * N)) : list (N * N) := riter fuel (close_step edges) edges.
Definition strict_edges (edges : list (N * N)) : list (N * N) := filter (fun e => negb (fst e =? snd e)) (dedup edges).
Definition cycles (ncl : nat) (edges : list (N * N)) : list (N * N) :=
  filter (fun e => fst e =? snd e) (closure ncl (strict_edges edges)).
Definition order_ok (ncl : nat) (edges : list (N * N)) : bool := match cycles ncl edges with [] => true | _ => false end.

(* the table of classes a call may acquire is closed under "calls": it contains each function's own Lock instructions
   and, for every synchronous call, everything the callee's entry contains *)
Definition acq_closed (prog : list rfunc) (A : list cset) : bool :=
  Nat.eqb (length A) (length prog) &&
  forallb (fun x => let '(i, f) := x in
             let a := nth i A [] in
             csub (direct_acq f) a && forallb (fun g => csub (nth (N.to_nat g) A []) a) (callees f))
          (combine (seq 0 (length prog)) prog).

